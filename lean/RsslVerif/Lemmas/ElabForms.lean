import RsslVerif.Lemmas.Elab
/-! Lemmas for C03: which source forms elaborate to rvalues. Core Lean only. -/
namespace RsslVerif.Lemmas.ElabForms
open RsslVerif.Gen.RankTable RsslVerif.Gen.TypingTables RsslVerif.Model.Conv RsslVerif.Model.Overload
open RsslVerif.Model.IrTyping RsslVerif.Model.Elab RsslVerif.Lemmas.ElabConv RsslVerif.Lemmas.Elab

variable {Γ : Env}

theorem selfCheck_type {dbg : Bool} {e e' : IExpr} {τ τ' : ETy} (h : selfCheck dbg Γ e τ = .ok (e', τ')) :
    e' = e ∧ τ' = τ := by
  unfold selfCheck at h
  split at h
  · split at h
    · simp at h
    · split at h
      · simp at h; exact ⟨h.1.symm, h.2.symm⟩
      · simp at h
  · simp at h; exact ⟨h.1.symm, h.2.symm⟩

/-- `get_return_type` gives an rvalue unless the arm returns `param_types[0]` itself -/
theorem opReturn_rvalue {o : IOp} {ts : List ETy} {τ : ETy} (ho : o.rule.result ≠ .arg0)
    (h : opReturn o ts = .ok τ) : τ.vt = .rvalue := by
  cases hr : o.rule.result
  · exact absurd hr ho
  all_goals (simp only [opReturn, hr] at h; repeat' split at h)
  all_goals (first | (simp at h; done) | (simp at h; subst h; rfl))

theorem arith_result_rule (b : BinOp) (i : IOp) (hc : b.cls = .arith) (h : b.toIOp = some i) :
    i.rule.result ≠ .arg0 := by
  cases b <;> simp [BinOp.cls] at hc <;> simp [BinOp.toIOp] at h <;> subst h <;> decide

theorem arithBuild_rvalue {o : BinOp} {ca cb : Conversion} {a b n : IExpr} {τ : ETy} (hc : o.cls = .arith)
    (h : arithBuild o ca cb a b = .ok (n, τ)) : τ.vt = .rvalue := by
  unfold arithBuild at h
  repeat' split at h
  all_goals (first | (simp at h; done) | skip)
  all_goals (simp only [Except.ok.injEq, Prod.mk.injEq] at h; obtain ⟨rfl, rfl⟩ := h)
  all_goals (rename_i i hi _ out hout; exact opReturn_rvalue (arith_result_rule o i hc hi) hout)

theorem elabArith_rvalue {o : BinOp} {a b n : IExpr} {τa τb τ : ETy} (hc : o.cls = .arith)
    (h : elabArith o a τa b τb = .ok (n, τ)) : τ.vt = .rvalue := by
  unfold elabArith at h
  repeat' split at h
  all_goals (first | (simp at h; done) | skip)
  all_goals exact arithBuild_rvalue hc h

theorem ternBuild_rvalue {c a b n : IExpr} {τc τ s d : ETy} {ca cb : Conversion} (hd : d.vt = .rvalue)
    (hf : find s d = .ok (some ca)) (h : ternBuild c τc ca cb a b = .ok (n, τ)) : τ.vt = .rvalue := by
  unfold ternBuild at h
  repeat' split at h
  all_goals (first | (simp at h; done) | skip)
  all_goals (simp only [Except.ok.injEq, Prod.mk.injEq] at h; obtain ⟨rfl, rfl⟩ := h)
  all_goals (
    have ht := targetType_ok hf
    simp_all)

theorem elabTern_rvalue {c a b n : IExpr} {τc τa τb τ : ETy}
    (h : elabTern c τc a τa b τb = .ok (n, τ)) : τ.vt = .rvalue := by
  unfold elabTern at h
  repeat' split at h
  all_goals (first | (simp at h; done) | skip)
  all_goals (rename_i hf _ _ _; exact ternBuild_rvalue rfl hf h)

theorem elabCall_rvalue {name : Nat} {args : IArgs} {ts : List ETy} {n : IExpr} {τ : ETy}
    (h : elabCall Γ name args ts = .ok (n, τ)) : τ.vt = .rvalue := by
  unfold elabCall at h
  repeat' split at h
  all_goals (first | (simp at h; done) | skip)
  all_goals (simp only [Except.ok.injEq, Prod.mk.injEq] at h; obtain ⟨rfl, rfl⟩ := h; rfl)

theorem elabUn_rvalue {o : UnOp} {e n : IExpr} {τ τ' : ETy} (ho : o ≠ .prefixIncrement ∧ o ≠ .prefixDecrement)
    (h : elabUn Γ o e τ = .ok (n, τ')) : τ'.vt = .rvalue := by
  unfold elabUn at h
  cases o <;> simp only at h
  all_goals (first | (exact absurd rfl ho.1) | (exact absurd rfl ho.2) | skip)
  all_goals (repeat' split at h)
  all_goals (first | (simp at h; done) | skip)
  all_goals (simp only [Except.ok.injEq, Prod.mk.injEq] at h; obtain ⟨rfl, rfl⟩ := h)
  all_goals (first | rfl | (simp_all [boolR, intR, Ty.r]; done))

/-- source forms that never denote an lvalue -/
def isRvalueForm : SExpr → Bool
  | .lit _ => true
  | .var _ => false
  | .un o _ => o != .prefixIncrement && o != .prefixDecrement
  | .bin o _ _ => o.cls == .arith
  | .tern _ _ _ => true
  | .call _ _ => true
  | .cast _ _ => true

/-- literals, arithmetic / comparison / logical results, `?:`, function results, casts, postfix `++`/`--`, unary
    `+ - ! ~` elaborate to rvalues (in both build modes) -/
theorem rvalue_forms {dbg : Bool} {e : SExpr} {e' : IExpr} {τ : ETy} (hf : isRvalueForm e = true)
    (h : elabE dbg Γ e = .ok (e', τ)) : τ.vt = .rvalue := by
  cases e with
  | lit k => simp only [elabE] at h; rw [(selfCheck_type h).2]; rfl
  | var i => simp [isRvalueForm] at hf
  | un o e1 =>
    simp [isRvalueForm] at hf
    simp only [elabE] at h
    split at h
    · simp at h
    · split at h
      · simp at h
      · rename_i hn
        rw [(selfCheck_type h).2]
        exact elabUn_rvalue hf hn
  | bin o a b =>
    simp [isRvalueForm] at hf
    simp only [elabE] at h
    split at h
    · simp at h
    · split at h
      · simp at h
      · simp only [hf] at h
        split at h
        · simp at h
        · rename_i hn
          rw [(selfCheck_type h).2]
          exact elabArith_rvalue hf hn
  | tern c a b =>
    simp only [elabE] at h
    repeat' split at h
    all_goals (first | (simp at h; done) | skip)
    all_goals (rename_i hn; rw [(selfCheck_type h).2]; exact elabTern_rvalue hn)
  | call name args =>
    simp only [elabE] at h
    repeat' split at h
    all_goals (first | (simp at h; done) | skip)
    all_goals (rename_i hn; rw [(selfCheck_type h).2]; exact elabCall_rvalue hn)
  | cast t e1 =>
    simp only [elabE] at h
    split at h
    · simp at h
    · rw [(selfCheck_type h).2]; rfl

end RsslVerif.Lemmas.ElabForms

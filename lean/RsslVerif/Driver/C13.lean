import RsslVerif.Model.ConstEvalWf
import RsslVerif.Model.ConstPos
import RsslVerif.Model.ConstBinop
import RsslVerif.Model.InstCache
import RsslVerif.Driver.Util
/-! Line-protocol front end of the C13 model: `C13.eval <ir s-expression> [src:...]`. -/
namespace RsslVerif.Driver.C13
open RsslVerif.Gen.EvalTable RsslVerif.Gen.PosTable RsslVerif.Model.ConstEval RsslVerif.Model.ConstPos RsslVerif.Driver

def tokens (s : String) : List String :=
  let rec go (cs : List Char) (cur : List Char) (acc : List String) : List String :=
    let flush := if cur.isEmpty then acc else String.ofList cur.reverse :: acc
    match cs with
    | [] => flush.reverse
    | '(' :: r => go r [] ("(" :: flush)
    | ')' :: r => go r [] (")" :: flush)
    | ' ' :: r => go r [] flush
    | c :: r => go r (c :: cur) acc
  go s.toList [] []

def hexNat? (s : String) : Option Nat :=
  if s.isEmpty then none else
  s.toList.foldl (fun acc c => do let a ← acc; let d ← hexDigit? c; pure (a * 16 + d)) (some 0)

def int? (s : String) : Option Int :=
  if s.startsWith "-" then (s.drop 1).toString.toNat?.map (fun n => -(n : Int)) else s.toNat?.map (fun n => (n : Int))

def parseConst (fuel : Nat) (s : String) : Option Constant :=
  match fuel with
  | 0 => none
  | fuel + 1 =>
    if s.startsWith "fl" then (hexNat? (s.drop 2).toString).map .floatLit else
    let r := (s.drop 1).toString
    match s.toList.head? with
    | some 'b' => if r == "1" then some (.bool true) else if r == "0" then some (.bool false) else none
    | some 'L' => (int? r).map .intLit
    | some 'i' => (int? r).map .int32
    | some 'u' => (int? r).map .uint32
    | some 'I' => (int? r).map .int64
    | some 'U' => (int? r).map .uint64
    | some 'h' => (hexNat? r).map .float16
    | some 'f' => (hexNat? r).map .float32
    | some 'd' => (hexNat? r).map .float64
    | some 's' => if r.isEmpty then some .string else none
    | some 'E' =>
      match r.splitOn ":" with
      | id :: rest@(_ :: _) => do
        let id ← id.toNat?
        let inner ← parseConst fuel (":".intercalate rest)
        pure (.enum id inner)
      | _ => none
    | _ => none

def scalar? : String → Option Scalar
  | "bool" => some .Bool
  | "lit" => some .IntLiteral
  | "int" => some .Int32
  | "uint" => some .UInt32
  | "flit" => some .FloatLiteral
  | "half" => some .Float16
  | "float" => some .Float32
  | "double" => some .Float64
  | _ => none

def enumTy? (s : String) : Option (Nat × Scalar) :=
  if s.startsWith "enum" then
    match (s.drop 4).toString.splitOn ":" with
    | [id, u] => do pure (← id.toNat?, ← scalar? u)
    | _ => none
  else none

def ty? (s : String) : Option Ty :=
  if s == "other" then some .other else
  match scalar? s with
  | some sc => some (.scalar sc)
  | none => (enumTy? s).map fun (id, u) => .enum id u

def sizeTy? (s : String) : Option SizeTy :=
  if s == "other" then some .other else
  match scalar? s with
  | some sc => some (.scalar sc)
  | none => (enumTy? s).map fun (_, u) => .enum u

def op? (s : String) : Option Op := Op.all.find? (fun o => o.name == s)

def optConst? (s : String) : Option (Option Constant) :=
  if s == "-" then some none else (parseConst 8 s).map some

mutual
def parseExpr (fuel : Nat) (ts : List String) : Option (Expr × List String) :=
  match fuel with
  | 0 => none
  | fuel + 1 =>
    match ts with
    | "(" :: "lit" :: c :: ")" :: r => (parseConst 8 c).map fun c => (.lit c, r)
    | "(" :: "var" :: c :: ")" :: r => (optConst? c).map fun c => (.var c, r)
    | "(" :: "gl" :: c :: ")" :: r => (optConst? c).map fun c => (.global c, r)
    | "(" :: "ev" :: id :: c :: ")" :: r => do
      let id ← id.toNat?
      let c ← parseConst 8 c
      pure (.enumValue id c, r)
    | "(" :: "sizeof" :: t :: ")" :: r => (sizeTy? t).map fun t => (.sizeOf t, r)
    | "(" :: "other" :: ")" :: r => some (.other, r)
    | "(" :: "cast" :: t :: r => do
      let t ← ty? t
      let (e, r) ← parseExpr fuel r
      match r with
      | ")" :: r => pure (.cast t e, r)
      | _ => none
    | "(" :: "op" :: o :: r => do
      let o ← op? o
      let (args, r) ← parseArgs fuel r
      pure (.op o args, r)
    | _ => none
def parseArgs (fuel : Nat) (ts : List String) : Option (Args × List String) :=
  match fuel with
  | 0 => none
  | fuel + 1 =>
    match ts with
    | ")" :: r => some (.nil, r)
    | _ => do
      let (e, r) ← parseExpr fuel ts
      let (rest, r) ← parseArgs fuel r
      pure (.cons e rest, r)
end

def parseTree (s : String) : Option Expr :=
  let ts := tokens s
  match parseExpr (ts.length + 1) ts with
  | some (e, []) => some e
  | _ => none

def hexPad (width n : Nat) : String :=
  let rec digits (fuel n : Nat) (acc : List Char) : List Char :=
    match fuel with
    | 0 => acc
    | fuel + 1 => digits fuel (n / 16) (hexNibble (n % 16) :: acc)
  String.ofList (digits width n [])

def showConst : Constant → String
  | .bool b => if b then "b1" else "b0"
  | .intLit v => "L" ++ toString v
  | .int32 v => "i" ++ toString v
  | .uint32 v => "u" ++ toString v
  | .int64 v => "I" ++ toString v
  | .uint64 v => "U" ++ toString v
  | .floatLit b => "fl" ++ hexPad 16 b
  | .float16 b => "h" ++ hexPad 8 b
  | .float32 b => "f" ++ hexPad 8 b
  | .float64 b => "d" ++ hexPad 16 b
  | .string => "s"
  | .enum id c => "E" ++ toString id ++ ":" ++ showConst c

def showRes : Res → String
  | .ok c => showConst c
  | .error .notConst => "notconst"
  | .error (.panic m) => "panic:" ++ m
  | .error .stuck => "unsupported: table entry the model cannot interpret"

/-! ## positions (`C13.pos <site> <src> <aux>`) and whole enum definitions (`C13.enum <members> <aux>`) -/

def unsupportedStuck : String := "unsupported: table entry the model cannot interpret"

/-- labels of the diagnostics, as the harness abbreviates them (first five words, letters only) -/
def lblArrayConst := "reject:array dimensions must be constant"
def lblArrayZero := "reject:array dimensions must be nonzero"
def lblStateInt := "reject:state requires an integer argument"
def lblStateFloat := "reject:state requires a float argument"
def lblUnroll := "reject:attribute unnroll requires a constant"
def lblNotConst := "reject:expression could not be evaluated"
def lblEnumInt := "reject:enum value must be an"
def lblEnumOverflow := "reject:enum value overflows the type"
def lblEnumRange := "reject:enum range  to "

/-- a count-taking site: prefix and decorations of the accepted form, labels of the three rejections -/
def showCount (o : Out) (pre post lNotConst lZero lRange : String) : String :=
  match o with
  | .count n => pre ++ toString n ++ post
  | .notConstant => lNotConst
  | .zeroSize => lZero
  | .outOfRange => lRange
  | .panic m => "panic:" ++ m
  | _ => unsupportedStuck

def showStored (o : Out) (twice : Bool) (lNotConst : String) : String :=
  match o with
  | .stored c => if twice then "val:" ++ showConst c ++ "," ++ showConst c else "val:" ++ showConst c
  | .notConstant => lNotConst
  | .panic m => "panic:" ++ m
  | _ => unsupportedStuck

def cls? (s : String) : Option Cls :=
  let s := if s.endsWith "!" then (s.dropEnd 1).toString else s
  match s with
  | "bool" => some (.scalar .Bool)
  | "lit" => some (.scalar .IntLiteral)
  | "int" => some (.scalar .Int32)
  | "uint" => some (.scalar .UInt32)
  | "other" => some .other
  | _ => (enumTy? s).map fun (id, u) => .enum id u

def enumErrLabel : EnumErr → String
  | .mustBeInteger _ => lblEnumInt
  | .notConstant _ => lblNotConst
  | .overflow _ => lblEnumOverflow
  | .cannotDeduce _ _ => lblEnumRange
  | .panic m => "panic:" ++ m
  | .stuck => unsupportedStuck

/-- `<cls> <tree...>` -/
def parseMember1 (s : String) : Option (Cls × Expr) :=
  match s.splitOn " " with
  | c :: rest => do
    let cls ← cls? c
    let e ← parseTree (" ".intercalate rest)
    pure (cls, e)
  | _ => none

/-- enum sites: the definition around the hole, and the index of the observed enumerator -/
def enumSite (site : String) (m : Cls × Expr) : Option (List Member × Nat) :=
  match site with
  | "enum" | "enum_ns" => some ([some m], 0)
  | "enumnext" => some ([some m, none], 1)
  | "enum_after0" => some ([none, some m], 1)
  | _ => none

def dimSite (res : Res) (pre post lbl : String) : String :=
  match templateSite res with
  | .stored c =>
    (match toUint64 c with
     | some n => if 1 ≤ n ∧ n ≤ 4 then "dim:" ++ pre ++ toString n ++ post else lbl
     | none => lbl)
  | .notConstant => lblNotConst
  | .panic m => "panic:" ++ m
  | _ => unsupportedStuck

/-- a template argument used as an array size inside the template -/
def templateArraySite (res : Res) (lTemplate : String) (inStruct : Bool) : String :=
  match templateSite res with
  | .stored c =>
    -- a struct template that fails to instantiate makes `TS<..> ts;` be read as an expression statement
    if inStruct then showCount (sizeSite arraySize (.ok c)) "len:" "" lTemplate lTemplate lTemplate
    else showCount (sizeSite arraySize (.ok c)) "len:" "" lblArrayConst lblArrayZero lblArrayConst
  | .notConstant => lTemplate
  | .panic m => "panic:" ++ m
  | _ => unsupportedStuck

def handlePos (site aux : String) : String :=
  let arr (pre post : String) : String :=
    match parseTree aux with
    | some e => showCount (sizeSite arraySize (eval e)) ("len:" ++ pre) post lblArrayConst lblArrayZero lblArrayConst
    | none => "bad-request"
  let cnt (r : SizeRule) (pre lbl : String) : String :=
    match parseTree aux with
    | some e => showCount (sizeSite r (eval e)) pre "" lbl lbl lbl
    | none => "bad-request"
  let init (isConst : Bool) : String :=
    match parseTree aux with
    | some e =>
      (match constInitSite isConst (eval e) with
       | .stored c => "val:" ++ showConst c
       | .notConstant => "notconst"
       | .panic m => "panic:" ++ m
       | _ => unsupportedStuck)
    | none => "bad-request"
  match site with
  | "array" | "array_local" | "array_member" | "array_param" | "array_typedef" | "array_cbuffer" | "array_shared"
  | "array_multi" => arr "" ""
  | "array_outer" => arr "" ",3"
  | "array_inner" => arr "2," ""
  | "numthreads" | "numthreads_y" | "numthreads_z" => cnt numthreads "threads:" lblStateInt
  | "unroll" | "unroll_while" => cnt unroll "count:" lblUnroll
  | "bindgroup" | "vkbinding_set" => cnt exprAsU32 "group:" lblNotConst
  | "vkbinding" => cnt exprAsU32 "index:" lblNotConst
  | "pipelineprop" => cnt pipelineUint "group:" lblStateInt
  | "maxanisotropy" => cnt pipelineUint "aniso:" lblStateInt
  | "writemask" =>
    (match parseTree aux with
     | some e => showCount (writeMaskSite (eval e)) "mask:" "" lblStateInt lblStateInt lblStateInt
     | none => "bad-request")
  | "minlod" | "maxlod" =>
    (match parseTree aux with
     | some e =>
       (match lodSite (eval e) with
        | .lod b => "lod:" ++ hexPad 8 b
        | .notConstant => lblStateFloat
        | .panic m => "panic:" ++ m
        | _ => unsupportedStuck)
     | none => "bad-request")
  | "case" | "case_enum" | "case_uint" | "case_nested" =>
    (match parseTree aux with | some e => showStored (caseSite (eval e)) false lblNotConst | none => "bad-request")
  | "case_twice" =>
    (match parseTree aux with | some e => showStored (caseSite (eval e)) true lblNotConst | none => "bad-request")
  | "template" | "template_int" | "template_bool" | "template_mixed" | "template_two" =>
    (match parseTree aux with | some e => showStored (templateSite (eval e)) false lblNotConst | none => "bad-request")
  | "tbody_array" => (match parseTree aux with | some e => templateArraySite (eval e) lblNotConst false | none => "bad-request")
  | "tstruct_array" | "tstruct_two" =>
    (match parseTree aux with | some e => templateArraySite (eval e) "reject:identifier TS is not expected" true | none => "bad-request")
  | "vector_dim" => (match parseTree aux with | some e => dimSite (eval e) "" "" "reject:vector was not declared in" | none => "bad-request")
  | "matrix_rows" => (match parseTree aux with | some e => dimSite (eval e) "" ",2" "reject:matrix was not declared in" | none => "bad-request")
  | "matrix_cols" => (match parseTree aux with | some e => dimSite (eval e) "3," "" "reject:matrix was not declared in" | none => "bad-request")
  | "nonconst" | "localnonconst" => init false
  | "constint" | "constuint" | "constbool" | "constfloat" | "constdouble" | "consthalf" | "constenum" | "constplain"
  | "nsconst" | "constbrace" | "localconst" | "localstatic" | "forconst" | "blockconst" | "elseconst" | "whileconst"
  | "consttypedef" | "constmulti" => init true
  | "enum" | "enum_ns" | "enumnext" | "enum_after0" =>
    (match parseMember1 aux with
     | none => "bad-request"
     | some m =>
       match enumSite site m with
       | none => "unsupported: site"
       | some (ms, idx) =>
         match defineEnum ms with
         | .ok (_, vals) => (match vals[idx]? with | some c => "val:" ++ showConst c | none => "bad-request")
         | .error e => enumErrLabel e)
  | _ => "unsupported: the position is outside the model"

/-- `<cls>[!] <refs> <tree...>` → (member, the static type of the initialiser is the plain type of its value, referenced
enumerators); the last two are annotations of the harness the model does not need -/
def parseMemberFull (s : String) : Option (Member × Bool × List Nat) :=
  if s == "-" then some (none, true, []) else
  match s.splitOn " " with
  | c :: r :: rest => do
    let cls ← cls? c
    let e ← parseTree (" ".intercalate rest)
    let refs ← if r == "-" then some [] else (r.splitOn ",").mapM (·.toNat?)
    pure (some (cls, e), !c.endsWith "!", refs)
  | _ => none

def handleEnum (aux : String) : String :=
  match (aux.splitOn " | ").mapM parseMemberFull with
  | none => "bad-request"
  | some ms =>
    -- a reference to an earlier enumerator is the literal of its evaluated constant (`Gen.PosTable.enumRecordsValueType`:
    -- the type recorded with an enumerator is the type of that constant), whatever the static type of its initialiser was
    match defineEnum (ms.map (·.1)) with
    | .ok (u, vals) =>
      "under:" ++ (if u == .UInt32 then "uint" else "int") ++ " vals:" ++ ",".intercalate (vals.map showConst)
    | .error e => enumErrLabel e

/-! ## mixed operand kinds (`C13.mix <source tree> <IR> [kinds:<BinOp>:<T>:<T>]`) -/
section Mix
open RsslVerif.Model.ConstBinop
open RsslVerif.Gen.RankTable (Scalar)

def shape? (s : String) : Option OpShape :=
  match s with
  | "bool" => some (.scalar .bool)
  | "lit" => some (.scalar .intLiteral)
  | "int" => some (.scalar .int32)
  | "uint" => some (.scalar .uInt32)
  | "flit" => some (.scalar .floatLiteral)
  | "half" => some (.scalar .float16)
  | "float" => some (.scalar .float32)
  | "double" => some (.scalar .float64)
  | _ => if s.startsWith "enum" then (if s.endsWith ":uint" then some .enumUInt else if s.endsWith ":int" then some .enumInt else none) else none

def scalarT : RsslVerif.Gen.RankTable.Scalar → String
  | .bool => "bool" | .intLiteral => "lit" | .int32 => "int" | .uInt32 => "uint"
  | .floatLiteral => "flit" | .float16 => "half" | .float32 => "float" | .float64 => "double"

/-- one type of the `kinds:` field (an enum type is two `:`-separated tokens) -/
def takeT : List String → Option (String × List String)
  | a :: b :: r => if a.startsWith "enum" then some (a ++ ":" ++ b, r) else some (a, b :: r)
  | [a] => if a.startsWith "enum" then none else some (a, [])
  | [] => none

def mixCt (kinds : String) : String :=
  match kinds.splitOn ":" with
  | "kinds" :: o :: rest =>
    (match RsslVerif.Gen.TypingTables.BinOp.ofName? o, takeT rest with
     | some op, some (lt, rest) =>
       (match takeT rest with
        | some (rt, []) =>
          (match shape? lt, shape? rt with
           | some l, some r =>
             (match commonTy op l r with
              | some (.scalar s) => " ct:" ++ scalarT s
              | some .left => " ct:" ++ lt
              | some .right => " ct:" ++ rt
              | none => " ct:refused")
           | _, _ => " bad-request")
        | _ => " bad-request")
     | _, _ => " bad-request")
  | _ => " bad-request"

end Mix

/-! ## several instantiations of one template (`C13.inst <shape> <atoms> <aux>`) -/
section Inst
open RsslVerif.Gen.InstTable RsslVerif.Model.InstCache

/-- what an instantiation shows, as a function of its argument list: (recorded argument, size of `pa`, returned value) -/
structure InstObs where
  a : String
  len : String
  ret : String

/-- one use: its argument list and what building the template from that argument gives (the three trees are the
    argument, `argument + 100` and the argument converted to the return type, as the real type checker typed them) -/
def parseUse (isDefault : Bool) (s : String) : Option (List Arg × List Arg × InstObs) :=
  match s.splitOn " ; " with
  | [t1, t2, t3] =>
    (match parseTree t1, parseTree t2, parseTree t3 with
     | some e1, some e2, some e3 =>
       (match templateSite (eval e1), sizeSite arraySize (eval e2), eval e3 with
        | .stored c, .count n, .ok r =>
          some (if isDefault then [] else [.const c], [.const c], ⟨showConst c, toString n, showConst r⟩)
        | _, _, _ => none)
     | _, _, _ => none)
  | _ => none

def showObs (struct : Bool) (o : InstObs) : String :=
  "a=" ++ (if struct then "-" else o.a) ++ ",len=" ++ o.len ++ ",ret=" ++ o.ret

/-- `template<int N> int tf() { return ti<N>(); }`: an outer use that is found is bound to what was built then; one that
    is not found is built, which uses the inner template with the same argument -/
def runNest (m : KeyMode) (table : List Arg → InstObs) :
    List (Entry (String × InstObs)) → List (List Arg) → List String
  | _, [] => []
  | cache, k :: r =>
    match find m 0 k cache with
    | some e => showObs false { e.val.2 with a := e.val.1 } :: runNest m table cache r
    | none =>
      let a := (table k).a
      let (cache1, v) := use m (fun _ k => ("", table k)) (cache ++ [⟨0, k, (a, table k)⟩]) 1 k
      -- the outer entry records what its body is bound to
      let cache2 := cache1.map (fun e => if e.parent = 0 ∧ e.key = k then { e with val := (a, v.2) } else e)
      showObs false { v.2 with a := a } :: runNest m table cache2 r

def handleInst (shape atoms aux : String) : String :=
  let names := (atoms.splitOn " ").filter (· ≠ "")
  let parts := aux.splitOn " | "
  if names.length ≠ parts.length then "bad-request" else
  match (names.zip parts).mapM (fun np => parseUse (np.1 == "_") np.2) with
  | none => "unsupported: an argument or a size the positions model does not accept"
  | some uses =>
    -- what an instantiation shows is a function of its (complete) argument list
    let table : List Arg → InstObs := fun k =>
      match uses.find? (fun u => u.2.1 == k) with
      | some u => u.2.2
      | none => ⟨"?", "?", "?"⟩
    let keys := uses.map (·.1)
    let outs : Option (List String) :=
      match shape with
      | "fn" | "fnu" => some ((run fnKeyMode (fun _ k => table k) [] (keys.map (fun k => (0, k)))).map (showObs false))
      | "nest" => some (runNest fnKeyMode table [] keys)
      | "st" =>
        -- `template<int N = 7>`: the default is the complete list of a use without arguments
        (match (uses.find? (fun u => u.1.isEmpty)).map (·.2.1) with
         | some d => some ((runStruct table d [] keys).map (showObs true))
         | none => some ((runStruct table [.const (.intLit 7)] [] keys).map (showObs true)))
      | _ => none
    match outs with
    | some l => " | ".intercalate l
    | none => "unsupported: unknown shape"

end Inst

def handle (op : String) (args : List String) : String :=
  match op, args with
  | "C13.eval", tree :: _ =>
    match parseTree tree with
    | some e => showRes (eval e)
    | none => "bad-request"
  | "C13.mix", _ :: tree :: rest =>
    -- the value of the IR the type checker built, and the type it converted both operands to
    (match parseTree tree with
     | some e => showRes (eval e) ++ (match rest with | k :: _ => mixCt k | [] => "")
     | none => "bad-request")
  | "C13.mix", _ => "unsupported: refused by the front end, no IR"
  | "C13.hyp", tree :: _ =>
    -- the hypotheses of `consteval_agrees` / `consteval_no_panic`, evaluated on a tree the type checker emitted
    match parseTree tree with
    | some e => "wf=" ++ (if wfE e then "1" else "0") ++ " kinds=" ++ (if kindsOk e then "1" else "0")
    | none => "bad-request"
  | "C13.pos", site :: _ :: aux :: _ =>
    if site == "assert" || site == "assertr" then "unsupported: acceptance of assert_eval is judged by the reference evaluator only"
    else handlePos site aux
  | "C13.pos", _ => "unsupported: no model input for this position"
  | "C13.enum", _ :: aux :: _ => handleEnum aux
  | "C13.enumhyp", _ :: aux :: _ =>
    -- the hypotheses of `enum_values_c_semantics` / `enum_no_panic`, evaluated on a definition the real front end typed
    (match (aux.splitOn " | ").mapM parseMemberFull with
     | none => "bad-request"
     | some ms =>
       let ms := ms.map (·.1)
       "wf=" ++ (if membersWf ms then "1" else "0") ++ " ok=" ++ (if membersOk ms then "1" else "0"))
  | "C13.enum", _ => "unsupported: no model input for this definition"
  | "C13.inst", shape :: atoms :: aux :: _ => handleInst shape atoms aux
  | "C13.inst", _ => "unsupported: no model input (refused program or an argument the front end does not type standalone)"
  | "C13.src", _ => "unsupported: front-end outcome, outside the evaluator model"
  | _, _ => "unsupported-op"

end RsslVerif.Driver.C13

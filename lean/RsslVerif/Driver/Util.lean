/-! Shared helpers of the `rsslmodel` line-protocol driver (core Lean only). -/
namespace RsslVerif.Driver

def fields (line : String) : List String := line.splitOn "\t"

def optNat? (s : String) : Option (Option Nat) :=
  if s == "-" then some none else s.toNat?.map some

def showOptNat : Option Nat → String
  | none => "-"
  | some n => toString n

def bit? (c : Char) : Option Bool :=
  if c == '1' then some true else if c == '0' then some false else none

def sequenceOpt {α : Type} : List (Option α) → Option (List α)
  | [] => some []
  | none :: _ => none
  | some a :: r => (sequenceOpt r).map (a :: ·)

def hexDigit? (c : Char) : Option Nat :=
  if '0' ≤ c ∧ c ≤ '9' then some (c.toNat - '0'.toNat)
  else if 'a' ≤ c ∧ c ≤ 'f' then some (c.toNat - 'a'.toNat + 10)
  else if 'A' ≤ c ∧ c ≤ 'F' then some (c.toNat - 'A'.toNat + 10)
  else none

/-- decode a lowercase hex string into bytes -/
def unhex? (s : String) : Option (List UInt8) :=
  let rec go : List Char → Option (List UInt8)
    | [] => some []
    | [_] => none
    | a :: b :: r => do
      let x ← hexDigit? a
      let y ← hexDigit? b
      let t ← go r
      pure (UInt8.ofNat (x * 16 + y) :: t)
  go s.toList

def hexNibble (n : Nat) : Char := "0123456789abcdef".toList.getD n '?'

def hex (bs : List UInt8) : String :=
  String.ofList (bs.flatMap fun b => [hexNibble (b.toNat / 16), hexNibble (b.toNat % 16)])

end RsslVerif.Driver

import RsslVerif.Lemmas.LexerStream
import RsslVerif.Lemmas.LexerInt
import RsslVerif.Lemmas.LexerFloat
import RsslVerif.Lemmas.Dec2Bin
import RsslVerif.Lemmas.Dec2BinNearest
import RsslVerif.Lemmas.Dec2BinCutoff
import RsslVerif.Lemmas.Dec2BinMono
/-!
# C10 — lexing is lossless and numeric literals are exact

Statements are about the executable model `Model/Lexer.lean` of `preprocess/src/lexer.rs` (tied to the
source by `Gen.LexTables` and the correspondence run) and the exact rounding reference `Spec/Dec2Bin.lean`.
All quantifiers are unbounded: every byte string, every flag combination.
-/
namespace RsslVerif.Thm.C10
open RsslVerif.Model.Lexer RsslVerif.Spec.Lexer RsslVerif.Gen.LexTables RsslVerif.Spec

/-! ## Part 1 — the token spans tile the file -/

/-- **Progress**: every token `token_intermediate` produces consumes at least one byte and leaves a suffix
of its input (the `debug_assert!(self.current_offset < next_location)` of `TokenStream::next` can never
fire; lexing cannot loop). -/
theorem token_progress {inp rest : Bytes} {inc : Bool} {tok : Token}
    (h : tokenIntermediate inp inc = .ok (rest, tok)) : ∃ pre, pre ≠ [] ∧ inp = pre ++ rest := by
  have hg := tokenIntermediate_good inp inc
  have hs := tokenIntermediate_strict inp inc
  rw [h] at hg hs
  obtain ⟨pre, hp⟩ := hg
  refine ⟨pre, ?_, hp.symm⟩
  intro hnil
  subst hnil
  simp only [Strict] at hs
  simp at hp
  subst hp
  omega

/-- A lexing error of `token_intermediate` points into its input (or is the `&[]` of `end_of_stream()`). -/
theorem token_error_in_input {inp r : Bytes} {inc : Bool} {k : Reason}
    (h : tokenIntermediate inp inc = .error (.lex (.rest r) k)) : r <:+ inp := by
  have hg := tokenIntermediate_good inp inc
  rw [h] at hg
  exact hg

/-- None of the `debug_assert_eq!(input.len(), rest.len())` sites of `choose` / `token_intermediate` is
reachable. -/
theorem token_no_panic (inp : Bytes) (inc : Bool) (site : String) :
    tokenIntermediate inp inc ≠ .error (.panic site) := by
  intro h
  have hg := tokenIntermediate_good inp inc
  rw [h] at hg
  exact hg

theorem readAll_post (s : Bytes) (trailing debug inc : Bool) :
    LoopPost s debug 0 (readAll s trailing debug inc) :=
  readLoop_spec inc (s.length + 2) (Stream.new s trailing debug) [] 0 (Nat.zero_le _) rfl
    (fun _ h => absurd h (List.not_mem_nil))

/-- **spans_tile**: the tokens of a successful `read_to_end` partition `[0, |s|)` — contiguous, in order,
covering every byte; the only empty token is the synthetic `Endline` at the very end. -/
theorem spans_tile {s : Bytes} {trailing debug : Bool} {ts : List PTok}
    (h : readToEnd s trailing debug = .ok ts) : Tiles s ts := by
  unfold readToEnd at h
  have hp := readAll_post s trailing debug false
  split at h
  · rename_i ts' hr
    simp at h; subst h
    rw [hr] at hp
    exact ⟨hp.2, hp.1⟩
  · cases h

/-- **Losslessness**: concatenating the slices of the file named by the token spans reproduces the file. -/
theorem reemit_reproduces_input {s : Bytes} {trailing debug : Bool} {ts : List PTok}
    (h : readToEnd s trailing debug = .ok ts) : reemit s ts = s := by
  have := reemit_chain s (spans_tile h).chain (Nat.le_refl _)
  simpa using this

/-- **error_pos_in_range**: every diagnostic of the lexer is positioned inside the file
(`0 ≤ offset ≤ |s|`; `|s|` is the end-of-file slot every file owns in `SourceManager`). -/
theorem error_pos_in_range {s : Bytes} {trailing debug : Bool} {k : Reason} {off : Nat}
    (h : readToEnd s trailing debug = .error (.lexer k off)) : off ≤ s.length := by
  unfold readToEnd at h
  have hp := readAll_post s trailing debug false
  split at h
  · cases h
  · rename_i ts' e hr
    simp at h; subst h
    rw [hr] at hp
    obtain ⟨p, _, _, h3⟩ := hp.2
    exact h3

/-- The tokens read before a diagnostic tile the file up to a point not after the diagnostic. -/
theorem tokens_before_error_tile {s : Bytes} {trailing debug inc : Bool} {k : Reason} {off : Nat}
    (h : (readAll s trailing debug inc).2 = .error (.lexer k off)) :
    ∃ p, Chain 0 (readAll s trailing debug inc).1 p ∧ p ≤ off ∧ off ≤ s.length := by
  have hp := (readAll_post s trailing debug inc).2
  rw [h] at hp
  exact hp

/-- **Termination**: `read_to_end` needs at most `|s| + 2` iterations (the model's fuel never runs out). -/
theorem lexing_terminates (s : Bytes) (trailing debug : Bool) :
    readToEnd s trailing debug ≠ .error .outOfFuel := by
  unfold readToEnd
  have hf := readLoop_fuel false (s.length + 2) (Stream.new s trailing debug) [] (Nat.zero_le _)
    (.inl (by simp [Stream.new]))
  split
  · simp
  · rename_i ts e hr
    unfold readAll at hr
    rw [hr] at hf
    simpa using hf

/-- **read_never_panics**: `read_to_end` reaches none of the panic sites of `TokenStream::next`
(`assert!(!self.last_was_endline)`, the slice index, the subtraction, the three `debug_assert!`s) nor the
`debug_assert_eq!`s of `choose` / `token_intermediate`, in debug and in release builds, for every input.
(Before fix c600801 the pointer-range assertions failed for the `&[]` of `end_of_stream()`.) -/
theorem read_never_panics (s : Bytes) (trailing debug : Bool) (site : String) :
    readToEnd s trailing debug ≠ .error (.panic site) := by
  intro h
  unfold readToEnd at h
  have hp := readAll_post s trailing debug false
  split at h
  · cases h
  · rename_i ts' e hr
    simp at h; subst h
    rw [hr] at hp
    exact hp.2

/-- regression witness for c600801: an unterminated block comment (`/*`) and a file ending in `0x` are
diagnosed with `EndOfStream` at the end of the file -/
example : (match readToEnd [47, 42] true true with | .error (.lexer r off) => some (r, off) | _ => none)
    = some (.EndOfStream, 2) := by decide
example : (match readToEnd [48, 120] true true with | .error (.lexer r off) => some (r, off) | _ => none)
    = some (.EndOfStream, 2) := by decide

/-- non-vacuity of `spans_tile`: `a<b // c⏎` followed by a line splice lexes to seven tokens + synthetic endline -/
example : (readToEnd [97, 60, 98, 32, 47, 47, 99, 10, 92, 10]).toOption.map (·.map fun t => (t.start, t.stop))
    = some [(0, 1), (1, 2), (2, 3), (3, 4), (4, 7), (7, 8), (8, 10), (10, 10)] := by decide

/-! ## Part 2 — integer literals -/

/-- the three digit readers of the lexer with their radix -/
inductive IsRadix : (UInt8 → Option Nat) → Nat → Prop
  | dec : IsRadix decDigit? 10
  | hex : IsRadix hexDigit? 16
  | oct : IsRadix octDigit? 8

theorem IsRadix.facts {f : UInt8 → Option Nat} {base : Nat} (h : IsRadix f base) :
    1 ≤ base ∧ ∀ b d, f b = some d → d < 2 ^ 64 := by
  cases h
  · exact ⟨by omega, fun b d h => by have := decDigit_lt b d h; omega⟩
  · exact ⟨by omega, fun b d h => by have := hexDigit_lt b d h; omega⟩
  · exact ⟨by omega, fun b d h => by have := octDigit_lt b d h; omega⟩

/-- closed form of `literal_decimal_int` / `literal_hex_int` / `literal_octal_int` on an input starting with a
digit: with `v` the positional value of the maximal digit run and `k` the suffix that follows it -/
theorem literalIntWith_closed {f : UInt8 → Option Nat} {base : Nat} (hr : IsRadix f base) (b : UInt8) (r : Bytes)
    (d : Nat) (hd : f b = some d) :
    literalIntWith f base (b :: r) =
      (if Dec2Bin.ofDigits base (digitRun f (b :: r)) < 2 ^ 64 then
        (match mkIntToken? (Dec2Bin.ofDigits base (digitRun f (b :: r)))
                 (opt (intType (afterRun f (b :: r))) (afterRun f (b :: r))).2 with
         | some tok => .ok ((opt (intType (afterRun f (b :: r))) (afterRun f (b :: r))).1, tok)
         | none => .error (.lex (.rest (b :: r)) .IntegerLiteralTooLarge))
       else .error (.lex (.rest (b :: r)) .IntegerLiteralTooLarge)) := by
  obtain ⟨hb, hf⟩ := hr.facts
  unfold literalIntWith
  rw [digitsWith_closed f base hb hf b r d hd]
  by_cases hlt : Dec2Bin.ofDigits base (digitRun f (b :: r)) < 2 ^ 64
  · simp only [hlt, if_true]
    split <;> (rename_i hk; simp [hk])
  · simp only [hlt, if_false]

/-- **int_value_exact** (full strength since fixes dc17362 and 93e9a96): an accepted integer literal consumed the
maximal run of digits and its suffix, the token denotes exactly the run's positional value `v`, and `v` fits the
type the suffix names (`u` ⇒ `< 2^32`, `l` ⇒ `< 2^63`, none / `ul` ⇒ `< 2^64`). -/
theorem int_value_exact {f : UInt8 → Option Nat} {base : Nat} (hr : IsRadix f base) {inp rest : Bytes}
    {tok : Token} (h : literalIntWith f base inp = .ok (rest, tok)) :
    tok.intValue? = some (Dec2Bin.ofDigits base (digitRun f inp) : Int) ∧ tok.intInRange ∧
    Dec2Bin.ofDigits base (digitRun f inp) < 2 ^ 64 ∧
    mkIntToken? (Dec2Bin.ofDigits base (digitRun f inp)) (opt (intType (afterRun f inp)) (afterRun f inp)).2
      = some tok ∧
    rest = (opt (intType (afterRun f inp)) (afterRun f inp)).1 := by
  obtain ⟨hb, hf⟩ := hr.facts
  cases inp with
  | nil => simp [literalIntWith, digitsWith, digitWith, endOfStream] at h
  | cons b r =>
    cases hd : f b with
    | none => simp [literalIntWith, digitsWith, digitWith, hd, wrongChars] at h
    | some d =>
      rw [literalIntWith_closed hr b r d hd] at h
      by_cases hlt : Dec2Bin.ofDigits base (digitRun f (b :: r)) < 2 ^ 64
      · simp only [hlt, if_true] at h
        split at h
        · rename_i tok' hk
          simp at h
          obtain ⟨h1, h2⟩ := h
          subst h1 h2
          exact ⟨mkIntToken?_value hk, mkIntToken?_inRange hlt hk, hlt, hk, rfl⟩
        · cases h
      · simp only [hlt, if_false] at h
        cases h

/-- **int_overflow_rejected**: a literal that does not fit — the digit run is `≥ 2^64`, or `≥ 2^32` with suffix
`u`, or `≥ 2^63` with the signed suffix `l` (`SuffixOverflow`) — is never accepted: `IntegerLiteralTooLarge` at its
first digit. -/
theorem int_overflow_rejected {f : UInt8 → Option Nat} {base : Nat} (hr : IsRadix f base) (b : UInt8) (r : Bytes)
    (d : Nat) (hd : f b = some d)
    (hbig : 2 ^ 64 ≤ Dec2Bin.ofDigits base (digitRun f (b :: r)) ∨
      SuffixOverflow (Dec2Bin.ofDigits base (digitRun f (b :: r)))
        (opt (intType (afterRun f (b :: r))) (afterRun f (b :: r))).2) :
    literalIntWith f base (b :: r) = .error (.lex (.rest (b :: r)) .IntegerLiteralTooLarge) := by
  rw [literalIntWith_closed hr b r d hd]
  by_cases hlt : Dec2Bin.ofDigits base (digitRun f (b :: r)) < 2 ^ 64
  · simp only [hlt, if_true]
    rcases hbig with hbig | hbig
    · omega
    · rw [mkIntToken?_none.mpr hbig]
  · simp only [hlt, if_false]

/-- **int_rejected_only_when_too_large**: conversely, `IntegerLiteralTooLarge` is reported only for a literal that
really does not fit its type. -/
theorem int_rejected_only_when_too_large {f : UInt8 → Option Nat} {base : Nat} (hr : IsRadix f base) {inp : Bytes}
    {pos : ErrAt} (h : literalIntWith f base inp = .error (.lex pos .IntegerLiteralTooLarge)) :
    pos = .rest inp ∧
    (2 ^ 64 ≤ Dec2Bin.ofDigits base (digitRun f inp) ∨
      SuffixOverflow (Dec2Bin.ofDigits base (digitRun f inp))
        (opt (intType (afterRun f inp)) (afterRun f inp)).2) := by
  cases inp with
  | nil => simp [literalIntWith, digitsWith, digitWith, endOfStream] at h
  | cons b r =>
    cases hd : f b with
    | none => simp [literalIntWith, digitsWith, digitWith, hd, wrongChars] at h
    | some d =>
      rw [literalIntWith_closed hr b r d hd] at h
      by_cases hlt : Dec2Bin.ofDigits base (digitRun f (b :: r)) < 2 ^ 64
      · simp only [hlt, if_true] at h
        split at h
        · cases h
        · rename_i hk
          simp at h
          exact ⟨h.symm, .inr (mkIntToken?_none.mp hk)⟩
      · simp only [hlt, if_false] at h
        simp at h
        exact ⟨h.symm, .inl (by omega)⟩

/-- `literal_int` picks the radix from the prefix and then behaves as above -/
theorem literalInt_radix (inp : Bytes) :
    (∃ body, inp = [48, 120] ++ body ∧ literalInt inp = literalIntWith hexDigit? 16 body) ∨
    (∃ body, inp = 48 :: body ∧ (digitWith octDigit? body).isOk = true ∧
        literalInt inp = literalIntWith octDigit? 8 body) ∨
    literalInt inp = literalIntWith decDigit? 10 inp := by
  unfold literalInt
  split
  · rename_i r h; exact .inl ⟨r, stripPrefix?_eq h, rfl⟩
  · split
    · rename_i r h
      split
      · rename_i x hx; exact .inr (.inl ⟨r, stripPrefix?_eq h, by simp [hx, Except.isOk, Except.toBool], rfl⟩)
      · exact .inr (.inr rfl)
    · exact .inr (.inr rfl)

/-- regression witness for dc17362: `9223372036854775808l` (2^63 with the signed suffix) is rejected at offset 0;
`9223372036854775807l` is accepted with its written value -/
example : (match literalInt [57, 50, 50, 51, 51, 55, 50, 48, 51, 54, 56, 53, 52, 55, 55, 53, 56, 48, 56, 108] with
     | .error (.lex (.rest r) k) => some (r.length, k) | _ => none) = some (20, .IntegerLiteralTooLarge) := by decide
example : (match literalInt [57, 50, 50, 51, 51, 55, 50, 48, 51, 54, 56, 53, 52, 55, 55, 53, 56, 48, 55, 108] with
     | .ok (rest, tok) => (rest.length, tok.intValue?)
     | .error _ => (1, none)) = (0, some 9223372036854775807) := by decide

/-- non-vacuity: `0x7fFFu;` is accepted with value 32767, `18446744073709551616` is rejected -/
example : (match literalInt [48, 120, 55, 102, 70, 70, 117, 59] with
     | .ok (rest, tok) => (rest, tok.intValue?) | .error _ => ([], none)) = ([59], some 32767) := by decide
/-- regression witness for 93e9a96: `4294967296u` is rejected, `4294967295u` accepted -/
example : (match literalInt [52, 50, 57, 52, 57, 54, 55, 50, 57, 54, 117] with
     | .error (.lex (.rest r) k) => some (r.length, k) | _ => none) = some (11, .IntegerLiteralTooLarge) := by decide
example : (match literalInt [52, 50, 57, 52, 57, 54, 55, 50, 57, 53, 117] with
     | .ok (rest, tok) => (rest.length, tok.intValue?) | .error _ => (1, none)) = (0, some 4294967295) := by decide
example : (match literalInt [49, 56, 52, 52, 54, 55, 52, 52, 48, 55, 51, 55, 48, 57, 53, 53, 49, 54, 49, 54] with
     | .error (.lex _ r) => some r | _ => none) = some .IntegerLiteralTooLarge := by decide

/-- how the dispatcher reaches the two numeric sub-lexers: on a digit, `token_intermediate` is `literal_float`, and
exactly when that answers `OtherTokenBytes` (digits without fraction or exponent, or the `.x` bail-out) it is
`literal_int` — so `int_value_exact` / `int_overflow_rejected` / `lex_float_nearest` are statements about the tokens
of `read_to_end`. -/
theorem token_numeric_dispatch (b : UInt8) (r : Bytes) (inc : Bool) (hd : 48 ≤ b.toNat ∧ b.toNat ≤ 57) :
    tokenIntermediate (b :: r) inc =
      (match literalFloat (b :: r) with
       | .ok x => .ok x
       | .error (.lex _ .OtherTokenBytes) => literalInt (b :: r)
       | .error e => .error e) := by
  simp only [tokenIntermediate, tokenStep, hd, and_self, if_true]
  have ho := literalFloat_other (b :: r)
  split
  · rename_i x hx; rw [hx]
  · rename_i pos hx
    rw [hx] at ho ⊢
    simp only [OtherAtStart] at ho
    subst ho
    simp [ErrAt.len]
  · rename_i e hne hx
    rw [hx]
    split
    · rename_i heq; cases heq
    · rename_i pos heq; cases heq; exact absurd rfl (hne pos)
    · rename_i heq; exact heq

/-! ## Part 3 — floating literals -/

/-- **float_parts_shape_as_modelled**: the shape of `calculate_float64_from_parts` the model relies on, re-extracted
from the source on every run (`Gen.LexTables`): the body only builds the text `<left or 0>.<right or 0>e<exponent>`
and its single exit is `text.parse::<f64>()` — no early `return`, no `*` or `/`, no float cast or float function —
and `literal_float` calls it once with `(left, right, exp)`. This is what justifies
`Model.Lexer.float64FromParts = nearest64 (left ++ right) (exp - |right|)` (given that `parse` is correctly rounded);
any rewrite of the function (a fast path, digit accumulation, …) breaks this obligation before an input is found. -/
theorem float_parts_shape_as_modelled :
    floatPartsSignature = "left: DigitSequence, right: DigitSequence, exponent: i64 -> f64" ∧
    floatPartsSteps = ["newText", "pushLeftDigits", "zeroIfLeftEmpty", "pushDot", "pushRightDigits",
      "zeroIfRightEmpty", "pushE", "pushExponent", "returnParseF64"] ∧
    floatPartsReturns = 0 ∧ floatPartsMulDiv = 0 ∧ floatPartsFloatOps = 0 ∧
    floatPartsCallSites = 1 ∧ floatPartsCalledWithParts = true := by decide

/-- **lex_float_nearest**: an accepted float literal is the text `<left>[.<right>][e<exp>][#INF][suffix]`, and its
token carries `narrowOnce suffix (nearest64 (left ++ right) (exp - |right|))`: the double nearest (see
`Spec/Dec2Bin.lean` and `nearest_*` below) to the decimal it spells, narrowed once to single precision for the
`f`/`h` suffixes — or `+∞` for the `#INF` spelling, which is accepted only on a non-zero literal without exponent. -/
theorem lex_float_nearest {inp rest : Bytes} {tok : Token} (h : literalFloat inp = .ok (rest, tok)) :
    ∃ (hasFraction : Bool) (left right : List Nat) (i2 : Bytes) (ty : Option FloatType),
      inp = left.map digitByte ++ ((if hasFraction then 46 :: right.map digitByte else []) ++ i2) ∧
      (hasFraction = false → right = []) ∧ (∀ d ∈ left ++ right, d < 10) ∧
      (tok.floatBits? = some (narrowOnce ty
          (Dec2Bin.nearest64 (left ++ right) ((opt (floatExponent i2) i2).2.getD 0 - right.length))) ∨
       ((opt (floatExponent i2) i2).2 = none ∧
        Dec2Bin.nearest64 (left ++ right) (0 - right.length) ≠ 0 ∧
        tok.floatBits? = some (narrowOnce ty Dec2Bin.binary64.infBits))) := by
  obtain ⟨hf, l, r, i2, ty, hm, hv⟩ := literalFloat_value h
  have ht := floatMantissa_text hm
  exact ⟨hf, l, r, i2, ty, ht.1, ht.2, floatMantissa_lt hm, hv⟩

/-- non-vacuity / regression witnesses for the defect fixed in c2067b9: `0.0031308` and `0.055L` are the
nearest doubles (the old digit-by-digit accumulation gave `…bd`+1 and `…29`+1) -/
example : (match literalFloat [48, 46, 48, 48, 51, 49, 51, 48, 56] with
    | .ok (_, tok) => tok.floatBits? | .error _ => none) = some 0x3f69a5c37387b719 := by decide
example : (match literalFloat [48, 46, 48, 53, 53, 76] with
    | .ok (_, tok) => tok.floatBits? | .error _ => none) = some 0x3fac28f5c28f5c29 := by decide

/-! ## Part 4 — the rounding reference itself (`Spec/Dec2Bin.lean`) against the mathematical statement -/

open Dec2Bin in
/-- **nearest_correct**: for every positive rational `x = N / M`, `nearestRat f N M` is the bit pattern IEEE 754
prescribes for round-to-nearest-ties-to-even (`Spec.Dec2Bin.IsNearestEven`: unit in the last place of `x`'s binade
with gradual underflow, no value with a `p`-bit significand and exponent `≥ emin` closer, at most half an ulp off,
exactly half ⇒ even significand, `+∞` exactly when the result rounded with unbounded exponent reaches
`2^(emax+1)`). Both formats. -/
theorem nearest_correct (f : Fmt) (hf : f = binary64 ∨ f = binary32) (N M : Nat) (hN : 0 < N) (hM : 0 < M) :
    IsNearestEven f N M (nearestRat f N M) :=
  nearestRat_isNearestEven f (by rcases hf with h | h <;> subst h <;> decide)
    (by rcases hf with h | h <;> subst h <;> decide) N M hN hM

open Dec2Bin in
/-- **nearest64_total**: for every decimal digit string and every exponent, `nearest64 (digits, e)` is
`nearestRat binary64` of the exact rational `digits × 10^e` — the two cut-offs of `nearestDec` (`e > 400` ⟹ `+∞`,
`e + |digits| < -400` ⟹ `0`, which avoid astronomically large powers) are proved to agree with it. -/
theorem nearest64_total (ds : List Nat) (e : Int) (hds : ∀ d ∈ ds, d < 10) :
    nearest64 ds e = nearestRat binary64 (decimalRat ds e).1 (decimalRat ds e).2 := by
  rw [nearest64_eq_nearestRat ds e hds]
  unfold decimalRat
  split <;> rfl

open Dec2Bin in
/-- **nearest64_correct**: the value the lexer model gives a float literal is the correctly rounded double of its
decimal text: `IsNearestEven binary64 (digits × 10^e) (nearest64 digits e)` for every non-zero digit string and
every exponent (a zero digit string gives `+0`). -/
theorem nearest64_correct (ds : List Nat) (e : Int) (hds : ∀ d ∈ ds, d < 10) (hD : ofDigits 10 ds ≠ 0) :
    IsNearestEven binary64 (decimalRat ds e).1 (decimalRat ds e).2 (nearest64 ds e) := by
  rw [nearest64_total ds e hds]
  have hDpos : 0 < ofDigits 10 ds := Nat.pos_of_ne_zero hD
  apply nearest_correct binary64 (.inl rfl)
  · unfold decimalRat; split
    · exact Nat.mul_pos hDpos (Nat.pow_pos (by omega))
    · exact hDpos
  · unfold decimalRat; split
    · exact Nat.one_pos
    · exact Nat.pow_pos (by omega)

open Dec2Bin in
theorem nearest64_zero (ds : List Nat) (e : Int) (hD : ofDigits 10 ds = 0) : nearest64 ds e = 0 := by
  unfold nearest64 nearestDec; simp [hD]

open Dec2Bin in
/-- **nearest_correct_partial**: for every positive rational `x = N / M` the reference returns the encoding of
`m · 2^q` (or `+∞` when that encoding reaches the infinity pattern) where, with `A / B = x / 2^q` exactly:
* `q ≥ emin`, and `2^q` is the unit in the last place of the binade of `x`: `⌊x/2^q⌋ < 2^p`, and `≥ 2^(p-1)` unless
  `q = emin` (gradual underflow); `m ≤ 2^p`;
* `|x/2^q − m| ≤ ½` and on a tie `m` is even (round to nearest, ties to even);
* no multiple `k · 2^q` is closer to `x` — this covers every representable value of exponent `≥ q`;
* no value `m' · 2^q / T` (`T ≥ 2` a power of two, `m' < 2^p`) of a *smaller* exponent is closer either (they exist
  only when `q > emin`) — so `m · 2^q` is nearest to `x` among all finite values of the format.
*Partial* with respect to DESIGN's `IsNearestEven`: not packaged as one predicate over decoded bit patterns; the
saturation test `encode ≥ infBits` is not identified with `m·2^q ≥ 2^(emax+1)`; the two cut-offs of `nearestDec`
(`e > 400`, `e + len < −400`) and monotonicity are only tested by the correspondence run. -/
theorem nearest_correct_partial (f : Fmt) (hf : f = binary64 ∨ f = binary32) (N M : Nat) (hN : 0 < N) (hM : 0 < M) :
    ∃ (q : Int) (A B m : Nat),
      f.emin ≤ q ∧ 0 < B ∧ A * (M * 2 ^ q.toNat) = N * 2 ^ (-q).toNat * B ∧
      (2 * A ≤ 2 * (m * B) + B ∧ 2 * (m * B) ≤ 2 * A + B) ∧
      ((2 * A = 2 * (m * B) + B ∨ 2 * (m * B) = 2 * A + B) → m % 2 = 0) ∧
      (∀ k, (2 * A - 2 * (m * B)) + (2 * (m * B) - 2 * A) ≤ (2 * A - 2 * (k * B)) + (2 * (k * B) - 2 * A)) ∧
      (f.emin < q → ∀ T m', 2 ≤ T → m' < 2 ^ f.p →
        2 * (B * m') ≤ 2 * (A * T) ∧
        ((2 * A - 2 * (m * B)) + (2 * (m * B) - 2 * A)) * T ≤ 2 * (A * T) - 2 * (B * m')) ∧
      A / B < 2 ^ f.p ∧ (f.emin < q → 2 ^ (f.p - 1) ≤ A / B) ∧ m ≤ 2 ^ f.p ∧ (f.emin < q → 2 ^ (f.p - 1) ≤ m) ∧
      nearestRat f N M = Nat.min (encode f m q) f.infBits := by
  have hp : 2 ≤ f.p := by rcases hf with h | h <;> subst h <;> decide
  obtain ⟨q, A, B, m, h1, h2, h3, h4, h5, h6, h7, h8, h9, h10, h11⟩ := nearestRat_spec f hp N M hN hM
  exact ⟨q, A, B, m, h1, h2, h3, h4, h5, h6,
    fun hq T m' hT hm' => finer_grid_not_closer f.p A B m m' T h2 (by omega) (h8 hq) hm' hT h4,
    h7, h8, h9, h10, h11⟩

open Dec2Bin in
/-- **nearest_monotone**: `N/M ≤ N'/M'` ⟹ `nearestRat f N M ≤ nearestRat f N' M'` (the bit patterns of non-negative
floats are ordered like their values, `+∞` on top) -/
theorem nearest_monotone (f : Fmt) (hf : f = binary64 ∨ f = binary32) (N M N' M' : Nat) (hM : 0 < M) (hM' : 0 < M')
    (h : N * M' ≤ N' * M) : nearestRat f N M ≤ nearestRat f N' M' :=
  nearestRat_mono f (by rcases hf with h | h <;> subst h <;> decide) N M N' M' hM hM' h

open Dec2Bin in
/-- … and for decimal texts: a literal that spells a larger number never lexes to a smaller double -/
theorem nearest64_monotone (ds ds' : List Nat) (e e' : Int) (hds : ∀ d ∈ ds, d < 10) (hds' : ∀ d ∈ ds', d < 10)
    (h : (decimalRat ds e).1 * (decimalRat ds' e').2 ≤ (decimalRat ds' e').1 * (decimalRat ds e).2) :
    nearest64 ds e ≤ nearest64 ds' e' := by
  rw [nearest64_total ds e hds, nearest64_total ds' e' hds']
  have pos : ∀ (l : List Nat) (x : Int), 0 < (decimalRat l x).2 := by
    intro l x; unfold decimalRat; split
    · exact Nat.one_pos
    · exact Nat.pow_pos (by omega)
  exact nearest_monotone binary64 (.inl rfl) _ _ _ _ (pos ds e) (pos ds' e') h

open Dec2Bin in
/-- **nearest_exact_on_representable**: a positive finite value `m · 2^q` of the format (canonical
significand/exponent) is returned unchanged, as its own bit pattern. -/
theorem nearest_exact_on_representable (f : Fmt) (hf : f = binary64 ∨ f = binary32) (m : Nat) (q : Int)
    (hc : Canon f m q) :
    nearestRat f (m * 2 ^ q.toNat) (2 ^ (-q).toNat) = Nat.min (encode f m q) f.infBits :=
  nearestRat_exact f (by rcases hf with h | h <;> subst h <;> decide) m q hc

/-- non-vacuity: `1.5 = 3·2^-1` is canonical as `(3·2^51, -52)` and comes back as `0x3ff8000000000000`;
the smallest subnormal `(1, -1074)` comes back as `1`; halfway cases go to even -/
example : Dec2Bin.Canon Dec2Bin.binary64 (3 * 2 ^ 51) (-52) := by unfold Dec2Bin.Canon; decide
example : Dec2Bin.nearestRat Dec2Bin.binary64 3 2 = 0x3ff8000000000000 := by decide
set_option exponentiation.threshold 2000 in
example : Dec2Bin.nearestRat Dec2Bin.binary64 1 (2 ^ 1074) = 1 := by decide +kernel
set_option exponentiation.threshold 2000 in
example : Dec2Bin.nearestRat Dec2Bin.binary64 1 (2 ^ 1075) = 0 := by decide +kernel   -- tie → even (0)
set_option exponentiation.threshold 2000 in
example : Dec2Bin.nearestRat Dec2Bin.binary64 3 (2 ^ 1075) = 2 := by decide +kernel   -- tie → even (2)
example : Dec2Bin.nearest64 [9, 0, 0, 7, 1, 9, 9, 2, 5, 4, 7, 4, 0, 9, 9, 3] 0 = 0x4340000000000000 := by decide
example : Dec2Bin.narrow32 0x3ff0000010000000 = 0x3f800000 := by decide      -- 1 + 2^-24: tie → even

end RsslVerif.Thm.C10

import RsslVerif.Model.Usage
/-!
# The seeded variant C07-6 of `GlobalUsageAnalysis::recurse`: a single-pass memoising depth-first expansion

NEGATIVE example, in the vocabulary of the C02 model (`Model/Usage.lean`: a `HashMap<UsageSymbol, HashSet<..>>` is an
association list, a `HashSet` a duplicate-free list whose order is its iteration order, the iteration order of
`self.0.keys()` an explicit parameter).  The variant replaces "sweep the whole table until nothing changes" by

```rust
let mut expanded = HashSet::with_capacity(keys.len());
for key in keys { self.expand(key, &mut expanded); }

fn expand(&mut self, key, expanded) {
    if !expanded.insert(key) { return; }                       // every symbol is processed once
    let direct = Vec::from_iter(self.0.get(&key).unwrap().required.iter().cloned());
    for other in direct {
        self.expand(other, expanded);
        let inherited = self.0.get(&other).unwrap().required.clone();
        self.0.get_mut(&key).unwrap().required.extend(inherited);
    }
}
```

On a call cycle a symbol that is reached while it is still being expanded hands out the part of its set it has
gathered so far, and that part is what the caller keeps: which member of the cycle ends up incomplete follows the
key order and the order of the `required` sets.  `Thm.C07.memo_dfs_order_dependent_on_cycle` proves it with a
concrete table; the real loop (`Model.Usage.recurse`) is order independent on every table, cyclic or not
(`Thm.C02.closure_order_independent`).

Core Lean only.
-/
namespace RsslVerif.Model.MemoDfs
open RsslVerif.Model.Usage

/-- `expand`: the recursion is fuelled (a chain of nested calls never repeats a key, so `|table| + 1` suffices);
    the state is the table and the list of symbols already entered (`expanded`).  `direct` is the snapshot of the
    key's set taken before the loop, as in the Rust text. -/
def expand : Nat → Table → List Sym → Sym → Table × List Sym
  | 0, t, ex, _ => (t, ex)
  | n + 1, t, ex, key =>
    if key ∈ ex then (t, ex)
    else
      (val t key).foldl
        (fun (st : Table × List Sym) other =>
          let st' := expand n st.1 st.2 other
          (setKey st'.1 key (extend (val st'.1 key) (val st'.1 other)), st'.2))
        (t, key :: ex)

/-- the variant of `recurse`: `for key in keys { self.expand(key, &mut expanded) }` -/
def memoDfs (keys : List Sym) (t : Table) : Table :=
  (keys.foldl (fun (st : Table × List Sym) k => expand (t.length + 1) st.1 st.2 k) (t, [])).1

end RsslVerif.Model.MemoDfs

import RsslVerif.Model.OverloadT
import RsslVerif.Lemmas.OverloadLazy
/-!
# Candidates of any kind (`GCand`): reduction to their instances

For a fixed call every `GCand` either panics while it is instantiated, or is not viable, or *is* an ordinary candidate
(`GCand.instOf`).  When no instantiation panics, `resolveG` / `resolveGLazy` on the declared candidates are
`resolve` / `resolveLazy` on the instances (in declaration order), so every theorem of the first round carries over;
when one panics both are `Outcome.panic`.
-/
namespace RsslVerif.Lemmas.OverloadT
open RsslVerif.Gen.RankTable RsslVerif.Model.Conv RsslVerif.Model.Overload RsslVerif.Spec.Overload
open RsslVerif.Lemmas.Overload RsslVerif.Lemmas.Conv RsslVerif.Lemmas.OverloadLazy

/-- the arity guard of `find_function_type` -/
@[reducible] def ArityOk (args : List ETy) (g : GCand) : Prop := args.length ≤ g.arity ∧ g.nonDefault ≤ args.length

instance (args : List ETy) (g : GCand) : Decidable (ArityOk args g) := by unfold ArityOk; infer_instance

/-- an instantiated signature has as many parameters as the declared one -/
def WF (g : GCand) : Prop := ∀ args ps, g.inst args = .ok (some ps) → ps.length = g.arity

/-- the instantiation step of this candidate is reached and panics -/
def InstPanics (args : List ETy) (g : GCand) : Prop := ArityOk args g ∧ ∃ e, g.inst args = .error e

/-- the ordinary candidate this one is for the call, if it gets that far -/
def instOf (args : List ETy) (g : GCand) : Option Cand :=
  if args.length ≤ g.arity ∧ g.nonDefault ≤ args.length then
    match g.inst args with
    | .ok (some ps) => some ⟨g.id, ps, g.nonDefault⟩
    | _ => none
  else none

theorem instOf_id {args : List ETy} {g : GCand} {c : Cand} (h : instOf args g = some c) : c.id = g.id := by
  unfold instOf at h
  split at h
  · split at h
    · simp only [Option.some.injEq] at h; rw [← h]
    · simp at h
  · simp at h

theorem rankG_of_instOf {args : List ETy} {g : GCand} (hwf : WF g) {c : Cand} (h : instOf args g = some c) :
    rankG args g = rankCand args c := by
  unfold instOf at h
  split at h
  · rename_i hg
    split at h
    · rename_i ps hps
      simp only [Option.some.injEq] at h
      subst h
      have hl := hwf args ps hps
      unfold rankG rankCand
      simp only [hl, hg, and_self, if_true, hps]
      rfl
    · simp at h
  · simp at h

theorem rankG_of_instOf_none {args : List ETy} {g : GCand} (h : instOf args g = none) (hnp : ¬ InstPanics args g) :
    rankG args g = .notViable := by
  unfold instOf at h
  unfold rankG
  split at h
  · rename_i hg
    rw [if_pos hg]
    cases hi : g.inst args with
    | error e => exact absurd ⟨hg, e, hi⟩ hnp
    | ok r =>
      cases r with
      | none => rfl
      | some ps => rw [hi] at h; simp at h
  · rename_i hg
    rw [if_neg hg]

theorem rankG_instPanics {args : List ETy} {g : GCand} (h : InstPanics args g) : (rankG args g).isPanic = true := by
  obtain ⟨hg, e, he⟩ := h
  unfold ArityOk at hg
  unfold rankG
  rw [if_pos hg, he]
  rfl

/-- the instances of the declared candidates, in declaration order -/
def instances (args : List ETy) (cands : List GCand) : List Cand := cands.filterMap (instOf args)

theorem instances_ids_nodup {args : List ETy} {cands : List GCand} (h : (cands.map (·.id)).Nodup) :
    ((instances args cands).map (·.id)).Nodup := by
  induction cands with
  | nil => simp [instances]
  | cons g t ih =>
    simp only [List.map_cons, List.nodup_cons] at h
    simp only [instances, List.filterMap_cons]
    cases hi : instOf args g with
    | none => exact ih h.2
    | some c =>
      simp only [List.map_cons, List.nodup_cons]
      refine ⟨?_, ih h.2⟩
      intro hm
      obtain ⟨d, hd, hdc⟩ := List.mem_map.mp hm
      obtain ⟨g', hg', hgd⟩ := List.mem_filterMap.mp hd
      apply h.1
      rw [← instOf_id hi, ← hdc, instOf_id hgd]
      exact List.mem_map.mpr ⟨g', hg', rfl⟩

/-- the per-candidate results of the declared candidates and of their instances agree in everything `resolveResults`
    reads -/
theorem results_agree {args : List ETy} {cands : List GCand} (hwf : ∀ g ∈ cands, WF g)
    (hnp : ∀ g ∈ cands, ¬ InstPanics args g) :
    (cands.map (rankG args)).any CandResult.isPanic = ((instances args cands).map (rankCand args)).any CandResult.isPanic ∧
    (cands.map (rankG args)).filterMap CandResult.ranked? =
      ((instances args cands).map (rankCand args)).filterMap CandResult.ranked? := by
  induction cands with
  | nil => simp [instances]
  | cons g t ih =>
    have iht := ih (fun x hx => hwf x (List.mem_cons_of_mem _ hx)) (fun x hx => hnp x (List.mem_cons_of_mem _ hx))
    simp only [instances, List.filterMap_cons, List.map_cons, List.any_cons]
    cases hi : instOf args g with
    | none =>
      have hr := rankG_of_instOf_none hi (hnp g List.mem_cons_self)
      simp only [hr, CandResult.isPanic, Bool.false_or, CandResult.ranked?]
      exact iht
    | some c =>
      have hr := rankG_of_instOf (hwf g List.mem_cons_self) hi
      simp only [hr, List.map_cons, List.any_cons, List.filterMap_cons]
      refine ⟨by rw [iht.1]; rfl, ?_⟩
      cases (rankCand args c).ranked? with
      | none => exact iht.2
      | some x => simp only [List.cons.injEq, true_and]; exact iht.2

/-- **Reduction.** When no instantiation panics, resolving the declared candidates is resolving their instances. -/
theorem resolveG_eq_resolve_instances {args : List ETy} {cands : List GCand} (hwf : ∀ g ∈ cands, WF g)
    (hnp : ∀ g ∈ cands, ¬ InstPanics args g) :
    resolveG cands args = resolve (instances args cands) args := by
  obtain ⟨h1, h2⟩ := results_agree hwf hnp
  simp only [resolveG, resolveResults, resolve, h1, h2]

theorem resolveG_panics {args : List ETy} {cands : List GCand} {g : GCand} (hg : g ∈ cands)
    (hp : InstPanics args g) : resolveG cands args = .panic := by
  have : (cands.map (rankG args)).any CandResult.isPanic = true :=
    List.any_eq_true.mpr ⟨rankG args g, List.mem_map.mpr ⟨g, hg, rfl⟩, rankG_instPanics hp⟩
  simp only [resolveG, resolveResults, this, if_true]

/-! ## the evaluation order of the source -/

theorem resolveLazy_eq_resolveCasts (cands : List Cand) (args : List ETy) :
    resolveLazy cands args = resolveCasts (viableCasts args cands) := by
  unfold resolveLazy resolveCasts
  cases viableCasts args cands <;> rfl

theorem viableCastsG_eq {args : List ETy} {cands : List GCand} (hwf : ∀ g ∈ cands, WF g)
    (hnp : ∀ g ∈ cands, ¬ InstPanics args g) :
    viableCastsG args cands = viableCasts args (instances args cands) := by
  induction cands with
  | nil => rfl
  | cons g t ih =>
    have iht := ih (fun x hx => hwf x (List.mem_cons_of_mem _ hx)) (fun x hx => hnp x (List.mem_cons_of_mem _ hx))
    simp only [instances, List.filterMap_cons] at iht ⊢
    unfold viableCastsG
    by_cases hg : args.length ≤ g.arity ∧ g.nonDefault ≤ args.length
    · rw [if_pos hg]
      cases hi : g.inst args with
      | error e => exact absurd ⟨hg, e, hi⟩ (hnp g List.mem_cons_self)
      | ok r =>
        cases r with
        | none =>
          have : instOf args g = none := by unfold instOf; rw [if_pos hg, hi]
          simp only [this]
          exact iht
        | some ps =>
          have : instOf args g = some ⟨g.id, ps, g.nonDefault⟩ := by unfold instOf; rw [if_pos hg, hi]
          have hl := hwf g List.mem_cons_self args ps hi
          simp only [this]
          unfold viableCasts
          simp only [hl, hg, and_self, if_true, iht]
          rfl
    · rw [if_neg hg]
      have : instOf args g = none := by unfold instOf; rw [if_neg hg]
      simp only [this]
      exact iht

theorem viableCastsG_panics {args : List ETy} : ∀ {cands : List GCand} {g : GCand}, g ∈ cands → InstPanics args g →
    ∃ e, viableCastsG args cands = .error e
  | [], _, hg, _ => by simp at hg
  | x :: t, g, hg, hp => by
    unfold viableCastsG
    rcases List.mem_cons.mp hg with rfl | ht
    · obtain ⟨ha, e, he⟩ := hp
      unfold ArityOk at ha
      rw [if_pos ha, he]
      exact ⟨e, rfl⟩
    · obtain ⟨e, he⟩ := viableCastsG_panics ht hp
      split
      · split
        · exact ⟨_, rfl⟩
        · exact ⟨e, he⟩
        · split
          · exact ⟨_, rfl⟩
          · rw [he]; exact ⟨e, rfl⟩
      · exact ⟨e, he⟩

/-- **Refinement for candidates of every kind.** -/
theorem resolveGLazy_eq (cands : List GCand) (args : List ETy) (hwf : ∀ g ∈ cands, WF g)
    (hid : (cands.map (·.id)).Nodup) : resolveGLazy cands args = resolveG cands args := by
  by_cases hp : ∃ g ∈ cands, InstPanics args g
  · obtain ⟨g, hg, hpg⟩ := hp
    obtain ⟨e, he⟩ := viableCastsG_panics hg hpg
    rw [resolveG_panics hg hpg]
    unfold resolveGLazy
    rw [he]
    rfl
  · have hnp : ∀ g ∈ cands, ¬ InstPanics args g := fun g hg h => hp ⟨g, hg, h⟩
    rw [resolveG_eq_resolve_instances hwf hnp]
    unfold resolveGLazy
    rw [viableCastsG_eq hwf hnp, ← resolveLazy_eq_resolveCasts]
    exact resolveLazy_eq _ _ (instances_ids_nodup hid)

/-! ## ordinary functions and the generator's templates are well-formed `GCand`s -/

theorem toG_wf (c : Cand) : WF c.toG := by
  unfold WF
  intro args ps h
  simp only [Cand.toG, Except.ok.injEq, Option.some.injEq] at h
  rw [← h]
  rfl

theorem substParams_length (targs : List TArg) : ∀ (ps : List TParam) (out : List Param),
    substParams targs ps = .ok (some out) → out.length = ps.length
  | [], out, h => by
    simp only [substParams, Except.ok.injEq, Option.some.injEq] at h
    subst h; rfl
  | p :: ps, out, h => by
    simp only [substParams] at h
    split at h
    · simp at h
    · simp at h
    · split at h
      · simp at h
      · simp at h
      · rename_i rest hrest
        simp only [Except.ok.injEq, Option.some.injEq] at h
        rw [← h]
        simp only [List.length_cons, substParams_length targs ps rest hrest]

theorem tcand_wf (explicit : List TArg) (c : TCand) : WF (c.toG explicit) := by
  unfold WF
  intro args ps h
  simp only [TCand.toG, TCand.inst] at h ⊢
  split at h
  · split at h
    · exact substParams_length _ _ _ h
    · simp at h
  · split at h
    · simp at h
    · exact substParams_length _ _ _ h

/-- an ordinary function resolves as in the model of the first round -/
theorem rankG_toG (args : List ETy) (c : Cand) : rankG args c.toG = rankCand args c := by
  unfold rankG rankCand
  simp only [Cand.toG]
  rfl

theorem resolveG_plain (cands : List Cand) (args : List ETy) :
    resolveG (cands.map Cand.toG) args = resolve cands args := by
  simp only [resolveG, resolveResults, resolve, List.map_map]
  have : (rankG args ∘ Cand.toG) = rankCand args := by
    funext c; exact rankG_toG args c
  rw [this]

/-! ## viability of a declared candidate is viability of its instance -/

theorem instOf_of_ranked {args : List ETy} {g : GCand} {j : Nat} {rs : List Rank}
    (h : rankG args g = .ranked j rs) : ∃ c, instOf args g = some c := by
  unfold rankG at h
  unfold instOf
  split at h
  · rename_i hg
    rw [if_pos hg]
    split at h
    · simp at h
    · simp at h
    · rename_i ps hps
      rw [hps]
      exact ⟨_, rfl⟩
  · simp at h

theorem viableG_iff {args : List ETy} {g : GCand} (hwf : WF g) {rs : List Rank} :
    ViableG args g rs ↔ ∃ c, instOf args g = some c ∧ Viable args c rs := by
  constructor
  · intro h
    obtain ⟨c, hc⟩ := instOf_of_ranked h
    refine ⟨c, hc, ?_⟩
    unfold Viable
    rw [← rankG_of_instOf hwf hc, instOf_id hc]
    exact h
  · rintro ⟨c, hc, hv⟩
    unfold ViableG
    unfold Viable at hv
    rw [rankG_of_instOf hwf hc, ← instOf_id hc]
    exact hv

theorem mem_instances {args : List ETy} {cands : List GCand} {c : Cand} :
    c ∈ instances args cands ↔ ∃ g ∈ cands, instOf args g = some c := by
  simp [instances, List.mem_filterMap]

/-- a candidate that is not a panic is not an instantiation panic -/
theorem not_instPanics_of_noPanicG {args : List ETy} {cands : List GCand} (h : NoPanicG cands args) :
    ∀ g ∈ cands, ¬ InstPanics args g := by
  intro g hg hp
  have := rankG_instPanics hp
  rw [h g hg] at this
  exact absurd this (by simp)

theorem not_instPanics_of_ne_panic {args : List ETy} {cands : List GCand} (h : resolveG cands args ≠ .panic) :
    ∀ g ∈ cands, ¬ InstPanics args g :=
  fun g hg hp => h (resolveG_panics hg hp)

/-! ## the generator's templates: exact matches through `T`, and when instantiation cannot panic -/


theorem normScalar_id {s : Scalar} (h : s ≠ .intLiteral ∧ s ≠ .floatLiteral) : normScalar s = s := by
  cases s <;> simp_all [normScalar]

theorem normalizeTy_nonLiteral (t : Ty) (h : NonLiteral t.layer) : normalizeTy t = ⟨{}, t.layer⟩ := by
  unfold normalizeTy
  cases hl : t.layer with
  | scalar s => rw [hl] at h; simp [normScalar_id h]
  | vector s n => rw [hl] at h; simp [normScalar_id h]
  | matrix s x y => rw [hl] at h; simp [normScalar_id h]
  | enum i => rfl
  | other i => rfl

theorem find_same_layer_rvalue (a : ETy) :
    ∃ c, find a ⟨⟨{}, a.ty.layer⟩, .rvalue⟩ = .ok (some c) ∧ c.dimCast = none ∧ c.primary = none := by
  unfold find
  simp only [dimensionCast, primaryCast, modifierCast, if_true]
  simp
  by_cases hm : a.ty.mod = {} <;> simp [hm, sharedModifierCast]

theorem tvar_in_param_matches_exactly (id : Nat) (a : ETy) (h : NonLiteral a.ty.layer) :
    rankG [a] ((TCand.mk id [.type] [⟨.tvar 0, .in⟩] 1).toG []) = .ranked id [⟨.exact, .exact⟩] := by
  obtain ⟨c, hc, hd, hp⟩ := find_same_layer_rvalue a
  have hr : getRank c = .ok ⟨.exact, .exact⟩ := by
    unfold getRank; rw [hd, hp]; rfl
  simp [rankG, TCand.toG, TCand.inst, TCand.targs, gatherArgs, firstInfer, tryInfer, TArg.normalize, kindsAgree,
    substParams, substPTy, normalizeTy_nonLiteral a.ty h, zipRanks, Param.ety, InputModifier.needsLvalue, hc, hr]


theorem gatherArgs_length (params : List TParam) (explicit : List TArg) (args : List ETy) :
    ∀ (ks : List TKind) (i : Nat) (ts : List TArg), gatherArgs params explicit args i ks = some ts → ts.length = ks.length
  | [], _, ts, h => by
    simp only [gatherArgs, Option.some.injEq] at h
    subst h; rfl
  | k :: ks, i, ts, h => by
    simp only [gatherArgs] at h
    split at h
    · simp at h
    · split at h
      · simp at h
      · rename_i rest hrest
        simp only [Option.some.injEq] at h
        rw [← h]
        simp only [List.length_cons, gatherArgs_length params explicit args ks (i + 1) rest hrest]

theorem targs_length {c : TCand} {explicit : List TArg} {args : List ETy} {ts : List TArg}
    (h : c.targs explicit args = some ts) : ts.length = c.tkinds.length := by
  unfold TCand.targs at h
  split at h
  · simp at h
  · split at h
    · simp at h
    · rename_i ts' hts
      split at h
      · simp only [Option.some.injEq] at h
        rw [← h]; exact gatherArgs_length _ _ _ _ _ _ hts
      · simp at h

/-- with every mentioned template parameter declared, substituting into one parameter type reaches no panic site -/
theorem substPTy_scoped (ts : List TArg) (pat : PTy)
    (h : match pat with
      | .conc _ => True
      | .tvar k => k < ts.length
      | .tvec k _ => k < ts.length
      | .tmat k _ _ => k < ts.length
      | .tarr _ _ => False) :
    ∃ r, substPTy ts pat = .ok r := by
  cases pat with
  | conc t => exact ⟨_, rfl⟩
  | tvar k =>
    simp only at h
    simp only [substPTy, List.getElem?_eq_getElem h]
    cases ts[k] <;> exact ⟨_, rfl⟩
  | tvec k n =>
    simp only at h
    simp only [substPTy, List.getElem?_eq_getElem h]
    cases ts[k] with
    | const => exact ⟨_, rfl⟩
    | type t => simp only; cases isPlainScalar t <;> exact ⟨_, rfl⟩
  | tmat k x y =>
    simp only at h
    simp only [substPTy, List.getElem?_eq_getElem h]
    cases ts[k] with
    | const => exact ⟨_, rfl⟩
    | type t => simp only; cases isPlainScalar t <;> exact ⟨_, rfl⟩
  | tarr k n => exact absurd h (by simp)

theorem substParams_scoped (ts : List TArg) :
    ∀ (ps : List TParam), (∀ p ∈ ps, match p.pat with
      | .conc _ => True
      | .tvar k => k < ts.length
      | .tvec k _ => k < ts.length
      | .tmat k _ _ => k < ts.length
      | .tarr _ _ => False) →
      ∃ r, substParams ts ps = .ok r
  | [], _ => ⟨_, rfl⟩
  | p :: ps, h => by
    obtain ⟨rest, hrest⟩ := substParams_scoped ts ps (fun q hq => h q (List.mem_cons_of_mem _ hq))
    obtain ⟨r, hr⟩ := substPTy_scoped ts p.pat (h p List.mem_cons_self)
    simp only [substParams, hr, hrest]
    cases r with
    | none => exact ⟨_, rfl⟩
    | some t => cases rest <;> exact ⟨_, rfl⟩

theorem inst_scoped (c : TCand) (h : ScopedTemplate c) (explicit : List TArg) (args : List ETy) :
    ∃ r, c.inst explicit args = .ok r := by
  unfold TCand.inst
  by_cases he : c.tkinds.isEmpty = true
  · rw [if_pos he]
    by_cases hx : explicit.isEmpty = true
    · rw [if_pos hx]
      apply substParams_scoped
      intro p hp
      have := h p hp
      simp only [List.isEmpty_iff.mp he, List.length_nil] at this
      exact this
    · rw [if_neg hx]; exact ⟨_, rfl⟩
  · rw [if_neg he]
    cases ht : c.targs explicit args with
    | none => exact ⟨_, rfl⟩
    | some ts =>
      simp only
      apply substParams_scoped
      intro p hp
      have := h p hp
      rw [targs_length ht]
      exact this

/-- **no panic site is left in the template half** (since /repo 5dca4fc): a declared overload — ordinary function or
    function template with `T`, `vector<T, n>`, `matrix<T, x, y>` parameters, any template parameter kinds, any explicit
    template arguments, any call — is ranked or not viable, never a panic -/
theorem scoped_template_never_panics (c : TCand) (h : ScopedTemplate c) (explicit : List TArg) (args : List ETy) :
    (rankG args (c.toG explicit)).isPanic = false := by
  unfold rankG
  split
  · simp only [TCand.toG]
    obtain ⟨r, hr⟩ := inst_scoped c h explicit args
    rw [hr]
    cases r with
    | none => rfl
    | some ps =>
      simp only []
      obtain ⟨r', hr'⟩ := zipRanks_total ps args
      rw [hr']; cases r' <;> rfl
  · rfl

end RsslVerif.Lemmas.OverloadT

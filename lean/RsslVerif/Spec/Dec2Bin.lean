/-!
# Exact decimal → binary floating point, round to nearest, ties to even (core Lean, `Nat` arithmetic only)

This file is the *meaning* of "the double nearest to its decimal text" used by property C10 (and C13/C04).
A non-negative rational `N / M` is rounded to a binary format with `p` significant bits whose smallest
unit in the last place is `2 ^ emin` (binary64: `p = 53`, `emin = -1074`; binary32: `p = 24`, `emin = -149`).
The result is the IEEE-754 bit pattern (sign bit 0) as a `Nat`.

The definition is the textbook one: pick the exponent `q ≥ emin` such that `⌊x / 2^q⌋` has exactly `p` bits
(or `q = emin`), divide exactly, look at the remainder (`> ½`, `= ½` and odd → up), let the carry run into
the exponent field, saturate to infinity.  No floating point appears anywhere.
-/
namespace RsslVerif.Spec.Dec2Bin

/-- a binary interchange format -/
structure Fmt where
  /-- precision in bits, hidden bit included -/
  p : Nat
  /-- exponent of one unit in the last place of the subnormals -/
  emin : Int
  /-- width of the exponent field -/
  ebits : Nat
  deriving Repr, DecidableEq

def binary64 : Fmt := ⟨53, -1074, 11⟩
def binary32 : Fmt := ⟨24, -149, 8⟩

/-- bit pattern of `+∞` -/
def Fmt.infBits (f : Fmt) : Nat := (2 ^ f.ebits - 1) * 2 ^ (f.p - 1)

/-- `(A, B)` with `(N / M) / 2^q = A / B` exactly -/
def scale (N M : Nat) (q : Int) : Nat × Nat :=
  if 0 ≤ q then (N, M * 2 ^ q.toNat) else (N * 2 ^ (-q).toNat, M)

/-- the exponent of the last place of the result: the `q ≥ emin` for which `⌊x / 2^q⌋` has `p` bits -/
def chooseExp (f : Fmt) (N M : Nat) : Int :=
  let q1 : Int := (Nat.log2 N : Int) - (Nat.log2 M : Int) - ((f.p : Int) - 1)
  let ab := scale N M q1
  let q := if ab.1 / ab.2 < 2 ^ (f.p - 1) then q1 - 1 else q1
  if q < f.emin then f.emin else q

/-- `A / B` rounded to the nearest integer, ties to even -/
def roundQuot (A B : Nat) : Nat :=
  let m := A / B
  let r := A % B
  if B < 2 * r ∨ (2 * r = B ∧ m % 2 = 1) then m + 1 else m

/-- encoding of `m * 2^q` (`q ≥ emin`, `m ≤ 2^p`): exponent field and significand simply add, so a carry out
of the significand lands in the exponent field -/
def encode (f : Fmt) (m : Nat) (q : Int) : Nat :=
  (q - f.emin).toNat * 2 ^ (f.p - 1) + m

/-- the bit pattern of the value of format `f` nearest to `N / M` (`M > 0`) -/
def nearestRat (f : Fmt) (N M : Nat) : Nat :=
  if N = 0 then 0
  else
    let q := chooseExp f N M
    let ab := scale N M q
    Nat.min (encode f (roundQuot ab.1 ab.2) q) f.infBits

/-- value of a decimal digit string, most significant digit first -/
def ofDigits (base : Nat) (ds : List Nat) : Nat := ds.foldl (fun a d => a * base + d) 0

/-- nearest value of format `f` to `digits × 10^e`. The two cut-offs only avoid astronomically large powers:
beyond them the result is infinity (value ≥ 10^401) or zero (value < 10^-400) anyway. -/
def nearestDec (f : Fmt) (ds : List Nat) (e : Int) : Nat :=
  let D := ofDigits 10 ds
  if D = 0 then 0
  else if 400 < e then f.infBits
  else if e + ds.length < -400 then 0
  else if 0 ≤ e then nearestRat f (D * 10 ^ e.toNat) 1
  else nearestRat f D (10 ^ (-e).toNat)

/-- the exact rational `digits × 10^e` as numerator / denominator -/
def decimalRat (ds : List Nat) (e : Int) : Nat × Nat :=
  if 0 ≤ e then (ofDigits 10 ds * 10 ^ e.toNat, 1) else (ofDigits 10 ds, 10 ^ (-e).toNat)

def nearest64 (ds : List Nat) (e : Int) : Nat := nearestDec binary64 ds e
def nearest32 (ds : List Nat) (e : Int) : Nat := nearestDec binary32 ds e

/-- `(m, q)` with value `m * 2^q` of a finite non-negative bit pattern -/
def decode (f : Fmt) (bits : Nat) : Nat × Int :=
  let e := bits / 2 ^ (f.p - 1)
  let frac := bits % 2 ^ (f.p - 1)
  if e = 0 then (frac, f.emin) else (frac + 2 ^ (f.p - 1), f.emin + e - 1)

/-- a binary64 bit pattern (non-negative, not NaN) narrowed once to binary32: Rust's `f64 as f32` -/
def narrow32 (bits : Nat) : Nat :=
  if binary64.infBits ≤ bits then binary32.infBits
  else
    let mq := decode binary64 bits
    if 0 ≤ mq.2 then nearestRat binary32 (mq.1 * 2 ^ mq.2.toNat) 1
    else nearestRat binary32 mq.1 (2 ^ (-mq.2).toNat)

/-! ## What "correctly rounded, round to nearest, ties to even" means (IEEE 754-2008 §4.3.1, §7.4) -/

def absDiff (a b : Nat) : Nat := (a - b) + (b - a)

/-- the value `m · 2^q` (`q ≥ emin`) counted in units of `2^emin` (the smallest subnormal): every value of the
format is a whole number of such units -/
def units (f : Fmt) (m : Nat) (q : Int) : Nat := m * 2 ^ (q - f.emin).toNat

/-- `2^(emax+1)` in those units: the first magnitude that is no longer finite. (binary64: `2^1024 / 2^-1074`) -/
def overflowUnits (f : Fmt) : Nat := 2 ^ (f.p + 2 ^ f.ebits - 3)

/-- `⌊(N/M) / 2^q⌋` -/
def quotAt (N M : Nat) (q : Int) : Nat := (scale N M q).1 / (scale N M q).2

/-- `r` is the bit pattern IEEE 754 prescribes for rounding `x = N / M > 0` to the format `f` in
round-to-nearest-ties-to-even.  With `A0 / B0 = x / 2^emin` exactly (so `x` is `A0 / B0` units):

there is a significand/exponent pair `(m, q)` — *the result rounded as if the exponent range were unbounded
above* (§7.4) — such that
* `2^q` is the unit in the last place of `x`: `q ≥ emin`, `⌊x / 2^q⌋ < 2^p`, and `≥ 2^(p-1)` unless `q = emin`
  (subnormal range, gradual underflow); `m ≤ 2^p` (`= 2^p` when rounding carries into the next binade);
* **nearest**: no value `m' · 2^q'` with a `p`-bit significand and any exponent `q' ≥ emin` is closer to `x`;
* the error is at most half a unit in the last place, and **ties to even**: exactly half ⇒ `m` even;
* **overflow** (§7.4): if `m · 2^q` is below `2^(emax+1)` the result is its encoding, otherwise `+∞`. -/
def IsNearestEven (f : Fmt) (N M r : Nat) : Prop :=
  ∃ (m : Nat) (q : Int),
    f.emin ≤ q ∧ quotAt N M q < 2 ^ f.p ∧ (f.emin < q → 2 ^ (f.p - 1) ≤ quotAt N M q) ∧
    m ≤ 2 ^ f.p ∧ (f.emin < q → 2 ^ (f.p - 1) ≤ m) ∧
    (∀ (m' : Nat) (q' : Int), f.emin ≤ q' → m' < 2 ^ f.p →
      absDiff (scale N M f.emin).1 (units f m q * (scale N M f.emin).2) ≤
      absDiff (scale N M f.emin).1 (units f m' q' * (scale N M f.emin).2)) ∧
    2 * absDiff (scale N M f.emin).1 (units f m q * (scale N M f.emin).2)
      ≤ 2 ^ (q - f.emin).toNat * (scale N M f.emin).2 ∧
    (2 * absDiff (scale N M f.emin).1 (units f m q * (scale N M f.emin).2)
      = 2 ^ (q - f.emin).toNat * (scale N M f.emin).2 → m % 2 = 0) ∧
    r = if units f m q < overflowUnits f then encode f m q else f.infBits

end RsslVerif.Spec.Dec2Bin

import RsslVerif.Lemmas.GenMslExpr
/-!
# C02 — the floating-point `%=` of the Metal exporter (fixes 92d66eb + 35faaaa)

`a %= b` on a floating-point target is emitted as `a = metal::fmod(a, b)` when `is_plain_place(a)` and
`is_free_of_writes(b)` (tables `remAssignPlaceGuard / remAssignIndexGuard / remAssignWritesGuard`, re-extracted).  On the
scalar subset: a plain place is a local / parameter / global (`plainPlace_cases`), an operand free of writes is pure in the
sense of `Ir.pureExpr` (`freeOfWrites_pure`: the code's own guard gives what the typed semantics needs — the emitted form
reads the target BEFORE the right operand is evaluated, the typed `%=` after), and the emitted assignment simulates the
typed compound assignment (`sim_remAssignM`).
-/
namespace RsslVerif.Lemmas.GenMsl
open RsslVerif.Gen.HlslGenTables RsslVerif.Gen.MslGenTables RsslVerif.Model RsslVerif.Model.GenMsl RsslVerif.Model.MslDup
open RsslVerif.Spec.Sem
open RsslVerif.Model.Ir (Ty Var Const Dir)

/-- the one arm of the operator table with the floating-point assignment form is `RemainderAssignment`: `a = a % b` -/
theorem op_floatAssignM {o : IntrinsicOp} {s : List String} {err : String} {outer inner : IntrinsicOp} {b : BinOp}
    (h : mslOpForm o = .floatAssign s err outer inner b) :
    irOpSem o = .compound .mod ∧ astBinSem b = .compound .mod ∧ outer = .Assignment ∧ inner = .Modulus ∧
    s = ["Float16", "Float32", "Float64"] ∧ err = "ComplexRemainderAssignment" := by
  cases o <;> simp [mslOpForm] at h
  obtain ⟨rfl, rfl, rfl, rfl, rfl⟩ := h
  exact ⟨rfl, rfl, rfl, rfl, rfl, rfl⟩

theorem scalarIn_float3 {t : Ty} (ha : Ir.arithTy (some t) = true) :
    scalarIn ["Float16", "Float32", "Float64"] t = decide (t = .float) := by
  cases t <;> simp [Ir.arithTy] at ha <;> decide

theorem plainPlace_cases {x : Ir.Expr} (h : plainPlace x = true) : (∃ id, x = .var id) ∨ (∃ id, x = .global id) := by
  cases x with
  | var id => exact .inl ⟨id, rfl⟩
  | global id => exact .inr ⟨id, rfl⟩
  | _ => simp [plainPlace, plainPlaceD, toD, testD, findPlaceRow, remAssignPlaceGuard, opOK] at h

mutual
theorem freeOfWrites_pure : ∀ (e : Ir.Expr), freeOfWrites e = true → Ir.pureExpr e = true
  | .lit _, _ => by simp [Ir.pureExpr]
  | .var _, _ => by simp [Ir.pureExpr]
  | .global _, _ => by simp [Ir.pureExpr]
  | .cast ty e, h => by
    simp [freeOfWrites, freeOfWritesD, toD, testD, findPlaceRow, remAssignWritesGuard, opOK, testDFields, DFields.length] at h
    simpa [Ir.pureExpr] using freeOfWrites_pure e h
  | .tern c t f, h => by
    simp [freeOfWrites, freeOfWritesD, toD, testD, findPlaceRow, remAssignWritesGuard, opOK, testDFields, DFields.length] at h
    simp [Ir.pureExpr, freeOfWrites_pure c h.1, freeOfWrites_pure t h.2.1, freeOfWrites_pure f h.2.2]
  | .seq es, h => by
    simp [freeOfWrites, freeOfWritesD, toD, testD, findPlaceRow, remAssignWritesGuard, opOK] at h
  | .call f args, h => by
    simp [freeOfWrites, freeOfWritesD, toD, testD, findPlaceRow, remAssignWritesGuard, opOK] at h
  | .intr _ _ _ args, h => by
    simp [freeOfWrites, freeOfWritesD, toD, testD, findPlaceRow, remAssignWritesGuard, opOK] at h
  | .op o args, h => by
    have key : testDAll remAssignWritesGuard [] (toDs args) = true ∧ Ir.pureExpr (.op o args) = Ir.pureExprs args := by
      cases o <;>
        simp [freeOfWrites, freeOfWritesD, toD, testD, findPlaceRow, remAssignWritesGuard, opOK, testDFields, DFields.length,
          intrinsicOpIdx, intrinsicOpNames] at h <;> simp [h, Ir.pureExpr, irOpSem, remAssignWritesGuard]
    rw [key.2]
    exact freeOfWritesAll_pure args key.1
theorem freeOfWritesAll_pure : ∀ (es : Ir.Exprs), testDAll remAssignWritesGuard [] (toDs es) = true → Ir.pureExprs es = true
  | .nil, _ => by simp [Ir.pureExprs]
  | .cons e r, h => by
    simp only [toDs, testDAll, Bool.and_eq_true] at h
    simp [Ir.pureExprs, freeOfWrites_pure e (by simpa [freeOfWrites, freeOfWritesD] using h.1), freeOfWritesAll_pure r h.2]
end

theorem sim_remAssignM {W : World} {M : Msl.MWorld} {env : Ast.Env} {cx : Ctx} {vis : Var → Bool} (hag : AgreeM cx vis env)
    (hp : M.P = W.P) {S : Ir.Side} (hS : S.vis = vis) (hSs : S.sig = W.sig) (hSv : S.vty = cx.vty)
    {o : IntrinsicOp} (hsem : irOpSem o = .compound .mod) {f : String} (hname : f = Msl.fmodName)
    {x y : Ir.Expr} {x' y' : HlslAst.Expr} {ty t : Ty}
    (hgx : genExpr cx x = .ok x')
    (htx : Ir.typeOf W.sig cx.vty x = some .float)
    (hy : SimM W M env y y' ty) (hty : Ir.typeOf W.sig cx.vty y = some ty)
    (hpure : ∀ σ v σ', Ir.eval W y σ = some (v, σ') → σ' = σ)
    (ht : Ir.typeOf W.sig cx.vty (.op o (.cons x (.cons y .nil))) = some t)
    (hok : Ir.okM S (.op o (.cons x (.cons y .nil))) = true) :
    SimM W M env (.op o (.cons x (.cons y .nil))) (.bin .Assignment x' (.call f (.cons x' (.cons y' .nil)))) t := by
  simp only [Ir.okM, Bool.and_eq_true, Bool.not_eq_true', Bool.or_eq_true, decide_eq_true_eq, hSs, hSv, htx, hsem] at hok
  obtain ⟨⟨⟨⟨hokx, hoky⟩, hminx⟩, hminy⟩, hcond⟩ := hok
  simp only [Ir.typeOf, htx, hty, hsem] at ht
  simp at ht hminy
  obtain ⟨⟨rfl, hlv, _⟩, rfl⟩ := ht
  obtain ⟨tyy, evy⟩ := hy.plain hminy
  obtain ⟨xv, hxv⟩ := Option.isSome_iff_exists.mp hlv
  have hl' := lval_genM hag hS hxv hgx hokx
  obtain ⟨hvx, _⟩ := lval_tyM htx hxv
  have hvty := hag.vty
  have hbs : astBinSem .Assignment = .assign := rfl
  subst hname
  -- the target is a variable: the emitted identifier evaluates to its current value
  have hxe : Msl.typeOf M.msig env x' = some .float ∧ ∀ σ, Msl.eval M env x' σ = some (σ xv, σ) := by
    cases x with
    | var id =>
      simp [Ir.lvalOf] at hxv; subst hxv
      simp [genExpr] at hgx; subst hgx
      have hr := hag.res (.loc id) (by simpa [Ir.okM, hS] using hokx)
      simp only [Ctx.name] at hr
      simp [Msl.typeOf, Msl.eval, hr, hvty, hvx]
    | global id =>
      simp [Ir.lvalOf] at hxv; subst hxv
      simp [genExpr] at hgx; subst hgx
      have hr := hag.res (.glob id) (by simpa [Ir.okM, hS] using hokx)
      simp only [Ctx.name] at hr
      simp [Msl.typeOf, Msl.eval, hr, hvty, hvx]
    | _ => simp [Ir.lvalOf] at hxv
  constructor
  · simp [Msl.typeOf, hbs, hxe.1, tyy, Msl.argTypes, mTy, Ir.isMin]
  · intro σ
    simp only [Msl.eval, hbs, hl', Msl.typeOf, Msl.argTypes, hxe.1, tyy, if_true, Msl.evalFmod, hxe.2, Ir.eval, hsem, hxv, hvty, hvx, evy,
      beq_self_eq_true, Msl.convR, Msl.convert, hp]
    cases h1 : Ir.eval W y σ with
    | none => simp
    | some r =>
      obtain ⟨vb, σ1⟩ := r
      have := hpure σ vb σ1 h1
      subst this
      cases h3 : binop W.P .mod (σ1 xv) vb <;> simp [h3, mVal, Ir.isMin]
end RsslVerif.Lemmas.GenMsl

import RsslVerif.Spec.OverloadSeq
/-! Lemmas about `runSeq`: the state the type checker has accumulated at a call site is the declared prefix, and the
observation of a site is the resolution on `Spec.visibleAt`. -/
namespace RsslVerif.Lemmas.OverloadSeq
open RsslVerif.Model.Conv RsslVerif.Model.Overload RsslVerif.Spec.Overload

theorem runFrom_append (p : SeqPath) (st : SeqState) (k : Nat) (xs ys : List SeqItem) :
    runFrom p st k (xs ++ ys) = runFrom p st k xs ++ runFrom p (stateAfter p st xs) (k + xs.length) ys := by
  induction xs generalizing st k with
  | nil => simp [runFrom, stateAfter]
  | cons i is ih =>
    simp only [List.cons_append, runFrom, stateAfter, List.length_cons]
    rcases h : seqStep p st i with ⟨st', _ | o⟩
    · simp only [ih]; congr 2; omega
    · simp only [ih, List.cons_append]; congr 3; omega

theorem runFrom_pos (p : SeqPath) (st : SeqState) (k : Nat) (xs : List SeqItem) (n : Nat) (o : SiteObs)
    (h : (n, o) ∈ runFrom p st k xs) : k ≤ n ∧ n < k + xs.length := by
  induction xs generalizing st k with
  | nil => simp [runFrom] at h
  | cons i is ih =>
    simp only [runFrom] at h
    rcases hs : seqStep p st i with ⟨st', _ | o'⟩
    · rw [hs] at h
      have := ih _ _ h
      simp only [List.length_cons]; omega
    · rw [hs] at h
      simp only [List.mem_cons, Prod.mk.injEq] at h
      rcases h with ⟨rfl, _⟩ | h
      · simp only [List.length_cons]; omega
      · have := ih _ _ h
        simp only [List.length_cons]; omega

theorem allDeclared_append (xs ys : List SeqItem) : allDeclared (xs ++ ys) = allDeclared xs ++ allDeclared ys := by
  induction xs with
  | nil => rfl
  | cons i is ih => cases i <;> simp [allDeclared, ih]

/-- the free-function path: each scope's vector grows by exactly the declarations of that scope, in order -/
theorem stateAfter_free (st : SeqState) (xs : List SeqItem) :
    (stateAfter .free st xs).root = st.root ++ declared 0 xs ∧ (stateAfter .free st xs).ns = st.ns ++ declared 1 xs := by
  induction xs generalizing st with
  | nil => simp [stateAfter, declared]
  | cons i is ih =>
    cases i with
    | decl s c =>
      simp only [stateAfter, seqStep]
      by_cases h0 : s = 0
      · subst h0; simp [ih, declared]
      · by_cases h1 : s = 1
        · subst h1; simp [ih, declared]
        · simp [h0, h1, ih, declared]
    | define id => simp [stateAfter, seqStep, ih, declared]
    | site m x a => simp [stateAfter, seqStep, ih, declared]
    | helper j m a => simp [stateAfter, seqStep, ih, declared]
    | trigger j z =>
      simp only [stateAfter, seqStep, declared]
      split
      · simp [ih]
      · split
        · simp [ih]
        · split <;> simp [ih]

/-- the compiler's overloads and the user's share the root vector -/
theorem stateAfter_intrinsic (st : SeqState) (xs : List SeqItem) :
    (stateAfter .intrinsic st xs).root = st.root ++ allDeclared xs := by
  induction xs generalizing st with
  | nil => simp [stateAfter, allDeclared]
  | cons i is ih =>
    cases i with
    | decl s c => simp [stateAfter, seqStep, ih, allDeclared]
    | define id => simp [stateAfter, seqStep, ih, allDeclared]
    | site m x a => simp [stateAfter, seqStep, ih, allDeclared]
    | helper j m a => simp [stateAfter, seqStep, ih, allDeclared]
    | trigger j z =>
      simp only [stateAfter, seqStep, allDeclared]
      split
      · simp [ih]
      · split
        · simp [ih]
        · split <;> simp [ih]

theorem declaredIn_eq_declared (s : Nat) (xs : List SeqItem) : declaredIn s xs = declared s xs := by
  induction xs with
  | nil => rfl
  | cons i is ih => cases i <;> simp [declaredIn, declared, ih]

theorem declared_append (s : Nat) (xs ys : List SeqItem) : declared s (xs ++ ys) = declared s xs ++ declared s ys := by
  induction xs with
  | nil => rfl
  | cons i is ih =>
    cases i with
    | decl s' c => by_cases h : s' = s <;> simp [declared, h, ih]
    | define id => simp [declared, ih]
    | site m x a => simp [declared, ih]
    | helper j m a => simp [declared, ih]
    | trigger j z => simp [declared, ih]

theorem declared_of_not_decl (s : Nat) (it : SeqItem) (h : allDeclared [it] = []) : declared s [it] = [] := by
  cases it <;> simp_all [allDeclared, declared]

/-- the methods were all registered before the first body -/
theorem stateAfter_method (st : SeqState) (xs : List SeqItem) :
    (stateAfter .method st xs).root = st.root ∧ (stateAfter .method st xs).ns = st.ns := by
  induction xs generalizing st with
  | nil => simp [stateAfter]
  | cons i is ih =>
    cases i with
    | decl s c => simp [stateAfter, seqStep, ih]
    | define id => simp [stateAfter, seqStep, ih]
    | site m x a => simp [stateAfter, seqStep, ih]
    | helper j m a => simp [stateAfter, seqStep, ih]
    | trigger j z =>
      simp only [stateAfter, seqStep]
      split
      · simp [ih]
      · split
        · simp [ih]
        · split <;> simp [ih]

/-- **the vector `find_identifier` hands over at a call between `pre` and `post` is the specification's visible set** -/
theorem visible_eq_visibleAt (p : SeqPath) (pre post : List SeqItem) (it : SeqItem) (hit : allDeclared [it] = [])
    (m : Nat) :
    (stateAfter p (SeqState.init p (pre ++ it :: post)) pre).visible p m = visibleAt p pre post m := by
  cases p with
  | free =>
    have h := stateAfter_free (SeqState.init .free (pre ++ it :: post)) pre
    simp only [SeqState.init, List.nil_append] at h
    simp only [SeqState.visible, visibleAt, SeqState.init, h.1, h.2]
    match m with
    | 0 => rfl
    | 1 => rfl
    | 2 => rfl
    | _ + 3 => rfl
  | method =>
    have hr := stateAfter_method (SeqState.init .method (pre ++ it :: post)) pre
    have this : ∀ s, declaredIn s (pre ++ it :: post) = declared s (pre ++ post) := by
      intro s
      rw [declaredIn_eq_declared, declared_append, declared_append, show it :: post = [it] ++ post from rfl,
        declared_append, declared_of_not_decl s it hit]; rfl
    simp only [SeqState.init, this] at hr
    simp only [SeqState.visible, visibleAt, SeqState.init, this]
    simp only [hr.1, hr.2]
    match m with
    | 0 => rfl
    | 1 => rfl
    | 2 => rfl
    | 3 => rfl
    | _ + 4 => rfl
  | intrinsic =>
    have hr := stateAfter_intrinsic (SeqState.init .intrinsic (pre ++ it :: post)) pre
    simp only [SeqState.init, List.nil_append] at hr
    simp only [SeqState.visible, visibleAt, SeqState.init, hr]

/-- what the site between `pre` and `post` shows -/
theorem site_obs_iff (p : SeqPath) (pre post : List SeqItem) (m : Nat) (x : List TArg) (a : List ETy) (o : SiteObs) :
    (pre.length, o) ∈ runSeq p (pre ++ .site m x a :: post) ↔ o = siteObs (visibleAt p pre post m) x a := by
  unfold runSeq
  rw [runFrom_append]
  simp only [Nat.zero_add, runFrom, seqStep, List.mem_append, List.mem_cons, Prod.mk.injEq, true_and]
  rw [visible_eq_visibleAt p pre post (.site m x a) rfl m]
  constructor
  · rintro (h | h | h)
    · have := runFrom_pos _ _ _ _ _ _ h; omega
    · exact h
    · have := runFrom_pos _ _ _ _ _ _ h; omega
  · intro h; exact Or.inr (Or.inl h)

/-- what a call that may instantiate helper `j` shows: nothing new if the instance has a body, else the resolution of the
    call in the helper's body on what is visible *at this call* -/
theorem trigger_obs (p : SeqPath) (pre post : List SeqItem) (j z : Nat) (o : SiteObs)
    (h : (pre.length, o) ∈ runSeq p (pre ++ .trigger j z :: post)) :
    o = .cached ∨ o = .noname ∨
      ∃ m a, lookupHelper j (stateAfter p (SeqState.init p (pre ++ .trigger j z :: post)) pre).helpers = some (m, a) ∧
        o = siteObs (visibleAt p pre post m) [] a := by
  unfold runSeq at h
  rw [runFrom_append] at h
  simp only [Nat.zero_add, runFrom, List.mem_append] at h
  rcases h with h | h
  · have := runFrom_pos _ _ _ _ _ _ h; omega
  · generalize hst : stateAfter p (SeqState.init p (pre ++ .trigger j z :: post)) pre = st at h ⊢
    have hv : ∀ m, st.visible p m = visibleAt p pre post m := by
      intro m; rw [← hst]; exact visible_eq_visibleAt p pre post (.trigger j z) rfl m
    simp only [seqStep] at h
    cases hl : lookupHelper j st.helpers with
    | none =>
      rw [hl] at h
      simp only [List.mem_cons, Prod.mk.injEq, true_and] at h
      rcases h with h | h
      · exact Or.inr (Or.inl h)
      · have := runFrom_pos _ _ _ _ _ _ h; omega
    | some ma =>
      obtain ⟨m, a⟩ := ma
      rw [hl] at h
      cases hb : st.built.contains (j, z) with
      | true =>
        simp only [hb, if_true, List.mem_cons, Prod.mk.injEq, true_and] at h
        rcases h with h | h
        · exact Or.inl h
        · have := runFrom_pos _ _ _ _ _ _ h; omega
      | false =>
        simp only [hb, Bool.false_eq_true, if_false, List.mem_cons, Prod.mk.injEq, true_and] at h
        rcases h with h | h
        · exact Or.inr (Or.inr ⟨m, a, rfl, by rw [h, hv]⟩)
        · have := runFrom_pos _ _ _ _ _ _ h; omega

end RsslVerif.Lemmas.OverloadSeq

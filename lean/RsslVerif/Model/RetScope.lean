/-! # C03: which return type a `return` statement is checked against

Executable model (core Lean only) of how the type checker finds "the return type of the current function" while function
bodies are checked **re-entrantly**: naming a struct template with new arguments in the middle of a function body checks every
method body of the new struct right there (`ensure_struct_template` → `instantiate_struct_template` →
`build_struct_from_template` → `parse_struct_internal` → `parse_function_body`), calling a function template checks the body of
the new instance right there (`build_function_template_body` → `parse_function_body`).

What the code does (typer/src/typer/scopes.rs, functions.rs, statements.rs; pinned by `Gen.RetScope`):
* every scope has a field `function_return_type : Option TypeId`; `set_function_return_type` stores the declared return type
  in the scope pushed for the function's signature (`parse_function_signature`), `build_function_template_signature` stores the
  substituted one in the scope of the instance; nothing else writes it;
* `parse_function_body` re-enters that scope (`revisit_function` = `revisit_scope`), checks the statements, and pops it;
* `return e;` / `return;` ask `get_current_return_type` = `search_scopes(|s| s.function_return_type)`: the innermost scope on
  the parent chain of `current_scope` that has one (panic `Not inside function` if none);
* an instantiation saves `current_scope`, jumps to the scope the template was declared in, pushes / re-enters the scopes of
  the instance and restores `current_scope` afterwards.

The scope arena is modelled by what `search_scopes` can see of it: the **chain** of scopes from `current_scope` to the root,
innermost first.  A frame carries `function_return_type` and the type bound to the template parameter `T` in that scope
(`register_typedef` in `instantiate_struct_template`, the `TemplateType` symbol replaced in
`build_function_template_signature`).  Templates are declared at the root (as in every generated program). -/
namespace RsslVerif.Model.RetScope

/-- the types of the fragment: float, int, bool, float2, int2, two structs, void -/
inductive Code where
  | f | i | b | f2 | i2 | s0 | s1 | void
  deriving DecidableEq, Repr, Inhabited

def Code.name : Code → String
  | .f => "f" | .i => "i" | .b => "b" | .f2 => "f2" | .i2 => "i2" | .s0 => "s0" | .s1 => "s1" | .void => "v"

def Code.ofName? : String → Option Code
  | "f" => some .f | "i" => some .i | "b" => some .b | "f2" => some .f2 | "i2" => some .i2
  | "s0" => some .s0 | "s1" => some .s1 | "v" => some .void | _ => none

def Code.numeric : Code → Bool
  | .f | .i | .b | .f2 | .i2 => true
  | _ => false

/-- `ImplicitConversion::find(got, want.to_rvalue())` succeeds (restricted to the eight types: numeric scalars and
    2-vectors convert to each other, a struct / void only to itself) -/
def conv (got want : Code) : Bool := got == want || (got.numeric && want.numeric)

/-- a type as written: a concrete type or the template parameter `T` -/
inductive TyRef where
  | lit (c : Code)
  | tparam
  deriving DecidableEq, Repr

mutual
/-- statements of a function body that matter here -/
inductive Item where
  /-- `return;` (`none`) / `return <value of the given type>;` -/
  | ret (o : Option TyRef)
  /-- a nested block (`if (..) { .. }`): `push_scope` .. `pop_scope` -/
  | blk (b : Items)
  /-- a struct template with the given methods is named for the first time, with the given argument.  `decl`: the statement is
      a declaration `B<A> x;` — `StatementKind::AmbiguousDeclarationOrExpression`: `parse_localtype(..).is_ok()` decides; when
      the type (hence the instantiation) fails the statement is re-read as the expression `B < A > x` and the error reported is
      that one's (`ExpectedExpressionReceivedType`: `B` names a type) -/
  | st (decl : Bool) (arg : TyRef) (ms : Methods)
  /-- a function template `template<typename T> rt name(T x) { b }` is called for the first time with `T := arg` -/
  | ft (name : String) (rt : TyRef) (arg : TyRef) (b : Items)
inductive Items where
  | nil
  | cons (i : Item) (r : Items)
inductive Methods where
  | nil
  | cons (name : String) (rt : TyRef) (b : Items) (r : Methods)
end

/-- root definitions: a free function, an ordinary struct with methods -/
inductive Root where
  | fn (name : String) (rt : Code) (b : Items)
  | sm (ms : Methods)

/-- what `search_scopes` can read of one scope -/
structure Frame where
  /-- `ScopeData::function_return_type` -/
  fnRet : Option Code := none
  /-- the type the name `T` is bound to in this scope -/
  targ : Option Code := none
  deriving DecidableEq, Repr

/-- a checked return statement: the function whose body receives the statement, the type it was converted to, the operand -/
structure Ev where
  owner : String
  want : Code
  got : Option Code
  deriving DecidableEq, Repr

inductive Err where
  /-- `TyperError::WrongTypeInReturnStatement(got, expected, _)` -/
  | wrongReturn (got want : Code)
  | panic (msg : String)
  /-- `T` outside a template: `UnknownType` -/
  | unknownTypeName
  /-- `TyperError::ExpectedExpressionReceivedType`: the expression reading of a declaration whose type was refused -/
  | expectedExpression
  deriving DecidableEq, Repr

/-- `get_current_return_type`'s `search_scopes(|s| s.function_return_type)` -/
def currentRet (chain : List Frame) : Option Code := chain.findSome? (·.fnRet)

/-- lookup of the type name `T` through the scopes -/
def currentT (chain : List Frame) : Option Code := chain.findSome? (·.targ)

def resolve (chain : List Frame) : TyRef → Option Code
  | .lit c => some c
  | .tparam => currentT chain

/-- the root scope -/
def rootChain : List Frame := [{}]

/-- `pop_scope`: to the parent; `assert_ne!(self.current_scope, usize::MAX)` -/
def popScope : List Frame → Except Err (List Frame)
  | _ :: p :: r => .ok (p :: r)
  | _ => .error (.panic "pop_scope: left the root scope")

/-- `StatementKind::Return` of `parse_statement`: the operand is typed first, then `get_current_return_type` is asked -/
def elabRet (owner : String) (chain : List Frame) : Option TyRef → Except Err (List Ev)
  | none =>
    match currentRet chain with
    | none => .error (.panic "Not inside function")
    | some want => if want == .void then .ok [⟨owner, want, none⟩] else .error (.wrongReturn .void want)
  | some r =>
    match resolve chain r with
    | none => .error .unknownTypeName
    | some got =>
      match currentRet chain with
      | none => .error (.panic "Not inside function")
      | some want => if conv got want then .ok [⟨owner, want, some got⟩] else .error (.wrongReturn got want)

mutual
/-- one statement; `owner` is the function whose `parse_function_body` call receives the resulting IR statement; the chain is
    threaded the way `current_scope` is mutated -/
def elabItem (owner : String) (chain : List Frame) : Item → Except Err (List Frame × List Ev)
  | .ret o =>
    match elabRet owner chain o with
    | .error e => .error e
    | .ok evs => .ok (chain, evs)
  | .blk b =>
    match elabItems owner ({} :: chain) b with
    | .error e => .error e
    | .ok (c, evs) =>
      match popScope c with
      | .error e => .error e
      | .ok c' => .ok (c', evs)
  | .st decl arg ms =>
    -- the template argument is parsed at the place of use
    match resolve chain arg with
    | none => .error (if decl then .expectedExpression else .unknownTypeName)
    | some a =>
      -- ensure_struct_template: `let current_scope = self.current_scope; self.current_scope = struct_template_data.scope;`
      -- instantiate_struct_template: push_scope_with_name, register_typedef(T), pop_scope; parse_struct_internal: revisit_scope
      match elabMethods ({ targ := some a } :: rootChain) ms with
      -- a panic is not an `Err(..)`; any error of the declaration reading is replaced by the expression reading's
      | .error (.panic m) => .error (.panic m)
      | .error e => .error (if decl then .expectedExpression else e)
      | .ok (c, evs) =>
        -- `context.pop_scope()` at the end of parse_struct_internal
        match popScope c with
        | .error e => .error e
        -- `self.current_scope = current_scope;`
        | .ok _ => .ok (chain, evs)
  | .ft name rt arg b =>
    match resolve chain arg with
    | none => .error .unknownTypeName
    | some a =>
      -- build_function_template_signature: a new scope below the template's parent holding `T := a` and
      -- `function_return_type = Some(signature.return_type.return_type)` with the templates applied
      match resolve [{ targ := some a }] rt with
      | none => .error .unknownTypeName
      | some r =>
        -- build_function_template_body: `let caller_scope_position = self.current_scope; self.current_scope = parent_scope_id;`
        -- parse_function_body: revisit_function .. pop_scope_with_locals
        match elabItems name ({ fnRet := some r, targ := some a } :: rootChain) b with
        | .error e => .error e
        | .ok (c, evs) =>
          match popScope c with
          | .error e => .error e
          | .ok c' =>
            -- `assert_eq!(self.current_scope, parent_scope_id); self.current_scope = caller_scope_position;`
            if c' = rootChain then .ok (chain, evs) else .error (.panic "assertion `left == right` failed (scopes.rs)")
def elabItems (owner : String) (chain : List Frame) : Items → Except Err (List Frame × List Ev)
  | .nil => .ok (chain, [])
  | .cons i r =>
    match elabItem owner chain i with
    | .error e => .error e
    | .ok (c1, e1) =>
      match elabItems owner c1 r with
      | .error e => .error e
      | .ok (c2, e2) => .ok (c2, e1 ++ e2)
/-- the method bodies of a struct, in order (`for (ast_func, id, signature) in methods_to_parse`); `chain` is the struct's scope.
    (The signatures were parsed before: push_scope, set_function_return_type, pop_scope.) -/
def elabMethods (chain : List Frame) : Methods → Except Err (List Frame × List Ev)
  | .nil => .ok (chain, [])
  | .cons name rt b r =>
    match resolve chain rt with
    | none => .error .unknownTypeName
    | some rr =>
      -- revisit_function(id): the scope that `set_function_return_type` wrote to
      match elabItems name ({ fnRet := some rr } :: chain) b with
      | .error e => .error e
      | .ok (c, e1) =>
        match popScope c with
        | .error e => .error e
        | .ok c1 =>
          match elabMethods c1 r with
          | .error e => .error e
          | .ok (c2, e2) => .ok (c2, e1 ++ e2)
end

/-- a root definition, checked at the root scope -/
def elabRoot : Root → Except Err (List Ev)
  | .fn name rt b =>
    match elabItems name ({ fnRet := some rt } :: rootChain) b with
    | .error e => .error e
    | .ok (c, evs) =>
      match popScope c with
      | .error e => .error e
      | .ok _ => .ok evs
  | .sm ms =>
    match elabMethods ({} :: rootChain) ms with
    | .error e => .error e
    | .ok (c, evs) =>
      match popScope c with
      | .error e => .error e
      | .ok _ => .ok evs

def elabProg : List Root → Except Err (List Ev)
  | [] => .ok []
  | r :: rs =>
    match elabRoot r with
    | .error e => .error e
    | .ok e1 =>
      match elabProg rs with
      | .error e => .error e
      | .ok e2 => .ok (e1 ++ e2)

/-! ## the names of the functions a program defines (for the observation) -/
mutual
def namesItem : Item → List String
  | .ret _ => []
  | .blk b => namesItems b
  | .st _ _ ms => namesMethods ms
  | .ft name _ _ b => name :: namesItems b
def namesItems : Items → List String
  | .nil => []
  | .cons i r => namesItem i ++ namesItems r
def namesMethods : Methods → List String
  | .nil => []
  | .cons name _ b r => name :: namesItems b ++ namesMethods r
end

def namesRoot : Root → List String
  | .fn name _ b => name :: namesItems b
  | .sm ms => namesMethods ms

end RsslVerif.Model.RetScope

//! C07: compilation is deterministic.
//!
//! request : C07.repeat \t <dx|vk|vkba|msl> \t <all|nopipeline> \t <gen:<seed> | clash:<seed> | share:<seed> | fix3:<seed> | inline:<seed> | cycle:<seed> | wave:<seed> | disk:<root>|<entry>
//!                                                                  | diag:<family>:<seed> | src:<hex of the source>>
//! observe : digest of sources + stages + metadata + pipeline state, or of the fully rendered diagnostic
//!           (message, file, line, column, source excerpt, notes) followed by `|<stage>/<error variant>`
//! oracle  : the same input compiled 5x (accepted programs) / 8x (the diagnostics streams and `cycle:`) in this process and
//!           once in each of 3 fresh processes (different std RandomState seeds for every HashMap/HashSet
//!           instance) gives byte-identical results.
use crate::compile_util::*;
use crate::progen::*;
use crate::util::*;

#[path = "c07_diag.rs"]
mod diag;
#[path = "c07_cycle.rs"]
mod cycle;
#[path = "c07_wave.rs"]
mod wave;

/// One input of the property: files on disk or in memory, and whether the layout check is requested
struct Input {
    disk: Option<(String, String)>,
    files: Vec<(String, String)>,
    layout: bool,
    defines: Vec<(String, String)>,
}

fn mem(src: String) -> Input {
    Input { disk: None, files: vec![("main.rssl".to_string(), src)], layout: false, defines: Vec::new() }
}

fn source_of(id: &str) -> Option<Input> {
    if let Some(rest) = id.strip_prefix("defs:") {
        // defs:<NAME=VALUE,...>|<inner id>: the same input compiled with client defines
        let (defs, inner) = rest.split_once('|')?;
        let mut input = source_of(inner)?;
        for d in defs.split(',').filter(|d| !d.is_empty()) {
            let (n, v) = d.split_once('=').unwrap_or((d, "1"));
            input.defines.push((n.to_string(), v.to_string()));
        }
        return Some(input);
    }
    if let Some(spec) = id.strip_prefix("resv:") {
        return Some(mem(reserved_program(spec)?));
    }
    if let Some(seed) = id.strip_prefix("gen:") {
        let seed: u64 = seed.parse().ok()?;
        let prog = gen_program(&mut Rng::new(seed), &stress_opts());
        Some(mem(render(&prog, &|_| true)))
    } else if let Some(seed) = id.strip_prefix("clash:") {
        let seed: u64 = seed.parse().ok()?;
        Some(mem(clash_program(&mut Rng::new(seed))))
    } else if let Some(seed) = id.strip_prefix("inline:") {
        let seed: u64 = seed.parse().ok()?;
        Some(mem(inline_program(&mut Rng::new(seed))))
    } else if let Some(seed) = id.strip_prefix("cycle:") {
        let seed: u64 = seed.parse().ok()?;
        Some(mem(cycle::cycle_program(&mut Rng::new(seed)).0))
    } else if let Some(seed) = id.strip_prefix("wave:") {
        let seed: u64 = seed.parse().ok()?;
        Some(mem(wave::wave_program(&mut Rng::new(seed)).0))
    } else if let Some(seed) = id.strip_prefix("share:") {
        let seed: u64 = seed.parse().ok()?;
        Some(mem(share_program(&mut Rng::new(seed))))
    } else if let Some(seed) = id.strip_prefix("fix3:") {
        let seed: u64 = seed.parse().ok()?;
        Some(mem(fix3_program(&mut Rng::new(seed))))
    } else if let Some(rest) = id.strip_prefix("disk:") {
        let (root, entry) = rest.split_once('|')?;
        Some(Input { disk: Some((root.to_string(), entry.to_string())), files: Vec::new(), layout: false, defines: Vec::new() })
    } else if let Some(rest) = id.strip_prefix("diag:") {
        let (family, seed) = rest.split_once(':')?;
        let seed: u64 = seed.parse().ok()?;
        if FAMILIES_CFG.contains(&family) {
            return cfg_input(family, &mut Rng::new(seed));
        }
        let p = diag::diag_program(family, &mut Rng::new(seed))?;
        Some(Input { disk: None, files: p.files, layout: p.layout, defines: Vec::new() })
    } else if let Some(h) = id.strip_prefix("src:") {
        Some(mem(String::from_utf8(unhex(h)?).ok()?))
    } else {
        None
    }
}

/// Rejections that come from the CONFIGURATION of a compilation, not from the text of the entry file (coverage pass 2:
/// `InvalidDefine` and the entry file's `FailedToFindFile` in preprocess/src/preprocess.rs were never executed)
pub const FAMILIES_CFG: &[&str] = &["cfg_bad_define", "cfg_no_entry", "cfg_define_breaks_source"];

fn cfg_input(family: &str, rng: &mut Rng) -> Option<Input> {
    let k = rng.range(3, 6) as usize;
    let ok_program = "RWByteAddressBuffer g_out;\n#ifndef SCALE\n#define SCALE 1\n#endif\n[numthreads(1, 1, 1)]\nvoid entry()\n{\n    g_out.Store(0, SCALE);\n}\nPipeline P\n{\n    ComputeShader = entry;\n}\n";
    match family {
        // k client defines that are not a `name value` line: the first one of the LIST is the one reported
        "cfg_bad_define" => {
            let bad: [(&str, &str); 9] = [
                ("1BAD", "1"), ("GOOD_A", "\"unterminated"), ("GOOD_B", "a\nb"), ("", "3"), ("F(", "x"), ("GOOD_C", "/* open"),
                ("A B", "C"), ("G(x,", "x"), ("H(x x)", "x"),
            ];
            let mut input = mem(ok_program.to_string());
            // well-formed defines first (one of them given twice: the later one replaces the earlier one)
            for i in 0..rng.below(3) {
                input.defines.push((format!("FINE_{}", i), format!("{}", rng.below(9))));
            }
            if rng.chance(1, 2) {
                input.defines.push(("SCALE".into(), "2".into()));
                input.defines.push(("SCALE".into(), "3".into()));
            }
            for _ in 0..k {
                let (n, v) = *rng.pick(&bad);
                input.defines.push((n.to_string(), v.to_string()));
            }
            Some(input)
        }
        // no file under the entry name: k other files are there, some of them including each other
        "cfg_no_entry" => {
            let mut files = Vec::new();
            for i in 0..k {
                let name = match rng.below(3) { 0 => format!("main{}.rssl", i), 1 => format!("dir{}/main.rssl", i), _ => format!("MAIN.RSSL.{}", i) };
                files.push((name, ok_program.to_string()));
            }
            Some(Input { disk: None, files, layout: false, defines: Vec::new() })
        }
        // well-formed client defines that make the SOURCE ill-formed in k places: the diagnostic points into the source
        // through a macro defined in no file
        "cfg_define_breaks_source" => {
            let mut src = String::from("RWByteAddressBuffer g_out;\n");
            let mut input_defines = Vec::new();
            for i in 0..k {
                let name = format!("CFG_{}", rng.below(1000) * 10 + i as u64);
                match rng.below(4) {
                    0 => { src.push_str(&format!("static int v_{} = {};\n", i, name)); input_defines.push((name, "undeclared_thing".to_string())); }
                    1 => { src.push_str(&format!("static {} w_{} = 0;\n", name, i)); input_defines.push((name, "NoSuchType".to_string())); }
                    2 => { src.push_str(&format!("static int a_{}[{}];\n", i, name)); input_defines.push((name, "(0 - 4)".to_string())); }
                    _ => { src.push_str(&format!("static float3 s_{} = float3(1, 2, 3).{};\n", i, name)); input_defines.push((name, "xyzq".to_string())); }
                }
            }
            src.push_str("[numthreads(1, 1, 1)]\nvoid entry()\n{\n}\nPipeline P\n{\n    ComputeShader = entry;\n}\n");
            let mut input = mem(src);
            // the order of the define list is part of the input; shuffle it so it differs from the order of use
            for i in (1..input_defines.len()).rev() {
                let j = rng.below(i as u64 + 1) as usize;
                input_defines.swap(i, j);
            }
            input.defines = input_defines;
            Some(input)
        }
        _ => None,
    }
}

fn is_diag_stream(id: &str) -> bool {
    id.starts_with("diag:") || id.starts_with("src:")
}

/// Programs whose emitted names need generated suffixes in several scopes at once: the same
/// overloaded / target-reserved base names declared in the global scope and in 2-4 namespaces,
/// plus structs and globals sharing those names across scopes.
fn clash_program(rng: &mut Rng) -> String {
    let bases = ["pick", "main", "kernel", "select", "vertex", "fragment", "float16_t", "helper", "constant", "device"];
    let nns = rng.range(2, 4) as usize;
    let nbases = rng.range(1, 3) as usize;
    let mut chosen: Vec<&str> = Vec::new();
    while chosen.len() < nbases {
        let b = *rng.pick(&bases);
        if !chosen.contains(&b) {
            chosen.push(b);
        }
    }
    let mut s = String::from("static int s_total = 0;\n");
    let mut calls: Vec<String> = Vec::new();
    let scopes: Vec<Option<String>> = std::iter::once(None).chain((0..nns).map(|k| Some(format!("ns{}", k)))).collect();
    for scope in &scopes {
        if let Some(ns) = scope {
            s.push_str(&format!("namespace {}\n{{\n", ns));
        }
        for b in &chosen {
            if scope.is_none() && rng.chance(1, 2) {
                continue;
            }
            let overloads = rng.range(1, 3);
            let tys = ["int", "float", "uint"];
            for o in 0..overloads {
                let ty = tys[o as usize];
                s.push_str(&format!("{} {}({} x)\n{{\n    s_total = s_total + 1;\n    return x;\n}}\n", ty, b, ty));
                let arg = match ty { "int" => "1", "float" => "1.0f", _ => "1u" };
                let q = match scope { Some(ns) => format!("{}::", ns), None => String::new() };
                calls.push(format!("    {}{}({});\n", q, b, arg));
            }
        }
        if rng.chance(1, 2) {
            s.push_str("struct Data\n{\n    float value;\n};\n");
        }
        if scope.is_some() {
            s.push_str("}\n");
        }
    }
    s.push_str("[numthreads(1, 1, 1)]\nvoid entry()\n{\n");
    for c in &calls {
        s.push_str(c);
    }
    s.push_str("}\nPipeline P\n{\n    ComputeShader = entry;\n}\n");
    s
}

/// Programs that fix 31dddea made acceptable: in the global scope and in 1-3 namespaces, overloaded functions
/// that share their name with a struct declared before them (and used as a type before the functions hide it) or
/// with a struct / enum / cbuffer declared after them.  Every exporter has to give the same-named symbols of one
/// scope different names, so the generated suffixes must not follow the order of a hash container.
fn share_program(rng: &mut Rng) -> String {
    let bases = ["Item", "pick", "main", "Light", "Widget", "vertex", "kernel", "Data", "constant", "helper"];
    let nns = rng.range(1, 3) as usize;
    let mut s = String::from("static int s_total = 0;\n");
    let mut calls: Vec<String> = Vec::new();
    let scopes: Vec<Option<String>> = std::iter::once(None).chain((0..nns).map(|k| Some(format!("ns{}", k)))).collect();
    for scope in &scopes {
        if let Some(ns) = scope {
            s.push_str(&format!("namespace {}\n{{\n", ns));
        }
        let q = match scope { Some(ns) => format!("{}::", ns), None => String::new() };
        let tag = match scope { Some(ns) => ns.clone(), None => "g".to_string() };
        let nbases = rng.range(1, 3) as usize;
        let mut chosen: Vec<&str> = Vec::new();
        while chosen.len() < nbases {
            let b = *rng.pick(&bases);
            if !chosen.contains(&b) {
                chosen.push(b);
            }
        }
        for b in &chosen {
            let before = rng.chance(1, 3);
            if before {
                // the type is declared and used first; the functions hide it afterwards
                s.push_str(&format!("struct {}\n{{\n    float value;\n}};\nfloat read_{}_{}({} p)\n{{\n    return p.value;\n}}\nstatic {} held_{}_{};\n", b, tag, b, b, b, tag, b));
                calls.push(format!("    {}read_{}_{}({}held_{}_{});\n", q, tag, b, q, tag, b));
            }
            let overloads = rng.range(1, 3);
            let tys = ["int", "float", "uint"];
            for o in 0..overloads {
                let ty = tys[o as usize];
                s.push_str(&format!("{} {}({} x)\n{{\n    s_total = s_total + 1;\n    return x;\n}}\n", ty, b, ty));
                let arg = match ty { "int" => "(int)1", "float" => "1.0f", _ => "1u" };
                calls.push(format!("    {}{}({});\n", q, b, arg));
            }
            if !before {
                match rng.below(3) {
                    0 => s.push_str(&format!("struct {}\n{{\n    float value;\n}};\n", b)),
                    1 => {
                        s.push_str(&format!("enum {}\n{{\n    {}_{}_First,\n    {}_{}_Second\n}};\n", b, tag, b, tag, b));
                        calls.push(format!("    s_total = s_total + (int){}{}_{}_Second;\n", q, tag, b));
                    }
                    _ => {
                        s.push_str(&format!("cbuffer {}\n{{\n    float4 member_{}_{};\n}};\n", b, tag, b));
                        calls.push(format!("    s_total = s_total + (int){}member_{}_{}.x;\n", q, tag, b));
                    }
                }
            }
        }
        if scope.is_some() {
            s.push_str("}\n");
        }
    }
    s.push_str("[numthreads(1, 1, 1)]\nvoid entry()\n{\n");
    for c in &calls {
        s.push_str(c);
    }
    s.push_str("}\nPipeline P\n{\n    ComputeShader = entry;\n}\n");
    s
}

/// Accepted programs through the code that fix batch 3 adds or changes.
/// * fe5dd8d: enum values that share their name with a constant buffer block of the same scope, the block declared
///   BEFORE the enum (this order reached `assert_eq!(symbols.len(), 1)` in `end_enum`) or after it, in the global scope
///   and in 0-2 namespaces, 2-7 values per enum so that the promotion loop walks several names in hash order, some
///   enums uint backed; the exporters have to tell the same-named symbols apart (`A_0`, `A_1` on Metal).
/// * 80dd7f9: the enums meet int / uint / bool operands and untyped literals in binary operations.
/// * 92d66eb, b6f2da1, 5d2f434: float remainder assignments on locals, members, vectors, groupshared; casts between
///   vectors and one component vectors; struct casts of a scalar variable.
/// * 265a080: float literals with up to 17 significant digits; c805c03: swizzles of exactly four components.
fn fix3_program(rng: &mut Rng) -> String {
    let bases = ["Alpha", "Beta", "Gamma", "Delta", "Kappa", "Sigma", "Omega", "Theta", "Light", "Data", "Item", "Mask"];
    let nns = rng.below(3) as usize;
    let mut s = String::from("struct Pod\n{\n    float a;\n    int b;\n    uint c[2];\n    uint2 d;\n};\ngroupshared float3 gs_shared;\n");
    let mut stmts: Vec<String> = Vec::new();
    let scopes: Vec<Option<String>> = std::iter::once(None).chain((0..nns).map(|k| Some(format!("ns{}", k)))).collect();
    let mut counter = 0;
    for scope in &scopes {
        if let Some(ns) = scope {
            s.push_str(&format!("namespace {}\n{{\n", ns));
        }
        let q = match scope { Some(ns) => format!("{}::", ns), None => String::new() };
        let tag = match scope { Some(ns) => ns.clone(), None => "g".to_string() };
        let nenums = rng.range(1, 3) as usize;
        let mut used: Vec<String> = Vec::new();
        for e in 0..nenums {
            let nvals = rng.range(2, 7) as usize;
            let mut vals: Vec<String> = Vec::new();
            while vals.len() < nvals {
                let b = *rng.pick(&bases);
                let name = if used.iter().any(|u| u == b) { format!("{}{}", b, used.len()) } else { b.to_string() };
                used.push(name.clone());
                vals.push(name);
            }
            let ename = format!("Kind_{}_{}", tag, e);
            let unsigned = rng.chance(1, 3);
            // which values share their name with a cbuffer block, and on which side of the enum the block is declared
            let mut before: Vec<String> = Vec::new();
            let mut after: Vec<String> = Vec::new();
            for v in &vals {
                if rng.chance(1, 2) {
                    let decl = format!("cbuffer {}\n{{\n    float4 member_{}_{};\n}}\n", v, tag, v);
                    if rng.chance(2, 3) { before.push(decl) } else { after.push(decl) }
                    stmts.push(format!("    total = total + {}member_{}_{}.x;\n", q, tag, v));
                }
            }
            for d in &before {
                s.push_str(d);
            }
            let mut items: Vec<String> = Vec::new();
            for (i, v) in vals.iter().enumerate() {
                if unsigned && i == nvals - 1 {
                    items.push(format!("    {} = 4294967295u", v));
                } else if rng.chance(1, 3) {
                    items.push(format!("    {} = {}", v, 10 * i + rng.below(10) as usize));
                } else {
                    items.push(format!("    {}", v));
                }
            }
            s.push_str(&format!("enum {}\n{{\n{}\n}};\n", ename, items.join(",\n")));
            for d in &after {
                s.push_str(d);
            }
            // the enum next to other types in binary operations (80dd7f9)
            let var = format!("e{}", counter);
            counter += 1;
            let v0 = &vals[rng.below(nvals as u64) as usize];
            stmts.push(format!("    {}{} {} = {}{};\n", q, ename, var, q, v0));
            let ops = ["{} == 0", "{} + 1", "{} == 1", "{} > (int)0", "true + {}", "{} + 1u", "3 - {}", "{} != 5u", "{} & 3u", "{} | 4", "{} % 3"];
            for _ in 0..rng.range(1, 4) {
                let op = rng.pick(&ops).replace("{}", &var);
                stmts.push(format!("    if ((bool)({}))\n    {{\n        total = total + 1.0f;\n    }}\n", op));
            }
        }
        if scope.is_some() {
            s.push_str("}\n");
        }
    }
    // float remainder assignments, one component vectors, struct casts, literals, swizzles
    s.push_str("float1 narrow(float3 v)\n{\n    float1 a = (float1)v;\n    return a + v.y;\n}\nfloat widen(float1 v)\n{\n    return (float)v;\n}\n");
    let mut misc: Vec<String> = Vec::new();
    for i in 0..rng.range(2, 6) {
        match rng.below(7) {
            0 => misc.push(format!("    float3 r{} = float3(total, 2.0f, 3.0f);\n    r{} %= float3(2.0f, 2.0f, 2.0f);\n    total = total + r{}.x;\n", i, i, i)),
            1 => misc.push(format!("    gs_shared %= float3(total, 1.0f, 1.0f);\n    Pod p{} = (Pod)total;\n    p{}.a %= 2.0f;\n    total = total + p{}.a;\n", i, i, i)),
            2 => misc.push(format!("    float1 o{} = narrow(float3(total, total, total));\n    total = total + widen(o{});\n", i, i)),
            3 => {
                let bits = ((rng.range(1, 254) as u32) << 23) | (rng.next() as u32 & 0x7f_ffff);
                misc.push(format!("    total = total + {:e}f;\n", f32::from_bits(bits) as f64));
            }
            4 => misc.push(format!("    float4 w{} = float4(total, 1.0f, 2.0f, 3.0f);\n    total = total + w{}.{}.{};\n", i, i, rng.pick(&["xyzw", "wzyx", "xxxx", "rgba", "yyzz"]), rng.pick(&["wzyx", "x", "yx"]))),
            5 => misc.push(format!("    float m{}[4];\n    m{}[1] = total;\n    m{}[1] %= 3.0f;\n    total = total + m{}[1];\n", i, i, i, i)),
            _ => misc.push(format!("    total = total + total.{};\n", rng.pick(&["x", "r", "xxxx.y", "rrr.b"]))),
        }
    }
    s.push_str("[numthreads(1, 1, 1)]\nvoid entry()\n{\n    float total = 0.0f;\n");
    for st in stmts.iter().chain(misc.iter()) {
        s.push_str(st);
    }
    s.push_str("}\nPipeline P\n{\n    ComputeShader = entry;\n}\n");
    s
}

/// Programs for the one hash walk of the binding allocator (`assign_api_bindings`: `for (set, size) in inline_size`,
/// then `inline_constant_buffers.sort()`): BufferAddress / RWBufferAddress globals in 2-4 bind groups that all hold
/// the same number of ordinary resources, so the inline descriptor blocks of the groups tie on their api location
/// and only the set index of the derived `Ord` separates them (seed C07-2 sorts by location alone).
fn inline_program(rng: &mut Rng) -> String {
    let groups = rng.range(2, 4) as usize;
    let ordinary = rng.below(3) as usize;
    let by_register = rng.chance(1, 2);
    let mut decls: Vec<String> = Vec::new();
    let mut uses: Vec<String> = Vec::new();
    for g in 0..groups {
        for o in 0..ordinary {
            let name = format!("g_tex_{}_{}", g, o);
            if by_register {
                decls.push(format!("Texture2D<float4> {} : register(t{}, space{});\n", name, o, g));
            } else {
                decls.push(format!("[[rssl::bind_group({})]] Texture2D<float4> {};\n", g, name));
            }
            uses.push(format!("    {};\n", name));
        }
        let addrs = rng.range(1, 2) as usize;
        for a in 0..addrs {
            let name = format!("g_addr_{}_{}", g, a);
            let ty = if rng.chance(1, 3) { "RWBufferAddress" } else { "BufferAddress" };
            if by_register {
                let class = if ty == "BufferAddress" { "t" } else { "u" };
                decls.push(format!("const {} {} : register({}{}, space{});\n", ty, name, class, ordinary + a, g));
            } else {
                decls.push(format!("[[rssl::bind_group({})]] {} {};\n", g, ty, name));
            }
            uses.push(format!("    s_sum = s_sum + {}.Load<uint>(0);\n", name));
        }
    }
    shuffle_lines(rng, &mut decls);
    let mut s = String::from("static uint s_sum = 0;\n");
    for d in &decls {
        s.push_str(d);
    }
    s.push_str("[numthreads(1, 1, 1)]\nvoid entry()\n{\n");
    for u in &uses {
        s.push_str(u);
    }
    s.push_str(&format!("}}\nPipeline P\n{{\n    ComputeShader = entry;\n    DefaultBindGroup = {};\n}}\n", groups));
    s
}

fn shuffle_lines(rng: &mut Rng, v: &mut [String]) {
    for i in (1..v.len()).rev() {
        let j = rng.below(i as u64 + 1) as usize;
        v.swap(i, j);
    }
}

fn stress_opts() -> GenOpts {
    GenOpts { max_resources: 10, max_helpers: 6, max_pipes: 3, allow_mesh: true, share_entries: true }
}

fn compile_input(input: &Input, tgt: Tgt, mode: &Mode) -> CompileOutcome {
    match &input.disk {
        Some((root, entry)) => compile_disk(root, entry, tgt, mode.clone()),
        None => compile(&Job {
            entry: "main.rssl",
            files: &input.files,
            defines: &input.defines.iter().map(|(n, v)| (n.as_str(), v.as_str())).collect::<Vec<_>>(),
            target: tgt,
            mode: mode.clone(),
            validate_layout: input.layout,
        }),
    }
}

fn compile_id(id: &str, tgt: Tgt, mode: &Mode) -> Option<CompileOutcome> {
    Some(compile_input(&source_of(id)?, tgt, mode))
}

/// Name of the enum variant at the head of a Debug rendering
fn variant_of(debug: &str) -> String {
    debug.chars().take_while(|c| c.is_ascii_alphanumeric() || *c == '_').collect()
}

/// Which stage rejects the input and with which error variant (statistics only: the oracle compares the
/// rendered text of `rssl::compile`)
fn classify(input: &Input, tgt: Tgt, rendered: &str) -> String {
    if input.disk.is_some() {
        return "disk/?".into();
    }
    let files = input.files.clone();
    let layout = input.layout;
    let rendered = rendered.to_string();
    guard(move || {
        let t_hlsl = if tgt == Tgt::Msl { "0" } else { "1" };
        let t_msl = if tgt == Tgt::Msl { "1" } else { "0" };
        let defines = [("__HLSL_VERSION", "2021"), ("RSSL_TARGET_HLSL", t_hlsl), ("RSSL_TARGET_MSL", t_msl)];
        let mut sm = rssl::text::SourceManager::new();
        let mut inc = MemFiles(files);
        let tokens = match rssl::preprocess::preprocess("main.rssl", &mut sm, &mut inc, &defines) {
            Ok(t) => t,
            Err(e) => {
                let d = format!("{:?}", e);
                if d.starts_with("LexerError(") {
                    // LexerError(LexerError { reason: <variant>, location: .. })
                    let inner = d.split("reason: ").nth(1).unwrap_or("?");
                    return format!("lexer/{}", variant_of(inner));
                }
                return format!("preprocess/{}", variant_of(&d));
            }
        };
        let tokens = rssl::preprocess::prepare_tokens(&tokens);
        let ast = match rssl::parser::parse(&tokens) {
            Ok(a) => a,
            Err(e) => return format!("parser/{}", variant_of(&format!("{:?}", e.0))),
        };
        let ir = match rssl::typer::type_check(&ast) {
            Ok(ir) => ir,
            Err(e) => return format!("typer/{}", variant_of(&format!("{:?}", e.0))),
        };
        if layout && rssl::ir::layout_checker::check_layout(&ir).is_err() {
            return format!("layout/{}", if rendered.contains("unknown size") { "UnknownLayout" } else { "MismatchedLayout" });
        }
        // exporter / driver errors: the message itself names the kind
        let first = rendered.lines().next().unwrap_or("");
        let msg = first.rsplit("error: ").next().unwrap_or(first);
        let shape: String = msg.chars().map(|c| if c.is_ascii_digit() { 'N' } else { c }).take(60).collect();
        format!("export-{}/{}", tgt.name(), shape)
    })
    .unwrap_or_else(|p| format!("classifier-panic/{}", p))
}

fn show(o: &CompileOutcome) -> String {
    match o {
        CompileOutcome::Err(e) => clip(e, 900),
        other => other.digest(),
    }
}

fn clip(t: &str, n: usize) -> String {
    if t.chars().count() > n {
        format!("{}...", t.chars().take(n).collect::<String>())
    } else {
        t.to_string()
    }
}

/// inverse of util::one_line
fn unescape(s: &str) -> String {
    let mut out = String::new();
    let mut it = s.chars();
    while let Some(c) = it.next() {
        if c == '\\' {
            match it.next() {
                Some('n') => out.push('\n'),
                Some('t') => out.push('\t'),
                Some('r') => out.push('\r'),
                Some('\\') => out.push('\\'),
                Some(o) => {
                    out.push('\\');
                    out.push(o);
                }
                None => out.push('\\'),
            }
        } else {
            out.push(c);
        }
    }
    out
}

/// the text of a generated rejected program, for the failure report
fn program_text(id: &str) -> String {
    let id = id.strip_prefix("defs:").and_then(|r| r.split_once('|')).map(|r| r.1).unwrap_or(id);
    if !is_diag_stream(id) && !id.starts_with("resv:") && !id.starts_with("cycle:") && !id.starts_with("fix3:") && !id.starts_with("wave:") {
        return String::new();
    }
    match source_of(id) {
        Some(input) => {
            let mut t = String::from("; program:");
            if !input.defines.is_empty() {
                t = format!("; client defines (in this order): {:?}; program:", input.defines);
            }
            for (n, f) in &input.files {
                t.push_str(&format!(" [{}] <<{}>>", n, clip(f, if id.starts_with("cycle:") || id.starts_with("fix3:") || id.starts_with("wave:") { 6000 } else { 1500 })));
            }
            t
        }
        None => String::new(),
    }
}

/// Roles in which a name can be declared in a `resv:` program
const RESV_ROLES: [&str; 6] = ["local", "fn", "struct", "global", "param", "member"];

/// `resv:<name>.<role>,<name>.<role>,...`: a program that declares the given identifiers (names that exactly one
/// back end reserves, taken from the RESERVED_NAMES tables of the tree under check) as local variables, functions,
/// structs, static globals, parameters and struct members.  What the exporter prints for them depends on the
/// reserved list passed to `NameMap::build`; with `FLIP` defined one more local of each name is declared.
fn reserved_program(spec: &str) -> Option<String> {
    let mut decls = String::from("static int s_total = 0;\n");
    let mut body = String::new();
    for (k, item) in spec.split(',').enumerate() {
        let (name, role) = item.rsplit_once('.')?;
        if name.is_empty() || !name.chars().all(|c| c.is_ascii_alphanumeric() || c == '_') || name.chars().next()?.is_ascii_digit() {
            return None;
        }
        match role {
            "local" => body.push_str(&format!("    {{\n        int {n} = {k};\n        s_total = s_total + {n};\n    }}\n", n = name, k = k + 1)),
            "fn" => {
                decls.push_str(&format!("int {n}(int x)\n{{\n    s_total = s_total + x;\n    return x + {k};\n}}\n", n = name, k = k + 1));
                body.push_str(&format!("    s_total = s_total + {}({});\n", name, k + 2));
            }
            "struct" => {
                decls.push_str(&format!("struct {n}\n{{\n    int value;\n}};\nstatic {n} held_{k};\n", n = name, k = k));
                body.push_str(&format!("    s_total = s_total + held_{}.value;\n", k));
            }
            "global" => {
                decls.push_str(&format!("static int {} = {};\n", name, k + 3));
                body.push_str(&format!("    s_total = s_total + {};\n", name));
            }
            "param" => {
                decls.push_str(&format!("int take_{k}(int {n})\n{{\n    return {n} + {k};\n}}\n", n = name, k = k));
                body.push_str(&format!("    s_total = s_total + take_{}({});\n", k, k + 1));
            }
            "member" => {
                decls.push_str(&format!("struct Holder_{k}\n{{\n    int {n};\n}};\nstatic Holder_{k} holder_{k};\n", n = name, k = k));
                body.push_str(&format!("    s_total = s_total + holder_{}.{};\n", k, name));
            }
            _ => return None,
        }
        body.push_str(&format!("#ifdef FLIP\n    {{\n        float {n}_f = {k}.0f;\n        s_total = s_total + (int){n}_f;\n    }}\n#endif\n", n = name, k = k + 1));
    }
    Some(format!(
        "{}RWByteAddressBuffer g_out;\n[numthreads(1, 1, 1)]\nvoid entry()\n{{\n{}    g_out.Store(0, (uint)s_total);\n}}\nPipeline P\n{{\n    ComputeShader = entry;\n}}\n",
        decls, body
    ))
}

/// The string literals of `pub const RESERVED_NAMES: &[&str] = &[ ... ];` in a names.rs of the tree under check
fn reserved_names_of(repo: &str, rel: &str) -> Vec<String> {
    let Ok(text) = std::fs::read_to_string(format!("{}/{}", repo, rel)) else { return Vec::new() };
    let Some(at) = text.find("RESERVED_NAMES") else { return Vec::new() };
    let rest = &text[at..];
    let Some(open) = rest.find("&[\n").or_else(|| rest.find("= &[")) else { return Vec::new() };
    let Some(close) = rest[open..].find("];") else { return Vec::new() };
    let mut out = Vec::new();
    for line in rest[open..open + close].lines() {
        let l = line.trim();
        if let Some(q) = l.strip_prefix('"') {
            if let Some(end) = q.find('"') {
                out.push(q[..end].to_string());
            }
        }
    }
    out
}

/// (name, role) pairs usable in `resv:` programs: identifiers reserved by exactly one back end that the front end
/// accepts in that role (probed by compiling a one-declaration program for DirectX and for Metal)
fn one_sided_reserved(repo: &str, hist: &mut Hist) -> Vec<String> {
    let h = reserved_names_of(repo, "hlsl/src/names.rs");
    let m = reserved_names_of(repo, "msl/src/names.rs");
    hist.0.insert("reserved-hlsl".into(), h.len() as u64);
    hist.0.insert("reserved-msl".into(), m.len() as u64);
    let mut one_sided: Vec<String> = Vec::new();
    for n in m.iter().filter(|n| !h.contains(n)).chain(h.iter().filter(|n| !m.contains(n))) {
        if n.chars().all(|c| c.is_ascii_alphanumeric() || c == '_') && !one_sided.contains(n) {
            one_sided.push(n.clone());
        }
    }
    hist.0.insert("reserved-by-one-back-end".into(), one_sided.len() as u64);
    let mut usable = Vec::new();
    for n in &one_sided {
        for role in RESV_ROLES {
            let id = format!("resv:{}.{}", n, role);
            let ok = [Tgt::Dx, Tgt::Msl].iter().all(|t| matches!(compile_id(&id, *t, &Mode::All), Some(CompileOutcome::Ok(_))));
            if ok {
                usable.push(format!("{}.{}", n, role));
            }
        }
    }
    hist.0.insert("reserved-usable-name-role-pairs".into(), usable.len() as u64);
    usable
}

/// one item of a history request: `<target> <mode> <id>`
fn parse_item(item: &str) -> Option<(Tgt, Mode, String)> {
    let mut it = item.splitn(3, ' ');
    let t = Tgt::parse(it.next()?)?;
    let mode = match it.next()? {
        "all" => Mode::All,
        "nopipeline" => Mode::NoPipeline,
        _ => return None,
    };
    Some((t, mode, it.next()?.to_string()))
}

fn item_line(item: &str) -> Option<String> {
    let (t, m, id) = parse_item(item)?;
    Some(format!("C07.repeat\t{}\t{}\t{}", t.name(), m.show(), id))
}

/// run the given `C07.repeat` lines, in this order, in ONE fresh process; (digest, shown) per line
fn in_fresh_process(lines: &[String], tag: &str) -> Option<Vec<(String, String)>> {
    in_fresh_process_opt(lines, tag, false)
}

/// first line in which two emitted texts differ
fn first_difference(a: &str, b: &str) -> String {
    let (la, lb): (Vec<&str>, Vec<&str>) = (a.lines().collect(), b.lines().collect());
    for i in 0..la.len().max(lb.len()) {
        let (x, y) = (la.get(i).copied().unwrap_or("<end>"), lb.get(i).copied().unwrap_or("<end>"));
        if x != y {
            return format!("first difference in line {}: `{}` (after the history) vs `{}` (alone)", i + 1, clip(x.trim(), 200), clip(y.trim(), 200));
        }
    }
    "texts equal".into()
}

fn in_fresh_process_opt(lines: &[String], tag: &str, full_text: bool) -> Option<Vec<(String, String)>> {
    let tmp = std::env::temp_dir().join(format!("c07-hist-{}-{}.txt", std::process::id(), tag));
    std::fs::write(&tmp, lines.join("\n") + "\n").ok()?;
    let exe = std::env::current_exe().ok()?;
    let mut cmd = std::process::Command::new(&exe);
    cmd.args(["c07", "--requests", tmp.to_str()?, "child"]);
    if full_text {
        cmd.env("C07_CHILD_TEXT", "1");
    }
    let output = cmd.output();
    let _ = std::fs::remove_file(&tmp);
    let output = output.ok()?;
    let text = String::from_utf8_lossy(&output.stdout);
    let v: Vec<(String, String)> = text
        .lines()
        .filter_map(|l| l.strip_prefix("DIGEST\t"))
        .map(|l| l.split_once('\t').unwrap_or((l, "")))
        .map(|(d, s)| (d.to_string(), s.to_string()))
        .collect();
    if v.len() == lines.len() { Some(v) } else { None }
}

/// `C07.history \t <item> \t <item> ...`: history independence.  Every item is compiled (a) alone in a fresh
/// process, (b) in one fresh process after the items before it, in the given order, in reverse order, rotated by
/// one and in a seeded shuffle, and (c) in THIS process, which has compiled everything the run compiled so far.
/// Oracle: every result of (b) and (c) equals the result of (a) for the same item.
fn run_history(line: &str, out: &mut Out, hist: &mut Hist) {
    let fields: Vec<&str> = line.split('\t').collect();
    let items: Vec<&str> = fields[1..].to_vec();
    let lines: Option<Vec<String>> = items.iter().map(|i| item_line(i)).collect();
    let (Some(lines), true) = (lines, items.len() >= 2) else {
        out.case(line, "bad", "SKIP:bad history request");
        return;
    };
    if items.iter().any(|i| parse_item(i).and_then(|(_, _, id)| source_of(&id)).is_none()) {
        out.case(line, "bad", "SKIP:bad item in history request");
        return;
    }
    let n = items.len();
    // (a) alone
    let mut alone: Vec<(String, String)> = Vec::new();
    for (i, l) in lines.iter().enumerate() {
        match in_fresh_process(std::slice::from_ref(l), &format!("a{}", i)) {
            Some(mut v) => alone.push(v.remove(0)),
            None => {
                out.case(line, "bad", "FAIL:could not run a child process");
                return;
            }
        }
    }
    let mut fail: Option<String> = None;
    let describe = |k: usize, before: &[usize], got_d: &str, got_s: &str, how: &str| -> String {
        let prefix: Vec<String> = before.iter().map(|j| format!("<{}>", items[*j])).collect();
        let id = parse_item(items[k]).map(|r| r.2).unwrap_or_default();
        format!(
            "history dependence: <{}> compiled {} after [{}] gives {} <<{}>> but alone in a fresh process {} <<{}>>{}",
            items[k],
            how,
            prefix.join(", "),
            got_d,
            clip(&unescape(got_s), 600),
            alone[k].0,
            clip(&unescape(&alone[k].1), 600),
            program_text(&id)
        )
    };
    // (b) orders in fresh processes
    let mut orders: Vec<(String, Vec<usize>)> = vec![
        ("in request order".into(), (0..n).collect()),
        ("in reverse order".into(), (0..n).rev().collect()),
        ("rotated by one".into(), (0..n).map(|i| (i + 1) % n).collect()),
    ];
    let mut rng = Rng::new(fnv64(line.as_bytes()));
    let mut sh: Vec<usize> = (0..n).collect();
    for i in (1..n).rev() {
        let j = rng.below(i as u64 + 1) as usize;
        sh.swap(i, j);
    }
    orders.push(("shuffled".into(), sh));
    let mut seen: Vec<Vec<usize>> = Vec::new();
    for (name, order) in &orders {
        if seen.contains(order) {
            continue;
        }
        seen.push(order.clone());
        let seq: Vec<String> = order.iter().map(|i| lines[*i].clone()).collect();
        let Some(got) = in_fresh_process(&seq, "s") else {
            fail.get_or_insert("could not run a child process".into());
            continue;
        };
        for (pos, k) in order.iter().enumerate() {
            if got[pos].0 != alone[*k].0 && fail.is_none() {
                let mut f = describe(*k, &order[..pos], &got[pos].0, &got[pos].1, &format!("in one fresh process ({})", name));
                if got[pos].0.starts_with("ok") && alone[*k].0.starts_with("ok") {
                    // both accepted: run the two processes again for the emitted text and name the first differing line
                    let again = in_fresh_process_opt(&seq[..pos + 1], "t", true);
                    let single = in_fresh_process_opt(std::slice::from_ref(&lines[*k]), "u", true);
                    if let (Some(a), Some(b)) = (again, single) {
                        f = format!("{}; {}", f, first_difference(&unescape(&a[pos].1), &unescape(&b[0].1)));
                    }
                }
                fail = Some(f);
            }
        }
    }
    // (c) this process
    for k in 0..n {
        let (t, m, id) = parse_item(items[k]).unwrap();
        if let Some(o) = compile_id(&id, t, &m) {
            if o.digest() != alone[k].0 && fail.is_none() {
                let before: Vec<usize> = (0..k).collect();
                fail = Some(describe(k, &before, &o.digest(), &one_line(&show(&o)), "in the long-running harness process (everything this run compiled so far, then)"));
            }
        }
    }
    let mut targets: Vec<&str> = items.iter().filter_map(|i| i.split(' ').next()).collect();
    targets.sort();
    targets.dedup();
    let back_ends = (targets.contains(&"msl") as usize) + (targets.iter().any(|t| *t != "msl") as usize);
    hist.add(&format!("history-items={}", n));
    hist.add(&format!("history-back-ends={}", back_ends));
    for (d, _) in &alone {
        hist.add(if d.starts_with("ok") { "history-item=ok" } else if d.starts_with("err") { "history-item=err" } else { "history-item=panic" });
    }
    for i in &items {
        let id = i.splitn(3, ' ').nth(2).unwrap_or("");
        let id = id.strip_prefix("defs:").and_then(|r| r.split_once('|')).map(|r| { hist.add("history-source=with-defines"); r.1 }).unwrap_or(id);
        hist.add(&format!("history-source={}", id.split(':').next().unwrap_or("?")));
    }
    let obs = format!("n={};backends={};{}", n, back_ends, alone.iter().map(|(d, _)| d.clone()).collect::<Vec<_>>().join(";"));
    let oracle = match fail {
        None => "ok".to_string(),
        Some(f) => format!("FAIL:{}", f),
    };
    out.case(line, &clip(&obs, 400), &oracle);
}

fn parse_req(line: &str) -> Option<(Tgt, Mode, String)> {
    let f: Vec<&str> = line.split('\t').collect();
    if f.len() != 4 || f[0] != "C07.repeat" {
        return None;
    }
    let mode = match f[2] {
        "all" => Mode::All,
        "nopipeline" => Mode::NoPipeline,
        _ => return None,
    };
    Some((Tgt::parse(f[1])?, mode, f[3].to_string()))
}

/// child mode: print one digest per request and nothing else
fn child(lines: &[String]) {
    let full = std::env::var("C07_CHILD_TEXT").is_ok();
    for line in lines {
        if let Some((t, m, id)) = parse_req(line) {
            match compile_id(&id, t, &m) {
                Some(CompileOutcome::Ok(ps)) if full => {
                    let text: Vec<String> = ps.iter().map(|p| format!("{}\nstages: {:?}\nmeta: {}\nstate: {}", p.text(), p.stages, p.metadata, p.state)).collect();
                    println!("DIGEST\t{}\t{}", CompileOutcome::Ok(ps).digest(), one_line(&text.join("\n-- next pipeline --\n")))
                }
                Some(o) => println!("DIGEST\t{}\t{}", o.digest(), one_line(&show(&o))),
                None => println!("DIGEST\tbad\tbad"),
            }
        }
    }
}

/// everything `compile` returned for an accepted program, as text (for the first-difference report)
fn outcome_text(ps: &[PipeOut]) -> String {
    ps.iter().map(|p| format!("{}\nstages: {:?}\nmeta: {}\nstate: {}", p.text(), p.stages, p.metadata, p.state)).collect::<Vec<_>>().join("\n-- next pipeline --\n")
}

fn run_requests(all_lines: &[String], out: &mut Out, hist: &mut Hist) {
    let repeat_lines: Vec<String> = all_lines.iter().filter(|l| !l.starts_with("C07.history\t")).cloned().collect();
    if !repeat_lines.is_empty() {
        run_repeat_requests(&repeat_lines, out, hist);
    }
    for l in all_lines.iter().filter(|l| l.starts_with("C07.history\t")) {
        run_history(l, out, hist);
    }
}

fn run_repeat_requests(lines: &[String], out: &mut Out, hist: &mut Hist) {
    let dump = std::env::var("C07_DUMP").is_ok();
    // in-process repeats
    let mut first: Vec<String> = Vec::new();
    let mut obs: Vec<String> = Vec::new();
    let mut shows: Vec<String> = Vec::new();
    let mut fails: Vec<Option<String>> = Vec::new();
    for line in lines {
        let (Some((t, m, id)), true) = (parse_req(line), true) else {
            first.push("bad".into());
            shows.push("bad".into());
            obs.push("bad".into());
            fails.push(Some("bad request".into()));
            continue;
        };
        let Some(input) = source_of(&id) else {
            first.push("bad".into());
            shows.push("bad".into());
            obs.push("bad".into());
            fails.push(Some("bad request".into()));
            continue;
        };
        let a = compile_input(&input, t, &m);
        let d0 = a.digest();
        // a panic is a C08 matter; for C07 it only has to be the same panic every time
        let mut fail = None;
        let repeats = if is_diag_stream(&id) || id.starts_with("cycle:") || id.starts_with("wave:") { 8 } else { 5 };
        for k in 1..repeats {
            let b = compile_input(&input, t, &m);
            let d = b.digest();
            if d != d0 && fail.is_none() {
                fail = Some(match (&a, &b) {
                    (CompileOutcome::Err(_), _) | (_, CompileOutcome::Err(_)) => format!(
                        "run {} in the same process gives another diagnostic: <<{}>> vs first run <<{}>>{}",
                        k,
                        show(&b),
                        show(&a),
                        program_text(&id)
                    ),
                    (CompileOutcome::Ok(pa), CompileOutcome::Ok(pb)) => format!(
                        "run {} in the same process differs: {} vs first run {}; first difference: {}{}",
                        k,
                        d,
                        d0,
                        first_difference(&outcome_text(pb), &outcome_text(pa)).replace("(after the history)", "(this run)").replace("(alone)", "(first run)"),
                        program_text(&id)
                    ),
                    _ => format!("run {} in the same process differs: {} vs {}", k, d, d0),
                });
            }
        }
        hist.add(&format!("target={}", t.name()));
        hist.add(if d0.starts_with("ok") { "outcome=ok" } else if d0.starts_with("err") { "outcome=err" } else { "outcome=panic" });
        hist.add(if id.starts_with("gen:") {
            "source=generated"
        } else if id.starts_with("clash:") {
            "source=name-clash"
        } else if id.starts_with("share:") {
            "source=name-shared-in-scope"
                } else if id.starts_with("fix3:") {
            "source=fix-batch-3-programs"
} else if id.starts_with("inline:") {
            "source=inline-descriptor-groups"
        } else if id.starts_with("cycle:") {
            "source=call-cycles"
        } else if id.starts_with("wave:") {
            "source=implicit-parameter-kinds"
        } else if id.starts_with("diag:") {
            "source=diagnostics-generator"
        } else if id.starts_with("src:") {
            "source=repo-rejected-tests"
        } else if id.starts_with("resv:") || id.starts_with("defs:") {
            "source=one-sided-reserved-names"
        } else {
            "source=repo-corpus"
        });
        let mut o = d0.clone();
        if let CompileOutcome::Err(e) = &a {
            let class = classify(&input, t, e);
            hist.add(&format!("diag={}", class));
            o = format!("{}|{}", d0, class);
        }
        if let Some(rest) = id.strip_prefix("diag:") {
            let family = rest.split(':').next().unwrap_or("?");
            hist.add(&format!("family={}:{}", family, if d0.starts_with("ok") { "accepted" } else if d0.starts_with("err") { "rejected" } else { "panic" }));
        }
        if dump {
            for (n, f) in &input.files {
                eprintln!("---- {} [{}]\n{}", n, line, f);
            }
            eprintln!("==== {}\n{}", o, match &a {
                CompileOutcome::Err(e) => e.clone(),
                CompileOutcome::Ok(ps) => ps.iter().map(|p| format!("{}\nstages: {:?}\nmeta: {}\nstate: {}", String::from_utf8_lossy(&p.data), p.stages, p.metadata, p.state)).collect::<Vec<_>>().join("\n-- next pipeline --\n"),
                other => other.digest(),
            });
        }
        first.push(d0);
        shows.push(show(&a));
        obs.push(o);
        fails.push(fail);
    }
    // fresh processes
    let tmp = std::env::temp_dir().join(format!("c07-req-{}.txt", std::process::id()));
    std::fs::write(&tmp, lines.join("\n") + "\n").unwrap();
    let exe = std::env::current_exe().unwrap();
    for proc_no in 0..3 {
        let output = std::process::Command::new(&exe)
            .args(["c07", "--requests", tmp.to_str().unwrap(), "child"])
            .output();
        let Ok(output) = output else {
            for f in fails.iter_mut() {
                if f.is_none() {
                    *f = Some("could not start a child process".into());
                }
            }
            break;
        };
        let text = String::from_utf8_lossy(&output.stdout);
        let digests: Vec<(&str, &str)> = text
            .lines()
            .filter_map(|l| l.strip_prefix("DIGEST\t"))
            .map(|l| l.split_once('\t').unwrap_or((l, "")))
            .collect();
        for (i, d0) in first.iter().enumerate() {
            let (d, shown) = digests.get(i).copied().unwrap_or(("missing", ""));
            if d != d0 && fails[i].is_none() {
                fails[i] = Some(if d.starts_with("err") || d0.starts_with("err") {
                    let id = parse_req(&lines[i]).map(|r| r.2).unwrap_or_default();
                    format!(
                        "fresh process {} gives another diagnostic: <<{}>> vs this process <<{}>>{}",
                        proc_no,
                        unescape(shown),
                        shows[i],
                        program_text(&id)
                    )
                } else {
                    format!("fresh process {} differs: {} vs {}", proc_no, d, d0)
                });
            }
        }
    }
    let _ = std::fs::remove_file(&tmp);
    for ((line, o), fail) in lines.iter().zip(&obs).zip(&fails) {
        let oracle = match fail {
            None => "ok".to_string(),
            Some(f) => format!("FAIL:{}", f),
        };
        out.case(line, o, &oracle);
    }
}

pub fn run(args: &Args, out: &mut Out) {
    let mut hist = Hist::default();
    if let Some(lines) = args.request_lines() {
        if args.extra.iter().any(|e| e == "child") {
            child(&lines);
            return;
        }
        run_requests(&lines, out, &mut hist);
        out.stat(&format!("{{\"mode\":\"replay\",\"hist\":{}}}", hist.json()));
        return;
    }
    let repo = std::env::var("VERIF_REPO").unwrap_or_else(|_| "/repo".into());
    let mut lines = Vec::new();
    let mut rng = Rng::new(args.seed);
    let n = args.n.unwrap_or(if args.thorough() { 1500 } else { 120 });
    for _ in 0..n {
        let seed = rng.next() >> 16;
        let probe = gen_program(&mut Rng::new(seed), &stress_opts());
        let mode = if probe.pipes.is_empty() { "nopipeline" } else { "all" };
        for t in ALL_TARGETS {
            lines.push(format!("C07.repeat\t{}\t{}\tgen:{}", t.name(), mode, seed));
        }
    }
    for _ in 0..n / 2 {
        let seed = rng.next() >> 16;
        for t in [Tgt::Dx, Tgt::Msl] {
            lines.push(format!("C07.repeat\t{}\tall\tclash:{}", t.name(), seed));
        }
    }
    // diagnostics stream: every family of rejected programs, several seeds each
    let per_family = args.n.map(|n| (n / 15).max(1)).unwrap_or(if args.thorough() { 60 } else { 16 });
    for (fi, family) in diag::FAMILIES.iter().enumerate() {
        for j in 0..per_family {
            let seed = rng.next() >> 16;
            let every_target = family.starts_with("export") || family.starts_with("layout");
            for (ti, t) in ALL_TARGETS.iter().enumerate() {
                if every_target || ti == (fi + j as usize) % 4 {
                    lines.push(format!("C07.repeat\t{}\tall\tdiag:{}:{}", t.name(), family, seed));
                }
            }
        }
    }
    // functions sharing their name with a struct / enum / cbuffer of the same scope (accepted since fix 31dddea)
    for _ in 0..n / 2 {
        let seed = rng.next() >> 16;
        for t in ALL_TARGETS {
            lines.push(format!("C07.repeat\t{}\tall\tshare:{}", t.name(), seed));
        }
    }
    // buffer addresses in several bind groups with tied inline descriptor slots (the hash walk of assign_api_bindings)
    for _ in 0..n / 4 {
        let seed = rng.next() >> 16;
        for t in [Tgt::VkBa, Tgt::Vk] {
            lines.push(format!("C07.repeat\t{}\tall\tinline:{}", t.name(), seed));
        }
    }
    // call cycles (mutual / self recursion through forward declarations): the usage fixpoint on cyclic tables,
    // seen on Metal as implicit parameter lists and is_used; the HLSL targets are the control
    let ncycle = args.n.map(|n| (n / 5).max(2)).unwrap_or(if args.thorough() { 300 } else { 24 });
    for _ in 0..ncycle {
        let seed = rng.next() >> 16;
        let (_, shape) = cycle::cycle_program(&mut Rng::new(seed));
        hist.add(&format!("cycles-per-program={}", shape.cycles));
        hist.add(&format!("longest-cycle={}", shape.longest));
        hist.add(&format!("self-recursive={}", shape.self_recursive.min(3)));
        hist.add(&format!("calls-between-cycles={}", shape.cross_calls.min(3)));
        hist.add(&format!("globals-initialised-by-a-call={}", shape.init_calls));
        hist.add(&format!("cycles-in-namespaces={}", shape.namespaces.min(3)));
        hist.add(if shape.deep_chain == 0 { "deep-helper-chain=none" } else if shape.deep_chain < 16 { "deep-helper-chain=9-15" } else { "deep-helper-chain=16-24" });
        for t in ALL_TARGETS {
            lines.push(format!("C07.repeat\t{}\tall\tcycle:{}", t.name(), seed));
        }
    }
    // the repository's own rejected inputs (first argument of check_fail / check_fail_message in the typer tests)
    let mut rejected = 0;
    for rel in ["typer/tests/type_check_tests.rs", "typer/tests/evaluator_tests.rs"] {
        if let Ok(text) = std::fs::read_to_string(format!("{}/{}", repo, rel)) {
            for (i, src) in diag::extract_rejected_inputs(&text, &["check_fail(", "check_fail_message("]).iter().enumerate() {
                rejected += 1;
                let t = if args.thorough() { ALL_TARGETS[i % 4] } else { Tgt::Dx };
                lines.push(format!("C07.repeat\t{}\tnopipeline\tsrc:{}", t.name(), hex(src.as_bytes())));
            }
        }
    }
    hist.0.insert("repo-rejected-inputs".into(), rejected);
    // the repository's own inputs
    let corpus = repo_corpus(&repo);
    let take = if args.thorough() { corpus.len() } else { corpus.len().min(24) };
    let step = (corpus.len() / take.max(1)).max(1);
    for (i, (root, entry)) in corpus.iter().enumerate() {
        if i % step != 0 {
            continue;
        }
        let mode = if entry.ends_with(".rssl") { "all" } else { "nopipeline" };
        for t in [Tgt::Dx, Tgt::Msl] {
            lines.push(format!("C07.repeat\t{}\t{}\tdisk:{}|{}", t.name(), mode, root, entry));
        }
    }
    // fix batch 3: the rejections it introduces and accepted programs through the code it adds; seeds from a separate
    // generator so that every request above keeps the seed it had before
    {
        let mut rng3 = Rng::new(args.seed ^ 0xf1c5_ba7c_0003);
        for (fi, family) in diag::FAMILIES_FIX3.iter().enumerate() {
            for j in 0..per_family {
                let seed = rng3.next() >> 16;
                let every_target = family.starts_with("export");
                for (ti, t) in ALL_TARGETS.iter().enumerate() {
                    if every_target || ti == (fi + j as usize) % 4 {
                        lines.push(format!("C07.repeat\t{}\tall\tdiag:{}:{}", t.name(), family, seed));
                    }
                }
            }
        }
        for _ in 0..n / 3 {
            let seed = rng3.next() >> 16;
            for t in ALL_TARGETS {
                lines.push(format!("C07.repeat\t{}\tall\tfix3:{}", t.name(), seed));
            }
        }
    }
    // history independence: sequences of requests in one process against each request alone in a fresh process.
    // Every sequence compiles a program declaring identifiers reserved by exactly one back end for an HLSL target
    // and for Metal, surrounded by other targets, the same input with other defines, other inputs and rejected inputs.
    let usable = one_sided_reserved(&repo, &mut hist);
    let pool: Vec<String> = lines
        .iter()
        .filter(|l| args.thorough() || !l.contains("\tdisk:"))
        .filter_map(|l| {
            let f: Vec<&str> = l.split('\t').collect();
            if f.len() == 4 { Some(format!("{} {} {}", f[1], f[2], f[3])) } else { None }
        })
        .collect();
    let nh = args.n.map(|n| (n / 4).max(2)).unwrap_or(if args.thorough() { 400 } else { 60 });
    let mut history_lines = Vec::new();
    for h in 0..nh {
        let pick_resv = |rng: &mut Rng| -> String {
            if usable.is_empty() {
                return format!("clash:{}", rng.next() >> 16);
            }
            let k = rng.range(1, 4) as usize;
            let mut chosen: Vec<String> = Vec::new();
            for _ in 0..k {
                let c = rng.pick(&usable).clone();
                if !chosen.contains(&c) {
                    chosen.push(c);
                }
            }
            format!("resv:{}", chosen.join(","))
        };
        let x = pick_resv(&mut rng);
        let hl = *rng.pick(&[Tgt::Dx, Tgt::Vk, Tgt::VkBa]);
        let mut items: Vec<String> = vec![format!("{} all {}", hl.name(), x), format!("msl all {}", x)];
        if h % 3 != 0 {
            // more history: other targets / modes / defines of the same input, other inputs, rejected inputs
            let extra = rng.range(1, 4);
            for _ in 0..extra {
                match rng.below(5) {
                    0 => items.push(format!("{} all defs:FLIP=1|{}", rng.pick(&ALL_TARGETS).name(), x)),
                    1 => items.push(format!("{} nopipeline {}", rng.pick(&ALL_TARGETS).name(), x)),
                    2 => items.push(format!("{} all {}", rng.pick(&ALL_TARGETS).name(), pick_resv(&mut rng))),
                    _ => {
                        if !pool.is_empty() {
                            items.push(rng.pick(&pool).clone());
                        }
                    }
                }
            }
        }
        items.dedup();
        shuffle_lines(&mut rng, &mut items);
        history_lines.push(format!("C07.history\t{}", items.join("\t")));
    }
    lines.extend(history_lines);
    // several KINDS of implicit parameters in one function on Metal (lane index / lane count / mesh output / globals):
    // the order inside every parameter list, argument list and entry point rests on required_globals.sort() alone.
    // Seeds from a separate generator, appended last: every request above keeps its seed
    {
        let mut rng4 = Rng::new(args.seed ^ 0x3a7e_c07d_0004);
        let nwave = args.n.map(|n| (n / 5).max(2)).unwrap_or(if args.thorough() { 300 } else { 30 });
        for _ in 0..nwave {
            let seed = rng4.next() >> 16;
            let (_, shape) = wave::wave_program(&mut Rng::new(seed));
            hist.add(&format!("wave-helpers={}", shape.helpers));
            hist.add(if shape.task { "wave-pipeline=task+mesh+pixel" } else if shape.mesh { "wave-pipeline=mesh+pixel" } else { "wave-pipeline=compute" });
            hist.add(&format!("wave-lane-index-readers={}", shape.lane_index.min(3)));
            hist.add(&format!("wave-lane-count-readers={}", shape.lane_count.min(3)));
            hist.add(&format!("wave-default-arguments-reading-lane+global={}", shape.defaults.min(3)));
            hist.add(&format!("wave-globals-initialised-from-lane-or-helper={}", shape.init_globals));
            for t in ALL_TARGETS {
                lines.push(format!("C07.repeat\t{}\tall\twave:{}", t.name(), seed));
            }
        }
    }
    // rejections caused by the configuration (client defines, entry file name); seeds from rng5, appended last
    {
        let mut rng5 = Rng::new(args.seed ^ 0x5cf6_c07d_0005);
        for (fi, family) in FAMILIES_CFG.iter().enumerate() {
            for j in 0..per_family {
                let seed = rng5.next() >> 16;
                let t = ALL_TARGETS[(fi + j as usize) % 4];
                let mode = if j % 3 == 2 { "nopipeline" } else { "all" };
                lines.push(format!("C07.repeat\t{}\t{}\tdiag:{}:{}", t.name(), mode, family, seed));
            }
        }
    }
    run_requests(&lines, out, &mut hist);
    out.stat(&format!(
        "{{\"requests\":{},\"repeats_in_process\":\"5 (accepted-program streams) / 8 (diagnostics streams)\",\"fresh_processes\":3,\"history\":\"each item alone in a fresh process vs 4 orders of the sequence in fresh processes vs the long-running harness process\",\"diag_families\":{},\"hist\":{}}}",
        lines.len(),
        diag::FAMILIES.len() + diag::FAMILIES_FIX3.len() + FAMILIES_CFG.len(),
        hist.json()
    ));
}

import RsslVerif.Lemmas.RoundtripFullSuffix
/-! Round trip for the full expression model: tokens that cannot start an operand, operator tokens are inert below
their level, the invariant `RT` and its finishing lemmas. -/
set_option linter.unusedSimpArgs false
set_option linter.unusedVariables false
namespace RsslVerif.Lemmas.RoundtripFull
open RsslVerif.Gen.FmtTables RsslVerif.Gen.ParseTables RsslVerif.Gen.SyntaxTables RsslVerif.Model.Format
open RsslVerif.Model.FormatFull RsslVerif.Model.ParseFull RsslVerif.Lemmas.FmtParseTables

variable (W : List String)

/-- a token no operand starts with -/
def BadHead (t : Tok) : Prop :=
  (∀ n, t ≠ .id n) ∧ (∀ l, t ≠ .lit l) ∧ t ≠ .p .LeftParen ∧ prefixOp t = none ∧ t ≠ .p .SizeOf

theorem xparseLvl_badhead (t : Tok) (rest : List Tok) (h : BadHead t) :
    ∀ k f term, xparseLvl W f k term (t :: rest) = none := by
  obtain ⟨h1, h2, h3, h4, h5⟩ := h
  intro k
  induction k with
  | zero =>
    intro f term
    cases f with
    | zero => simp [xparseLvl]
    | succ f =>
      unfold xparseLvl
      split
      · rename_i heq; simp at heq; exact absurd heq.1 (h1 _)
      · rename_i heq; simp at heq; exact absurd heq.1 (h2 _)
      · rename_i heq; simp at heq; exact absurd heq.1 h3
      · rfl
  | succ k ih =>
    intro f term
    cases f with
    | zero => simp [xparseLvl]
    | succ f =>
      unfold xparseLvl
      by_cases hk : k + 1 = 2
      · have hk1 : k = 1 := by omega
        subst hk1
        simp [h4, h5, h3, ih]
      · simp [hk, ih]

/-- `<` followed by a token that starts neither a type nor an expression nor is `>`: no template arguments -/
theorem tmplDead_badsecond (b : Bool) (u : Tok) (rest : List Tok) (hb : BadHead u) (hg : u.isGt = false)
    (hm : modBeforeStep u = .stop) : TmplDead W (.lt b :: u :: rest) := by
  intro f
  have hnone : parseTArgsReq W f (.lt b :: u :: rest) = none := by
    cases f with
    | zero => simp [parseTArgsReq]
    | succ f =>
      unfold parseTArgsReq
      split
      · rename_i heq; simp at heq; obtain ⟨_, rfl, _⟩ := heq; simp [Tok.isGt] at hg
      · rename_i heq
        simp at heq; obtain ⟨_, rfl⟩ := heq
        have : parseTArgList W f (u :: rest) = none := by
          cases f with
          | zero => simp [parseTArgList]
          | succ f =>
            unfold parseTArgList
            have : parseEOT W f false (u :: rest) = none := by
              cases f with
              | zero => simp [parseEOT]
              | succ f =>
                unfold parseEOT
                have hty : parseTyId W f false (u :: rest) = none := by
                  cases f with
                  | zero => simp [parseTyId]
                  | succ f =>
                    unfold parseTyId
                    simp only [takeModsBefore, hm]
                    split
                    · rename_i heq; simp at heq; exact absurd heq.2.1 (hb.1 _)
                    · rfl
                rw [hty, xparseLvl_badhead W u rest hb]
            rw [this]
        rw [this]
      · rfl
  rw [hnone]
  trivial

/-- the tokens of a binary operator are seen by no level below the operator's own -/
theorem inert_binToks (op : BinOp) (k : Nat) (term : Terminator) (rest : List Tok)
    (hr : OperandStart rest) (hk : k < binLevel op)
    (hlt : op = .LessThan → TmplDead W (binToks op ++ rest)) : Inert W k term (binToks op ++ rest) := by
  apply inert_of
  · intro _
    cases op <;> simp [binToks, NoPostfix, Tok.isLt] <;>
      first
        | exact hlt rfl
        | (apply tmplDead_badsecond <;> first | rfl | decide | simp [BadHead, prefixOp, Tok.isGt, modBeforeStep])
  · intro _; cases op <;> simp [binToks, NoQuestion]
  · intro _ _ _; exact parseOpAt_lower op term rest k hr hk

/-! ## The invariant -/

/-- parser level of the production that builds the node -/
def _root_.RsslVerif.Model.FormatFull.XExpr.lvl : XExpr → Nat
  | .lit l => if litNegative l then 2 else 0
  | .id _ => 0
  | .un op _ => if isPostfix op then 1 else 2
  | .bin op _ _ => binLevel op
  | .tern _ _ _ => 13
  | .sub _ _ => 1
  | .mem _ _ => 1
  | .call _ _ _ => 1
  | .cast _ _ => 2
  | .sizeof _ => 2

/-- the printed form without the outer parenthesis decision -/
def fmtBodyX (e : XExpr) : List Piece := fmtSubX e topPrec topSide

theorem wrap_false (b : List Piece) : wrap false b = b := rfl
theorem toks_wrap_true (b : List Piece) : toks (wrap true b) = .p .LeftParen :: (toks b ++ [.p .RightParen]) := by
  simp [wrap, lp, rp, pp]

theorem needParen_top_un (op : UnOp) : needParen (unPrec op) topPrec topSide = false := by cases op <;> decide
theorem needParen_top_bin (op : BinOp) : needParen (binPrec op) topPrec topSide = false := by cases op <;> decide

theorem fmtSubX_eq (e : XExpr) (outer : Nat) (side : Side) :
    fmtSubX e outer side = wrap (needParen e.prec outer side) (fmtBodyX e) := by
  cases e with
  | lit l => simp only [fmtBodyX, fmtSubX, XExpr.prec, needParen_top_lit, wrap_false]
  | un op x => simp only [fmtBodyX, fmtSubX, XExpr.prec, needParen_top_un, wrap_false]
  | bin op l r => simp only [fmtBodyX, fmtSubX, XExpr.prec, needParen_top_bin, wrap_false]
  | _ => simp only [fmtBodyX, fmtSubX, XExpr.prec]; rfl

theorem binLevel_le (op : BinOp) : binLevel op ≤ 15 := by cases op <;> decide
theorem binLevel_ge (op : BinOp) : 3 ≤ binLevel op := by cases op <;> decide

theorem lvl_le (e : XExpr) : e.lvl ≤ 15 := by
  cases e <;> simp [XExpr.lvl]
  · split <;> omega
  · split <;> omega
  · exact binLevel_le _

/-- under `Terminator::TypeList` the operators `>`, `>=`, `>>` and `,` are not read: they must not occur outside
parentheses / brackets -/
def gtOp (op : BinOp) : Bool := op == .RightShift || op == .GreaterThan || op == .GreaterEqual || op == .Sequence

mutual
def gtFree : XExpr → Bool
  | .lit _ => true
  | .id _ => true
  | .un op x => gtFreeSub x (unPrec op) (if isPostfix op then postfixOperandSide else prefixOperandSide)
  | .bin op l r => !gtOp op && gtFreeSub l (binPrec op) binLeftSide && gtFreeSub r (binPrec op) binRightSide
  | .tern c a b => gtFreeSub c precTernaryConditional ternCondSide && gtFreeSub a precTernaryConditional ternTrueSide &&
      (falseIsAssignmentX b || gtFreeSub b precTernaryConditional ternFalseSide)
  | .sub o _ => gtFreeSub o precArraySubscript subObjectSide
  | .mem o _ => gtFreeSub o precMember memObjectSide
  | .call f _ _ => gtFreeSub f callObjectPrec callObjectSide
  | .cast _ x => gtFreeSub x precCast castOperandSide
  | .sizeof _ => true
/-- a child printed in parentheses is read under `Standard` again -/
def gtFreeSub : XExpr → Nat → Side → Bool
  | e, outer, side => needParen e.prec outer side || gtFree e
end

-- `hasLt`: the tree contains a `<` operator (its left operand is followed by a `<` that `expr_p1_call` looks at)
mutual
def hasLt : XExpr → Bool
  | .lit _ => false
  | .id _ => false
  | .un _ x => hasLt x
  | .bin op l r => op == .LessThan || hasLt l || hasLt r
  | .tern c a b => hasLt c || hasLt a || hasLt b
  | .sub o i => hasLt o || hasLt i
  | .mem o _ => hasLt o
  | .call f t a => hasLt f || hasLtTArgs t || hasLtArgs a
  | .cast t x => hasLtTy t || hasLt x
  | .sizeof a => hasLtArg a
def hasLtArgs : XArgs → Bool
  | .nil => false
  | .cons e r => hasLt e || hasLtArgs r
def hasLtArg : TArg → Bool
  | .e x => hasLt x
  | .t t => hasLtTy t
  | .both x t => hasLt x || hasLtTy t
def hasLtTArgs : TArgs → Bool
  | .nil => false
  | .cons a r => hasLtArg a || hasLtTArgs r
def hasLtTy : TyId → Bool
  | .mk _ _ targs d => hasLtTArgs targs || hasLtDecl d
def hasLtDecl : Decl → Bool
  | .empty => false
  | .name _ => false
  | .ptr _ i => hasLtDecl i
  | .ref i => hasLtDecl i
  | .arr i s => hasLtDecl i || hasLt s
  | .arrN i => hasLtDecl i
end

/-- levels whose continuation is not a loop: a finished node of the level is final -/
def NonLoop (k : Nat) : Prop := k = 0 ∨ k = 2 ∨ k = 13 ∨ k = 14

instance (k : Nat) : Decidable (NonLoop k) := by unfold NonLoop; infer_instance

/-- what the caller knows about the result of reading a node of level `lv` at level `k` in front of `rest` -/
def Fin (e : XExpr) (lv k : Nat) (term : Terminator) (rest : List Tok) (out : XExpr × List Tok) : Prop :=
  if k = lv ∧ NonLoop k then out = (e, rest) ∧ ((k = 13 ∨ k = 14) → Inert W k term rest)
  else Conts W k term e rest out

/-- a comma expression needs the `Standard` terminator to be read back -/
def TermFits (e : XExpr) (term : Terminator) : Prop := e.lvl = 15 → term = .Standard

/-- the `<` operators of the tree do not look like the start of template arguments: nothing after them has a `>`
directly followed by `(` -/
def Safe (e : XExpr) (ts : List Tok) : Prop := hasLt e = true → TmplFree ts = true

/-- the round-trip invariant of one node, printed without outer parentheses -/
def RT (e : XExpr) : Prop :=
  ∀ k term rest out, (term = .TypeList → gtFree e = true) → e.lvl ≤ k → k ≤ 15 → TermFits e term → NoLow W k term rest →
    Safe e (toks (fmtBodyX e) ++ rest) →
    Fin W e e.lvl k term rest out → Parses W k term (toks (fmtBodyX e) ++ rest) out

/-- finishing from a complete parse at a non-loop level -/
theorem finish_nonloop {e lv ts rest k term out} (hp : Parses W lv term ts (e, rest)) (hnl : NonLoop lv)
    (hle : lv ≤ k) (hnp : lv < 2 → P2Ok W ts) (hno : NoLow W k term rest) (hfin : Fin W e lv k term rest out) :
    Parses W k term ts out := by
  by_cases hk : k = lv
  · subst hk
    simp only [Fin, hnl, and_self, if_true] at hfin
    rw [hfin.1]; exact hp
  · have hc : Conts W k term e rest out := by simpa [Fin, hk] using hfin
    obtain ⟨d, rfl⟩ : ∃ d, k = lv + d + 1 := ⟨k - lv - 1, by omega⟩
    exact raise W hp hnp d out (fun i h1 h2 => hno i (by omega) h2) hc

/-- finishing from the own-level statement of a loop level -/
theorem finish_loop {e lv ts rest k term out} (hown : ∀ out', Conts W lv term e rest out' → Parses W lv term ts out')
    (hl : ¬ NonLoop lv) (hle : lv ≤ k) (hnp : lv < 2 → P2Ok W ts) (hno : NoLow W k term rest)
    (hfin : Fin W e lv k term rest out) : Parses W k term ts out := by
  have hc : Conts W k term e rest out := by
    by_cases hk : k = lv
    · subst hk; simpa [Fin, hl] using hfin
    · simpa [Fin, hk] using hfin
  have hlv1 : 1 ≤ lv := by
    rcases Nat.eq_zero_or_pos lv with h | h
    · exact absurd (Or.inl h) hl
    · exact h
  by_cases hk : k = lv
  · subst hk; exact hown out hc
  · have hp := hown (e, rest) (hno lv hlv1 (by omega) e)
    obtain ⟨d, rfl⟩ : ∃ d, k = lv + d + 1 := ⟨k - lv - 1, by omega⟩
    exact raise W hp hnp d out (fun i h1 h2 => hno i (by omega) h2) hc

/-- a parenthesised expression is a leaf -/
theorem parses_paren {e : XExpr} (hrt : RT W e) (term : Terminator) (rest : List Tok)
    (hsafe : Safe e (toks (fmtBodyX e) ++ .p .RightParen :: rest)) :
    Parses W 0 term (.p .LeftParen :: (toks (fmtBodyX e) ++ .p .RightParen :: rest)) (e, rest) := by
  have hin : Parses W 15 .Standard (toks (fmtBodyX e) ++ .p .RightParen :: rest) (e, .p .RightParen :: rest) := by
    apply hrt 15 .Standard _ _ (fun h => by cases h) (lvl_le e) (Nat.le_refl _)
      (fun _ => rfl) (noLow_closes W 15 _ _ _ (Or.inl rfl)) hsafe
    have hI : Inert W 15 .Standard (.p .RightParen :: rest) := inert_closes W 15 _ _ _ (Or.inl rfl)
    unfold Fin
    split
    · rename_i h; exact absurd h.2 (by decide)
    · exact hI e
  obtain ⟨N, h⟩ := hin
  refine ⟨N + 1, fun f hf => ?_⟩
  obtain ⟨f', rfl, hf'⟩ := succ_of_pos hf
  unfold xparseLvl
  simp [parenTerminator, h f' hf']

theorem p2ok_paren (body rest : List Tok) (h : CastDead W (body ++ .p .RightParen :: rest)) :
    P2Ok W (.p .LeftParen :: (body ++ .p .RightParen :: rest)) :=
  ⟨rfl, by decide, fun _ => h⟩

theorem safe_suffix {e : XExpr} {ts r : List Tok} (h : Safe e ts) (hs : r <:+ ts) : Safe e r :=
  fun hl => tmplFree_suffix hs (h hl)

/-- the invariant for a sub-expression printed under `(outer, side)` -/
theorem rts {e : XExpr} (hrt : RT W e) (outer : Nat) (side : Side) (k : Nat) (term : Terminator) (rest : List Tok)
    (out : XExpr × List Tok) (hk : k ≤ 15)
    (hpos : needParen e.prec outer side = false →
      e.lvl ≤ k ∧ TermFits e term ∧ (term = .TypeList → gtFree e = true))
    (hcd : needParen e.prec outer side = true → CastDead W (toks (fmtBodyX e) ++ .p .RightParen :: rest))
    (hsafe : Safe e (toks (fmtSubX e outer side) ++ rest))
    (hno : NoLow W k term rest)
    (hfin : Fin W e (if needParen e.prec outer side then 0 else e.lvl) k term rest out) :
    Parses W k term (toks (fmtSubX e outer side) ++ rest) out := by
  rw [fmtSubX_eq] at hsafe ⊢
  cases hp : needParen e.prec outer side with
  | true =>
    rw [hp] at hfin hsafe
    simp only [if_true] at hfin
    rw [toks_wrap_true] at hsafe ⊢
    simp only [List.cons_append, List.append_assoc, List.nil_append] at hsafe ⊢
    have := parses_paren W hrt term rest (safe_suffix hsafe (List.suffix_cons _ _))
    exact finish_nonloop W this (Or.inl rfl) (Nat.zero_le _) (fun _ => p2ok_paren W _ _ (hcd hp)) hno hfin
  | false =>
    rw [hp] at hfin hsafe
    simp only [wrap_false] at hsafe ⊢
    obtain ⟨h1, h2, h3⟩ := hpos hp
    exact hrt k term rest out h3 h1 hk h2 hno hsafe (by simpa using hfin)

/-- `Fin` when the caller wants the node itself back and knows the level is inert in front of `rest` -/
theorem fin_self (e : XExpr) (lv k : Nat) (term : Terminator) (rest : List Tok) (hle : lv ≤ k)
    (hin : k ≠ 0 → Inert W k term rest) : Fin W e lv k term rest (e, rest) := by
  unfold Fin
  split
  · rename_i h
    refine ⟨rfl, fun h13 => hin (by omega)⟩
  · rename_i h
    by_cases hk0 : k = 0
    · subst hk0
      have : lv = 0 := by omega
      subst this
      exact absurd ⟨rfl, Or.inl rfl⟩ h
    · exact hin hk0 e

/-- a sub-expression read at level `k` in front of a `rest` that level `k` leaves alone comes back as itself -/
theorem rts_self {e : XExpr} (hrt : RT W e) (outer : Nat) (side : Side) (k : Nat) (term : Terminator) (rest : List Tok)
    (hk : k ≤ 15)
    (hpos : needParen e.prec outer side = false →
      e.lvl ≤ k ∧ TermFits e term ∧ (term = .TypeList → gtFree e = true))
    (hcd : needParen e.prec outer side = true → CastDead W (toks (fmtBodyX e) ++ .p .RightParen :: rest))
    (hsafe : Safe e (toks (fmtSubX e outer side) ++ rest))
    (hno : NoLow W k term rest) (hin : k ≠ 0 → Inert W k term rest) :
    Parses W k term (toks (fmtSubX e outer side) ++ rest) (e, rest) := by
  apply rts W hrt outer side k term rest (e, rest) hk hpos hcd hsafe hno
  apply fin_self W _ _ _ _ _ _ hin
  cases hp : needParen e.prec outer side with
  | true => simp
  | false => simpa using (hpos hp).1

theorem fin_of_conts (e : XExpr) (lv k : Nat) (term : Terminator) (rest : List Tok) (out : XExpr × List Tok)
    (hl : ¬ NonLoop k) (hc : Conts W k term e rest out) : Fin W e lv k term rest out := by
  unfold Fin
  rw [if_neg (fun h => hl h.2)]
  exact hc

end RsslVerif.Lemmas.RoundtripFull

import RsslVerif.Driver.Util
/-! Line-protocol front end of the C07 model (stub until the model is built). -/
namespace RsslVerif.Driver.C07

def handle (op : String) (args : List String) : String :=
  let _ := (op, args)
  "unsupported-op"

end RsslVerif.Driver.C07

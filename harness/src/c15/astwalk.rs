//! Declarations and uses of identifiers in a syntax tree handed to the formatter (`rssl_ast::Module` as produced by
//! the HLSL / MSL generators), with C++ name lookup over the declarations of that tree only.
//!
//! The walk yields a flat event list (declaration / use / scope open / scope close).  Two trees of the same shape
//! give event lists of the same length; the index of a declaration event identifies the declaration site in both.
use rssl::ast;
use std::collections::HashMap;

#[derive(Clone, Copy, Debug, PartialEq, Eq, Hash, PartialOrd, Ord)]
pub enum DK {
    Namespace,
    Struct,
    Member,
    Method,
    Enum,
    EnumValue,
    CBuffer,
    CBufferMember,
    Global,
    Function,
    Param,
    Local,
    TParam,
    Typedef,
}

impl DK {
    pub fn letter(self) -> char {
        match self {
            DK::Namespace => 'N',
            DK::Struct => 'S',
            DK::Member => 'M',
            DK::Method => 'm',
            DK::Enum => 'E',
            DK::EnumValue => 'V',
            DK::CBuffer => 'C',
            DK::CBufferMember => 'D',
            DK::Global => 'G',
            DK::Function => 'F',
            DK::Param => 'P',
            DK::Local => 'L',
            DK::TParam => 'T',
            DK::Typedef => 'Y',
        }
    }
    fn opens_scope(self) -> bool {
        matches!(self, DK::Namespace | DK::Struct | DK::Enum)
    }
}

/// what little typing the member lookup needs
#[derive(Clone, Debug, PartialEq)]
pub enum Ty {
    /// a struct declared in the tree (index of its declaration event)
    Struct(usize),
    Array(Box<Ty>),
    Unknown,
}

#[derive(Clone, Copy, Debug, PartialEq, Eq)]
pub enum UK {
    Value,
    Type,
    Member,
}

#[derive(Clone, Debug, PartialEq)]
pub enum Res {
    /// the declaration sites found by lookup (sorted; several = overloads or an ambiguity)
    Decls(Vec<usize>),
    /// nothing in the tree declares the name: a built-in of the target, or a dangling name
    Undeclared,
    /// member access on an object whose type is a struct of the tree that has no such member
    NoSuchMember(usize),
    /// member access on an object of a built-in / unknown type
    UnknownObject,
}

#[derive(Clone, Debug)]
pub enum Ev {
    Decl { kind: DK, name: String, scope: usize, ty: Ty, helper: bool },
    /// `first`: for a qualified path, the declarations its first component was looked up to
    Use { kind: UK, path: Vec<String>, absolute: bool, res: Res, first: Vec<usize>, scope: usize, helper: bool },
    /// opens the scope of a function (params + body) or a block
    Open(char),
    Close,
}

struct Scope {
    parent: Option<usize>,
    names: Vec<(String, usize)>,
}

pub struct Walk {
    pub evs: Vec<Ev>,
    scopes: Vec<Scope>,
    cur: usize,
    ns_intern: HashMap<(usize, String), usize>,
    /// declaration event -> scope it opens (namespace / struct / enum)
    sub: HashMap<usize, usize>,
    helper: usize,
    helper_name: Option<String>,
}

impl Walk {
    /// `helper_ns`: name of the namespace that holds target-side helper code (its contents are generated text that
    /// is the same for every program; declarations and uses inside are flagged `helper`)
    pub fn run(module: &ast::Module, helper_ns: Option<&str>) -> Walk {
        let mut w = Walk {
            evs: Vec::new(),
            scopes: vec![Scope { parent: None, names: Vec::new() }],
            cur: 0,
            ns_intern: HashMap::new(),
            sub: HashMap::new(),
            helper: 0,
            helper_name: helper_ns.map(|s| s.to_string()),
        };
        w.roots(&module.root_definitions);
        w
    }

    pub fn scope_parent(&self, s: usize) -> Option<usize> {
        self.scopes[s].parent
    }

    /// lookup of a path from the root over all declarations of the finished walk (as if it were printed absolute)
    pub fn lookup_absolute(&self, path: &[String]) -> Vec<usize> {
        let saved = self.cur;
        let _ = saved;
        self.lookup(path, true)
    }

    /// the (name, declaration event) pairs of every scope
    pub fn scope_tables(&self) -> Vec<Vec<(String, usize)>> {
        self.scopes.iter().map(|s| s.names.clone()).collect()
    }

    fn new_scope(&mut self, parent: usize) -> usize {
        self.scopes.push(Scope { parent: Some(parent), names: Vec::new() });
        self.scopes.len() - 1
    }

    fn decl_in(&mut self, scope: usize, kind: DK, name: &str, ty: Ty) -> usize {
        let idx = self.evs.len();
        self.evs.push(Ev::Decl { kind, name: name.to_string(), scope, ty, helper: self.helper > 0 });
        self.scopes[scope].names.push((name.to_string(), idx));
        idx
    }

    fn decl(&mut self, kind: DK, name: &str, ty: Ty) -> usize {
        self.decl_in(self.cur, kind, name, ty)
    }

    fn kind_of(&self, idx: usize) -> Option<DK> {
        match &self.evs[idx] {
            Ev::Decl { kind, .. } => Some(*kind),
            _ => None,
        }
    }

    fn ty_of_decl(&self, idx: usize) -> Ty {
        match &self.evs[idx] {
            Ev::Decl { ty, .. } => ty.clone(),
            _ => Ty::Unknown,
        }
    }

    /// C++ lookup of `a::b::c` / `::a::b::c` from the current scope over the declarations made so far
    pub fn lookup(&self, path: &[String], absolute: bool) -> Vec<usize> {
        self.lookup_as(path, absolute, path.len() > 1)
    }

    /// `qualified`: the first component is followed by `::` (only namespaces, structs and enums are considered for it)
    fn lookup_as(&self, path: &[String], absolute: bool, qualified: bool) -> Vec<usize> {
        let first = &path[0];
        let pick = |s: usize| -> Vec<usize> {
            self.scopes[s]
                .names
                .iter()
                .filter(|(n, i)| n == first && (!qualified || self.kind_of(*i).map(|k| k.opens_scope()).unwrap_or(false)))
                .map(|(_, i)| *i)
                .collect()
        };
        let mut cands = Vec::new();
        if absolute {
            cands = pick(0);
        } else {
            let mut s = Some(self.cur);
            while let Some(i) = s {
                cands = pick(i);
                if !cands.is_empty() {
                    break;
                }
                s = self.scopes[i].parent;
            }
        }
        for (k, comp) in path.iter().enumerate().skip(1) {
            let last = k + 1 == path.len();
            let mut next = Vec::new();
            for c in &cands {
                if let Some(sc) = self.sub.get(c) {
                    for (n, i) in &self.scopes[*sc].names {
                        if n == comp && (last || self.kind_of(*i).map(|k| k.opens_scope()).unwrap_or(false)) {
                            next.push(*i);
                        }
                    }
                }
            }
            cands = next;
        }
        cands.sort();
        cands.dedup();
        cands
    }

    fn use_path(&mut self, kind: UK, id: &ast::ScopedIdentifier) -> Vec<usize> {
        let path: Vec<String> = id.identifiers.iter().map(|l| l.node.clone()).collect();
        let absolute = id.base == ast::ScopedIdentifierBase::Absolute;
        let found = self.lookup(&path, absolute);
        let first = if path.len() > 1 { self.lookup_as(&path[..1], absolute, true) } else { Vec::new() };
        let res = if found.is_empty() { Res::Undeclared } else { Res::Decls(found.clone()) };
        self.evs.push(Ev::Use { kind, path, absolute, res, first, scope: self.cur, helper: self.helper > 0 });
        found
    }

    // ---------------------------------------------------------------- types

    fn type_layout(&mut self, layout: &ast::TypeLayout) -> Ty {
        let found = self.use_path(UK::Type, &layout.0);
        let mut args = Vec::new();
        for a in layout.1.iter() {
            args.push(self.expr_or_type(a));
        }
        if found.len() == 1 {
            return match self.kind_of(found[0]) {
                Some(DK::Struct) => Ty::Struct(found[0]),
                Some(DK::Typedef) => self.ty_of_decl(found[0]),
                _ => Ty::Unknown,
            };
        }
        if found.is_empty() {
            let name = layout.0.identifiers.last().map(|l| l.node.as_str()).unwrap_or("");
            // object wrappers whose members are those of the element type
            if matches!(name, "ConstantBuffer") && args.len() == 1 {
                return args[0].clone();
            }
            if name == "array" && !args.is_empty() {
                return Ty::Array(Box::new(args[0].clone()));
            }
        }
        Ty::Unknown
    }

    fn ty(&mut self, t: &ast::Type) -> Ty {
        self.type_layout(&t.layout)
    }

    fn type_id(&mut self, t: &ast::TypeId) -> Ty {
        let base = self.ty(&t.base);
        self.declarator(&t.abstract_declarator, base).1
    }

    fn expr_or_type(&mut self, e: &ast::ExpressionOrType) -> Ty {
        match e {
            ast::ExpressionOrType::Type(t) => self.type_id(t),
            ast::ExpressionOrType::Expression(x) => {
                self.expr(&x.node);
                Ty::Unknown
            }
            // printed once: follow the type reading when it names something of the tree, else the expression
            ast::ExpressionOrType::Either(x, t) => {
                let path: Vec<String> = t.base.layout.0.identifiers.iter().map(|l| l.node.clone()).collect();
                let abs = t.base.layout.0.base == ast::ScopedIdentifierBase::Absolute;
                let found = self.lookup(&path, abs);
                if found.iter().any(|i| matches!(self.kind_of(*i), Some(DK::Struct | DK::Enum | DK::Typedef | DK::TParam))) || found.is_empty() {
                    self.type_id(t)
                } else {
                    self.expr(&x.node);
                    Ty::Unknown
                }
            }
        }
    }

    /// returns (declared name, type with the declarator's array layers applied)
    fn declarator(&mut self, d: &ast::Declarator, base: Ty) -> (Option<String>, Ty) {
        match d {
            ast::Declarator::Empty => (None, base),
            ast::Declarator::Identifier(id, attrs) => {
                self.attributes(attrs);
                (id.identifiers.last().map(|l| l.node.clone()), base)
            }
            ast::Declarator::Pointer(p) => {
                self.attributes(&p.attributes);
                self.declarator(&p.inner, base)
            }
            ast::Declarator::Reference(r) => {
                self.attributes(&r.attributes);
                self.declarator(&r.inner, base)
            }
            ast::Declarator::Array(a) => {
                self.attributes(&a.attributes);
                if let Some(sz) = &a.array_size {
                    self.expr(&sz.node);
                }
                self.declarator(&a.inner, Ty::Array(Box::new(base)))
            }
        }
    }

    fn attributes(&mut self, attrs: &[ast::Attribute]) {
        for a in attrs {
            for arg in &a.arguments {
                self.expr(&arg.node);
            }
        }
    }

    // ---------------------------------------------------------------- expressions

    fn initializer(&mut self, i: &ast::Initializer) {
        match i {
            ast::Initializer::Expression(e) => {
                self.expr(&e.node);
            }
            ast::Initializer::Aggregate(xs) => {
                for x in xs {
                    self.initializer(x);
                }
            }
            // property names and enumerants of the sampler description: not identifiers of the program
            ast::Initializer::StaticSampler(_) => {}
        }
    }

    pub fn expr(&mut self, e: &ast::Expression) -> Ty {
        use ast::Expression as E;
        match e {
            E::Literal(_) => Ty::Unknown,
            E::Identifier(id) => {
                let found = self.use_path(UK::Value, id);
                if found.len() == 1 { self.ty_of_decl(found[0]) } else if !found.is_empty() && found.iter().all(|i| self.ty_of_decl(*i) == self.ty_of_decl(found[0])) { self.ty_of_decl(found[0]) } else { Ty::Unknown }
            }
            E::UnaryOperation(_, a) => {
                self.expr(&a.node);
                Ty::Unknown
            }
            E::BinaryOperation(op, a, b) => {
                let ta = self.expr(&a.node);
                self.expr(&b.node);
                if *op == ast::BinOp::Assignment { ta } else { Ty::Unknown }
            }
            E::TernaryConditional(c, a, b) => {
                self.expr(&c.node);
                let ta = self.expr(&a.node);
                self.expr(&b.node);
                ta
            }
            E::ArraySubscript(a, i) => {
                let ta = self.expr(&a.node);
                self.expr(&i.node);
                match ta {
                    Ty::Array(t) => *t,
                    _ => Ty::Unknown,
                }
            }
            E::Member(obj, name) => {
                let to = self.expr(&obj.node);
                let path: Vec<String> = name.identifiers.iter().map(|l| l.node.clone()).collect();
                let (res, ty) = match to {
                    Ty::Struct(s) => {
                        let found: Vec<usize> = match self.sub.get(&s) {
                            Some(sc) => self.scopes[*sc].names.iter().filter(|(n, _)| Some(n) == path.last()).map(|(_, i)| *i).collect(),
                            None => Vec::new(),
                        };
                        if found.is_empty() {
                            (Res::NoSuchMember(s), Ty::Unknown)
                        } else {
                            let t = self.ty_of_decl(found[0]);
                            (Res::Decls(found), t)
                        }
                    }
                    _ => (Res::UnknownObject, Ty::Unknown),
                };
                self.evs.push(Ev::Use { kind: UK::Member, path, absolute: false, res, first: Vec::new(), scope: self.cur, helper: self.helper > 0 });
                ty
            }
            E::Call(f, targs, args) => {
                let tf = self.expr(&f.node);
                for t in targs {
                    self.expr_or_type(t);
                }
                for a in args {
                    self.expr(&a.node);
                }
                // the type recorded for a function declaration is its return type
                match &f.node {
                    E::Identifier(_) => tf,
                    _ => Ty::Unknown,
                }
            }
            E::Cast(t, x) => {
                let ty = self.type_id(t);
                self.expr(&x.node);
                ty
            }
            E::BracedInit(t, xs) => {
                let ty = self.type_id(t);
                for x in xs {
                    self.initializer(x);
                }
                ty
            }
            E::SizeOf(x) => {
                self.expr_or_type(x);
                Ty::Unknown
            }
            E::AmbiguousParseBranch(bs) => {
                if let Some(b) = bs.first() {
                    self.expr(&b.expr.node);
                }
                Ty::Unknown
            }
        }
    }

    // ---------------------------------------------------------------- statements

    fn var_def(&mut self, v: &ast::VarDef, kind: DK) {
        let base = self.ty(&v.local_type);
        for d in &v.defs {
            let (name, ty) = self.declarator(&d.declarator, base.clone());
            // C++: the name is in scope in its own initialiser
            if let Some(n) = name {
                self.decl(kind, &n, ty);
            }
            if let Some(i) = &d.init {
                self.initializer(i);
            }
        }
    }

    fn block(&mut self, ss: &[ast::Statement]) {
        let saved = self.cur;
        self.cur = self.new_scope(saved);
        self.evs.push(Ev::Open('B'));
        for s in ss {
            self.stmt(s);
        }
        self.evs.push(Ev::Close);
        self.cur = saved;
    }

    fn sub_stmt(&mut self, s: &ast::Statement) {
        // a controlled statement has its own scope even without braces
        match &s.kind {
            ast::StatementKind::Block(_) => self.stmt(s),
            _ => {
                let saved = self.cur;
                self.cur = self.new_scope(saved);
                self.stmt(s);
                self.cur = saved;
            }
        }
    }

    fn stmt(&mut self, s: &ast::Statement) {
        use ast::StatementKind as K;
        self.attributes(&s.attributes);
        match &s.kind {
            K::Empty | K::Break | K::Continue | K::Discard => {}
            K::Expression(e) => {
                self.expr(e);
            }
            K::Var(v) => self.var_def(v, DK::Local),
            K::AmbiguousDeclarationOrExpression(v, _) => self.var_def(v, DK::Local),
            K::Block(ss) => self.block(ss),
            K::If(c, a) => {
                self.expr(&c.node);
                self.sub_stmt(a);
            }
            K::IfElse(c, a, b) => {
                self.expr(&c.node);
                self.sub_stmt(a);
                self.sub_stmt(b);
            }
            K::For(init, c, inc, body) => {
                let saved = self.cur;
                self.cur = self.new_scope(saved);
                match init {
                    ast::InitStatement::Empty => {}
                    ast::InitStatement::Expression(e) => {
                        self.expr(&e.node);
                    }
                    ast::InitStatement::Declaration(v) => self.var_def(v, DK::Local),
                }
                if let Some(c) = c {
                    self.expr(&c.node);
                }
                if let Some(i) = inc {
                    self.expr(&i.node);
                }
                self.sub_stmt(body);
                self.cur = saved;
            }
            K::While(c, b) => {
                self.expr(&c.node);
                self.sub_stmt(b);
            }
            K::DoWhile(b, c) => {
                self.sub_stmt(b);
                self.expr(&c.node);
            }
            K::Switch(c, b) => {
                self.expr(&c.node);
                self.sub_stmt(b);
            }
            K::Return(e) => {
                if let Some(e) = e {
                    self.expr(&e.node);
                }
            }
            K::CaseLabel(e, b) => {
                self.expr(&e.node);
                self.stmt(b);
            }
            K::DefaultLabel(b) => self.stmt(b),
        }
    }

    // ---------------------------------------------------------------- definitions

    fn template_params(&mut self, tp: &ast::TemplateParamList) {
        for p in &tp.0 {
            match p {
                ast::TemplateParam::Type(t) => {
                    if let Some(d) = &t.default {
                        self.ty(d);
                    }
                    if let Some(n) = &t.name {
                        self.decl(DK::TParam, &n.node, Ty::Unknown);
                    }
                }
                ast::TemplateParam::Value(v) => {
                    self.ty(&v.value_type);
                    if let Some(d) = &v.default {
                        self.expr(&d.node);
                    }
                    if let Some(n) = &v.name {
                        self.decl(DK::TParam, &n.node, Ty::Unknown);
                    }
                }
            }
        }
    }

    fn function(&mut self, f: &ast::FunctionDefinition, kind: DK) {
        self.attributes(&f.attributes);
        let outer = self.cur;
        let fidx = self.decl_in(outer, kind, &f.name.node, Ty::Unknown);
        // the function's own scope: template parameters, parameters and the outermost block
        self.cur = self.new_scope(outer);
        self.evs.push(Ev::Open('F'));
        self.template_params(&f.template_params);
        let ret = self.ty(&f.returntype.return_type);
        if let Ev::Decl { ty, .. } = &mut self.evs[fidx] {
            *ty = ret;
        }
        for p in &f.params {
            let base = self.ty(&p.param_type);
            let (name, ty) = self.declarator(&p.declarator, base);
            if let Some(n) = name {
                self.decl(DK::Param, &n, ty);
            }
            if let Some(d) = &p.default_expr {
                self.expr(d);
            }
        }
        if let Some(body) = &f.body {
            for s in body {
                self.stmt(s);
            }
        }
        self.evs.push(Ev::Close);
        self.cur = outer;
    }

    fn struct_def(&mut self, sd: &ast::StructDefinition) {
        let idx = self.decl(DK::Struct, &sd.name.node, Ty::Unknown);
        if let Ev::Decl { ty, .. } = &mut self.evs[idx] {
            *ty = Ty::Struct(idx);
        }
        let saved = self.cur;
        let sc = self.new_scope(saved);
        self.sub.insert(idx, sc);
        self.cur = sc;
        self.evs.push(Ev::Open('S'));
        self.template_params(&sd.template_params);
        for b in &sd.base_types {
            self.ty(b);
        }
        for m in &sd.members {
            if let ast::StructEntry::Variable(v) = m {
                self.attributes(&v.attributes);
                let base = self.ty(&v.ty);
                for d in &v.defs {
                    let (name, ty) = self.declarator(&d.declarator, base.clone());
                    if let Some(n) = name {
                        self.decl(DK::Member, &n, ty);
                    }
                    if let Some(i) = &d.init {
                        self.initializer(i);
                    }
                }
            }
        }
        // method bodies see every member
        for m in &sd.members {
            if let ast::StructEntry::Method(f) = m {
                self.function(f, DK::Method);
            }
        }
        self.evs.push(Ev::Close);
        self.cur = saved;
    }

    fn roots(&mut self, defs: &[ast::RootDefinition]) {
        for d in defs {
            match d {
                ast::RootDefinition::Struct(sd) => self.struct_def(sd),
                ast::RootDefinition::Enum(ed) => {
                    let idx = self.decl(DK::Enum, &ed.name.node, Ty::Unknown);
                    let saved = self.cur;
                    let sc = self.new_scope(saved);
                    self.sub.insert(idx, sc);
                    self.evs.push(Ev::Open('E'));
                    for v in &ed.values {
                        if let Some(x) = &v.value {
                            self.cur = sc;
                            self.expr(&x.node);
                            self.cur = saved;
                        }
                        // unscoped enumeration: the enumerator is a name of the enclosing scope as well
                        let vi = self.decl_in(sc, DK::EnumValue, &v.name.node, Ty::Unknown);
                        self.scopes[saved].names.push((v.name.node.clone(), vi));
                    }
                    self.evs.push(Ev::Close);
                }
                ast::RootDefinition::Typedef(td) => {
                    let base = self.ty(&td.source);
                    let (name, ty) = self.declarator(&td.declarator, base);
                    if let Some(n) = name {
                        self.decl(DK::Typedef, &n, ty);
                    }
                }
                ast::RootDefinition::ConstantBuffer(cb) => {
                    self.attributes(&cb.attributes);
                    self.decl(DK::CBuffer, &cb.name.node, Ty::Unknown);
                    self.evs.push(Ev::Open('C'));
                    for m in &cb.members {
                        let base = self.ty(&m.ty);
                        for d in &m.defs {
                            let (name, ty) = self.declarator(&d.declarator, base.clone());
                            if let Some(n) = name {
                                // members of a cbuffer block are names of the enclosing scope
                                self.decl(DK::CBufferMember, &n, ty);
                            }
                        }
                    }
                    self.evs.push(Ev::Close);
                }
                ast::RootDefinition::GlobalVariable(gv) => {
                    self.attributes(&gv.attributes);
                    let base = self.ty(&gv.global_type);
                    for d in &gv.defs {
                        let (name, ty) = self.declarator(&d.declarator, base.clone());
                        if let Some(n) = name {
                            self.decl(DK::Global, &n, ty);
                        }
                        if let Some(i) = &d.init {
                            self.initializer(i);
                        }
                    }
                }
                ast::RootDefinition::Function(f) => self.function(f, DK::Function),
                ast::RootDefinition::Namespace(name, inner) => {
                    let is_helper = self.cur == 0 && Some(&name.node) == self.helper_name.as_ref();
                    if is_helper {
                        self.helper += 1;
                    }
                    let idx = self.decl(DK::Namespace, &name.node, Ty::Unknown);
                    let saved = self.cur;
                    let sc = match self.ns_intern.get(&(saved, name.node.clone())) {
                        Some(s) => *s,
                        None => {
                            let s = self.new_scope(saved);
                            self.ns_intern.insert((saved, name.node.clone()), s);
                            s
                        }
                    };
                    self.sub.insert(idx, sc);
                    self.cur = sc;
                    self.evs.push(Ev::Open('N'));
                    self.roots(inner);
                    self.evs.push(Ev::Close);
                    self.cur = saved;
                    if is_helper {
                        self.helper -= 1;
                    }
                }
                ast::RootDefinition::Pipeline(_) => {}
            }
        }
    }
}

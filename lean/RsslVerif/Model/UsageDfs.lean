import RsslVerif.Model.Usage
/-!
# The seeded variant C08-6 of `GlobalUsageAnalysis::recurse`: a memoised depth-first walk WITHOUT an in-progress marker

NEGATIVE example, in the vocabulary of the C02 model (`Model/Usage.lean`).  The variant replaces the sweep
"for every key: add the sets of its members; repeat until no set grew" by

```rust
fn recurse(self) -> GlobalUsageAnalysis {
    let mut resolved = HashMap::with_capacity(self.0.len());
    for key in self.0.keys() { Self::resolve_symbol(*key, &self.0, &mut resolved); }
    GlobalUsageAnalysis(resolved)
}
fn resolve_symbol(symbol, direct, resolved) {
    if resolved.contains_key(&symbol) { return; }                 // finished symbols are reused ...
    let direct_set = &direct.get(&symbol).unwrap().required;
    let mut required = direct_set.clone();
    for other in direct_set {
        if *other == symbol { continue; }                         // ... a direct self call is skipped ...
        Self::resolve_symbol(*other, direct, resolved);           // ... but a symbol that is still being resolved is entered again
        required.extend(&resolved.get(other).unwrap().required);
    }
    resolved.insert(symbol, LocalUsageAnalysis { required });
}
```

The recursion depth is the fuel: `stackExhausted` is what the real process reports as "has overflowed its stack"
(SIGABRT).  `Thm.C08.usage_memo_dfs_overflows_on_cycle` proves that on a call cycle through two different symbols the walk
exhausts EVERY depth, while the real loop (`Model.Usage.recurse`) returns the closure of the same table
(`Thm.C08.usage_closure_terminates`).  Core Lean only.
-/
namespace RsslVerif.Model.UsageDfs
open RsslVerif.Model.Usage

inductive DfsErr where
  /-- the nesting of `resolve_symbol` calls exceeded the available depth -/
  | stackExhausted
  /-- `.get(k).unwrap()` on a symbol without an entry -/
  | missingKey (k : Sym)
  deriving DecidableEq, Repr

/-- the `for other in direct_set` loop; `rec` = the nested call at the remaining depth; state = the `resolved`
    table and the `required` set under construction -/
def resolveAll (rec : Table → Sym → Except DfsErr Table) (s : Sym) : List Sym → Table → SymSet → Except DfsErr (Table × SymSet)
  | [], r, acc => .ok (r, acc)
  | o :: os, r, acc =>
    if o = s then resolveAll rec s os r acc
    else
      match rec r o with
      | .error e => .error e
      | .ok r' =>
        match r'.lookup o with
        | none => .error (.missingKey o)
        | some ro => resolveAll rec s os r' (extend acc ro)

/-- `resolve_symbol` at call depth `depth` -/
def resolve (direct : Table) : Nat → Table → Sym → Except DfsErr Table
  | 0, _, _ => .error .stackExhausted
  | depth + 1, resolved, s =>
    if s ∈ keysOf resolved then .ok resolved
    else
      match direct.lookup s with
      | none => .error (.missingKey s)
      | some ds =>
        match resolveAll (resolve direct depth) s ds resolved ds with
        | .error e => .error e
        | .ok (r', required) => .ok (r' ++ [(s, required)])

/-- the variant's `recurse`: every key in the iteration order `keys` -/
def recurseDfs (direct : Table) (depth : Nat) : List Sym → Table → Except DfsErr Table
  | [], r => .ok r
  | k :: ks, r =>
    match resolve direct depth r k with
    | .error e => .error e
    | .ok r' => recurseDfs direct depth ks r'

/-- `bool is_odd(uint); bool is_even(uint n) { .. is_odd(n - 1u) } bool is_odd(uint n) { .. is_even(n - 1u) }` -/
def twoCycle : Table := [(.fn 0, [.fn 1]), (.fn 1, [.fn 0])]

/-- a cycle through a function, a global's initialiser and a second function -/
def threeCycle : Table := [(.fn 0, [.glob 0]), (.glob 0, [.fn 1]), (.fn 1, [.fn 0])]

/-- a function that calls itself and a leaf: the case the variant handles -/
def selfLoop : Table := [(.fn 0, [.fn 0, .fn 1]), (.fn 1, [])]

end RsslVerif.Model.UsageDfs

import RsslVerif.Lemmas.DefRT1
/-! Round trip of struct definitions: members, methods (which do not read as members), the member list, the struct. -/
set_option linter.unusedSimpArgs false
set_option linter.unusedVariables false
namespace RsslVerif.Lemmas.DefRT
open RsslVerif.Gen.FmtTables RsslVerif.Gen.ParseTables RsslVerif.Gen.SyntaxTables RsslVerif.Model.Format
open RsslVerif.Model.FormatFull RsslVerif.Model.ParseFull RsslVerif.Model.FormatStmt RsslVerif.Model.ParseStmt
open RsslVerif.Model.FormatDef RsslVerif.Model.ParseDef
open RsslVerif.Lemmas.FmtParseTables RsslVerif.Lemmas.RoundtripFull RsslVerif.Lemmas.StmtRT

variable (W : List String)

def memberToks : Member → List Tok
  | .var attrs v => toks (fmtAttrs attrs) ++ (toks (fmtVarDef v) ++ [.p .Semicolon])
  | .method f => fnToks f

def membersToks : List Member → List Tok
  | [] => []
  | m :: r => memberToks m ++ membersToks r

theorem toks_fmtMember (m : Member) : toks (fmtMember m) = memberToks m := by
  cases m with
  | var attrs v => simp [fmtMember, memberToks, toks_append, semi, pp, toks]
  | method f => simp [fmtMember, memberToks, toks_fmtFn, toks]

theorem toks_fmtMembers : ∀ ms : List Member, toks (fmtMembers ms) = membersToks ms
  | [] => rfl
  | m :: r => by simp [fmtMembers, membersToks, toks_append, toks_fmtMember, toks_fmtMembers r]

def WFMember : Member → Prop
  | .var attrs v => WFAttrs W attrs ∧ WFVarDef W v
  | .method f => WFFn W f

def hasLtMember : Member → Bool
  | .var attrs v => hasLtAttrs attrs || hasLtVarDef v
  | .method f => hasLtFn f

def hasLtMembers : List Member → Bool
  | [] => false
  | m :: r => hasLtMember m || hasLtMembers r

theorem varDef_head (v : VarDef) : ∃ t r, toks (fmtVarDef v) = t :: r ∧ TyHead t := by
  have : toks (fmtVarDef v) = v.mods.map modTok ++ (.id v.name ::
      (toks (fmtTArgs v.targs (startsTok (fmtInitDecls v.defs) false)) ++ idsToks v.defs)) := by
    simp [fmtVarDef, toks_fmtTy, toks_fmtInitDecls]
  rw [this]
  exact ty_head _ _ _

theorem member_head (m : Member) : ∃ t r, memberToks m = t :: r ∧ (TyHead t ∨ t = .p .LeftSquareBracket) := by
  cases m with
  | method f => exact fn_head f
  | var attrs v =>
    cases attrs with
    | nil =>
      obtain ⟨t, r, h, hh⟩ := varDef_head v
      exact ⟨t, r ++ [.p .Semicolon], by simp [memberToks, fmtAttrs, h], Or.inl hh⟩
    | cons a as =>
      exact ⟨.p .LeftSquareBracket, _, by simp only [memberToks, fmtAttrs, toks_append, toks_fmtAttr a, List.cons_append] <;> rfl, Or.inr rfl⟩

/-- a member variable -/
theorem var_member_reads (attrs : List Attr) (v : VarDef) (hw : WFMember W (.var attrs v)) (rest : List Tok)
    (hsafe : hasLtMember (.var attrs v) = true → TmplFree (memberToks (.var attrs v) ++ rest) = true) :
    ∃ N, ∀ f, N ≤ f → parseStructVar W f (memberToks (.var attrs v) ++ rest) = some (.var attrs v, rest) := by
  obtain ⟨hwa, hwv⟩ := hw
  obtain ⟨t, r, htr, hth⟩ := varDef_head v
  have htoks : memberToks (.var attrs v) ++ rest = toks (fmtAttrs attrs) ++ (toks (fmtVarDef v) ++ .p .Semicolon :: rest) := by
    simp [memberToks]
  rw [htoks] at hsafe ⊢
  obtain ⟨N1, h1⟩ := attrs_read W attrs hwa (toks (fmtVarDef v) ++ .p .Semicolon :: rest)
    (by intro r' h; rw [htr] at h; simp only [List.cons_append, List.cons.injEq] at h; exact (tyHead_ne t hth).2.1 h.1)
    (fun hl => hsafe (by simp [hasLtMember, hl]))
  obtain ⟨N2, h2⟩ := varDef_reads W v hwv (.p .Semicolon :: rest) ⟨rest, rfl⟩
    (fun hl => tmplFree_suffix (List.suffix_append _ _) (hsafe (by simp [hasLtMember, hl])))
  refine ⟨max N1 N2, fun f hf => ?_⟩
  unfold parseStructVar
  simp only [h1 f (by omega), h2 f (by omega)]

/-- a method does not read as a member variable: after the name comes `(`, not `;` -/
theorem method_not_var (fn : FnDef) (hw : WFFn W fn) (rest : List Tok)
    (hsafe : hasLtFn fn = true → TmplFree (fnToks fn ++ rest) = true) :
    ∃ N, ∀ f, N ≤ f → parseStructVar W f (fnToks fn ++ rest) = none := by
  obtain ⟨hwa, hstop, hwT, hwp, hwb⟩ := hw
  obtain ⟨ts, rs, htrs, hths⟩ := sig_head fn
  have htoks : fnToks fn ++ rest = toks (fmtAttrs fn.attrs) ++ (sigToks fn ++ rest) := by simp [fnToks]
  obtain ⟨X, hX⟩ : ∃ X, X = paramsToks fn.params ++ (.p .RightParen :: (toks (fmtSem fn.sem) ++ (bodyToks fn.body ++ rest))) :=
    ⟨_, rfl⟩
  have hsig : sigToks fn ++ rest = fn.rmods.map modTok ++ (.id fn.rname :: (toks (fmtTArgs fn.rtargs false) ++
      (.id fn.name :: .p .LeftParen :: X))) := by
    simp [sigToks, hX]
  obtain ⟨N1, h1⟩ := attrs_read W fn.attrs hwa (sigToks fn ++ rest)
    (by intro r' h; rw [htrs] at h; simp only [List.cons_append, List.cons.injEq] at h; exact (tyHead_ne ts hths).2.1 h.1)
    (fun hl => by rw [← htoks]; exact hsafe (by simp [hasLtFn, hl]))
  have hs1 : hasLtFn fn = true → TmplFree (sigToks fn ++ rest) = true := fun hl =>
    tmplFree_suffix (List.suffix_append _ _) (by rw [← htoks]; exact hsafe hl)
  rw [hsig] at hs1
  obtain ⟨N2, h2⟩ := ty_reads W fn.rmods fn.rname fn.rtargs false hstop hwT (.id fn.name) _ (afterTy_id _)
    (fun hl => tmplFree_suffix ((List.suffix_cons _ _).trans (List.suffix_append _ _)) (hs1 (by simp [hasLtFn, hl])))
  obtain ⟨N3, h3⟩ := rtDN W (.name fn.name) trivial rfl (.p .LeftParen :: X) (by intro r h; cases h)
    (fun hl => by simp [hasLtDecl] at hl)
  refine ⟨max (max N1 N2) N3 + 1, fun f hf => ?_⟩
  obtain ⟨f', rfl, hf'⟩ := succ_of_pos hf
  have g1 := h1 (f' + 1) (by omega)
  have g2 := h2 (f' + 1) (by omega)
  have g3 := h3 f' (by omega)
  have hd : toks (fmtDecl (.name fn.name) true) = [.id fn.name] := by simp [fmtDecl, toks]
  rw [hd] at g3
  simp only [List.cons_append, List.nil_append] at g3
  rw [htoks]
  unfold parseStructVar
  rw [g1]
  simp only [hsig]
  unfold parseVarDef
  rw [g2]
  simp only
  unfold parseInitDecls
  rw [g3]
  simp only [parseInitializer]

/-- the members of a struct up to its closing brace -/
theorem members_read : ∀ (ms : List Member), (∀ m, m ∈ ms → WFMember W m) → ∀ rest,
    (hasLtMembers ms = true → TmplFree (membersToks ms ++ .p .RightBrace :: rest) = true) →
    ∃ N, ∀ f, N ≤ f → parseMembers W f (membersToks ms ++ .p .RightBrace :: rest) = .ok ms (.p .RightBrace :: rest)
  | [], _, rest, _ => by
    refine ⟨1, fun f hf => ?_⟩
    obtain ⟨f', rfl, _⟩ := succ_of_pos hf
    simp [membersToks, parseMembers]
  | m :: ms, hw, rest, hsafe => by
    obtain ⟨t, r, htr, hth⟩ := member_head m
    have hne : t ≠ .p .RightBrace := by
      rcases hth with h | h
      · exact (tyHead_ne t h).2.2.2.1
      · rw [h]; decide
    have htoks : membersToks (m :: ms) ++ .p .RightBrace :: rest = memberToks m ++ (membersToks ms ++ .p .RightBrace :: rest) := by
      simp [membersToks]
    rw [htoks] at hsafe ⊢
    obtain ⟨N2, h2⟩ := members_read ms (fun x hx => hw x (List.mem_cons_of_mem _ hx)) rest
      (fun hl => tmplFree_suffix (List.suffix_append _ _) (hsafe (by simp [hasLtMembers, hl])))
    cases m with
    | var attrs v =>
      obtain ⟨N1, h1⟩ := var_member_reads W attrs v (hw _ List.mem_cons_self) (membersToks ms ++ .p .RightBrace :: rest)
        (fun hl => hsafe (by simp [hasLtMembers, hl]))
      refine ⟨max N1 N2 + 1, fun f hf => ?_⟩
      obtain ⟨f', rfl, hf'⟩ := succ_of_pos hf
      have g1 := h1 f' (by omega)
      have g2 := h2 f' (by omega)
      rw [htr] at g1 ⊢
      simp only [List.cons_append] at g1 ⊢
      unfold parseMembers
      split
      · rename_i heq; simp only [List.cons.injEq] at heq; exact absurd heq.1 hne
      · simp only [g1, g2]
    | method fn =>
      have hwf : WFFn W fn := hw _ List.mem_cons_self
      have hs : hasLtFn fn = true → TmplFree (fnToks fn ++ (membersToks ms ++ .p .RightBrace :: rest)) = true :=
        fun hl => hsafe (by simp [hasLtMembers, hasLtMember, hl])
      obtain ⟨N0, h0⟩ := method_not_var W fn hwf (membersToks ms ++ .p .RightBrace :: rest) hs
      obtain ⟨N1, h1⟩ := fn_reads W fn hwf (membersToks ms ++ .p .RightBrace :: rest) hs
      refine ⟨max (max N0 N1) N2 + 1, fun f hf => ?_⟩
      obtain ⟨f', rfl, hf'⟩ := succ_of_pos hf
      have g0 := h0 f' (by omega)
      have g1 := h1 f' (by omega)
      have g2 := h2 f' (by omega)
      simp only [memberToks] at htr g0 g1 ⊢
      rw [htr] at g0 g1 ⊢
      simp only [List.cons_append] at g0 g1 ⊢
      unfold parseMembers
      split
      · rename_i heq; simp only [List.cons.injEq] at heq; exact absurd heq.1 hne
      · simp only [g0, g1, g2]

/-! ## Structs -/

/-- a base type the parser reads back: the name is no modifier word, the template arguments are `WFTArgs` -/
def WFBase (b : BaseTy) : Prop := modBeforeStep (.id b.2.1) = .stop ∧ WFTArgs W b.2.2

def hasLtBases : List BaseTy → Bool
  | [] => false
  | b :: r => hasLtTArgs b.2.2 || hasLtBases r

def WFStruct (s : StructDef) : Prop := (∀ b, b ∈ s.bases → WFBase W b) ∧ ∀ m, m ∈ s.members → WFMember W m

theorem afterTy_comma : AfterTy (.p .Comma) :=
  ⟨rfl, (by intro h; cases h), (by intro h; cases h), rfl, (by intro h; cases h)⟩
theorem afterTy_lbrace : AfterTy (.p .LeftBrace) :=
  ⟨rfl, (by intro h; cases h), (by intro h; cases h), rfl, (by intro h; cases h)⟩

/-- the base types of a struct (printed since 2e907a1) in front of the opening brace -/
theorem bases_read : ∀ (bs : List BaseTy), bs ≠ [] → (∀ b, b ∈ bs → WFBase W b) → ∀ rest,
    (hasLtBases bs = true → TmplFree (toks (fmtBaseList bs) ++ .p .LeftBrace :: rest) = true) →
    ∃ N, ∀ f, N ≤ f → parseBases W f (toks (fmtBaseList bs) ++ .p .LeftBrace :: rest) = some (bs, .p .LeftBrace :: rest)
  | [], h, _, _, _ => absurd rfl h
  | [(mods, n, targs)], _, hw, rest, hsafe => by
    obtain ⟨hstop, hwT⟩ := hw _ List.mem_cons_self
    have htoks : toks (fmtBaseList [(mods, n, targs)]) ++ .p .LeftBrace :: rest =
        mods.map modTok ++ (.id n :: (toks (fmtTArgs targs false) ++ .p .LeftBrace :: rest)) := by
      simp [fmtBaseList, toks_fmtTy]
    rw [htoks] at hsafe ⊢
    obtain ⟨N, h⟩ := ty_reads W mods n targs false hstop hwT (.p .LeftBrace) rest afterTy_lbrace
      (fun hl => tmplFree_suffix (by suffix_tac) (hsafe (by simp [hasLtBases, hl])))
    refine ⟨N + 1, fun f hf => ?_⟩
    obtain ⟨f', rfl, hf'⟩ := succ_of_pos hf
    unfold parseBases
    rw [h f' hf']
  | (mods, n, targs) :: c :: r, _, hw, rest, hsafe => by
    obtain ⟨hstop, hwT⟩ := hw _ List.mem_cons_self
    have htoks : toks (fmtBaseList ((mods, n, targs) :: c :: r)) ++ .p .LeftBrace :: rest =
        mods.map modTok ++ (.id n :: (toks (fmtTArgs targs true) ++
          .p .Comma :: (toks (fmtBaseList (c :: r)) ++ .p .LeftBrace :: rest))) := by
      simp [fmtBaseList, toks_fmtTy, comma, pp]
    rw [htoks] at hsafe ⊢
    obtain ⟨N1, h1⟩ := ty_reads W mods n targs true hstop hwT (.p .Comma) _ afterTy_comma
      (fun hl => tmplFree_suffix (by suffix_tac) (hsafe (by simp [hasLtBases, hl])))
    obtain ⟨N2, h2⟩ := bases_read (c :: r) (by simp) (fun b hb => hw b (List.mem_cons_of_mem _ hb)) rest
      (fun hl => tmplFree_suffix (by suffix_tac) (hsafe (by
        simp only [hasLtBases, Bool.or_eq_true] at hl ⊢
        exact Or.inr hl)))
    refine ⟨max N1 N2 + 1, fun f hf => ?_⟩
    obtain ⟨f', rfl, hf'⟩ := succ_of_pos hf
    unfold parseBases
    rw [h1 f' (by omega)]
    simp only [h2 f' (by omega)]

def structToks (s : StructDef) : List Tok :=
  .p .Struct :: .id s.name :: ((if s.bases.isEmpty then [] else .p .Colon :: toks (fmtBaseList s.bases)) ++
    (.p .LeftBrace :: (membersToks s.members ++ [.p .RightBrace, .p .Semicolon])))

theorem toks_fmtStruct (s : StructDef) : toks (fmtStruct s) = structToks s := by
  cases hb : s.bases.isEmpty <;>
    simp [fmtStruct, fmtBases, structPrintsBaseTypes, structToks, hb, toks_append, toks_fmtMembers, kw, pp, semi, toks]

theorem struct_reads (s : StructDef) (hw : WFStruct W s) (rest : List Tok)
    (hsafe : (hasLtBases s.bases || hasLtMembers s.members) = true → TmplFree (structToks s ++ rest) = true) :
    ∃ N, ∀ f, N ≤ f → parseStruct W f (structToks s ++ rest) = .ok s rest := by
  obtain ⟨hwb, hwm⟩ := hw
  obtain ⟨name, bases, members⟩ := s
  simp only [] at hwb hwm hsafe ⊢
  cases bases with
  | nil =>
    have htoks : structToks ⟨name, [], members⟩ ++ rest = .p .Struct :: .id name :: .p .LeftBrace ::
        (membersToks members ++ .p .RightBrace :: .p .Semicolon :: rest) := by
      simp [structToks]
    rw [htoks] at hsafe ⊢
    obtain ⟨N, h⟩ := members_read W members hwm (.p .Semicolon :: rest)
      (fun hl => tmplFree_suffix (by suffix_tac) (hsafe (by simp [hl])))
    refine ⟨N, fun f hf => ?_⟩
    unfold parseStruct
    simp only [h f hf]
  | cons b bs =>
    have htoks : structToks ⟨name, b :: bs, members⟩ ++ rest = .p .Struct :: .id name :: .p .Colon ::
        (toks (fmtBaseList (b :: bs)) ++ .p .LeftBrace ::
          (membersToks members ++ .p .RightBrace :: .p .Semicolon :: rest)) := by
      simp [structToks]
    rw [htoks] at hsafe ⊢
    obtain ⟨N1, h1⟩ := bases_read W (b :: bs) (by simp) hwb (membersToks members ++ .p .RightBrace :: .p .Semicolon :: rest)
      (fun hl => tmplFree_suffix (by suffix_tac) (hsafe (by simp [hl])))
    obtain ⟨N2, h2⟩ := members_read W members hwm (.p .Semicolon :: rest)
      (fun hl => tmplFree_suffix (by suffix_tac) (hsafe (by simp [hl])))
    refine ⟨max N1 N2, fun f hf => ?_⟩
    unfold parseStruct
    simp only [h1 f (by omega), h2 f (by omega)]

end RsslVerif.Lemmas.DefRT

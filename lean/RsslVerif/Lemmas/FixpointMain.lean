import RsslVerif.Lemmas.FixpointCall
set_option linter.unusedSimpArgs false
/-!
Lemmas for C04 `reelab_no_new_casts`, part 5: the induction over source expressions.
-/
namespace RsslVerif.Lemmas.FixpointMain
open RsslVerif.Gen.RankTable RsslVerif.Gen.TypingTables
open RsslVerif.Model.Conv RsslVerif.Model.Overload RsslVerif.Model.IrTyping RsslVerif.Model.Elab
open RsslVerif.Model.Fixpoint RsslVerif.Lemmas.ElabConv RsslVerif.Lemmas.Elab RsslVerif.Lemmas.ElabExact
open RsslVerif.Lemmas.ElabRelease RsslVerif.Lemmas.FixpointElab RsslVerif.Lemmas.FixpointArith RsslVerif.Lemmas.FixpointArithDim
open RsslVerif.Lemmas.FixpointForms RsslVerif.Lemmas.FixpointCall RsslVerif.Lemmas.FixpointPlace

variable {Γ Γ' : Env}

/-! ## conversions keep "no `Cast` in an `out` / `inout` argument position" -/

theorem applyConv_out {c : Conversion} {a a2 : IExpr} (h : applyConv c a = .ok a2) (hp : OutArgsPlain Γ a) :
    OutArgsPlain Γ a2 := by
  unfold applyConv at h
  split at h
  · simp at h; subst h; exact hp
  · split at h
    · simp at h
    · split at h
      · simp at h; subst h; simpa [OutArgsPlain] using hp
      · split at h
        · split at h <;> simp at h <;> subst h <;> simp_all [OutArgsPlain]
        · split at h <;> simp at h <;> subst h <;> simp_all [OutArgsPlain]
        · simp at h; subst h; simpa [OutArgsPlain] using hp

theorem convert_out {a a2 : IExpr} {s d t : ETy} (h : convert a s d = .ok (some (a2, t)))
    (hp : OutArgsPlain Γ a) : OutArgsPlain Γ a2 := by
  obtain ⟨c, _, ha, _⟩ := convert_inv h
  exact applyConv_out ha hp

theorem castArgs_out : ∀ (ps : List Param) (args : IArgs) (ts : List ETy) (args2 : IArgs),
    castArgs ps args ts = .ok args2 → OutArgsPlainArgs Γ args → OutArgsPlainArgs Γ args2
  | p :: ps, .cons e r, t :: ts, args2, h, hp => by
    simp only [castArgs] at h
    split at h
    · simp at h
    · simp at h
    · rename_i e2 _ hc
      split at h
      · simp at h
      · rename_i r2 hr2
        simp at h; subst h
        simp only [OutArgsPlainArgs] at hp ⊢
        exact ⟨convert_out hc hp.1, castArgs_out ps r ts r2 hr2 hp.2⟩
  | _, .nil, [], _, h, _ => by simp [castArgs] at h; subst h; simp [OutArgsPlainArgs]
  | [], .cons _ _, _ :: _, _, h, _ => by simp [castArgs] at h
  | _, .cons _ _, [], _, h, _ => by simp [castArgs] at h
  | _, .nil, _ :: _, _, h, _ => by simp [castArgs] at h

theorem castOperand_out {f : Err} {e e2 : IExpr} {τ inp : ETy} (h : castOperand f e τ inp = .ok e2)
    (hp : OutArgsPlain Γ e) : OutArgsPlain Γ e2 := by
  rcases castOperand_inv h with ⟨_, rfl⟩ | ⟨_, c, _, ha⟩
  · exact hp
  · exact applyConv_out ha hp

theorem elabUn_out {o : UnOp} {e n : IExpr} {τ τ' : ETy} (h : elabUn Γ o e τ = .ok (n, τ')) (hp : OutArgsPlain Γ e) :
    OutArgsPlain Γ n := by
  cases o <;> simp only [elabUn] at h
  all_goals (repeat' split at h)
  all_goals (first | (simp at h; done) | skip)
  all_goals (try (simp at h; obtain ⟨rfl, -⟩ := h))
  all_goals (first
    | (simpa [OutArgsPlain, OutArgsPlainArgs] using hp; done)
    | (simp [OutArgsPlain]; done)
    | (simp only [OutArgsPlain, OutArgsPlainArgs, and_true]; exact castOperand_out (by assumption) hp))

/-- release-mode `selfCheck` is the identity -/
theorem selfCheck_false {n e : IExpr} {τ' τ : ETy} (h : selfCheck false Γ n τ' = .ok (e, τ)) : n = e ∧ τ' = τ := by
  simpa [selfCheck] using h

/-! ## literal nodes of an elaborated tree have a spelling before any conversion -/

theorem elab_lit_kind : ∀ (s : SExpr) (k : Scalar) (τ : ETy), SrcOk s → elabE false Γ s = .ok (.lit k, τ) →
    rereadKind k = k
  | .lit k0, k, τ, hs, h => by
    simp [elabE, selfCheck] at h
    rw [← h.1]; exact hs
  | .var i, k, τ, _, h => by
    simp only [elabE] at h
    split at h <;> simp [selfCheck] at h
  | .un o e, k, τ, hs, h => by
    simp only [elabE] at h
    split at h
    · simp at h
    · rename_i e' τe he
      split at h
      · simp at h
      · rename_i n τn hn
        obtain ⟨rfl, rfl⟩ := selfCheck_false h
        -- only the folded negation of a literal is a literal
        cases o <;> simp only [elabUn] at hn
        all_goals (repeat' split at hn)
        all_goals (first | (simp at hn; done) | skip)
        all_goals (try (simp at hn; done))
        simp at hn
        obtain ⟨rfl, _⟩ := hn
        exact elab_lit_kind e _ _ hs he
  | .bin o a b, k, τ, _, h => by
    simp only [elabE] at h
    split at h
    · simp at h
    · split at h
      · simp at h
      · split at h
        · split at h
          · simp at h
          · rename_i n τn hn
            obtain ⟨rfl, rfl⟩ := selfCheck_false h
            obtain ⟨_, _, _, _, _, _, _, _, _, _, _, _, _, _, _, _, _, h7⟩ := elabArith_inv hn
            cases h7
        · split at h
          · simp at h
          · rename_i n τn hn
            obtain ⟨rfl, rfl⟩ := selfCheck_false h
            obtain ⟨_, _, _, _, h4⟩ := elabAssign_node hn
            cases h4
        · simp [selfCheck] at h
  | .tern c a b, k, τ, _, h => by
    simp only [elabE] at h
    split at h
    · simp at h
    · split at h
      · simp at h
      · split at h
        · simp at h
        · split at h
          · simp at h
          · rename_i n τn hn
            obtain ⟨rfl, rfl⟩ := selfCheck_false h
            obtain ⟨_, _, _, _, _, _, _, _, _, _, _, _, _, _, h8, _⟩ := elabTern_stable hn
            cases h8
  | .call name args, k, τ, _, h => by
    simp only [elabE] at h
    split at h
    · simp at h
    · split at h
      · simp at h
      · split at h
        · simp at h
        · rename_i n τn hn
          obtain ⟨rfl, rfl⟩ := selfCheck_false h
          unfold elabCall at hn
          repeat' split at hn
          all_goals simp at hn
  | .cast t e, k, τ, _, h => by
    simp only [elabE] at h
    split at h <;> simp [selfCheck] at h

/-! ## the induction -/

theorem elabE_bin_arith {o : BinOp} {x' y' : SExpr} {a b n : IExpr} {τa τb τ : ETy} (hc : o.cls = .arith)
    (h1 : elabE false Γ' x' = .ok (a, τa)) (h2 : elabE false Γ' y' = .ok (b, τb))
    (h3 : elabArith o a τa b τb = .ok (n, τ)) : elabE false Γ' (.bin o x' y') = .ok (n, τ) := by
  simp [elabE, h1, h2, hc, h3, selfCheck]

theorem elabE_bin_assign {o : BinOp} {x' y' : SExpr} {a b n : IExpr} {τa τb τ : ETy} (hc : o.cls = .assign)
    (h1 : elabE false Γ' x' = .ok (a, τa)) (h2 : elabE false Γ' y' = .ok (b, τb))
    (h3 : elabAssign Γ' o a τa b τb = .ok (n, τ)) : elabE false Γ' (.bin o x' y') = .ok (n, τ) := by
  simp [elabE, h1, h2, hc, h3, selfCheck]

theorem elabE_tern {c' x' y' : SExpr} {c a b n : IExpr} {τc τa τb τ : ETy}
    (h0 : elabE false Γ' c' = .ok (c, τc)) (h1 : elabE false Γ' x' = .ok (a, τa)) (h2 : elabE false Γ' y' = .ok (b, τb))
    (h3 : elabTern c τc a τa b τb = .ok (n, τ)) : elabE false Γ' (.tern c' x' y') = .ok (n, τ) := by
  simp [elabE, h0, h1, h2, h3, selfCheck]

theorem cls_sequence (o : BinOp) (h : o.cls = .sequence) : o = .sequence := by
  cases o <;> simp [BinOp.cls] at h <;> rfl

mutual
/-- every tree the front end can read from the export of an elaborated expression elaborates to that expression -/
theorem reelab_aux (hR : Renamed Γ Γ') : ∀ (s : SExpr) (i : IExpr) (τ : ETy), SrcOk s →
    elabE false Γ s = .ok (i, τ) → ∀ s', Unelab Γ' i s' → elabE false Γ' s' = .ok (i, τ)
  | .lit k, i, τ, hs, h, s', hu => by
    simp [elabE, selfCheck] at h
    obtain ⟨rfl, rfl⟩ := h
    have := elabE_unelab_lit hu
    simp only [SrcOk] at hs
    rw [hs] at this
    exact this
  | .var v, i, τ, _, h, s', hu => by
    simp only [elabE] at h
    split at h
    · rename_i t ht
      obtain ⟨rfl, rfl⟩ := selfCheck_false h
      cases hu
      simp [elabE, hR.vars, ht, selfCheck]
    · simp at h
  | .un o e, i, τ, hs, h, s', hu => by
    simp only [elabE] at h
    split at h
    · simp at h
    · rename_i e' τe he
      split at h
      · simp at h
      · rename_i n τn hn
        obtain ⟨rfl, rfl⟩ := selfCheck_false h
        exact elabUn_stable hR (elab_sound_any false e e' τe he) hn (reelab_aux hR e e' τe hs he)
          (fun k hk => elab_lit_kind e k τe hs (by rw [he, hk])) s' hu
  | .bin o a b, i, τ, hs, h, s', hu => by
    obtain ⟨hsa, hsb⟩ := hs
    simp only [elabE] at h
    split at h
    · simp at h
    · rename_i a' τa ha
      split at h
      · simp at h
      · rename_i b' τb hb
        have hta := elab_sound_any false a a' τa ha
        have htb := elab_sound_any false b b' τb hb
        split at h
        · -- arithmetic / comparison / bit / logical
          rename_i hcls
          split at h
          · simp at h
          · rename_i n τn hn
            obtain ⟨rfl, rfl⟩ := selfCheck_false h
            obtain ⟨D, ca, cb, a2, b2, iop, hfa, hfb, hDr, haa, hab, hiop, hnode, hk⟩ := elabArith_stable hn
            subst hnode
            obtain ⟨x', y', rfl, hx, hy⟩ := unelab_op2 (opSyn_bin o iop hiop) hu
            obtain ⟨a0, τa0, hela, hba⟩ := reconv hta (reelab_aux hR a a' τa hsa ha) hfa haa (Or.inl hDr) _ hx
            obtain ⟨b0, τb0, helb, hbb⟩ := reconv htb (reelab_aux hR b b' τb hsb hb) hfb hab (Or.inl hDr) _ hy
            exact elabE_bin_arith hcls hela helb (hk a0 τa0 b0 τb0 hba hbb)
        · -- assignment family
          rename_i hcls
          split at h
          · simp at h
          · rename_i n τn hn
            obtain ⟨rfl, rfl⟩ := selfCheck_false h
            obtain ⟨c, b2, iop, hfb, hab, hiop, hnode, hk⟩ := elabAssign_stable hR hn
            subst hnode
            obtain ⟨x', y', rfl, hx, hy⟩ := unelab_op2 (opSyn_bin o iop hiop) hu
            have hela := reelab_aux hR a a' τa hsa ha _ hx
            obtain ⟨b0, τb0, helb, hbb⟩ := reconv htb (reelab_aux hR b b' τb hsb hb) hfb hab (Or.inl rfl) _ hy
            exact elabE_bin_assign hcls hela helb (hk b0 τb0 hbb)
        · -- the comma operator
          rename_i hcls
          obtain ⟨rfl, rfl⟩ := selfCheck_false h
          have ho := cls_sequence o hcls
          subst ho
          cases hu with
          | seq hx hy =>
            have hela := reelab_aux hR a a' τa hsa ha _ hx
            have helb := reelab_aux hR b b' τb hsb hb _ hy
            simp [elabE, hela, helb, BinOp.cls, selfCheck]
  | .tern c a b, i, τ, hs, h, s', hu => by
    obtain ⟨hsc, hsa, hsb⟩ := hs
    simp only [elabE] at h
    split at h
    · simp at h
    · rename_i c' τc hc
      split at h
      · simp at h
      · rename_i a' τa ha
        split at h
        · simp at h
        · rename_i b' τb hb
          split at h
          · simp at h
          · rename_i n τn hn
            obtain ⟨rfl, rfl⟩ := selfCheck_false h
            obtain ⟨D, cc, ca, cb, c2, a2, b2, hfc, hac, hfa, hfb, hDr, haa, hab, hnode, hk⟩ := elabTern_stable hn
            subst hnode
            cases hu with
            | tern huc hua hub =>
              obtain ⟨c0, τc0, helc, hbc⟩ := reconv (elab_sound_any false c c' τc hc)
                (reelab_aux hR c c' τc hsc hc) hfc hac (Or.inl rfl) _ huc
              obtain ⟨a0, τa0, hela, hba⟩ := reconv (elab_sound_any false a a' τa ha)
                (reelab_aux hR a a' τa hsa ha) hfa haa (Or.inl hDr) _ hua
              obtain ⟨b0, τb0, helb, hbb⟩ := reconv (elab_sound_any false b b' τb hb)
                (reelab_aux hR b b' τb hsb hb) hfb hab (Or.inl hDr) _ hub
              exact elabE_tern helc hela helb (hk c0 τc0 a0 τa0 b0 τb0 hbc hba hbb)
  | .call name args, i, τ, hs, h, s', hu => by
    simp only [elabE] at h
    split at h
    · simp at h
    · split at h
      · simp at h
      · rename_i args' ts hargs
        split at h
        · simp at h
        · rename_i n τn hn
          obtain ⟨rfl, rfl⟩ := selfCheck_false h
          exact elabCall_stable hR hn (reelabArgs_aux hR args args' ts hs hargs) s' hu
  | .cast t e, i, τ, hs, h, s', hu => by
    obtain ⟨hlt, hse⟩ := hs
    simp only [elabE] at h
    split at h
    · simp at h
    · rename_i e' τe he
      obtain ⟨rfl, rfl⟩ := selfCheck_false h
      cases hu with
      | castDrop hl _ => rw [hlt] at hl; cases hl
      | cast _ hue =>
        have := reelab_aux hR e e' τe hse he _ hue
        simp [elabE, this, selfCheck]
theorem reelabArgs_aux (hR : Renamed Γ Γ') : ∀ (as : SArgs) (args : IArgs) (ts : List ETy), SrcArgsOk as →
    elabArgs false Γ as = .ok (args, ts) → ArgsIH Γ Γ' args ts
  | .nil, args, ts, _, h => by
    simp [elabArgs] at h
    obtain ⟨rfl, rfl⟩ := h
    trivial
  | .cons e r, args, ts, hs, h => by
    obtain ⟨hse, hsr⟩ := hs
    simp only [elabArgs] at h
    split at h
    · simp at h
    · rename_i e' τe he
      split at h
      · simp at h
      · rename_i r' tr hr
        simp at h
        obtain ⟨rfl, rfl⟩ := h
        exact ⟨elab_sound_any false e e' τe he, reelab_aux hR e e' τe hse he, reelabArgs_aux hR r r' tr hsr hr⟩
end

/-! ## since fix 3758fdd: no accepted expression passes a `Cast` for an `out` / `inout` parameter -/

mutual
/-- **the former hypothesis of `reelab_no_new_casts` is a theorem**: in every elaborated expression, at every call, no
    argument in an `out` / `inout` position is a `Cast` node (`check_output_arguments` runs on the converted arguments and
    a `Cast` is an rvalue) -/
theorem elab_outArgsPlain : ∀ (s : SExpr) (i : IExpr) (τ : ETy), elabE false Γ s = .ok (i, τ) → OutArgsPlain Γ i
  | .lit k, i, τ, h => by
    simp [elabE, selfCheck] at h
    obtain ⟨rfl, rfl⟩ := h
    simp [OutArgsPlain]
  | .var v, i, τ, h => by
    simp only [elabE] at h
    split at h
    · obtain ⟨rfl, rfl⟩ := selfCheck_false h
      simp [OutArgsPlain]
    · simp at h
  | .un o e, i, τ, h => by
    simp only [elabE] at h
    split at h
    · simp at h
    · rename_i e' τe he
      split at h
      · simp at h
      · rename_i n τn hn
        obtain ⟨rfl, rfl⟩ := selfCheck_false h
        exact elabUn_out hn (elab_outArgsPlain e e' τe he)
  | .bin o a b, i, τ, h => by
    simp only [elabE] at h
    split at h
    · simp at h
    · rename_i a' τa ha
      split at h
      · simp at h
      · rename_i b' τb hb
        have hpa := elab_outArgsPlain a a' τa ha
        have hpb := elab_outArgsPlain b b' τb hb
        split at h
        · split at h
          · simp at h
          · rename_i n τn hn
            obtain ⟨rfl, rfl⟩ := selfCheck_false h
            obtain ⟨_, _, ca, cb, a2, b2, iop, _, _, _, _, _, _, haa, hab, _, _, rfl⟩ := elabArith_inv hn
            simp only [OutArgsPlain, OutArgsPlainArgs, and_true]
            exact ⟨applyConv_out haa hpa, applyConv_out hab hpb⟩
        · split at h
          · simp at h
          · rename_i n τn hn
            obtain ⟨rfl, rfl⟩ := selfCheck_false h
            obtain ⟨c, b2, iop, hab, rfl⟩ := elabAssign_node hn
            simp only [OutArgsPlain, OutArgsPlainArgs, and_true]
            exact ⟨hpa, applyConv_out hab hpb⟩
        · obtain ⟨rfl, rfl⟩ := selfCheck_false h
          simp only [OutArgsPlain]
          exact ⟨hpa, hpb⟩
  | .tern c a b, i, τ, h => by
    simp only [elabE] at h
    split at h
    · simp at h
    · rename_i c' τc hc
      split at h
      · simp at h
      · rename_i a' τa ha
        split at h
        · simp at h
        · rename_i b' τb hb
          split at h
          · simp at h
          · rename_i n τn hn
            obtain ⟨rfl, rfl⟩ := selfCheck_false h
            obtain ⟨D, cc, ca, cb, c2, a2, b2, hfc, hac, hfa, hfb, hDr, haa, hab, rfl, hk⟩ := elabTern_stable hn
            simp only [OutArgsPlain]
            exact ⟨applyConv_out hac (elab_outArgsPlain c c' τc hc), applyConv_out haa (elab_outArgsPlain a a' τa ha),
              applyConv_out hab (elab_outArgsPlain b b' τb hb)⟩
  | .call name args, i, τ, h => by
    simp only [elabE] at h
    split at h
    · simp at h
    · split at h
      · simp at h
      · rename_i args' ts hargs
        split at h
        · simp at h
        · rename_i n τn hn
          obtain ⟨rfl, rfl⟩ := selfCheck_false h
          have hpa := elabArgs_outArgsPlain args args' ts hargs
          unfold elabCall at hn
          split at hn
          · simp at hn
          · simp at hn
          · simp at hn
          · split at hn
            · simp at hn
            · rename_i sg hsg
              split at hn
              · simp at hn
              · rename_i args2 hca
                split at hn
                · simp at hn
                · rename_i hchk
                  simp at hn
                  obtain ⟨rfl, _⟩ := hn
                  simp only [OutArgsPlain]
                  refine ⟨?_, castArgs_out sg.params args' ts args2 hca hpa⟩
                  intro sg' hsg'
                  rw [hsg] at hsg'
                  cases hsg'
                  exact outArgsPlain_of_checkOutArgs sg.params args2 hchk
  | .cast t e, i, τ, h => by
    simp only [elabE] at h
    split at h
    · simp at h
    · rename_i e' τe he
      obtain ⟨rfl, rfl⟩ := selfCheck_false h
      simp only [OutArgsPlain]
      exact elab_outArgsPlain e e' τe he
theorem elabArgs_outArgsPlain : ∀ (as : SArgs) (args : IArgs) (ts : List ETy),
    elabArgs false Γ as = .ok (args, ts) → OutArgsPlainArgs Γ args
  | .nil, args, ts, h => by
    simp [elabArgs] at h
    obtain ⟨rfl, rfl⟩ := h
    simp [OutArgsPlainArgs]
  | .cons e r, args, ts, h => by
    simp only [elabArgs] at h
    split at h
    · simp at h
    · rename_i e' τe he
      split at h
      · simp at h
      · rename_i r' tr hr
        simp at h
        obtain ⟨rfl, rfl⟩ := h
        simp only [OutArgsPlainArgs]
        exact ⟨elab_outArgsPlain e e' τe he, elabArgs_outArgsPlain r r' tr hr⟩
end

end RsslVerif.Lemmas.FixpointMain

//! C15 — resource / pipeline stream.
//!
//! Request: `C15.res \t <dx|vk|vkba|msl> \t <descriptor>`; descriptor grammar (space separated):
//!   ns N … end | st S m… end | en E v… end | gl <s|c|g> NAME | rs KIND OPTS NAME | cb NAME OPTS m… end |
//!   fn NAME <ptypes|-> p… { stmts } | ef <c|v|p> NAME p… { stmts } | pl NAME F<k>[,F<j>] <d<k>|->
//!   stmts: lv NAME | { stmts } | use <G|F|L><k> | use V<e>.<i> | use D<c>.<i> | use S<k> | use E<k> | use W<0|1> (WaveGetLaneIndex / WaveGetLaneCount)
//!   OPTS: `-` or a concatenation of a<n> (array length) b (bindless) g<k> (bind group) s<k> (element struct ordinal)
//! The program is printed as RSSL with a `Pipeline` block, compiled by the real `compile()` for the target
//! (text + reflection metadata), and the syntax tree the exporter hands to the formatter is obtained through the
//! verification hooks for the same module (front end, `select_pipeline`, `assign_api_bindings` as `compile()` does);
//! `format(tree)` must be the text `compile()` returned (tie of the hook route to the public route).
//! The oracle walks the tree of the program P and of its skeleton P0 (every user identifier replaced by a unique
//! fresh one) in lockstep: see `oracle`.
use super::{Key, Stmt, decode_fresh, is_ident, lex, parse_ref, parse_stmts, show_key, show_stmts};
use crate::compile_util::*;
use crate::util::*;
use rssl::ast;
use rssl::ir;
use rssl::ir::name_generator::{NameMap, NameSymbol};
use std::collections::{BTreeMap, BTreeSet, HashMap, HashSet};

// ------------------------------------------------------------------------------------------ descriptor

#[derive(Clone, Debug)]
pub enum RItem {
    Ns(String, Vec<RItem>),
    /// name, members, methods (`st S m… | f… end`)
    St(String, Vec<String>, Vec<String>),
    En(String, Vec<String>),
    /// storage letter (s static, c static const, g groupshared), name
    Gl(char, String),
    /// kind, options, name
    Rs(String, String, String),
    /// name, options, members
    Cb(String, String, Vec<String>),
    Fn(String, String, Vec<String>, Vec<Stmt>),
    /// stage letter (c v p), name, parameters, body
    Ef(char, String, Vec<String>, Vec<Stmt>),
    /// name, entry function ordinals, default bind group
    Pl(String, Vec<usize>, Option<u32>),
}

/// (code, RSSL type spelling; `%` is replaced by the element struct path)
pub const KINDS: &[(&str, &str)] = &[
    ("tex", "Texture2D<float4>"),
    ("rwtex", "RWTexture2D<float4>"),
    ("t2a", "Texture2DArray<float4>"),
    ("t3", "Texture3D<float4>"),
    ("cube", "TextureCube<float4>"),
    ("buf", "Buffer<float4>"),
    ("rwbuf", "RWBuffer<float4>"),
    ("sb", "StructuredBuffer<float4>"),
    ("rwsb", "RWStructuredBuffer<float4>"),
    ("bab", "ByteAddressBuffer"),
    ("rwbab", "RWByteAddressBuffer"),
    ("ba", "BufferAddress"),
    ("rwba", "RWBufferAddress"),
    ("samp", "SamplerState"),
    ("cmp", "SamplerComparisonState"),
    ("ssamp", "SamplerState"),
    ("cbs", "ConstantBuffer<%>"),
    ("sbs", "StructuredBuffer<%>"),
];

fn kind_type(kind: &str) -> Option<&'static str> {
    KINDS.iter().find(|(k, _)| *k == kind).map(|(_, t)| *t)
}

#[derive(Default, Clone, Debug)]
pub struct Opts {
    pub array: Option<u32>,
    pub bindless: bool,
    pub group: Option<u32>,
    pub elem: Option<usize>,
}

pub fn parse_opts(s: &str) -> Option<Opts> {
    let mut o = Opts::default();
    if s == "-" {
        return Some(o);
    }
    let b = s.as_bytes();
    let mut i = 0;
    while i < b.len() {
        let c = b[i] as char;
        i += 1;
        let st = i;
        while i < b.len() && b[i].is_ascii_digit() {
            i += 1;
        }
        let num: Option<u32> = s[st..i].parse().ok();
        match c {
            'a' => o.array = Some(num?),
            'b' if num.is_none() => o.bindless = true,
            'g' => o.group = Some(num?),
            's' => o.elem = Some(num? as usize),
            _ => return None,
        }
    }
    Some(o)
}

const STRUCTURE: &[&str] = &["ns", "st", "en", "gl", "rs", "cb", "fn", "ef", "pl", "lv", "use", "end", "{", "}"];

fn parse_items(t: &[&str], mut i: usize, top: bool) -> Option<(Vec<RItem>, usize)> {
    let mut out = Vec::new();
    loop {
        if i >= t.len() {
            return if top { Some((out, i)) } else { None };
        }
        match t[i] {
            "end" => return if top { None } else { Some((out, i + 1)) },
            "ns" => {
                let name = t.get(i + 1)?.to_string();
                let (inner, j) = parse_items(t, i + 2, false)?;
                out.push(RItem::Ns(name, inner));
                i = j;
            }
            k @ ("st" | "en") => {
                let name = t.get(i + 1)?.to_string();
                let mut j = i + 2;
                let mut xs = Vec::new();
                while *t.get(j)? != "end" {
                    xs.push(t[j].to_string());
                    j += 1;
                }
                out.push(if k == "st" {
                    let mut it = xs.splitn(2, |x| x == "|");
                    let ms = it.next().unwrap_or(&[]).to_vec();
                    let fs = it.next().unwrap_or(&[]).to_vec();
                    RItem::St(name, ms, fs)
                } else {
                    RItem::En(name, xs)
                });
                i = j + 1;
            }
            "gl" => {
                let k = t.get(i + 1)?.chars().next()?;
                if !"scg".contains(k) || t[i + 1].len() != 1 {
                    return None;
                }
                out.push(RItem::Gl(k, t.get(i + 2)?.to_string()));
                i += 3;
            }
            "rs" => {
                let kind = t.get(i + 1)?.to_string();
                kind_type(&kind)?;
                let opts = t.get(i + 2)?.to_string();
                parse_opts(&opts)?;
                out.push(RItem::Rs(kind, opts, t.get(i + 3)?.to_string()));
                i += 4;
            }
            "cb" => {
                let name = t.get(i + 1)?.to_string();
                let opts = t.get(i + 2)?.to_string();
                parse_opts(&opts)?;
                let mut j = i + 3;
                let mut xs = Vec::new();
                while *t.get(j)? != "end" {
                    xs.push(t[j].to_string());
                    j += 1;
                }
                out.push(RItem::Cb(name, opts, xs));
                i = j + 1;
            }
            "fn" => {
                let name = t.get(i + 1)?.to_string();
                let pt = t.get(i + 2)?.to_string();
                let np = if pt == "-" { 0 } else { pt.len() };
                let mut params = Vec::new();
                for k in 0..np {
                    params.push(t.get(i + 3 + k)?.to_string());
                }
                if *t.get(i + 3 + np)? != "{" {
                    return None;
                }
                let (body, j) = parse_stmts(t, i + 4 + np)?;
                out.push(RItem::Fn(name, pt, params, body));
                i = j;
            }
            "ef" => {
                let st = t.get(i + 1)?.chars().next()?;
                let np = match st {
                    'c' | 'p' => 1,
                    'v' => 2,
                    _ => return None,
                };
                let name = t.get(i + 2)?.to_string();
                let mut params = Vec::new();
                for k in 0..np {
                    params.push(t.get(i + 3 + k)?.to_string());
                }
                if *t.get(i + 3 + np)? != "{" {
                    return None;
                }
                let (body, j) = parse_stmts(t, i + 4 + np)?;
                out.push(RItem::Ef(st, name, params, body));
                i = j;
            }
            "pl" => {
                let name = t.get(i + 1)?.to_string();
                let mut fs = Vec::new();
                for r in t.get(i + 2)?.split(',') {
                    fs.push(r.strip_prefix('F')?.parse().ok()?);
                }
                let d = *t.get(i + 3)?;
                let dg = if d == "-" { None } else { Some(d.strip_prefix('d')?.parse().ok()?) };
                out.push(RItem::Pl(name, fs, dg));
                i += 4;
            }
            _ => return None,
        }
    }
}

pub fn parse_program(s: &str) -> Option<Vec<RItem>> {
    let t: Vec<&str> = s.split(' ').filter(|x| !x.is_empty()).collect();
    let (items, i) = parse_items(&t, 0, true)?;
    if i == t.len() { Some(items) } else { None }
}

fn show_items(items: &[RItem], out: &mut Vec<String>) {
    for it in items {
        match it {
            RItem::Ns(n, inner) => {
                out.push("ns".into());
                out.push(n.clone());
                show_items(inner, out);
                out.push("end".into());
            }
            RItem::St(n, xs, fs) => {
                out.push("st".into());
                out.push(n.clone());
                out.extend(xs.iter().cloned());
                if !fs.is_empty() {
                    out.push("|".into());
                    out.extend(fs.iter().cloned());
                }
                out.push("end".into());
            }
            RItem::En(n, xs) => {
                out.push("en".into());
                out.push(n.clone());
                out.extend(xs.iter().cloned());
                out.push("end".into());
            }
            RItem::Gl(k, n) => {
                out.push("gl".into());
                out.push(k.to_string());
                out.push(n.clone());
            }
            RItem::Rs(k, o, n) => {
                out.push("rs".into());
                out.push(k.clone());
                out.push(o.clone());
                out.push(n.clone());
            }
            RItem::Cb(n, o, xs) => {
                out.push("cb".into());
                out.push(n.clone());
                out.push(o.clone());
                out.extend(xs.iter().cloned());
                out.push("end".into());
            }
            RItem::Fn(n, pt, ps, body) => {
                out.push("fn".into());
                out.push(n.clone());
                out.push(pt.clone());
                out.extend(ps.iter().cloned());
                out.push("{".into());
                show_stmts(body, out);
                out.push("}".into());
            }
            RItem::Ef(st, n, ps, body) => {
                out.push("ef".into());
                out.push(st.to_string());
                out.push(n.clone());
                out.extend(ps.iter().cloned());
                out.push("{".into());
                show_stmts(body, out);
                out.push("}".into());
            }
            RItem::Pl(n, fs, d) => {
                out.push("pl".into());
                out.push(n.clone());
                out.push(fs.iter().map(|f| format!("F{}", f)).collect::<Vec<_>>().join(","));
                out.push(match d {
                    Some(k) => format!("d{}", k),
                    None => "-".into(),
                });
            }
        }
    }
}

pub fn show_program(items: &[RItem]) -> String {
    let mut v = Vec::new();
    show_items(items, &mut v);
    v.join(" ")
}

// ------------------------------------------------------------------------------------------ entity table

/// kinds: N S M E V G F L as in the names stream, C cbuffer, D cbuffer member (cbuffer, index), P pipeline
#[derive(Clone, Debug)]
pub struct REnt {
    pub key: Key,
    pub name: String,
    /// containing namespace ordinal (N S E G F C), owning function (L), struct (M), enum (V), cbuffer (D)
    pub owner: Option<usize>,
    /// functions: parameter types (`-` none; entry functions `@c`, `@v`, `@p`); globals: `gl:<k>` or `rs:<kind>:<opts>`
    pub info: String,
}

#[derive(Default, Clone)]
pub struct RTable {
    pub ents: Vec<REnt>,
    counts: HashMap<char, usize>,
}

impl RTable {
    pub fn get(&self, key: Key) -> Option<&REnt> {
        self.ents.iter().find(|e| e.key == key)
    }
    pub fn ns_path(&self, ns: Option<usize>) -> Vec<usize> {
        let mut v = Vec::new();
        let mut cur = ns;
        while let Some(i) = cur {
            v.insert(0, i);
            cur = self.get(('N', i, 0)).and_then(|e| e.owner);
        }
        v
    }
    pub fn count(&self, k: char) -> usize {
        self.counts.get(&k).copied().unwrap_or(0)
    }
}

struct Walker<'a> {
    table: RTable,
    ns_ids: HashMap<(Option<usize>, String), usize>,
    f: &'a mut dyn FnMut(Key, &str) -> String,
}

impl<'a> Walker<'a> {
    fn next(&mut self, k: char) -> usize {
        let c = self.table.counts.entry(k).or_insert(0);
        *c += 1;
        *c - 1
    }
    fn ent(&mut self, key: Key, name: &str, owner: Option<usize>, info: &str) -> String {
        if !self.table.ents.iter().any(|e| e.key == key) {
            self.table.ents.push(REnt { key, name: name.to_string(), owner, info: info.to_string() });
        }
        (self.f)(key, name)
    }
    fn stmts(&mut self, ss: &[Stmt], func: usize) -> Vec<Stmt> {
        ss.iter()
            .map(|s| match s {
                Stmt::Lv(n) => {
                    let o = self.next('L');
                    Stmt::Lv(self.ent(('L', o, 0), n, Some(func), ""))
                }
                Stmt::Use(r) => Stmt::Use(r.clone()),
                // `lvi` belongs to the names stream; the res stream never generates it (treated as a plain local)
                Stmt::Lvi(n, _) => {
                    let o = self.next('L');
                    Stmt::Lv(self.ent(('L', o, 0), n, Some(func), ""))
                }
                Stmt::Block(b) => Stmt::Block(self.stmts(b, func)),
            })
            .collect()
    }
    fn func(&mut self, n: &str, info: &str, ps: &[String], body: &[Stmt], cur: Option<usize>) -> (String, Vec<String>, Vec<Stmt>) {
        let o = self.next('F');
        let nn = self.ent(('F', o, 0), n, cur, info);
        let ps2 = ps
            .iter()
            .map(|p| {
                let l = self.next('L');
                self.ent(('L', l, 0), p, Some(o), "")
            })
            .collect();
        (nn, ps2, self.stmts(body, o))
    }
    fn items(&mut self, items: &[RItem], cur: Option<usize>) -> Vec<RItem> {
        let mut out = Vec::new();
        for it in items {
            out.push(match it {
                RItem::Ns(n, inner) => {
                    let id = match self.ns_ids.get(&(cur, n.clone())) {
                        Some(i) => *i,
                        None => {
                            let i = self.next('N');
                            self.ns_ids.insert((cur, n.clone()), i);
                            i
                        }
                    };
                    let nn = self.ent(('N', id, 0), n, cur, "");
                    RItem::Ns(nn, self.items(inner, Some(id)))
                }
                RItem::St(n, ms, fs) => {
                    let o = self.next('S');
                    let nn = self.ent(('S', o, 0), n, cur, "");
                    let ms2 = ms.iter().enumerate().map(|(i, m)| self.ent(('M', o, i), m, Some(o), "")).collect();
                    // methods are functions of the registry; their source scope is the struct (`info` = #<struct>)
                    let fs2 = fs
                        .iter()
                        .map(|f| {
                            let k = self.next('F');
                            // the name map puts a method into the root scope whatever namespace holds the struct
                            self.ent(('F', k, 0), f, None, &format!("#{}", o))
                        })
                        .collect();
                    RItem::St(nn, ms2, fs2)
                }
                RItem::En(n, vs) => {
                    let o = self.next('E');
                    let nn = self.ent(('E', o, 0), n, cur, "");
                    let vs2 = vs.iter().enumerate().map(|(i, v)| self.ent(('V', o, i), v, Some(o), "")).collect();
                    RItem::En(nn, vs2)
                }
                RItem::Gl(k, n) => {
                    let o = self.next('G');
                    RItem::Gl(*k, self.ent(('G', o, 0), n, cur, &format!("gl:{}", k)))
                }
                RItem::Rs(k, op, n) => {
                    let o = self.next('G');
                    RItem::Rs(k.clone(), op.clone(), self.ent(('G', o, 0), n, cur, &format!("rs:{}:{}", k, op)))
                }
                RItem::Cb(n, op, ms) => {
                    let o = self.next('C');
                    let nn = self.ent(('C', o, 0), n, cur, op);
                    let ms2 = ms.iter().enumerate().map(|(i, m)| self.ent(('D', o, i), m, Some(o), "")).collect();
                    RItem::Cb(nn, op.clone(), ms2)
                }
                RItem::Fn(n, pt, ps, body) => {
                    let (nn, ps2, b2) = self.func(n, pt, ps, body, cur);
                    RItem::Fn(nn, pt.clone(), ps2, b2)
                }
                RItem::Ef(st, n, ps, body) => {
                    let (nn, ps2, b2) = self.func(n, &format!("@{}", st), ps, body, cur);
                    RItem::Ef(*st, nn, ps2, b2)
                }
                RItem::Pl(n, fs, d) => {
                    let o = self.next('P');
                    RItem::Pl(self.ent(('P', o, 0), n, cur, ""), fs.clone(), *d)
                }
            });
        }
        out
    }
}

pub fn walk(items: &[RItem], f: &mut dyn FnMut(Key, &str) -> String) -> (Vec<RItem>, RTable) {
    let mut w = Walker { table: RTable::default(), ns_ids: HashMap::new(), f };
    let out = w.items(items, None);
    (out, w.table)
}

pub fn table_of(items: &[RItem]) -> RTable {
    walk(items, &mut |_, n| n.to_string()).1
}

pub fn fresh_name(key: Key) -> String {
    if "MVD".contains(key.0) { format!("zq{}{}x{}z", key.0, key.1, key.2) } else { format!("zq{}{}z", key.0, key.1) }
}

// ------------------------------------------------------------------------------------------ RSSL source

fn qualified(t: &RTable, e: &REnt) -> String {
    let mut parts: Vec<String> = Vec::new();
    let ns = match e.key.0 {
        'V' => {
            let en = t.get(('E', e.key.1, 0)).unwrap();
            parts.push(en.name.clone());
            en.owner
        }
        'D' => t.get(('C', e.key.1, 0)).unwrap().owner,
        _ => e.owner,
    };
    let mut path: Vec<String> = t.ns_path(ns).iter().map(|i| t.get(('N', *i, 0)).unwrap().name.clone()).collect();
    path.extend(parts);
    path.push(e.name.clone());
    format!("::{}", path.join("::"))
}

fn global_opts(e: &REnt) -> (String, Opts) {
    // info = rs:<kind>:<opts>
    let f: Vec<&str> = e.info.split(':').collect();
    if f.len() == 3 && f[0] == "rs" { (f[1].to_string(), parse_opts(f[2]).unwrap_or_default()) } else { (String::new(), Opts::default()) }
}

fn src_stmts(ss: &[Stmt], t: &RTable, out: &mut String, depth: usize) {
    for s in ss {
        out.push_str(&"    ".repeat(depth));
        match s {
            Stmt::Lv(n) | Stmt::Lvi(n, _) => out.push_str(&format!("int {} = 0;\n", n)),
            Stmt::Block(b) => {
                out.push_str("{\n");
                src_stmts(b, t, out, depth + 1);
                out.push_str(&"    ".repeat(depth));
                out.push_str("}\n");
            }
            // W0 / W1: the wave intrinsics the Metal exporter serves through an implicit parameter
            Stmt::Use(r) if r == "W0" => out.push_str("WaveGetLaneIndex();\n"),
            Stmt::Use(r) if r == "W1" => out.push_str("WaveGetLaneCount();\n"),
            Stmt::Use(r) => match parse_ref(r).and_then(|k| t.get(k)) {
                Some(e) if e.key.0 == 'L' => out.push_str(&format!("{};\n", e.name)),
                Some(e) if e.key.0 == 'F' && e.info.starts_with('#') => out.push_str("0;\n"),
                Some(e) if e.key.0 == 'F' => {
                    let args: Vec<&str> =
                        if e.info == "-" || e.info.starts_with('@') { vec![] } else { e.info.chars().map(super::parg).collect() };
                    out.push_str(&format!("{}({});\n", qualified(t, e), args.join(", ")));
                }
                Some(e) if e.key.0 == 'G' => {
                    let (kind, o) = global_opts(e);
                    let q = qualified(t, e);
                    let q = if o.array.is_some() { format!("{}[0u]", q) } else { q };
                    let member = if kind == "cbs" {
                        o.elem.and_then(|s| t.get(('M', s, 0))).map(|m| m.name.clone())
                    } else {
                        None
                    };
                    match member {
                        Some(m) => out.push_str(&format!("{}.{};\n", q, m)),
                        None => out.push_str(&format!("{};\n", q)),
                    }
                }
                // a cast names the type unambiguously (sizeof(x) would also accept an intrinsic value called x)
                Some(e) if e.key.0 == 'S' || e.key.0 == 'E' => out.push_str(&format!("({})0;\n", qualified(t, e))),
                Some(e) => out.push_str(&format!("{};\n", qualified(t, e))),
                None => out.push_str("0;\n"),
            },
        }
    }
}

fn src_items(items: &[RItem], t: &RTable, nf: &mut usize, out: &mut String) {
    for it in items {
        match it {
            RItem::Ns(n, inner) => {
                out.push_str(&format!("namespace {} {{\n", n));
                src_items(inner, t, nf, out);
                out.push_str("}\n");
            }
            RItem::St(n, ms, fs) => {
                out.push_str(&format!("struct {} {{", n));
                for m in ms {
                    out.push_str(&format!(" int {};", m));
                }
                for f in fs {
                    *nf += 1;
                    out.push_str(&format!(" int {}() {{ return 0; }}", f));
                }
                out.push_str(" };\n");
            }
            RItem::En(n, vs) => out.push_str(&format!("enum {} {{ {} }};\n", n, vs.join(", "))),
            RItem::Gl(k, n) => out.push_str(&match k {
                'c' => format!("static const int {} = 1;\n", n),
                'g' => format!("groupshared int {};\n", n),
                _ => format!("static int {} = 0;\n", n),
            }),
            RItem::Rs(kind, opts, n) => {
                let o = parse_opts(opts).unwrap_or_default();
                if o.bindless {
                    out.push_str("[[rssl::bindless]] ");
                }
                if let Some(g) = o.group {
                    out.push_str(&format!("[[rssl::bind_group({})]] ", g));
                }
                let elem = o.elem.and_then(|s| t.get(('S', s, 0))).map(|e| qualified(t, e)).unwrap_or_else(|| "float4".into());
                out.push_str(&kind_type(kind).unwrap_or("Texture2D<float4>").replace('%', &elem));
                out.push_str(&format!(" {}", n));
                if let Some(len) = o.array {
                    out.push_str(&format!("[{}]", len));
                }
                if kind == "ssamp" {
                    out.push_str(" = StaticSampler { Filter = MIN_MAG_MIP_LINEAR; }");
                }
                out.push_str(";\n");
            }
            RItem::Cb(n, opts, ms) => {
                let o = parse_opts(opts).unwrap_or_default();
                if let Some(g) = o.group {
                    out.push_str(&format!("[[rssl::bind_group({})]] ", g));
                }
                out.push_str(&format!("cbuffer {} {{", n));
                for m in ms {
                    out.push_str(&format!(" float4 {};", m));
                }
                out.push_str(" }\n");
            }
            RItem::Fn(n, pt, ps, body) => {
                *nf += 1;
                let params: Vec<String> = if pt == "-" {
                    vec![]
                } else {
                    pt.chars().zip(ps.iter()).map(|(c, p)| format!("{} {}", super::ptype(c), p)).collect()
                };
                out.push_str(&format!("int {}({}) {{\n", n, params.join(", ")));
                src_stmts(body, t, out, 1);
                out.push_str("    return 0;\n}\n");
            }
            RItem::Ef(st, n, ps, body) => {
                *nf += 1;
                match st {
                    'c' => {
                        out.push_str(&format!("[numthreads(8, 1, 1)]\nvoid {}(uint3 {} : SV_DispatchThreadID) {{\n", n, ps[0]));
                        src_stmts(body, t, out, 1);
                        out.push_str("}\n");
                    }
                    'v' => {
                        out.push_str(&format!("void {}(uint {} : SV_VertexID, out float4 {} : SV_Position) {{\n", n, ps[0], ps[1]));
                        src_stmts(body, t, out, 1);
                        out.push_str(&format!("    {} = float4(0, 0, 0, 1);\n}}\n", ps[1]));
                    }
                    _ => {
                        out.push_str(&format!("float4 {}(float4 {} : SV_Position) : SV_Target0 {{\n", n, ps[0]));
                        src_stmts(body, t, out, 1);
                        out.push_str("    return float4(0, 0, 0, 0);\n}\n");
                    }
                }
            }
            RItem::Pl(n, fs, d) => {
                out.push_str(&format!("Pipeline {} {{\n", n));
                for f in fs {
                    if let Some(e) = t.get(('F', *f, 0)) {
                        let prop = match e.info.as_str() {
                            "@c" => "ComputeShader",
                            "@v" => "VertexShader",
                            _ => "PixelShader",
                        };
                        out.push_str(&format!("    {} = {};\n", prop, &qualified(t, e)[2..]));
                    }
                }
                if let Some(g) = d {
                    out.push_str(&format!("    DefaultBindGroup = {};\n", g));
                }
                out.push_str("}\n");
            }
        }
    }
}

pub fn source_of(items: &[RItem]) -> String {
    let t = table_of(items);
    let mut s = String::new();
    src_items(items, &t, &mut 0, &mut s);
    s
}

pub fn raw(line: &str, tgt: &str, esc: &str, out: &mut Out) {
    let src = esc.replace("\\n", "\n");
    let t = Tgt::parse(tgt).unwrap_or(Tgt::Dx);
    let mode = if src.contains("Pipeline") { Mode::All } else { Mode::NoPipeline };
    let text = match compile_src(&src, t, mode) {
        CompileOutcome::Ok(ps) => ps
            .iter()
            .map(|p| format!("{}\n--stages {:?}\n--slots {:?}", p.text(), p.stages, p.slots))
            .collect::<Vec<_>>()
            .join("\n=====\n"),
        CompileOutcome::Err(e) => format!("error {}", e),
        CompileOutcome::Panic(p) => format!("panic {}", p),
    };
    eprintln!("{}", text);
    out.case(line, &format!("unsupported-op {}", one_line(&text)), "ok");
}

// ------------------------------------------------------------------------------------------ real code

use super::astwalk::{DK, Ev, Res, UK, Walk};

fn binding_params(t: Tgt) -> rssl::AssignBindingsParams {
    // the same choice as `compile()` (src/compile.rs); the text tie below fails when they drift apart
    match t {
        Tgt::Dx => rssl::AssignBindingsParams::default(),
        Tgt::Vk | Tgt::VkBa => rssl::AssignBindingsParams {
            require_slot_type: false,
            support_buffer_address: t == Tgt::VkBa,
            metal_slot_layout: false,
            static_samplers_have_slots: true,
        },
        Tgt::Msl => rssl::AssignBindingsParams {
            require_slot_type: false,
            support_buffer_address: false,
            metal_slot_layout: true,
            static_samplers_have_slots: false,
        },
    }
}

pub struct Built {
    pub text: String,
    pub tree: ast::Module,
    /// (bind group, reported name, location, count) without the generated inline-constants entry
    pub refl: Vec<(usize, String, String, Option<u32>)>,
    /// (stage, entry point)
    pub entries: Vec<(String, String)>,
    /// the module as the exporter's NameMap sees it
    pub module: ir::Module,
    pub formatted: String,
}

pub enum BuildErr {
    Front(String),
    Compile(String),
    Panic(String),
    Hook(String),
}

pub fn build(src: &str, t: Tgt, has_pipeline: bool) -> Result<Built, BuildErr> {
    let mode = if has_pipeline { Mode::All } else { Mode::NoPipeline };
    let po = match compile_src(src, t, mode) {
        CompileOutcome::Ok(mut ps) => {
            if ps.len() != 1 {
                return Err(BuildErr::Compile(format!("{} pipelines", ps.len())));
            }
            ps.remove(0)
        }
        CompileOutcome::Err(e) => return Err(BuildErr::Compile(one_line(e.lines().next().unwrap_or("")))),
        CompileOutcome::Panic(p) => return Err(BuildErr::Panic(p)),
    };
    let module = match guard(|| front_end_src(src)) {
        Ok(Ok(m)) => m,
        Ok(Err(e)) => return Err(BuildErr::Front(e.stage().to_string())),
        Err(p) => return Err(BuildErr::Panic(p)),
    };
    let r = guard(|| {
        let selected = if has_pipeline {
            let n = module.pipelines[0].name.node.clone();
            module.clone().select_pipeline(&n).unwrap()
        } else {
            module.clone()
        };
        let bound = selected.assign_api_bindings(&binding_params(t));
        let tree = if t == Tgt::Msl {
            rssl_msl::verif_generate_ast(&bound).map_err(|e| format!("{:?}", e))
        } else {
            rssl_hlsl::verif_generate_ast(&bound, t != Tgt::Dx).map_err(|e| format!("{:?}", e))
        };
        let mut seen = bound;
        if t == Tgt::Msl {
            ir::simplify_cbuffers(&mut seen);
        }
        tree.map(|tr| (tr, seen))
    });
    let (tree, seen) = match r {
        Ok(Ok(x)) => x,
        Ok(Err(e)) => return Err(BuildErr::Hook(e)),
        Err(p) => return Err(BuildErr::Panic(p)),
    };
    let ft = if t == Tgt::Msl { rssl_formatter::Target::Msl } else { rssl_formatter::Target::Hlsl };
    let formatted = match guard(|| rssl_formatter::format(&tree, ft)) {
        Ok(Ok(s)) => s,
        Ok(Err(e)) => return Err(BuildErr::Hook(format!("{:?}", e))),
        Err(p) => return Err(BuildErr::Panic(p)),
    };
    Ok(Built {
        text: po.text(),
        tree,
        refl: po.slots.iter().filter(|s| s.1 != "<inline constants>").cloned().collect(),
        entries: po.stages.iter().map(|s| (s.0.clone(), s.1.clone())).collect(),
        module: seen,
        formatted,
    })
}

// ------------------------------------------------------------------------------------------ listing

fn path_str(path: &[String], absolute: bool) -> String {
    format!("{}{}", if absolute { "::" } else { "" }, path.join("::"))
}

/// The declarations and uses of the tree `w` outside the helper namespace, in tree order.  Which uses are listed is
/// decided on the skeleton's tree `w0` (same shape, every user entity under a unique fresh name, so nothing there is
/// captured or dangling): a use is listed when the skeleton's use names a user entity or resolves to a declaration
/// outside the helper namespace; the text listed is the one of `w`.
pub fn listing(w: &Walk, w0: &Walk) -> String {
    let same_shape = w.evs.len() == w0.evs.len();
    let w0 = if same_shape { w0 } else { w };
    let mut out: Vec<String> = Vec::new();
    let mut skip_depth: Option<usize> = None;
    let mut depth = 0usize;
    let is_helper_decl = |i: usize| matches!(&w0.evs[i], Ev::Decl { helper: true, .. });
    let fresh = |p: &[String]| p.iter().any(|c| decode_fresh(c).is_some());
    for (ev, ev0) in w.evs.iter().zip(w0.evs.iter()) {
        match ev {
            Ev::Open(_) => {
                depth += 1;
                if skip_depth.is_none() {
                    out.push("(".into());
                }
            }
            Ev::Close => {
                if skip_depth == Some(depth) {
                    skip_depth = None;
                } else if skip_depth.is_none() {
                    out.push(")".into());
                }
                depth -= 1;
            }
            Ev::Decl { kind, name, helper, .. } => {
                if *helper {
                    if skip_depth.is_none() && *kind == DK::Namespace {
                        // the helper namespace: skip through its closing event
                        skip_depth = Some(depth + 1);
                    }
                    continue;
                }
                if skip_depth.is_none() {
                    out.push(format!("{}:{}", kind.letter(), name));
                }
            }
            Ev::Use { kind, path, absolute, helper, .. } => {
                if *helper || skip_depth.is_some() {
                    continue;
                }
                let (p0, r0) = match ev0 {
                    Ev::Use { path, res, .. } => (path.as_slice(), res),
                    _ => continue,
                };
                let listed = fresh(p0)
                    || match r0 {
                        Res::Decls(ds) => !ds.iter().all(|d| is_helper_decl(*d)),
                        _ => false,
                    };
                if !listed {
                    continue;
                }
                match kind {
                    UK::Member => out.push(format!(".{}", path.join("::"))),
                    UK::Value => out.push(format!("?{}", path_str(path, *absolute))),
                    UK::Type => out.push(format!("?:{}", path_str(path, *absolute))),
                }
            }
        }
    }
    out.join(" ")
}

/// debugging aid: `C15.rshow <target> <descriptor>` prints source, emitted text and listing on stderr
pub fn show(line: &str, tgt: &str, prog: &str, out: &mut Out) {
    let t = Tgt::parse(tgt).unwrap_or(Tgt::Dx);
    let Some(items) = parse_program(prog) else {
        out.case(line, "bad-request", "SKIP:descriptor does not parse");
        return;
    };
    let src = source_of(&items);
    eprintln!("---- source\n{}", src);
    let has_pl = items.iter().any(|i| matches!(i, RItem::Pl(..)));
    match build(&src, t, has_pl) {
        Ok(b) => {
            eprintln!("---- text\n{}", b.text);
            let w = Walk::run(&b.tree, if t == Tgt::Msl { Some("helper") } else { None });
            eprintln!("---- listing\n{}", listing(&w, &w));
            eprintln!("---- refl {:?}\n---- entries {:?}\n---- tie {}", b.refl, b.entries, b.text == b.formatted);
        }
        Err(e) => {
            let (k, m) = err_text(&e);
            eprintln!("{} {}", k, m);
        }
    }
    out.case(line, "unsupported-op", "ok");
}

// ------------------------------------------------------------------------------------------ oracle

/// identifiers of generated text that no declaration of the tree introduces: they must be names of the target
/// language or of its library.  A name that is in the exporter's own reserved table or in the independent list is
/// accepted; the rest is listed here (scalar / vector / matrix type spellings and library names the lists do not carry).
const EXTRA_BUILTINS: &[&str] = &[
    "metal", "vk", "uint64_t", "uint8_t", "FLT_MAX", "sizeof", "static_cast", "reinterpret_cast", "T",
];

fn numeric_type_name(s: &str) -> bool {
    for b in ["float", "int", "uint", "bool", "half", "double", "min16float", "min16int", "min16uint", "short", "ushort", "long", "ulong", "char", "uchar", "int64_t", "uint64_t", "int16_t", "uint16_t", "float16_t"] {
        if let Some(r) = s.strip_prefix(b) {
            if r.is_empty() {
                return true;
            }
            let rb = r.as_bytes();
            if rb.len() == 1 && (b'1'..=b'4').contains(&rb[0]) {
                return true;
            }
            if rb.len() == 3 && rb[1] == b'x' && (b'1'..=b'4').contains(&rb[0]) && (b'1'..=b'4').contains(&rb[2]) {
                return true;
            }
        }
    }
    false
}

pub struct Lists<'a> {
    pub spec: &'a HashSet<String>,
    pub real: &'a [String],
}

impl<'a> Lists<'a> {
    fn reserved(&self, n: &str) -> bool {
        self.spec.contains(n) || self.real.iter().any(|r| r == n)
    }
    fn builtin(&self, n: &str) -> bool {
        self.reserved(n) || EXTRA_BUILTINS.contains(&n) || numeric_type_name(n)
    }
}

/// entity letter of a declaration site: the kind of the user entity (decoded from the skeleton's fresh name, `t` when the
/// name is derived from it, e.g. `<cbuffer>Type`), `#` for generated declarations
fn site_letter(name0: &str) -> (char, Option<(Key, String)>) {
    match decode_fresh(name0) {
        Some((k, suf)) if suf.is_empty() => (k.0, Some((k, suf))),
        Some((k, suf)) => ('t', Some((k, suf))),
        None => ('#', None),
    }
}

fn names_in_scope_of(t: &RTable, e: &REnt) -> Vec<String> {
    // source names that share the source scope of `e` (other than `e`)
    let level = |x: &REnt| -> Option<Option<usize>> {
        match x.key.0 {
            'F' if x.info.starts_with('#') => None,
            'N' | 'S' | 'E' | 'G' | 'F' | 'C' | 'P' => Some(x.owner),
            'V' => t.get(('E', x.key.1, 0)).map(|p| p.owner),
            'D' => t.get(('C', x.key.1, 0)).map(|p| p.owner),
            _ => None,
        }
    };
    let mut v = Vec::new();
    for o in &t.ents {
        if o.key == e.key {
            continue;
        }
        let in_struct = |x: &REnt| -> Option<usize> {
            match x.key.0 {
                'M' => x.owner,
                'F' if x.info.starts_with('#') => x.info[1..].parse().ok(),
                _ => None,
            }
        };
        let same = match (e.key.0, o.key.0) {
            ('L', 'L') => o.owner == e.owner,
            _ if in_struct(e).is_some() || in_struct(o).is_some() => in_struct(e) == in_struct(o),
            ('L', _) => match level(o) {
                Some(ns) => {
                    let fns = e.owner.and_then(|f| t.get(('F', f, 0))).and_then(|f| f.owner);
                    match ns {
                        None => true,
                        Some(n) => t.ns_path(fns).contains(&n),
                    }
                }
                None => false,
            },
            (_, _) => match (level(e), level(o)) {
                (Some(a), Some(b)) => a == b,
                _ => false,
            },
        };
        if same {
            v.push(o.name.clone());
        }
    }
    v
}

pub struct OracleIn<'a> {
    pub target: &'a str,
    pub msl: bool,
    pub has_pipeline: bool,
    pub table: &'a RTable,
    pub lists: Lists<'a>,
    /// leaf names of the direct `NameMap::build` call (entity key -> name)
    pub leaf: &'a HashMap<Key, String>,
}

pub fn oracle(b0: &Built, b1: &Built, w0: &Walk, w1: &Walk, inp: &OracleIn) -> BTreeSet<String> {
    let t = inp.target;
    let mut fails: BTreeSet<String> = BTreeSet::new();
    // ---- the hook route prints what compile() printed
    if b0.text != b0.formatted || b1.text != b1.formatted {
        fails.insert(format!("route:{} | format(tree from the verification hook) differs from the text compile() returned", t));
    }
    // ---- token level: same text up to identifiers
    {
        let (t0, t1) = (lex(&b0.text), lex(&b1.text));
        if t0.len() != t1.len() {
            fails.insert(format!("skeleton:{} | {} tokens for the skeleton program, {} for the renamed one", t, t0.len(), t1.len()));
        } else {
            for (a, b) in t0.iter().zip(t1.iter()) {
                match (a, b) {
                    (super::Tok::Id(_), super::Tok::Id(_)) => {}
                    (x, y) if x == y => {}
                    _ => {
                        fails.insert(format!("skeleton:{} | token {:?} became {:?}", t, a, b));
                        break;
                    }
                }
            }
        }
    }
    // ---- tree level: same shape
    if w0.evs.len() != w1.evs.len() {
        fails.insert(format!("skeleton:{} | trees of different shape ({} / {} events)", t, w0.evs.len(), w1.evs.len()));
        return fails;
    }
    for (a, b) in w0.evs.iter().zip(w1.evs.iter()) {
        let same = match (a, b) {
            (Ev::Decl { kind: k0, .. }, Ev::Decl { kind: k1, .. }) => k0 == k1,
            (Ev::Use { kind: k0, .. }, Ev::Use { kind: k1, .. }) => k0 == k1,
            (Ev::Open(x), Ev::Open(y)) => x == y,
            (Ev::Close, Ev::Close) => true,
            _ => false,
        };
        if !same {
            fails.insert(format!("skeleton:{} | trees of different shape", t));
            return fails;
        }
    }
    let name0 = |i: usize| -> &str {
        match &w0.evs[i] {
            Ev::Decl { name, .. } => name.as_str(),
            _ => "",
        }
    };
    let name1 = |i: usize| -> &str {
        match &w1.evs[i] {
            Ev::Decl { name, .. } => name.as_str(),
            _ => "",
        }
    };
    // on Metal a cbuffer is a struct + a global that go through the name map like any other: letter them so
    let msl = inp.msl;
    let letter_of = move |n0: &str| -> char {
        match site_letter(n0).0 {
            'C' if msl => 'G',
            'D' if msl => 'M',
            c => c,
        }
    };
    // `g`: a global re-declared under its leaf name in a generated position (threaded parameter, wrapper local,
    // member of an argument buffer / inline descriptor struct)
    let site_of = |d: usize| -> char {
        let l = letter_of(name0(d));
        match &w0.evs[d] {
            Ev::Decl { kind: DK::Param | DK::Local | DK::Member, .. } if l == 'G' => 'g',
            _ => l,
        }
    };
    let letters = |ds: &[usize]| -> String { ds.iter().map(|d| site_of(*d)).collect::<BTreeSet<char>>().into_iter().collect() };
    let show_sites = |ds: &[usize]| -> String { ds.iter().map(|d| format!("{}'{}'", site_of(*d), name1(*d))).collect::<Vec<_>>().join(",") };
    // would the printed path name exactly the entity meant if it were absolute?
    let rel = |kind: &UK, p1: &[String], x: &[usize]| -> &'static str {
        if *kind == UK::Member {
            return "";
        }
        let abs = w1.lookup_absolute(p1);
        if !abs.is_empty() && x.iter().all(|d| abs.contains(d)) { "~rel" } else { "" }
    };
    let mut object_lost: Vec<String> = Vec::new();
    let all_printed: HashSet<&str> =
        w1.evs.iter().filter_map(|e| if let Ev::Decl { name, .. } = e { Some(name.as_str()) } else { None }).chain(inp.leaf.values().map(|s| s.as_str())).collect();
    // innermost enclosing function of the current position: `Some(true)` = a generated function (entry wrapper)
    let mut fstack: Vec<Option<bool>> = Vec::new();
    let mut last_fn_generated = false;
    let mut last_use_failed = false;
    // declarations whose type did not resolve as in the skeleton: member lookups through them are consequences
    let mut tainted: HashSet<usize> = HashSet::new();
    let mut pending_taint = false;
    for i in 0..w0.evs.len() {
        match (&w0.evs[i], &w1.evs[i]) {
            (Ev::Open(c), _) => {
                fstack.push(if *c == 'F' { Some(last_fn_generated) } else { None });
            }
            (Ev::Close, _) => {
                fstack.pop();
            }
            (Ev::Decl { kind, name: n0, helper, .. }, Ev::Decl { name: n1, .. }) => {
                let (_, ent) = site_letter(n0);
                let letter = letter_of(n0);
                if pending_taint {
                    tainted.insert(i);
                    pending_taint = false;
                }
                if matches!(kind, DK::Function | DK::Method) {
                    last_fn_generated = ent.is_none();
                }
                if ent.is_none() && n0 != n1 {
                    fails.insert(format!("skeleton:{} | generated declaration '{}' became '{}'", t, n0, n1));
                }
                if inp.lists.spec.contains(n1.as_str()) {
                    let k = if *helper {
                        format!("reserved-helper:{}:{}", t, n1)
                    } else if ent.is_none() {
                        format!("reserved-generated:{}:{}", t, n1)
                    } else if matches!(letter, 'M' | 'D' | 'C') {
                        format!("reserved-unrenamed:{}:{}", t, letter)
                    } else if inp.lists.real.iter().any(|x| x == n1) {
                        format!("reserved-listed-but-printed:{}:{}", t, letter)
                    } else {
                        format!("reserved-missing:{}:{}", t, n1)
                    };
                    fails.insert(format!("{} | {} {} is declared as '{}', a reserved/built-in name of the target", k, kind.letter(), n0, n1));
                }
                if let Some((key, suf)) = &ent {
                    if suf.is_empty() {
                        // the printed name is the one the direct NameMap::build call gives (source-tree table = compiled-in table)
                        if let Some(l) = inp.leaf.get(key) {
                            if l != n1 {
                                fails.insert(format!("tie:{}:{} | {} printed as '{}' but NameMap::build with the source table gives '{}'", t, key.0, show_key(*key), n1, l));
                            }
                        }
                        // verbatim
                        if let Some(e) = inp.table.get(*key) {
                            if &e.name != n1 && !inp.lists.reserved(&e.name) && !names_in_scope_of(inp.table, e).contains(&e.name) {
                                let lvl = if key.0 == 'L' { "local" } else { "global" };
                                // the name is taken by the struct Metal generates for a cbuffer `<name minus Type>`
                                let cbtype = inp.msl && inp.table.ents.iter().any(|c| c.key.0 == 'C' && format!("{}Type", c.name) == e.name);
                                // struct methods are named in the scope of the namespace that holds the struct: a method and a
                                // namesake (function, global, type, method of another struct) of that namespace form one group
                                let is_method = |x: &REnt| x.key.0 == 'F' && x.info.starts_with('#');
                                let managed = |x: &REnt| -> Option<Option<usize>> {
                                    match x.key.0 {
                                        'N' | 'S' | 'E' | 'G' | 'F' => Some(x.owner),
                                        'C' if inp.msl => Some(x.owner),
                                        'V' => inp.table.get(('E', x.key.1, 0)).map(|p| p.owner),
                                        _ => None,
                                    }
                                };
                                let method_clash = inp.table.ents.iter().any(|o| {
                                    o.key != e.key
                                        && o.name == e.name
                                        && (is_method(e) || is_method(o))
                                        && managed(o).is_some()
                                        && managed(o) == managed(e)
                                });
                                let class = if method_clash {
                                    "method-clash"
                                } else if cbtype {
                                    "cbuffer-type-clash"
                                } else if all_printed.contains(e.name.as_str()) {
                                    "generated-clash"
                                } else {
                                    "other"
                                };
                                fails.insert(format!("verbatim:{}:{}:{}:{} | {} '{}' is unique in its scope and not reserved but printed as '{}'", t, class, lvl, key.0, show_key(*key), e.name, n1));
                            }
                        }
                    }
                }
            }
            (Ev::Use { kind, path: p0, res: r0, absolute: a0, first: f0, .. }, Ev::Use { path: p1, res: r1, absolute: a1, first: f1, .. }) => {
                let shown = path_str(p1, *a1);
                let wrapper = if fstack.iter().rev().flatten().next() == Some(&true) { "@wrapper" } else { "" };
                let before = fails.len();
                let secondary = *kind == UK::Member && last_use_failed;
                // a qualified path whose first component is (also) looked up to a generated declaration
                let gen_first = if f0 != f1 && f1.iter().any(|d| site_of(*d) == '#') { "#" } else { "" };
                match (r0, r1) {
                    (Res::Decls(x), Res::Decls(y)) if secondary && x != y => {
                        object_lost.push(format!("member-object-lost:{}:{} | the object of member '{}' ({}) resolves elsewhere", t, letters(x), shown, show_sites(y)));
                    }
                    (Res::Decls(x), Res::Decls(y)) => {
                        if x != y {
                            fails.insert(format!(
                                "capture:{}:{}:{}{}{}{}{} | '{}' printed for {} resolves to [{}] in the output",
                                t, letters(x), if p1.len() > 1 { "q" } else { "" }, gen_first, letters(y), wrapper, rel(kind, p1, x), shown, show_sites(x), show_sites(y)
                            ));
                        }
                    }
                    (Res::Decls(x), Res::NoSuchMember(_)) if secondary => {
                        object_lost.push(format!("member-object-lost:{}:{} | the object of member '{}' ({}) resolves elsewhere", t, letters(x), shown, show_sites(x)));
                    }
                    (Res::Decls(x), Res::NoSuchMember(_)) => {
                        fails.insert(format!("dangling-member:{}:{} | member '{}' printed for {} does not exist in the struct of the output", t, letters(x), shown, show_sites(x)));
                    }
                    (Res::Decls(x), Res::UnknownObject) => {
                        // a consequence of another failure (the object or its type resolves elsewhere): reported only when alone
                        object_lost.push(format!("member-object-lost:{}:{} | the object of member '{}' ({}) no longer has a struct type of the output", t, letters(x), shown, show_sites(x)));
                    }
                    (Res::Decls(x), Res::Undeclared) => {
                        fails.insert(format!("dangling:{}:{}{}{} | '{}' printed for {} resolves to no declaration of the output", t, letters(x), wrapper, rel(kind, p1, x), shown, show_sites(x)));
                    }
                    (Res::Undeclared, _) if p0.last().map(|x| site_letter(x).1.is_some()).unwrap_or(false) => {
                        // a user entity that the skeleton's own output declares nowhere visible from here
                        let l = p0.last().map(|x| letter_of(x)).unwrap_or('?');
                        fails.insert(format!("dangling:{}:{}{} | '{}' (skeleton: '{}') is declared nowhere visible from its use in the output", t, l, wrapper, shown, path_str(p0, *a0)));
                    }
                    (Res::Undeclared, Res::Undeclared) => {
                        if p0 != p1 || a0 != a1 {
                            fails.insert(format!("skeleton:{} | undeclared identifier '{}' became '{}'", t, path_str(p0, *a0), shown));
                        } else if !inp.lists.builtin(&p1[0]) {
                            fails.insert(format!("undeclared:{}:{} | '{}' is declared nowhere in the output and is no known name of the target", t, p1[0], shown));
                        }
                    }
                    (Res::Undeclared, Res::Decls(y)) => {
                        fails.insert(format!("capture-builtin:{}:{}{} | built-in '{}' resolves to [{}] in the output", t, letters(y), wrapper, shown, show_sites(y)));
                    }
                    (Res::NoSuchMember(_), _) => {
                        fails.insert(format!("dangling-member:{}:skeleton | member '{}' of a struct of the output does not exist (skeleton program)", t, path_str(p0, false)));
                    }
                    (Res::UnknownObject, Res::UnknownObject) => {
                        if p0 != p1 {
                            fails.insert(format!("skeleton:{} | member '{}' of a built-in object became '{}'", t, path_str(p0, false), shown));
                        }
                    }
                    (Res::UnknownObject, _) | (Res::Undeclared, _) => {
                        if !secondary {
                            fails.insert(format!("skeleton:{} | {:?} use '{}' changed its resolution class", t, kind, shown));
                        }
                    }
                }
                last_use_failed = fails.len() != before || (secondary && last_use_failed);
                if *kind == UK::Type && fails.len() != before {
                    pending_taint = true;
                }
                if let Res::Decls(y) = r1 {
                    if *kind == UK::Value && y.iter().any(|d| tainted.contains(d)) {
                        last_use_failed = true;
                    }
                }
            }
            _ => {}
        }
    }
    if fails.is_empty() {
        fails.extend(object_lost);
    }
    // ---- no two entities declared under one name in one scope of the output
    for names in w1.scope_tables() {
        for (a, (na, ia)) in names.iter().enumerate() {
            for (nb, ib) in names.iter().skip(a + 1) {
                if na != nb || ia == ib || name0(*ia) == name0(*ib) {
                    continue;
                }
                let both_helper = matches!((&w1.evs[*ia], &w1.evs[*ib]), (Ev::Decl { helper: true, .. }, Ev::Decl { helper: true, .. }));
                if both_helper {
                    continue;
                }
                let mut ks = [site_of(*ia), site_of(*ib)];
                ks.sort();
                fails.insert(format!("dup:{}:{}{} | {} and {} are both declared as '{}' in one scope of the output", t, ks[0], ks[1], name0(*ia), name0(*ib), na));
            }
        }
    }
    // ---- reflection: reported binding names and entry points name the same declaration sites as in the skeleton
    if b0.refl.len() != b1.refl.len() || b0.entries.len() != b1.entries.len() {
        fails.insert(format!("refl-shape:{} | the reflection data of the skeleton and of the renamed program differ in shape", t));
        return fails;
    }
    let decl_sites = |w: &Walk, name: &str, kinds: &[DK]| -> Vec<usize> {
        w.evs
            .iter()
            .enumerate()
            .filter(|(_, e)| matches!(e, Ev::Decl { kind, name: n, helper: false, .. } if n == name && kinds.contains(kind)))
            .map(|(i, _)| i)
            .collect()
    };
    let binding_kinds: &[DK] = if inp.msl { &[DK::Member] } else { &[DK::Global, DK::CBuffer, DK::Member] };
    for (r0, r1) in b0.refl.iter().zip(b1.refl.iter()) {
        if (r0.0, &r0.2, r0.3) != (r1.0, &r1.2, r1.3) {
            fails.insert(format!("refl-shape:{} | binding '{}' ({} {}) became '{}' ({} {})", t, r0.1, r0.0, r0.2, r1.1, r1.0, r1.2));
            continue;
        }
        let sites = decl_sites(w0, &r0.1, binding_kinds);
        if sites.is_empty() {
            if inp.msl && !inp.has_pipeline {
                // no argument buffers are emitted without a pipeline: compare with the name map directly
                if let Some((k, _)) = decode_fresh(&r0.1) {
                    if let Some(l) = inp.leaf.get(&k) {
                        if l != &r1.1 {
                            fails.insert(format!("refl-name:{}:{} | binding of {} is reported as '{}' but the name map gives '{}'", t, k.0, show_key(k), r1.1, l));
                        }
                    }
                }
            } else {
                fails.insert(format!("refl-undeclared:{}:skeleton | reported binding '{}' names no declaration of the output (skeleton program)", t, r0.1));
            }
            continue;
        }
        for s in sites {
            if name1(s) != r1.1 {
                fails.insert(format!("refl-name:{}:{} | binding of {} is reported as '{}' but declared as '{}'", t, letter_of(name0(s)), name0(s), r1.1, name1(s)));
            }
        }
    }
    for (e0, e1) in b0.entries.iter().zip(b1.entries.iter()) {
        let sites = decl_sites(w0, &e0.1, &[DK::Function]);
        if e0.0 != e1.0 || sites.is_empty() {
            fails.insert(format!("entry-undeclared:{} | stage {} entry '{}' names no function of the output (skeleton program)", t, e0.0, e0.1));
            continue;
        }
        for s in sites {
            if name1(s) != e1.1 {
                fails.insert(format!("entry-name:{} | {} entry point is reported as '{}' but declared as '{}'", t, e1.0, e1.1, name1(s)));
            }
        }
    }
    fails
}

// ------------------------------------------------------------------------------------------ one case

thread_local! {
    static KNOWN_TO_RSSL: std::cell::RefCell<HashMap<String, bool>> = std::cell::RefCell::new(HashMap::new());
}

/// does RSSL itself give `::name` a meaning (built-in type or intrinsic value) when the program declares nothing of that name?
fn rssl_knows(name: &str) -> bool {
    if let Some(v) = KNOWN_TO_RSSL.with(|m| m.borrow().get(name).copied()) {
        return v;
    }
    let probe = |body: &str| -> bool { matches!(guard(|| front_end_src(&format!("int zqprobe() {{ {}; return 0; }}\n", body))), Ok(Ok(_))) };
    let v = probe(&format!("sizeof(::{})", name)) || probe(&format!("(::{})0", name)) || probe(&format!("::{} zqv", name));
    KNOWN_TO_RSSL.with(|m| m.borrow_mut().insert(name.to_string(), v));
    v
}

pub struct RCtx<'a> {
    pub real: &'a [Vec<String>; 2],
    pub spec: &'a [HashSet<String>; 2],
    pub hist: &'a mut Hist,
}

fn err_text(e: &BuildErr) -> (String, String) {
    match e {
        BuildErr::Front(s) => ("front".into(), s.clone()),
        BuildErr::Compile(s) => ("compile".into(), s.clone()),
        BuildErr::Panic(s) => ("panic".into(), s.clone()),
        BuildErr::Hook(s) => ("hook".into(), s.clone()),
    }
}

pub fn run_case(target: &str, prog: &str, cx: &mut RCtx, out: &mut Out) {
    let req = format!("C15.res\t{}\t{}", target, prog);
    let Some(t) = Tgt::parse(target) else {
        out.case(&req, "bad-request", "SKIP:unknown target");
        return;
    };
    let msl = t == Tgt::Msl;
    let ti = if msl { 1 } else { 0 };
    let Some(items) = parse_program(prog) else {
        out.case(&req, "bad-request", "SKIP:descriptor does not parse");
        return;
    };
    let table = table_of(&items);
    let has_pl = items.iter().any(|i| matches!(i, RItem::Pl(..)));
    let src = source_of(&items);
    let (p0, _) = walk(&items, &mut |k, _| fresh_name(k));
    let src0 = source_of(&p0);
    // two entities of one source scope under one identifier (other than overloaded functions): the per-entity skeleton
    // is then no renaming of identifiers, and `::x` may mean either in the source
    {
        let level = |x: &REnt| -> Option<Option<usize>> {
            match x.key.0 {
                'F' if x.info.starts_with('#') => None,
                'N' | 'S' | 'E' | 'G' | 'F' | 'C' => Some(x.owner),
                'V' => table.get(('E', x.key.1, 0)).map(|p| p.owner),
                'D' => table.get(('C', x.key.1, 0)).map(|p| p.owner),
                _ => None,
            }
        };
        for a in &table.ents {
            for b in &table.ents {
                if a.key < b.key && a.name == b.name && level(a).is_some() && level(a) == level(b) && !(a.key.0 == 'F' && b.key.0 == 'F') {
                    cx.hist.add("skip:homonyms in one source scope");
                    out.case(&req, "homonyms", "SKIP:two entities of one source scope share an identifier");
                    return;
                }
            }
        }
    }
    // a struct / enum named like a built-in type and then referred to by name: RSSL itself resolves `::Texture3D` to the
    // built-in, so the program does not mean what its skeleton means
    {
        fn refs(ss: &[Stmt], out: &mut Vec<Key>) {
            for s in ss {
                match s {
                    Stmt::Use(r) => {
                        if let Some(k) = parse_ref(r) {
                            out.push(k);
                        }
                    }
                    Stmt::Block(b) => refs(b, out),
                    _ => {}
                }
            }
        }
        fn collect(items: &[RItem], out: &mut Vec<Key>) {
            for it in items {
                match it {
                    RItem::Ns(_, inner) => collect(inner, out),
                    RItem::Fn(_, _, _, b) | RItem::Ef(_, _, _, b) => refs(b, out),
                    RItem::Rs(_, o, _) => {
                        if let Some(e) = parse_opts(o).and_then(|o| o.elem) {
                            out.push(('S', e, 0));
                        }
                    }
                    _ => {}
                }
            }
        }
        let mut used = Vec::new();
        collect(&items, &mut used);
        let lists = Lists { spec: &cx.spec[ti], real: &cx.real[ti] };
        let hl = Lists { spec: &cx.spec[0], real: &cx.real[0] };
        for k in used {
            if k.0 == 'S' || k.0 == 'E' {
                if let Some(e) = table.get((k.0, k.1, 0)) {
                    if (lists.builtin(&e.name) || hl.builtin(&e.name)) && rssl_knows(&e.name) {
                        cx.hist.add("skip:referenced type named like a built-in");
                        out.case(&req, "builtin-type-name", "SKIP:a struct / enum named like a built-in is referred to by name");
                        return;
                    }
                }
            }
        }
    }
    // programs the front end does not accept (or panics on: C08's matter) are no inputs of this property
    match guard(|| front_end_src(&src)) {
        Err(p) => {
            cx.hist.add("skip:front-end panic");
            out.case(&req, &format!("front-end-panic {}", p), "SKIP:front end panics (not an accepted program; see notes, C08)");
            return;
        }
        Ok(Err(e)) => {
            cx.hist.add(&format!("skip:{}-error", e.stage()));
            out.case(&req, &format!("{}-error", e.stage()), "SKIP:not an accepted program");
            return;
        }
        Ok(Ok(_)) => {}
    }
    // the skeleton decides whether the shape is an accepted program at all
    let b0 = match build(&src0, t, has_pl) {
        Ok(b) => b,
        Err(e) => {
            let (k, m) = err_text(&e);
            if k == "panic" || k == "hook" {
                // the skeleton is an ordinary program with unremarkable names: a panic / generator error is not a naming matter
                cx.hist.add(&format!("skip:skeleton {}", k));
            } else {
                cx.hist.add(&format!("skip:skeleton {}-error", k));
            }
            out.case(&req, &format!("skeleton-{} {}", k, one_line(&m)), "SKIP:skeleton program is not accepted");
            return;
        }
    };
    let b1 = match build(&src, t, has_pl) {
        Ok(b) => b,
        Err(e) => {
            let (k, m) = err_text(&e);
            if k == "front" || (k == "compile" && guard(|| front_end_src(&src)).map(|r| r.is_err()).unwrap_or(true)) {
                // names RSSL itself does not accept in this position
                cx.hist.add("skip:not accepted by the front end");
                out.case(&req, &format!("front-error {}", one_line(&m)), "SKIP:not an accepted program");
            } else if k == "panic" {
                cx.hist.add("fail:panic");
                out.case(&req, &format!("panic {}", one_line(&m)), &format!("FAIL:panic {}", one_line(&m)));
            } else {
                cx.hist.add("fail:accept");
                out.case(
                    &req,
                    &format!("export-error {}", one_line(&m)),
                    &format!("FAIL:accept:{} | renamed program fails to export while the skeleton exports: {}", target, one_line(&m)),
                );
            }
            return;
        }
    };
    // ---- the assignment of the real NameMap::build on the module the exporter sees
    let reserved = &cx.real[ti];
    let names = match guard(|| super::real_names(&b1.module, reserved, !msl)) {
        Ok(n) => n,
        Err(p) => {
            out.case(&req, &format!("panic:{}", p), &format!("FAIL:panic {}", p));
            return;
        }
    };
    let mut nv = 0;
    let mut obs: Vec<String> = names
        .iter()
        .map(|(k, q, _)| {
            let ord = if k.0 == 'V' {
                nv += 1;
                nv - 1
            } else {
                k.1
            };
            format!("{}{}={}", k.0, ord, q.join("::"))
        })
        .collect();
    // registry order against the descriptor's ordinals
    for (k, _, srcname) in &names {
        let expect: Option<String> = match table.get(*k) {
            Some(e) => Some(e.name.clone()),
            None if msl && k.0 == 'S' && k.1 >= table.count('S') => table.get(('C', k.1 - table.count('S'), 0)).map(|c| format!("{}Type", c.name)),
            None if msl && k.0 == 'G' && k.1 >= table.count('G') => table.get(('C', k.1 - table.count('G'), 0)).map(|c| c.name.clone()),
            None => None,
        };
        if expect.as_ref() != Some(srcname) {
            cx.hist.add("skip:registry order differs from descriptor order");
            out.case(&req, &obs.join(" "), &format!("SKIP:registry order differs at {}", show_key(*k)));
            return;
        }
    }
    let w0 = Walk::run(&b0.tree, if msl { Some("helper") } else { None });
    let w1 = Walk::run(&b1.tree, if msl { Some("helper") } else { None });
    // one field for the assignment (possibly empty), as the model prints it
    let mut obs: Vec<String> = vec![obs.join(" ")];
    obs.push("|refl".into());
    obs.extend(b1.refl.iter().map(|r| format!("{}:{}", r.0, r.1)));
    obs.push("|entry".into());
    obs.extend(b1.entries.iter().map(|e| e.1.clone()));
    obs.push("|out".into());
    obs.push(listing(&w1, &w0));
    let obs = obs.join(" ");
    let leaf: HashMap<Key, String> = names.iter().map(|(k, q, _)| (*k, q.last().cloned().unwrap_or_default())).collect();
    let inp = OracleIn {
        target,
        msl,
        has_pipeline: has_pl,
        table: &table,
        lists: Lists { spec: &cx.spec[ti], real: reserved },
        leaf: &leaf,
    };
    let fails = oracle(&b0, &b1, &w0, &w1, &inp);
    cx.hist.add(if fails.is_empty() { "res:ok" } else { "res:fail" });
    cx.hist.add(&format!("res:target:{}", target));
    for e in &table.ents {
        if e.key.0 == 'G' {
            cx.hist.add(&format!("res:global:{}", e.info.split(':').nth(1).unwrap_or("?")));
        }
    }
    if names.iter().any(|(k, q, s)| k.0 == 'G' && q.last() != Some(s)) {
        cx.hist.add("res:renamed-global");
    }
    if fails.is_empty() {
        out.case(&req, &obs, "ok");
    } else {
        for f in &fails {
            cx.hist.add(&format!("res:fail:{}", f.split(|c| c == ':' || c == ' ').next().unwrap_or("")));
            out.case(&req, &obs, &format!("FAIL:{}", f));
        }
    }
}

// ------------------------------------------------------------------------------------------ generator

/// names the exporters generate themselves: user entities of these names must not collide with them
pub const GENERATED_NAMES: &[&str] = &[
    "g_inlineDescriptor0", "InlineDescriptor0", "g_inlineDescriptor1", "InlineDescriptor1", "set0", "set1", "ArgumentBuffer0",
    "ArgumentBuffer1", "ComputeShaderEntry", "VertexShaderEntry", "PixelShaderEntry", "VertexOutput", "PixelOutput", "PixelInput",
    "out", "in", "helper", "thread_index_in_simdgroup", "threads_per_simdgroup", "zqcType", "zqdType",
];

/// deterministic sweep: the name in every resource-related declaration position (each with a compute pipeline that uses it)
pub fn sweep_programs(n: &str) -> Vec<String> {
    let tail = |uses: &str| format!("ef c zqe zqp {{ {} }} pl zqP F0 -", uses);
    let mut v = Vec::new();
    for kind in ["ba", "rwba", "tex", "samp", "ssamp", "bab", "sb"] {
        v.push(format!("rs {} - {} {}", kind, n, tail("use G0")));
    }
    v.push(format!("rs tex a2 {} {}", n, tail("use G0")));
    v.push(format!("rs tex a2b {} {}", n, tail("use G0")));
    v.push(format!("rs ba g1 {} rs ba - zqr {}", n, tail("use G0 use G1")));
    v.push(format!("st zqs zqm end rs cbs s0 {} {}", n, tail("use G0")));
    v.push(format!("st {} zqm end rs cbs s0 zqr {}", n, tail("use G0 use S0")));
    v.push(format!("st zqs {} end rs cbs s0 zqr {}", n, tail("use G0")));
    v.push(format!("cb {} - zqm end {}", n, tail("use D0.0")));
    v.push(format!("cb zqc - {} end {}", n, tail("use D0.0")));
    v.push(format!("ns zqn rs ba - {} cb zqc - zqm end end {}", n, tail("use G0 use D0.0")));
    v.push(format!("ns {} rs ba - zqr end {}", n, tail("use G0")));
    v.push(format!("gl g {} gl c zqk {}", n, tail("use G0 use G1")));
    v.push(format!("gl s {} fn zqf - {{ use G0 }} ef c zqe zqp {{ use F0 }} pl zqP F1 -", n));
    v.push(format!("rs ba - zqr ef c {} zqp {{ use G0 }} pl zqP F0 -", n));
    v.push(format!("rs ba - zqr ef c zqe {} {{ use G0 use L0 }} pl zqP F0 -", n));
    v.push(format!("rs tex - zqr ef c zqe zqp {{ use G0 }} pl {} F0 d1", n));
    v.push(format!("rs tex - zqr ef v zqv {0} zqo {{ use G0 }} ef p zqf zqi {{ use G0 }} pl zqP F0,F1 -", n));
    v.push(format!("rs tex - zqr ef v zqv zqi {0} {{ use G0 }} ef p {0} zqi {{ use G0 }} pl zqP F0,F1 -", n));
    v.push(format!("st zqs zqm | {} end rs cbs s0 zqr ef c zqe zqp {{ use G0 }} pl zqP F1 -", n));
    // the name next to the candidates generated from it
    v.push(format!("rs ba - {0} rs tex - {0}_0 cb {0}_1 - {0}_2 end {1}", n, tail("use G0 use G1 use D0.0")));
    v
}

/// deterministic sweep: the name next to the implicit parameters the Metal exporter adds to every function that uses
/// WaveGetLaneIndex / WaveGetLaneCount directly or through a callee (`uint thread_index_in_simdgroup`,
/// `uint threads_per_simdgroup`, passed on at every call and created by the entry wrapper)
pub fn wave_sweep_programs(n: &str) -> Vec<String> {
    let mut v = Vec::new();
    // entry parameter / helper parameter / helper local / local of a caller that only passes the values on
    v.push(format!("ef c zqe {} {{ use W0 use W1 use L0 }} pl zqP F0 -", n));
    v.push(format!("fn zqf i {} {{ use W0 use W1 use L0 }} ef c zqe zqp {{ use F0 }} pl zqP F1 -", n));
    v.push(format!("fn zqf - {{ lv {} use W1 use W0 use L0 }} ef c zqe zqp {{ use F0 }} pl zqP F1 -", n));
    v.push(format!("fn zqf - {{ use W0 use W1 }} ef c zqe zqp {{ lv {} use F0 use L1 }} pl zqP F1 -", n));
    v.push(format!("fn zqf - {{ use W1 }} fn zqg i {} {{ use F0 use L0 }} ef c zqe zqp {{ use F1 }} pl zqP F2 -", n));
    // a threaded global / a resource of that name next to the implicit parameters
    v.push(format!("gl s {} fn zqf - {{ use G0 use W0 use W1 }} ef c zqe zqp {{ use F0 }} pl zqP F1 -", n));
    v.push(format!("rs tex - {} fn zqf - {{ use W1 use G0 }} ef c zqe zqp {{ use F0 use W0 use G0 }} pl zqP F1 -", n));
    // function / entry point / namespace of that name
    v.push(format!("fn {} - {{ use W0 use W1 }} ef c zqe zqp {{ use F0 }} pl zqP F1 -", n));
    v.push(format!("ef c {} zqp {{ use W1 use W0 }} pl zqP F0 -", n));
    v.push(format!("ns {} fn zqf - {{ use W0 }} end ef c zqe zqp {{ use F0 use W1 }} pl zqP F1 -", n));
    // block-scoped local, no pipeline
    v.push(format!("fn zqf i zqp {{ use W1 {{ lv {} use W0 use W1 use L1 }} use W1 }}", n));
    v
}

/// identifiers the exporters write into the output by themselves, read from the source tree: every `pub const … : &str`
/// of both `names.rs` and every string literal handed to `ScopedIdentifier::trivial(…)` in the generators (a superset of
/// the names that are declared next to user entities; it only feeds the sweep, so a superset is harmless), plus the
/// numbered forms of the `format!` prefixes
pub fn introduced_from_source() -> Vec<String> {
    let root = super::repo_root();
    let mut out: Vec<String> = Vec::new();
    let mut push = |n: &str| {
        if is_ident(n) && !STRUCTURE.contains(&n) && !out.iter().any(|o| o == n) {
            out.push(n.to_string());
        }
    };
    for krate in ["hlsl", "msl"] {
        let text = std::fs::read_to_string(format!("{}/{}/src/names.rs", root, krate)).unwrap_or_default();
        for line in text.lines() {
            if let Some(rest) = line.trim().strip_prefix("pub const ") {
                if let Some((_, val)) = rest.split_once(": &str = ") {
                    push(val.trim().trim_end_matches(';').trim_matches('"'));
                }
            }
        }
    }
    for f in ["msl/src/generator.rs", "msl/src/generator/pipeline.rs", "hlsl/src/ast_generate.rs"] {
        let text = std::fs::read_to_string(format!("{}/{}", root, f)).unwrap_or_default();
        for key in ["ScopedIdentifier::trivial(", "Located::none(String::from(", "format!("] {
            let mut at = 0;
            while let Some(i) = text[at..].find(key) {
                let st = at + i + key.len();
                at = st;
                let rest = text[st..].trim_start();
                let rest = rest.strip_prefix('&').unwrap_or(rest);
                if let Some(r) = rest.strip_prefix('"') {
                    if let Some(e) = r.find('"') {
                        let lit = &r[..e];
                        if key == "format!(" {
                            // `set{}` / `InlineDescriptor{}` / `g_inlineDescriptor{set}`: the numbered forms
                            if let Some(b) = lit.find('{') {
                                if lit.ends_with('}') && is_ident(&lit[..b]) && lit[..b].len() >= 3 {
                                    for k in 0..2 {
                                        push(&format!("{}{}", &lit[..b], k));
                                    }
                                }
                            }
                        } else {
                            push(lit);
                        }
                    }
                }
            }
        }
    }
    out
}

struct RGen<'a> {
    rng: &'a mut Rng,
    pool: Vec<String>,
    /// wave stream: bodies also use WaveGetLaneIndex / WaveGetLaneCount
    waves: bool,
    /// names declared so far per source scope (key = namespace path)
    taken: HashMap<String, HashSet<String>>,
    path: Vec<String>,
    refs: Vec<String>,
    structs: Vec<usize>,
    counts: HashMap<char, usize>,
}

impl<'a> RGen<'a> {
    fn name(&mut self) -> String {
        let base = self.rng.pick(&self.pool).clone();
        match self.rng.below(12) {
            0 => format!("{}_0", base),
            1 => format!("{}_1", base),
            2 => format!("{}_0_0", base),
            3 => format!("{}Type", base),
            _ => base,
        }
    }
    fn next(&mut self, k: char) -> usize {
        let c = self.counts.entry(k).or_insert(0);
        *c += 1;
        *c - 1
    }
    /// a name no other entity of the current source scope has (homonyms in one scope are not renamings of identifiers)
    fn scope_name(&mut self) -> String {
        let key = self.path.join("::");
        for _ in 0..12 {
            let n = self.name();
            if self.taken.entry(key.clone()).or_default().insert(n.clone()) {
                return n;
            }
        }
        let mut k = 2;
        loop {
            let n = format!("{}_{}", self.rng.pick(&self.pool).clone(), k);
            if self.taken.entry(key.clone()).or_default().insert(n.clone()) {
                return n;
            }
            k += 1;
        }
    }
    fn stmts(&mut self, depth: usize, visible: &mut Vec<usize>) -> Vec<Stmt> {
        let n = self.rng.below(5) as usize;
        let mut out = Vec::new();
        for _ in 0..n {
            match self.rng.below(10) {
                0 | 1 => {
                    let l = self.next('L');
                    visible.push(l);
                    out.push(Stmt::Lv(self.name()));
                }
                2 if depth < 2 => {
                    let mark = visible.len();
                    let b = self.stmts(depth + 1, visible);
                    visible.truncate(mark);
                    out.push(Stmt::Block(b));
                }
                3 if !visible.is_empty() => out.push(Stmt::Use(format!("L{}", self.rng.pick(visible)))),
                4 | 5 if self.waves => out.push(Stmt::Use(format!("W{}", self.rng.below(2)))),
                _ if !self.refs.is_empty() => out.push(Stmt::Use(self.rng.pick(&self.refs).clone())),
                _ => {}
            }
        }
        out
    }
    fn opts(&mut self, kind: &str) -> String {
        let mut s = String::new();
        let arrayable = !matches!(kind, "ssamp" | "cbs");
        if arrayable && self.rng.chance(1, 4) {
            s.push_str(&format!("a{}", 1 + self.rng.below(3)));
            if !kind.contains("ba") && self.rng.chance(1, 3) {
                s.push('b');
            }
        }
        if self.rng.chance(1, 4) {
            s.push_str(&format!("g{}", self.rng.below(3)));
        }
        if matches!(kind, "cbs" | "sbs") {
            let st = *self.rng.pick(&self.structs);
            s.push_str(&format!("s{}", st));
        }
        if s.is_empty() { "-".into() } else { s }
    }
    fn items(&mut self, depth: usize, n: usize) -> Vec<RItem> {
        let mut out = Vec::new();
        for _ in 0..n {
            match self.rng.below(16) {
                0 | 1 if depth < 2 => {
                    // now and then reopen a namespace of this scope
                    let key = self.path.join("::");
                    let pre = if key.is_empty() { String::new() } else { format!("{}::", key) };
                    let existing: Vec<String> = self
                        .taken
                        .keys()
                        .filter_map(|k| k.strip_prefix(pre.as_str()).filter(|r| !r.is_empty() && !r.contains("::")).map(|r| r.to_string()))
                        .collect();
                    let name = if !existing.is_empty() && self.rng.chance(1, 4) {
                        let mut e = existing.clone();
                        e.sort();
                        self.rng.pick(&e).clone()
                    } else {
                        let n = self.scope_name();
                        self.next('N');
                        n
                    };
                    self.path.push(name.clone());
                    let key2 = self.path.join("::");
                    self.taken.entry(key2).or_default();
                    let k = 1 + self.rng.below(3) as usize;
                    let inner = self.items(depth + 1, k);
                    self.path.pop();
                    out.push(RItem::Ns(name, inner));
                }
                2 => {
                    let s = self.next('S');
                    let k = 1 + self.rng.below(2) as usize;
                    let ms: Vec<String> = (0..k).map(|_| self.name()).collect();
                    let nm = if self.rng.chance(1, 3) { 1 + self.rng.below(2) as usize } else { 0 };
                    let mut fs: Vec<String> = Vec::new();
                    for _ in 0..nm {
                        let f = self.name();
                        if !ms.contains(&f) && !fs.contains(&f) {
                            self.next('F');
                            fs.push(f);
                        }
                    }
                    self.structs.push(s);
                    self.refs.push(format!("S{}", s));
                    let sn = self.scope_name();
                    out.push(RItem::St(sn, ms, fs));
                }
                3 => {
                    let e = self.next('E');
                    let k = 1 + self.rng.below(2) as usize;
                    let vs: Vec<String> = (0..k).map(|_| self.scope_name()).collect();
                    for i in 0..k {
                        self.refs.push(format!("V{}.{}", e, i));
                    }
                    self.refs.push(format!("E{}", e));
                    let en = self.scope_name();
                    out.push(RItem::En(en, vs));
                }
                4 => {
                    let g = self.next('G');
                    self.refs.push(format!("G{}", g));
                    let gn = self.scope_name();
                    out.push(RItem::Gl(*self.rng.pick(&['s', 'c', 'g']), gn));
                }
                5 | 6 => {
                    let c = self.next('C');
                    let k = self.rng.below(3) as usize;
                    let ms: Vec<String> = (0..k).map(|_| self.scope_name()).collect();
                    for i in 0..k {
                        self.refs.push(format!("D{}.{}", c, i));
                    }
                    let o = if self.rng.chance(1, 4) { format!("g{}", self.rng.below(3)) } else { "-".into() };
                    let cn = self.scope_name();
                    out.push(RItem::Cb(cn, o, ms));
                }
                7..=11 => {
                    let mut kind = self.rng.pick(KINDS).0.to_string();
                    if matches!(kind.as_str(), "cbs" | "sbs") && self.structs.is_empty() {
                        kind = "ba".into();
                    }
                    // buffer addresses are the resources with generated declarations on Vulkan: weight them up
                    if self.rng.chance(1, 4) {
                        kind = (*self.rng.pick(&["ba", "rwba"])).to_string();
                    }
                    let g = self.next('G');
                    self.refs.push(format!("G{}", g));
                    let o = self.opts(&kind);
                    let rn = self.scope_name();
                    out.push(RItem::Rs(kind, o, rn));
                }
                _ => {
                    let f = self.next('F');
                    let np = self.rng.below(3) as usize;
                    let pt: String = if np == 0 { "-".into() } else { (0..np).map(|_| *self.rng.pick(&['i', 'f', 'u'])).collect() };
                    let mut visible = Vec::new();
                    let ps: Vec<String> = (0..np)
                        .map(|_| {
                            let l = self.next('L');
                            visible.push(l);
                            self.name()
                        })
                        .collect();
                    let name = self.scope_name();
                    let body = self.stmts(0, &mut visible);
                    self.refs.push(format!("F{}", f));
                    out.push(RItem::Fn(name, pt, ps, body));
                }
            }
        }
        out
    }
    fn entry(&mut self, st: char) -> (RItem, usize) {
        let f = self.next('F');
        let np = if st == 'v' { 2 } else { 1 };
        let mut visible = Vec::new();
        let ps: Vec<String> = (0..np)
            .map(|_| {
                let l = self.next('L');
                visible.push(l);
                self.name()
            })
            .collect();
        let name = self.scope_name();
        let mut body = self.stmts(0, &mut visible);
        // an entry point that uses nothing tells little: use a few more things
        for _ in 0..3 {
            if !self.refs.is_empty() {
                body.push(Stmt::Use(self.rng.pick(&self.refs).clone()));
            }
        }
        (RItem::Ef(st, name, ps, body), f)
    }
}

pub fn random_program(rng: &mut Rng, ordinary: &[String], special: &[String]) -> Vec<RItem> {
    random_program_with(rng, ordinary, special, None)
}

/// `waves = Some(introduced names)`: the wave stream — bodies use the wave intrinsics, the name pool takes names the
/// exporters introduce themselves (implicit parameters first)
pub fn random_program_with(rng: &mut Rng, ordinary: &[String], special: &[String], waves: Option<&[String]>) -> Vec<RItem> {
    let mut pool = Vec::new();
    for _ in 0..1 + rng.below(3) {
        pool.push(rng.pick(ordinary).clone());
    }
    for _ in 0..rng.below(3) {
        pool.push(rng.pick(special).clone());
    }
    if rng.chance(1, 3) {
        pool.push((*rng.pick(GENERATED_NAMES)).to_string());
    }
    if let Some(intro) = waves {
        if rng.chance(2, 3) {
            pool.push(if rng.chance(1, 2) { "threads_per_simdgroup" } else { "thread_index_in_simdgroup" }.to_string());
        }
        if !intro.is_empty() && rng.chance(1, 2) {
            pool.push(rng.pick(intro).clone());
        }
    }
    let mut g = RGen {
        rng,
        pool,
        waves: waves.is_some(),
        taken: HashMap::new(),
        path: vec![],
        refs: vec![],
        structs: vec![],
        counts: HashMap::new(),
    };
    let n = 2 + g.rng.below(6) as usize;
    let mut items = g.items(0, n);
    match g.rng.below(10) {
        0 => {}
        1..=6 => {
            let (e, f) = g.entry('c');
            let wrap = g.rng.chance(1, 5);
            let pname = g.name();
            let d = if g.rng.chance(1, 4) { Some(g.rng.below(3) as u32) } else { None };
            if wrap {
                g.next('N');
                let wn = g.scope_name();
                items.push(RItem::Ns(wn, vec![e]));
            } else {
                items.push(e);
            }
            items.push(RItem::Pl(pname, vec![f], d));
        }
        _ => {
            let (v, fv) = g.entry('v');
            let (p, fp) = g.entry('p');
            items.push(v);
            items.push(p);
            let pname = g.name();
            let fs = if g.rng.chance(1, 3) { vec![fp, fv] } else { vec![fv, fp] };
            items.push(RItem::Pl(pname, fs, None));
        }
    }
    items
}

/// drop uses of locals that are not visible at the use or are shadowed there by a later local of the same source name
pub fn sanitize(items: &[RItem]) -> Vec<RItem> {
    fn fix(ss: &[Stmt], vis: &mut Vec<(usize, String)>, nl: &mut usize) -> Vec<Stmt> {
        let mut out = Vec::new();
        for s in ss {
            match s {
                Stmt::Lv(n) | Stmt::Lvi(n, _) => {
                    vis.push((*nl, n.clone()));
                    *nl += 1;
                    out.push(Stmt::Lv(n.clone()));
                }
                Stmt::Block(b) => {
                    let mark = vis.len();
                    let b2 = fix(b, vis, nl);
                    vis.truncate(mark);
                    out.push(Stmt::Block(b2));
                }
                Stmt::Use(r) => {
                    let ok = match parse_ref(r) {
                        Some(k) if k.0 == 'L' => match vis.iter().rev().find(|(o, _)| *o == k.1) {
                            Some((_, n)) => vis.iter().rev().find(|(_, m)| m == n).map(|(o, _)| *o) == Some(k.1),
                            None => false,
                        },
                        Some(_) => true,
                        None => false,
                    };
                    if ok {
                        out.push(s.clone());
                    }
                }
            }
        }
        out
    }
    fn go(items: &[RItem], nl: &mut usize) -> Vec<RItem> {
        items
            .iter()
            .map(|it| match it {
                RItem::Ns(n, inner) => RItem::Ns(n.clone(), go(inner, nl)),
                RItem::Fn(n, pt, ps, body) => {
                    let mut vis = Vec::new();
                    for p in ps {
                        vis.push((*nl, p.clone()));
                        *nl += 1;
                    }
                    RItem::Fn(n.clone(), pt.clone(), ps.clone(), fix(body, &mut vis, nl))
                }
                RItem::Ef(st, n, ps, body) => {
                    let mut vis = Vec::new();
                    for p in ps {
                        vis.push((*nl, p.clone()));
                        *nl += 1;
                    }
                    RItem::Ef(*st, n.clone(), ps.clone(), fix(body, &mut vis, nl))
                }
                other => other.clone(),
            })
            .collect()
    }
    go(items, &mut 0)
}

pub fn generate(args: &Args, special: &[String], cx: &mut RCtx, out: &mut Out) -> (u64, u64) {
    let targets = ["dx", "vk", "vkba", "msl"];
    let mut swept = 0u64;
    let stride = if args.thorough() { 1 } else { 6 };
    let off = (args.seed % stride) as usize;
    // the sweep list is the union of the reserved / built-in names, the fixed list of generated names and the identifiers
    // re-extracted from the exporters' sources: a name that is dropped from RESERVED_NAMES stays in the sweep
    let introduced = introduced_from_source();
    let mut names: Vec<String> = special.to_vec();
    let mut own: Vec<String> = Vec::new();
    for g in GENERATED_NAMES.iter().map(|g| g.to_string()).chain(introduced.iter().cloned()) {
        if !own.contains(&g) && !rssl_knows(&g) {
            own.push(g.clone());
        }
        if !names.iter().any(|n| *n == g) && GENERATED_NAMES.contains(&g.as_str()) {
            names.push(g);
        }
    }
    for (i, n) in names.iter().enumerate() {
        let generated = GENERATED_NAMES.contains(&n.as_str());
        for (j, p) in sweep_programs(n).iter().enumerate() {
            // quick: a buffer address of every name on every target; the other positions on a seed-dependent part
            if !(j == 0 || generated || (i + j) % stride as usize == off) {
                continue;
            }
            for t in targets {
                run_case(t, p, cx, out);
                swept += 1;
            }
        }
    }
    // implicit wave parameters: every name the exporters introduce in every position on all targets; the reserved /
    // built-in names in a seed-dependent part of the positions (thorough: all) on Metal, one position on HLSL
    for n in &own {
        for p in wave_sweep_programs(n) {
            for t in targets {
                run_case(t, &p, cx, out);
                swept += 1;
            }
        }
    }
    for (i, n) in special.iter().enumerate() {
        if own.contains(n) {
            continue;
        }
        for (j, p) in wave_sweep_programs(n).iter().enumerate() {
            if !(j == 1 || (i + j) % stride as usize == off) {
                continue;
            }
            run_case("msl", p, cx, out);
            swept += 1;
            if j == 1 {
                run_case("dx", p, cx, out);
                swept += 1;
            }
        }
    }
    let mut rng = Rng::new(args.seed ^ 0x5eed_c15b);
    let ordinary: Vec<String> = ["a", "b", "c", "x", "y", "foo", "N", "S", "v"].iter().map(|s| s.to_string()).collect();
    let n = args.n.unwrap_or(if args.thorough() { 6000 } else { 500 });
    for _ in 0..n {
        let items = sanitize(&random_program(&mut rng, &ordinary, special));
        let prog = show_program(&items);
        for t in targets {
            run_case(t, &prog, cx, out);
        }
    }
    // wave stream (own generator: the stream above keeps its programs per seed)
    let mut wrng = Rng::new(args.seed ^ 0x3a7e_c15d);
    let nw = args.n.unwrap_or(if args.thorough() { 2000 } else { 200 });
    for _ in 0..nw {
        let items = sanitize(&random_program_with(&mut wrng, &ordinary, special, Some(&own)));
        let prog = show_program(&items);
        for t in targets {
            run_case(t, &prog, cx, out);
        }
    }
    let n = n + nw;
    (swept, n)
}

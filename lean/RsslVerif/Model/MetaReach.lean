/-!
# Model of `GlobalUsageAnalysis::recurse` (ir/src/usage_analysis.rs) as used for `is_used` on Metal

`calculate_local` gives every function the set of symbols its body mentions (`direct`); globals and
constant buffers get the empty set.  `recurse` then repeats passes over all keys (in `HashMap` key order,
here an arbitrary list `keys`), replacing a key's set by its union with the sets of its members whenever
that is strictly larger, until a whole pass changes nothing.  Sets are lists read through membership only.
The loop is modelled with fuel; `none` = fuel exhausted (the theorems are about the `some` case).
-/
namespace RsslVerif.Model.MetaReach

inductive Sym where
  | fn (id : Nat)
  | glob (id : Nat)
  deriving DecidableEq, Repr, Inhabited

/-- the stored set of a symbol: only functions have a non-empty one -/
def reqOf (req : Nat → List Sym) : Sym → List Sym
  | .fn h => req h
  | .glob _ => []

/-- `new_set = current ∪ ⋃ { required(other) | other ∈ current }` -/
def newSet (req : Nat → List Sym) (f : Nat) : List Sym :=
  req f ++ (req f).flatMap (reqOf req)

/-- `new_set.len() > current_set.required.len()` (sets: the union has a new element) -/
def grows (req : Nat → List Sym) (f : Nat) : Bool :=
  !(newSet req f).all (fun s => (req f).contains s)

def update (req : Nat → List Sym) (f : Nat) (v : List Sym) : Nat → List Sym :=
  fun x => if x = f then v else req x

/-- one `for key in &keys` pass; the flag is `modified` -/
def pass : List Nat → (Nat → List Sym) → Bool → (Nat → List Sym) × Bool
  | [], req, m => (req, m)
  | f :: ks, req, m =>
    if grows req f then pass ks (update req f (newSet req f)) true else pass ks req m

/-- the outer `loop { .. if !modified { break } }` -/
def recurse : Nat → List Nat → (Nat → List Sym) → Option (Nat → List Sym)
  | 0, _, _ => none
  | fuel + 1, keys, req =>
    match pass keys req false with
    | (req', true) => recurse fuel keys req'
    | (req', false) => some req'

/-- `all_used_globals.contains(Global(g))` where `all_used_globals` concatenates the required globals of
    the stage entry points -/
def usedBy (req : Nat → List Sym) (entries : List Nat) (g : Nat) : Bool :=
  entries.any fun e => (req e).contains (.glob g)

end RsslVerif.Model.MetaReach

import RsslVerif.Lemmas.ElabRelease
/-! Lemmas for C03 (fix batch 2): what `check_mutable_place` / `check_output_arguments` establish about the written
expression, and the inversion of `elabCall`. Core Lean only. -/
namespace RsslVerif.Lemmas.ElabPlace
open RsslVerif.Gen.RankTable RsslVerif.Gen.TypingTables RsslVerif.Model.Conv RsslVerif.Model.Overload
open RsslVerif.Model.IrTyping RsslVerif.Model.Elab RsslVerif.Lemmas.ElabConv RsslVerif.Lemmas.Elab
open RsslVerif.Lemmas.ElabForms RsslVerif.Lemmas.ElabExact RsslVerif.Lemmas.ElabRelease

variable {Γ : Env}

/-- the parameters `check_output_arguments` looks at are the ones whose arguments must be lvalues for `find` -/
theorem isOutputParam_eq (io : InputModifier) : isOutputParam io = io.needsLvalue := by
  cases io <;> rfl

/-- an expression accepted by `check_mutable_place` is, under the IR's typing rules, a non-const lvalue -/
theorem checkMutablePlace_ok {e : IExpr} {τ : ETy} (he : HasType Γ e τ) (h : checkMutablePlace Γ e = .ok ()) :
    τ.vt = .lvalue ∧ τ.ty.mod.isConst = false := by
  unfold checkMutablePlace at h
  rw [typeOf_of_hasType e τ he] at h
  simp only at h
  split at h
  · simp at h
  · rename_i hv
    split at h
    · simp at h
    · rename_i hc
      exact ⟨by simpa using hv, by simpa using hc⟩

/-- ... and conversely it accepts every non-const lvalue of the old fragment -/
theorem checkMutablePlace_of {e : IExpr} {τ : ETy} (he : HasType Γ e τ) (hv : τ.vt = .lvalue)
    (hc : τ.ty.mod.isConst = false) : checkMutablePlace Γ e = .ok () := by
  unfold checkMutablePlace
  rw [typeOf_of_hasType e τ he]
  simp [hv, hc]

/-- an lvalue of the IR is not the result of a conversion: `ImplicitConversion::apply` produces the operand itself, a
    re-tagged literal or a `Cast`, and the last two are rvalues -/
theorem lvalue_not_converted {e : IExpr} {τ : ETy} (he : HasType Γ e τ) (hv : τ.vt = .lvalue) :
    (∀ t x, e ≠ .cast t x) ∧ (∀ k, e ≠ .lit k) := by
  constructor
  · intro t x heq; subst heq; cases he; simp [Ty.r] at hv
  · intro k heq; subst heq; cases he; simp [Ty.r] at hv

/-- **what `out` / `inout` arguments are**: under the IR's typing judgment, lvalues of non-const type -/
def OutArgsPlaces (Γ : Env) : List Param → IArgs → Prop
  | p :: ps, .cons e r =>
    (isOutputParam p.io = true → ∃ τ, HasType Γ e τ ∧ τ.vt = .lvalue ∧ τ.ty.mod.isConst = false) ∧ OutArgsPlaces Γ ps r
  | _, _ => True

theorem checkOutArgs_places : ∀ (ps : List Param) (as : IArgs) (us : List ETy),
    HasArgs Γ as us → checkOutArgs Γ ps as = .ok () → OutArgsPlaces Γ ps as
  | [], _, _, _, _ => by simp [OutArgsPlaces]
  | _ :: _, .nil, _, _, _ => by simp [OutArgsPlaces]
  | p :: ps, .cons e r, _, hu, h => by
    cases hu with
    | cons he hr =>
      simp only [checkOutArgs] at h
      simp only [OutArgsPlaces]
      by_cases hio : isOutputParam p.io = true
      · simp only [hio, if_true] at h
        split at h
        · simp at h
        · rename_i hp
          obtain ⟨h1, h2⟩ := checkMutablePlace_ok he hp
          exact ⟨fun _ => ⟨_, he, h1, h2⟩, checkOutArgs_places ps r _ hr h⟩
      · simp only [hio] at h
        exact ⟨fun hh => absurd hh hio, checkOutArgs_places ps r _ hr (by simpa using h)⟩

/-- inversion of `write_function`: overload resolution selected `id`, the casts were applied, the output arguments were
    checked after the casts -/
theorem elabCall_inv {name : Nat} {args : IArgs} {ts : List ETy} {n : IExpr} {τ : ETy}
    (h : elabCall Γ name args ts = .ok (n, τ)) :
    ∃ id s as', resolve (candidates Γ name) ts = .selected id ∧ Γ.funcs[id]? = some s ∧
      castArgs s.params args ts = .ok as' ∧ checkOutArgs Γ s.params as' = .ok () ∧ n = .call id as' ∧ τ = s.ret.r := by
  unfold elabCall at h
  split at h
  · simp at h
  · simp at h
  · simp at h
  · rename_i id hsel
    split at h
    · simp at h
    · rename_i s hs
      split at h
      · simp at h
      · rename_i as' hca
        split at h
        · simp at h
        · rename_i hco
          simp only [Except.ok.injEq, Prod.mk.injEq] at h
          obtain ⟨rfl, rfl⟩ := h
          exact ⟨id, s, as', hsel, hs, hca, hco, rfl, rfl⟩

end RsslVerif.Lemmas.ElabPlace

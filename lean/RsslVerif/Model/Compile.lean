import RsslVerif.Gen.CompileTables
/-!
# Model of the pipeline selection loop of `compile()` (src/compile.rs)

`build` abstracts `build_pipeline`: it receives the selected pipeline definition (or `none` in
no-pipeline mode).  Its *type* states the modelling assumption behind C17: the result for a pipeline
is a function of the module without its pipeline list and of that one pipeline definition.  The
assumption is tied to the source by `Gen.CompileTables.pipelineUses` (every textual use of
`.pipelines`, re-extracted on each run and proved to be of an allowed class in `Thm/C17.lean`) and by
the metamorphic correspondence run on the real `compile`.
-/
namespace RsslVerif.Model.Compile
open RsslVerif.Gen.CompileTables

structure Pipeline (ρ : Type) where
  name : String
  payload : ρ

inductive Mode where
  | all
  | named (n : String)
  | noPipeline
  deriving DecidableEq, Repr

inductive Outcome (β ε : Type) where
  | ok (outs : List β)
  | buildErr (e : ε)
  /-- "Shader does not contain the pipeline: n" -/
  | errUnknown (n : String)
  /-- "Shader does not contain a single pipeline" -/
  | errNone
  /-- `panic!("Multiple pipelines with the given name")` -/
  | panicMultiple
  deriving Repr

/-- the `for pipeline in &ir.pipelines { .. output_pipelines.push(build_pipeline(..)?) }` loop with the
    `continue` filter; the first build error aborts the loop -/
def buildLoop {ρ β ε : Type} (build : Option (Pipeline ρ) → Except ε β) (keep : Pipeline ρ → Bool) :
    List (Pipeline ρ) → Except ε (List β)
  | [] => .ok []
  | p :: ps =>
    if keep p then
      match build (some p) with
      | .error e => .error e
      | .ok b =>
        match buildLoop build keep ps with
        | .error e => .error e
        | .ok bs => .ok (b :: bs)
    else buildLoop build keep ps

def compileLoop {ρ β ε : Type} (build : Option (Pipeline ρ) → Except ε β)
    (ps : List (Pipeline ρ)) : Mode → Outcome β ε
  | .noPipeline =>
    match build none with
    | .error e => .buildErr e
    | .ok b => .ok [b]
  | .all =>
    match buildLoop build (fun _ => true) ps with
    | .error e => .buildErr e
    | .ok [] => .errNone
    | .ok bs => .ok bs
  | .named n =>
    match buildLoop build (fun p => p.name == n) ps with
    | .error e => .buildErr e
    | .ok [] => .errUnknown n
    | .ok [b] => .ok [b]
    | .ok _ => .panicMultiple

/-- what `build_pipeline` reports as stages: (stage, entry point name) -/
def reportedStages (msl : Bool) (stages : List (Stage × String)) : List (Stage × String) :=
  stages.map fun (s, f) => (s, if msl then mslEntryName s else f)

end RsslVerif.Model.Compile

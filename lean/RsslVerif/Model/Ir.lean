import RsslVerif.Gen.HlslGenTables
import RsslVerif.Gen.HlslIntrinsicTables
/-!
# `Model.Ir` — the executable, resource-free scalar subset of `rssl_ir`

Mirrors `ir/src/ir_expressions.rs` (`Expression`), `ir/src/ir_statements.rs` (`StatementKind`, `ForInit`, `VarDef`)
and `ir/src/ir_types.rs` (`Constant`) for the constructors listed below.  `Vec<Expression>` is the mutual
inductive `Exprs` (a plain list written out so that structural recursion and induction go through).
Not modelled (answered `unsupported` by the driver): vectors/matrices/structs/arrays, swizzles, member access,
constructors, `SizeOf`, intrinsic functions, method calls, `discard`, 64-bit and 16-bit constants,
strings, enums.
-/
namespace RsslVerif.Model.Ir
open RsslVerif.Gen.HlslGenTables RsslVerif.Gen.HlslIntrinsicTables

/-- scalar types of the subset (`ir::ScalarType` + void); `lit`/`flit` = IntLiteral / FloatLiteral -/
inductive Ty where
  | bool | int | uint | float | lit | flit | void
  deriving DecidableEq, Repr, Inhabited

/-- `Expression::Variable(VariableId)` (locals and parameters) and `Expression::Global(GlobalId)` -/
inductive Var where
  | loc (n : Nat)
  | glob (n : Nat)
  deriving DecidableEq, Repr, Inhabited

/-- `ir::Constant` (scalar subset); floats are bit patterns -/
inductive Const where
  | bool (b : Bool)
  | intLit (v : Int)            -- IntLiteral(i128)
  | int32 (v : BitVec 32)       -- Int32(i32), two's complement
  | uint32 (v : BitVec 32)
  | float32 (bits : BitVec 32)
  | floatLit (bits : BitVec 64) -- FloatLiteral(f64)
  deriving DecidableEq, Repr, Inhabited

def Const.ty : Const → Ty
  | .bool _ => .bool | .intLit _ => .lit | .int32 _ => .int | .uint32 _ => .uint
  | .float32 _ => .float | .floatLit _ => .flit

def Const.kind : Const → ConstKind
  | .bool _ => .Bool | .intLit _ => .IntLiteral | .int32 _ => .Int32 | .uint32 _ => .UInt32
  | .float32 _ => .Float32 | .floatLit _ => .FloatLiteral

mutual
inductive Expr where
  | lit (c : Const)
  | var (id : Nat)
  | global (id : Nat)
  | op (o : IntrinsicOp) (args : Exprs)
  | tern (c t f : Expr)
  | seq (es : Exprs)
  | cast (ty : Ty) (e : Expr)
  | call (f : Nat) (args : Exprs)      -- Call(id, FreeFunction, args) to a user function
  | intr (i : Intrinsic) (ty ret : Ty) (args : Exprs)
      -- Call(id, FreeFunction, args) where `id` is an intrinsic whose resolved signature is (ty, …, ty) → ret
  deriving Repr, Inhabited
inductive Exprs where
  | nil
  | cons (e : Expr) (r : Exprs)
  deriving Repr, Inhabited
end

def Exprs.toList : Exprs → List Expr
  | .nil => []
  | .cons e r => e :: r.toList

def Exprs.ofList : List Expr → Exprs
  | [] => .nil
  | e :: r => .cons e (Exprs.ofList r)

/-- `ForInit` -/
inductive ForInit where
  | empty
  | expr (e : Expr)
  | defs (ds : List (Nat × Option Expr))
  deriving Repr, Inhabited

mutual
inductive Stmt where
  | expr (e : Expr)
  | var (id : Nat) (init : Option Expr)    -- Var(VarDef{id, init: Option<Initializer::Expression>})
  | block (b : Stmts)
  | ifThen (c : Expr) (b : Stmts)
  | ifElse (c : Expr) (t f : Stmts)
  | for (init : ForInit) (cond inc : Option Expr) (b : Stmts)
  | while (c : Expr) (b : Stmts)
  | doWhile (b : Stmts) (c : Expr)
  | break
  | continue
  | ret (e : Option Expr)
  | switch (ty : Ty) (c : Expr) (b : Stmts)   -- Switch(cond, block); `ty` = cond.get_type() (resolved, as every typed node)
  | caseLabel (c : Const)                     -- CaseLabel(Constant): a statement of its own in the IR
  | defaultLabel
  deriving Repr, Inhabited
inductive Stmts where
  | nil
  | cons (s : Stmt) (r : Stmts)
  deriving Repr, Inhabited
end

/-- parameter direction (`InputModifier`) -/
inductive Dir where
  | in_ | out | inout
  deriving DecidableEq, Repr, Inhabited

/-- a user function: `FunctionSignature` + `FunctionImplementation` -/
structure Func where
  id : Nat
  ret : Ty
  params : List (Nat × Dir × Ty)      -- (variable id, direction, type)
  body : Stmts
  deriving Repr, Inhabited

end RsslVerif.Model.Ir

//! Programs around constructs whose Metal form REPEATS (or could repeat) the text of an operand: the exporter writes
//! `(S)value` as `S { v, v, … }` — the operand once per scalar element — and protects that with a side-effect test on the
//! operand; everywhere else an operand is emitted exactly once.  The only way the two evaluators can see a duplicated
//! operand is an operand with an OBSERVABLE EFFECT, so every program of this family puts `i++` (on an inout parameter or
//! a local), a call that bumps a static, or an assignment into one operand position:
//!
//! * `struct_cast`: casts to struct types (1 … 7 scalar elements: scalars, arrays, nested structs, arrays of structs,
//!   vector members; also mixed element kinds) from literals (`(S)0`), variables, statics, member variables (inside a
//!   method), struct members, array elements, swizzles, arithmetic, and from every one of those with an effect inside —
//!   in the operand itself or in a subscript index below it.  The current exporter accepts an operand with an effect only
//!   when the struct has ONE element and rejects every non-leaf operand otherwise (`UnsupportedCast`: outside the
//!   property); an exporter that accepts more is judged on what it emits.  One cast per module: a rejected cast rejects
//!   the module.
//! * `effect_operand`: the other operand positions (scalar → vector casts, constructors, swizzles of scalars, compound
//!   assignment and `++` on subscripted places, swizzled stores, `?:`, built-ins incl. `select` / `mul`, inout arguments,
//!   methods of subscripted objects, matrix from a scalar) with an effect in the operand that a rewriting would repeat.
//! * `rem_assign`: `%=` on floating-point targets, which the exporter rewrites to `a = metal::fmod(a, b)` (the target twice)
//!   for plain places and refuses otherwise (fix 92d66eb).
#![allow(dead_code)]
use crate::util::Rng;

const KINDS: [&str; 3] = ["int", "uint", "float"];

fn klit(rng: &mut Rng, k: &str) -> String {
    match k {
        "int" => rng.pick(&["0", "1", "2", "7", "-3", "100"]).to_string(),
        "uint" => rng.pick(&["0u", "1u", "2u", "7u", "33u"]).to_string(),
        _ => rng.pick(&["0.0f", "1.0f", "2.5f", "-1.5f", "0.25f"]).to_string(),
    }
}

/// shared head: an element struct, a static of the kind, a counter and the two functions with an effect on a static
fn preamble(k: &str, rng: &mut Rng) -> String {
    let mut out = String::new();
    out.push_str(&format!("struct I2\n{{\n    {} p;\n    {} q;\n}};\n", k, k));
    out.push_str("enum EK\n{\n    EA,\n    EB = 5,\n};\n");
    out.push_str(&format!("static {} gk = {};\nstatic int gcount = 0;\n", k, klit(rng, k)));
    out.push_str("int next(int n)\n{\n    gcount++;\n    return gcount % n;\n}\n");
    out.push_str(&format!("{} bump({} d)\n{{\n    gk = gk + d;\n    return gk;\n}}\n", k, k));
    out
}

/// (struct definitions, number of scalar elements as the exporter counts them, tag)
fn struct_shape(k: &str, rng: &mut Rng) -> (String, usize, &'static str) {
    match rng.below(10) {
        0 => (format!("struct S\n{{\n    {} a;\n}};\n", k), 1, "one"),
        1 => ("struct S\n{\n    I1 n;\n};\n".to_string(), 1, "one-nested"),
        2 => (format!("struct S\n{{\n    {} a;\n    {} b;\n}};\n", k, k), 2, "two"),
        3 => (format!("struct S\n{{\n    {} a;\n    {} b;\n    {} c[2];\n}};\n", k, k, k), 4, "scalars+array"),
        4 => (format!("struct S\n{{\n    I2 a;\n    I2 b[2];\n    {} c;\n}};\n", k), 7, "nested+array-of-structs"),
        5 => (format!("struct S\n{{\n    {} a;\n    {}3 v;\n}};\n", k, k), 2, "vector-member"),
        6 => (format!("struct S\n{{\n    {} a[3];\n}};\n", k), 3, "array-only"),
        7 => (format!("struct S\n{{\n    {} a;\n    I1 n;\n}};\n", k), 2, "scalar+nested-one"),
        8 => (format!("struct S\n{{\n    {}2 u[2];\n    I2 w;\n}};\n", k), 4, "vector-array+nested"),
        // element kinds differ: each element is initialised from the one operand (a narrowing conversion inside braces)
        _ => ("struct S\n{\n    float a;\n    int b;\n    uint c[2];\n};\n".to_string(), 4, "mixed-kinds"),
    }
}

/// an operand of kind `k`; class: 0 = leaf the exporter repeats, 1 = no effect but not a leaf, 2 = with an effect
pub const OPERANDS: [u64; 3] = [7, 9, 22];

fn operand(k: &str, class: u32, rng: &mut Rng) -> (String, &'static str) {
    let n = OPERANDS[class.min(2) as usize];
    let which = rng.below(n);
    operand_at(k, class, which, rng)
}

fn operand_at(k: &str, class: u32, which: u64, rng: &mut Rng) -> (String, &'static str) {
    match class {
        0 => match which {
            0 => ("x".into(), "leaf:parameter"),
            1 => ("gk".into(), "leaf:static"),
            2 => ("lc".into(), "leaf:local"),
            3 => ("0".into(), "leaf:zero"),
            4 => (klit(rng, k), "leaf:literal"),
            5 => ("EB".into(), "leaf:enum-value"),
            _ => ("ck".into(), "leaf:constant"),
        },
        1 => match which {
            0 => ("arr[i & 3]".into(), "pure:element"),
            1 => ("arr[2]".into(), "pure:element-const"),
            2 => ("p.q".into(), "pure:member"),
            3 => ("v.y".into(), "pure:swizzle"),
            4 => ("(x + y)".into(), "pure:arithmetic"),
            5 => ("parr[i & 1].p".into(), "pure:member-of-element"),
            6 => ("-x".into(), "pure:unary"),
            7 => (format!("({})i", k), "pure:cast"),
            _ => ("varr[1].zy.x".into(), "pure:swizzle-chain"),
        },
        _ => match which {
            16 => (format!("({})(i++)", k), "effect:cast-of-increment"),
            17 => ("-(x++)".into(), "effect:unary-of-increment"),
            18 => (format!("{}3(x++, y, y).x", k), "effect:swizzle-of-constructor-increment"),
            19 => ("(b ? arr[next(4)] : y)".into(), "effect:ternary-index-call"),
            20 => (format!("({})(({}2)bump(y)).y", k, k), "effect:cast-swizzle-cast-call"),
            21 => ("(x++).x".into(), "effect:scalar-swizzle-increment"),
            0 => ("arr[(i++) & 3]".into(), "effect:index-increment"),
            1 => ("arr[next(4)]".into(), "effect:index-call"),
            2 => ("arr[i++]".into(), "effect:index-increment-unmasked"),
            3 => ("parr[next(2)].q".into(), "effect:member-of-element-index-call"),
            4 => ("varr[(i++) & 1].y".into(), "effect:swizzle-of-element-index-increment"),
            5 => ("x++".into(), "effect:increment"),
            6 => ("bump(y)".into(), "effect:call"),
            7 => ("(x = x + y)".into(), "effect:assignment"),
            8 => ("(x += y)".into(), "effect:compound-assignment"),
            9 => ("(b ? x++ : y)".into(), "effect:ternary-increment"),
            10 => ("(i++, x)".into(), "effect:sequence"),
            11 => ("arr[(i = j) & 3]".into(), "effect:index-assignment"),
            12 => ("arr[(i += 1) & 3]".into(), "effect:index-compound"),
            13 => ("parr[(++i) & 1].p".into(), "effect:member-of-element-index-preincrement"),
            14 => ("(bump(x) + y)".into(), "effect:arithmetic-of-call"),
            _ => ("varr[next(2)].zx.y".into(), "effect:swizzle-chain-index-call"),
        },
    }
}

/// `(S)operand` in one of the statement positions; returns the source and a tag `d:cast:<shape>:<operand>`
pub fn struct_cast(rng: &mut Rng) -> (String, String) {
    struct_cast_fixed(rng, None)
}

/// `fixed` = (kind, four-element struct instead of a one-element one, operand class, operand number)
pub fn struct_cast_fixed(rng: &mut Rng, fixed: Option<(&'static str, bool, u32, u64)>) -> (String, String) {
    let k = match fixed {
        Some((k, ..)) => k,
        None => *rng.pick(&KINDS),
    };
    let (sdef, count, stag) = struct_shape(k, rng);
    // what the current exporter does: leaf → repeated; one element → anything goes; otherwise → UnsupportedCast
    let class = match rng.below(20) {
        0..=7 => 0,
        8..=11 => 1,
        _ => 2,
    };
    // operands with an effect mostly on the shapes where the exporter accepts them today (one element)
    let (sdef, count, stag) = if class == 2 && count > 1 && rng.chance(1, 2) {
        if rng.chance(1, 2) { (format!("struct S\n{{\n    {} a;\n}};\n", k), 1, "one") } else { ("struct S\n{\n    I1 n;\n};\n".to_string(), 1, "one-nested") }
    } else {
        (sdef, count, stag)
    };
    let (e, etag) = operand(k, class, rng);
    let (sdef, count, stag, class, e, etag) = match fixed {
        Some((_, four, c, w)) => {
            let (e, etag) = operand_at(k, c, w, rng);
            if four {
                (format!("struct S\n{{\n    {} a;\n    {} b;\n    {} c[2];\n}};\n", k, k, k), 4, "scalars+array", c, e, etag)
            } else {
                (format!("struct S\n{{\n    {} a;\n}};\n", k), 1, "one", c, e, etag)
            }
        }
        None => (sdef, count, stag, class, e, etag),
    };
    let mut out = preamble(k, rng);
    out.push_str(&format!("struct I1\n{{\n    {} m;\n}};\n", k));
    out.push_str(&sdef);
    out.push_str(&format!("static const {} ck = {};\n", k, klit(rng, k)));
    let method = class == 0 && rng.chance(1, 6);
    let form = rng.below(5);
    if method {
        // MemberVariable operand: inside a method of another struct
        out.push_str(&format!("struct H\n{{\n    {} m;\n    {} w[2];\n    S mk()\n    {{\n        return (S)m;\n    }}\n}};\n", k, k));
        out.push_str(&format!("S fc({} x, inout int i)\n{{\n    H h;\n    h.m = x;\n    h.w[0] = x;\n    h.w[1] = x;\n    i++;\n    return h.mk();\n}}\n", k));
        return (out, format!("d:cast:{}:leaf:member-variable", stag));
    }
    if form == 4 {
        out.push_str(&format!("{} take(S s, {} t)\n{{\n    gk = gk + t;\n    return t;\n}}\n", k, k));
    }
    let params = format!("{} x, {} y, {} arr[4], inout int i, int j, I2 p, I2 parr[2], {}3 v, {}3 varr[2], bool b", k, k, k, k, k);
    let ret = if form == 4 { k.to_string() } else { "S".to_string() };
    out.push_str(&format!("{} fc({})\n{{\n    {} lc = x + y;\n", ret, params, k));
    match form {
        0 => out.push_str(&format!("    return (S){};\n", e)),
        1 => out.push_str(&format!("    S s = (S){};\n    return s;\n", e)),
        2 => out.push_str(&format!("    S s = (S)0;\n    s = (S){};\n    lc = lc + x;\n    return s;\n", e)),
        3 => out.push_str(&format!("    S s = (S)ck;\n    if (b)\n    {{\n        s = (S){};\n    }}\n    i = i + 1;\n    return s;\n", e)),
        _ => out.push_str(&format!("    {} r = take((S){}, y);\n    return r + x + ({})i;\n", k, e, k)),
    }
    out.push_str("}\n");
    let _ = count;
    (out, format!("d:cast:{}:{}", stag, etag))
}

/// an operand with an effect in a position the exporter emits once today
pub const STATEMENTS: u64 = 25;
const INT_OPS: [&str; 10] = ["+=", "-=", "*=", "/=", "%=", "&=", "|=", "^=", "<<=", ">>="];
const FLOAT_OPS: [&str; 5] = ["+=", "-=", "*=", "/=", "%="];
/// the statements that contain a compound assignment
const COMPOUND: [u64; 5] = [5, 6, 7, 9, 22];

pub fn effect_operand(rng: &mut Rng) -> (String, String) {
    effect_operand_fixed(rng, None)
}

/// `fixed` = (kind, statement number, compound operator)
pub fn effect_operand_fixed(rng: &mut Rng, fixed: Option<(&'static str, u64, &'static str)>) -> (String, String) {
    let k = match fixed {
        Some((k, ..)) => k,
        None => *rng.pick(&KINDS),
    };
    let mut out = preamble(k, rng);
    out.push_str(&format!("struct M\n{{\n    {}3 v;\n    {} s;\n    {}3 sum()\n    {{\n        return v + s;\n    }}\n    void add({} d)\n    {{\n        s = s + d;\n    }}\n}};\n", k, k, k, k));
    out.push_str(&format!("void hio(inout {} a, out {} o, {} d)\n{{\n    o = a;\n    a = a + d;\n}}\n", k, k, k));
    let params = format!("{} x, {} y, {} arr[4], inout int i, int j, I2 parr[2], {}3 v, {}3 varr[2], M marr[2], bool b", k, k, k, k, k);
    out.push_str(&format!("{}3 fe({})\n{{\n    {}3 r = v;\n    {} lc = y;\n", k, params, k, k));
    let aop = if k == "float" { *rng.pick(&FLOAT_OPS) } else { *rng.pick(&INT_OPS) };
    let which = rng.below(STATEMENTS);
    let (aop, which) = match fixed {
        Some((_, w, op)) => (op, w),
        None => (aop, which),
    };
    let (st, tag): (String, &str) = match which {
        0 => (format!("r = ({}3)(x++);", k), "splat-cast:increment"),
        1 => (format!("r = ({}3)bump(y);", k), "splat-cast:call"),
        2 => (format!("r = {}3(x++, y, bump(x));", k), "constructor:increment+call"),
        3 => ("r = (x++).xxx + r;".to_string(), "scalar-swizzle:increment"),
        4 => ("r = bump(y).xxx;".to_string(), "scalar-swizzle:call"),
        5 => (format!("arr[(i++) & 3] {} y;\n    r.x = arr[0] + arr[1] + arr[2] + arr[3];", aop), "compound-assign:element-index-increment"),
        6 => (format!("arr[next(4)] {} y;\n    r.x = arr[0] + arr[1] + arr[2] + arr[3];", aop), "compound-assign:element-index-call"),
        7 => (format!("parr[next(2)].q {} y;\n    r.y = parr[0].q + parr[1].q;", aop), "compound-assign:member-of-element-index-call"),
        8 => ("varr[(i++) & 1].zx = r.xy;\n    r = varr[0] + varr[1];".to_string(), "swizzle-store:element-index-increment"),
        9 => (format!("varr[next(2)].y {} x;\n    r = varr[0] + varr[1];", aop), "swizzle-compound-assign:element-index-call"),
        10 => ("arr[next(4)]++;\n    ++arr[(i++) & 3];\n    r.x = arr[0] + arr[1] + arr[2] + arr[3];".to_string(), "increment:element-index-call"),
        11 => ("r.y = (i++ > 0) ? x : bump(y);".to_string(), "ternary:increment-condition"),
        12 => (format!("r = b ? ({}3)(x++) : ({}3)bump(y);", k, k), "ternary:arms"),
        13 => ("r = max(r, x++) + min(bump(y), r);".to_string(), "builtin:max-min"),
        14 => ("r = clamp(r, bump(y), x++);".to_string(), "builtin:clamp"),
        15 => (format!("r = select(bool3(b, !b, b), r + ({}3)(x++), ({}3)bump(y));", k, k), "builtin:select"),
        16 => ("hio(arr[(i++) & 3], lc, y);\n    r.x = arr[0] + arr[1] + arr[2] + arr[3] + lc;".to_string(), "inout-argument:element-index-increment"),
        17 => ("hio(parr[next(2)].p, lc, y);\n    r.y = parr[0].p + parr[1].p + lc;".to_string(), "inout-argument:member-of-element-index-call"),
        18 => ("r = marr[(i++) & 1].sum();".to_string(), "method:object-index-increment"),
        19 => ("marr[next(2)].add(x++);\n    r = marr[0].sum() + marr[1].sum();".to_string(), "method:object-index-call+argument-increment"),
        20 if k == "float" => ("float3x3 mm = (float3x3)bump(y);\n    r = mul(mm, r);".to_string(), "matrix-from-scalar:call"),
        21 if k == "float" => ("float3x3 mm = float3x3(v, r, v);\n    r = mul(mm, r + (float3)(x++)) + mul(r * bump(y), transpose(mm));".to_string(), "mul:operand-increment"),
        22 => (format!("r[(i++) & 1] {} bump(y);", aop), "compound-assign:vector-element-index-increment"),
        23 if k == "float" => ("r.x = abs(x++) + dot(r, (float3)bump(y));".to_string(), "builtin:abs-dot"),
        // the two operands with an effect depend on each other: `select`'s operands are emitted in reverse order
        24 => (format!("r = select(bool3(b, !b, b), r + ({}3)(x++), ({}3)bump(x));", k, k), "builtin:select-dependent-operands"),
        _ => (format!("r.x = abs(({})(x++)) + max(next(3), i++);", if k == "uint" { "int" } else { k }), "builtin:abs-max"),
    };
    out.push_str(&format!("    {}\n", st));
    out.push_str(&format!("    return r + x + lc + ({})i;\n}}\n", k));
    let optag = if COMPOUND.contains(&which) { format!(":{}", aop) } else { String::new() };
    (out, format!("d:effect:{}{}", tag, optag))
}

/// floating-point `%=`: Metal has no `%` on floats, so since fix 92d66eb the exporter writes `a %= b` as `a = metal::fmod(a, b)`
/// — the TARGET twice, and read BEFORE the right operand runs — when `is_plain_place` accepts the target (variables, members,
/// swizzles, elements with an index built from variables, literals, casts and arithmetic) and `is_free_of_writes` the right
/// operand (fix 35faaaa: no call, assignment, increment, sequence), and refuses the module otherwise
/// (`ComplexRemainderAssignment`: outside the property).  Every accepted kind of target and every refused one × right operands
/// that are free of writes (variables, arithmetic, `?:`, elements, constructors) and that write (calls, assignment, `++` — also
/// of the target itself: `gk %= bump(y)`, `lc %= (lc = …)`, `x %= x++`).
pub const REM_TARGETS: u64 = 21;
pub const REM_RHS: u64 = 8;

pub fn rem_assign(rng: &mut Rng) -> (String, String) {
    let (t, r) = (rng.below(REM_TARGETS), rng.below(REM_RHS));
    rem_assign_fixed(rng, t, r)
}

pub fn rem_assign_fixed(rng: &mut Rng, target: u64, rhs: u64) -> (String, String) {
    let k = "float";
    let mut out = preamble(k, rng);
    out.push_str("struct M\n{\n    float3 v;\n    float s;\n    float3 sum()\n    {\n        return v + s;\n    }\n    void wrap(float d)\n    {\n        s %= d;\n        v %= d;\n    }\n};\n");
    let params = "float x, float y, float arr[4], inout int i, int j, I2 parr[2], float3 v, float3 varr[2], M marr[2], bool b";
    out.push_str(&format!("float3 fr({})\n{{\n    float3 r = v;\n    float lc = y + 0.5f;\n", params));
    // (target, statement that folds the written place into the result, tag, the variable an effect of the right operand must not touch)
    let (t, fold, ttag, avoid): (&str, &str, &str, &str) = match target {
        0 => ("x", "", "plain:parameter", "x"),
        1 => ("gk", "", "plain:static", "gk"),
        2 => ("lc", "", "plain:local", "lc"),
        3 => ("arr[i & 3]", "r.x = arr[0] + arr[1] + arr[2] + arr[3];", "plain:element", ""),
        4 => ("arr[2]", "r.x = arr[0] + arr[1] + arr[2] + arr[3];", "plain:element-const", ""),
        5 => ("arr[(j + 1) & 3]", "r.x = arr[0] + arr[1] + arr[2] + arr[3];", "plain:element-arithmetic-index", ""),
        6 => ("parr[i & 1].q", "r.y = parr[0].q + parr[1].q;", "plain:member-of-element", ""),
        7 => ("r", "", "plain:vector", ""),
        8 => ("r.xy", "", "plain:swizzle", ""),
        9 => ("r.y", "", "plain:component", ""),
        10 => ("varr[i & 1].zx", "r = varr[0] + varr[1];", "plain:swizzle-of-element", ""),
        11 => ("marr[j & 1].s", "r = marr[0].sum() + marr[1].sum();", "plain:member-of-object-element", ""),
        12 => ("r[i & 1]", "", "plain:vector-element", ""),
        13 => ("arr[((uint)i) & 3u]", "r.x = arr[0] + arr[1] + arr[2] + arr[3];", "plain:element-cast-index", ""),
        14 => ("arr[-(-j) & 3]", "r.x = arr[0] + arr[1] + arr[2] + arr[3];", "plain:element-unary-index", ""),
        15 => ("arr[(i++) & 3]", "r.x = arr[0] + arr[1] + arr[2] + arr[3];", "refused:element-index-increment", ""),
        16 => ("arr[next(4)]", "r.x = arr[0] + arr[1] + arr[2] + arr[3];", "refused:element-index-call", ""),
        17 => ("arr[b ? 1 : 2]", "r.x = arr[0] + arr[1] + arr[2] + arr[3];", "refused:element-index-ternary", ""),
        18 => ("parr[next(2)].q", "r.y = parr[0].q + parr[1].q;", "refused:member-of-element-index-call", ""),
        19 => ("arr[min(i, 3)]", "r.x = arr[0] + arr[1] + arr[2] + arr[3];", "refused:element-index-builtin", ""),
        // MemberVariable targets: inside a method
        _ => ("", "r = marr[0].sum() + marr[1].sum();", "plain:member-variable", ""),
    };
    let _ = avoid;
    let (e, etag): (&str, &str) = match rhs {
        0 => ("y", "free:parameter"),
        1 => ("(x + y + 1.5f)", "free:arithmetic"),
        2 => ("(b ? x : arr[j & 3])", "free:ternary-element"),
        3 => ("float3(x, y, lc).y", "free:swizzle-of-constructor"),
        4 => ("bump(y)", "writes:call-bumps-static"),
        5 => ("(lc = y + 2.0f)", "writes:assignment-to-local"),
        6 => ("(float)(next(3) + 1)", "writes:call-bumps-counter"),
        _ => ("x++", "writes:increment"),
    };
    if target >= 20 {
        out.push_str(&format!("    marr[j & 1].wrap({});\n", e));
    } else {
        out.push_str(&format!("    {} %= {};\n", t, e));
    }
    if !fold.is_empty() {
        out.push_str(&format!("    {}\n", fold));
    }
    out.push_str("    return r + x + lc + gk + (float)i;\n}\n");
    (out, format!("d:rem:{}:{}", ttag, etag))
}

/// the enumerated part of the family: every compound operator at every place with an effect in the target, every other
/// statement with every kind, every operand (leaf / pure / with an effect) below a cast to a one-element and to a
/// four-element struct
pub fn enumerated(idx: u64, rng: &mut Rng) -> Option<(String, String)> {
    let mut n = idx;
    // compound assignments
    let per = (INT_OPS.len() + FLOAT_OPS.len()) as u64;
    if n < per * COMPOUND.len() as u64 {
        let (place, o) = (COMPOUND[(n / per) as usize], (n % per) as usize);
        let (k, op) = if o < INT_OPS.len() { (if (o + (n / per) as usize) % 2 == 0 { "int" } else { "uint" }, INT_OPS[o]) } else { ("float", FLOAT_OPS[o - INT_OPS.len()]) };
        return Some(effect_operand_fixed(rng, Some((k, place, op))));
    }
    n -= per * COMPOUND.len() as u64;
    // the other statements, every kind
    let others: Vec<u64> = (0..STATEMENTS).filter(|w| !COMPOUND.contains(w)).collect();
    if n < others.len() as u64 * 3 {
        let (w, k) = (others[(n / 3) as usize], KINDS[(n % 3) as usize]);
        return Some(effect_operand_fixed(rng, Some((k, w, "+="))));
    }
    n -= others.len() as u64 * 3;
    // struct casts: every operand × {one element, four elements}
    let total: u64 = OPERANDS.iter().sum();
    if n < total * 2 {
        let four = n % 2 == 1;
        let mut w = n / 2;
        let mut class = 0;
        while w >= OPERANDS[class as usize] {
            w -= OPERANDS[class as usize];
            class += 1;
        }
        let k = KINDS[((n / 2) % 3) as usize];
        return Some(struct_cast_fixed(rng, Some((k, four, class, w))));
    }
    n -= total * 2;
    // floating-point `%=`: every target × every right operand
    if n < REM_TARGETS * REM_RHS {
        return Some(rem_assign_fixed(rng, n / REM_RHS, n % REM_RHS));
    }
    None
}

/// number of programs `enumerated` produces
pub fn enumerated_len() -> u64 {
    let per = (INT_OPS.len() + FLOAT_OPS.len()) as u64;
    per * COMPOUND.len() as u64 + (STATEMENTS - COMPOUND.len() as u64) * 3 + OPERANDS.iter().sum::<u64>() * 2 + REM_TARGETS * REM_RHS
}

/// the `idx`-th program of the family: the enumerated part first, then random ones
pub fn dup_program(idx: u64, rng: &mut Rng) -> (String, String) {
    if let Some(p) = enumerated(idx, rng) {
        return p;
    }
    match rng.below(10) {
        0..=4 => struct_cast(rng),
        5..=7 => effect_operand(rng),
        _ => rem_assign(rng),
    }
}

import RsslVerif.Lemmas.GenMslTramp
/-! Metal exporter: what `bindArgs` does to the frame environment of a trampoline call (reference parameters bound to
arbitrary caller variables), given that the names involved are distinct. -/
namespace RsslVerif.Lemmas.GenMsl
open RsslVerif.Gen.HlslGenTables RsslVerif.Gen.MslGenTables RsslVerif.Model RsslVerif.Model.GenMsl RsslVerif.Spec.Sem
open RsslVerif.Model.Ir (Ty Var Const Dir)
open RsslVerif.Model.GenHlsl (GenErr)
set_option linter.unusedSimpArgs false

/-- the names the reference parameters of a parameter list bind -/
def refNames : List MslAst.Param → List String
  | [] => []
  | .ref _ _ n :: ps => n :: refNames ps
  | _ :: ps => refNames ps

/-- binding leaves alone every name that is not the name of a reference parameter -/
theorem bindArgs_other (slot : String → Option Var) :
    ∀ (ps : List MslAst.Param) (as : List Msl.MArg) (ρ ρ' : String → Option Var) (σ σ' : Store) (s : String),
      Msl.bindArgs slot ps as ρ σ = some (ρ', σ') → s ∉ refNames ps → ρ' s = ρ s
  | [], [], ρ, ρ', σ, σ', s, h, _ => by simp [Msl.bindArgs] at h; rw [← h.1]
  | [], _ :: _, ρ, ρ', σ, σ', s, h, _ => by simp [Msl.bindArgs] at h
  | .val t n :: ps, as, ρ, ρ', σ, σ', s, h, hs => by
    cases as with
    | nil => simp [Msl.bindArgs] at h
    | cons a as =>
      cases a with
      | val v =>
        simp only [Msl.bindArgs] at h
        cases hsl : slot n with
        | none => simp [hsl] at h
        | some x =>
          simp only [hsl] at h
          exact bindArgs_other slot ps as ρ ρ' _ σ' s h (by simpa [refNames] using hs)
      | _ => simp [Msl.bindArgs] at h
  | .ref sp t n :: ps, as, ρ, ρ', σ, σ', s, h, hs => by
    cases as with
    | nil => simp [Msl.bindArgs] at h
    | cons a as =>
      cases a with
      | ref x =>
        simp only [Msl.bindArgs] at h
        simp only [refNames, List.mem_cons, not_or] at hs
        rw [bindArgs_other slot ps as _ ρ' σ σ' s h hs.2]
        simp [hs.1]
      | _ => simp [Msl.bindArgs] at h
  | .tag t :: ps, as, ρ, ρ', σ, σ', s, h, hs => by
    cases as with
    | nil => simp [Msl.bindArgs] at h
    | cons a as =>
      cases a with
      | tag =>
        simp only [Msl.bindArgs] at h
        exact bindArgs_other slot ps as ρ ρ' σ σ' s h (by simpa [refNames] using hs)
      | _ => simp [Msl.bindArgs] at h

theorem genGlobalParams_refNames {cx : Ctx} : ∀ (gs : List Nat) (gps : List MslAst.Param),
    GenMsl.genGlobalParams cx gs = .ok gps → refNames gps = gs.map cx.globName
  | [], gps, h => by simp [GenMsl.genGlobalParams] at h; subst h; rfl
  | g :: gs, gps, h => by
    simp only [GenMsl.genGlobalParams] at h
    cases htn : GenMsl.typeName (cx.vty (.glob g)) with
    | error e => simp [htn] at h
    | ok tn =>
      cases hr : GenMsl.genGlobalParams cx gs with
      | error e => simp [htn, hr] at h
      | ok gps' => simp [htn, hr] at h; subst h; simp [refNames, genGlobalParams_refNames gs gps' hr]

/-- binding the parameters for statics: store untouched; each static's name denotes the static afterwards -/
theorem bind_globals_env {cx : Ctx} (slot : String → Option Var) :
    ∀ (gs : List Nat) (gps : List MslAst.Param) (ρ : String → Option Var) (σ : Store),
      GenMsl.genGlobalParams cx gs = .ok gps → (gs.map cx.globName).Nodup →
      ∃ ρ1, Msl.bindArgs slot gps (globMArgs gs) ρ σ = some (ρ1, σ) ∧ ∀ g ∈ gs, ρ1 (cx.globName g) = some (.glob g)
  | [], gps, ρ, σ, hg, _ => by
    simp [GenMsl.genGlobalParams] at hg; subst hg
    exact ⟨ρ, by simp [globMArgs, Msl.bindArgs], by simp⟩
  | g :: gs, gps, ρ, σ, hg, hnd => by
    simp only [GenMsl.genGlobalParams] at hg
    cases htn : GenMsl.typeName (cx.vty (.glob g)) with
    | error e => simp [htn] at hg
    | ok tn =>
      cases hr : GenMsl.genGlobalParams cx gs with
      | error e => simp [htn, hr] at hg
      | ok gps' =>
        simp [htn, hr] at hg; subst hg
        have hnd2 : (cx.globName g :: gs.map cx.globName).Nodup := hnd
        obtain ⟨ρ1, h1, h2⟩ := bind_globals_env slot gs gps' (fun s => if s = cx.globName g then some (.glob g) else ρ s) σ hr
          (List.nodup_cons.mp hnd2).2
        refine ⟨ρ1, ?_, ?_⟩
        · simp only [globMArgs, List.map_cons] at h1 ⊢
          simp [Msl.bindArgs, h1]
        · intro g' hg'
          simp only [List.mem_cons] at hg'
          cases hg' with
          | inl h => 
            subst h
            have hnot : cx.globName g' ∉ refNames gps' := by
              rw [genGlobalParams_refNames gs gps' hr]; exact (List.nodup_cons.mp hnd2).1
            rw [bindArgs_other slot gps' _ _ ρ1 σ σ _ h1 hnot]
            simp
          | inr h => exact h2 g' h

/-- what binding the user parameters of a trampoline does to the names of those parameters -/
def UserEnv (cx : Ctx) (ρ ρ1 : String → Option Var) : Params → CArgs → Prop
  | (pid, _, _) :: ps, (_, o) :: l =>
    (match o with
      | none => ρ1 (cx.locName pid) = ρ (cx.locName pid)
      | some x => ρ1 (cx.locName pid) = some x) ∧ UserEnv cx ρ ρ1 ps l
  | _, _ => True

theorem UserEnv.congr {cx : Ctx} {ρ ρ' ρ1 : String → Option Var} :
    ∀ (ps : Params) (l : CArgs), (∀ p ∈ ps, ρ' (cx.locName p.1) = ρ (cx.locName p.1)) →
      UserEnv cx ρ' ρ1 ps l → UserEnv cx ρ ρ1 ps l
  | [], _, _, _ => by simp [UserEnv]
  | _ :: _, [], _, _ => by simp [UserEnv]
  | (pid, d, T) :: ps, (v, o) :: l, hag, h => by
    simp only [UserEnv] at h ⊢
    refine ⟨?_, UserEnv.congr ps l (fun p hp => hag p (List.mem_cons_of_mem _ hp)) h.2⟩
    cases o with
    | none => rw [h.1]; exact hag (pid, d, T) (by simp)
    | some x => exact h.1

theorem bind_tramp_user {cx : Ctx} {vty : Var → Ty} {slots : List Var} {xo : Var} (slot : String → Option Var) :
    ∀ (ps : Params) (mps : List MslAst.Param) (l : CArgs) (ρ : String → Option Var) (σ : Store)
      (rest : List MslAst.Param) (restArgs : List Msl.MArg),
      GenMsl.genParams cx ps = .ok mps → ArgsOK vty slots xo ps l →
      (∀ p ∈ ps, slot (cx.locName p.1) = some (.loc p.1)) → (ps.map fun p => cx.locName p.1).Nodup →
      ∃ ρ1, Msl.bindArgs slot (mps ++ rest) (l.map toMArg ++ restArgs) ρ σ = Msl.bindArgs slot rest restArgs ρ1 (bindIn ps l σ) ∧
        (∀ s, s ∉ (ps.map fun p => cx.locName p.1) → ρ1 s = ρ s) ∧ UserEnv cx ρ ρ1 ps l
  | [], mps, [], ρ, σ, rest, restArgs, hg, _, _, _ => by
    simp [GenMsl.genParams] at hg; subst hg
    exact ⟨ρ, by simp [bindIn], fun s _ => rfl, by simp [UserEnv]⟩
  | [], mps, _ :: _, ρ, σ, rest, restArgs, _, h, _, _ => by simp [ArgsOK] at h
  | _ :: _, mps, [], ρ, σ, rest, restArgs, _, h, _, _ => by simp [ArgsOK] at h
  | (pid, d, T) :: ps, mps, (v, o) :: l, ρ, σ, rest, restArgs, hg, h, hslot, hnd => by
    simp only [ArgsOK] at h
    have hnd2 : (cx.locName pid :: ps.map fun p => cx.locName p.1).Nodup := hnd
    have hnd' := (List.nodup_cons.mp hnd2).2
    have hhead := (List.nodup_cons.mp hnd2).1
    simp only [GenMsl.genParams, GenMsl.genParam] at hg
    cases htn : GenMsl.typeName T with
    | error e => simp [htn] at hg
    | ok tn =>
      cases hr : GenMsl.genParams cx ps with
      | error e =>
        simp only [htn] at hg
        split at hg <;> simp [hr] at hg
      | ok mps' =>
        have hslot' : ∀ p ∈ ps, slot (cx.locName p.1) = some (.loc p.1) := fun p hp => hslot p (List.mem_cons_of_mem _ hp)
        cases o with
        | none =>
          have hd : d = .in_ := h.2.1
          subst hd
          simp [htn, hr] at hg; subst hg
          obtain ⟨ρ1, h1, h2, h3⟩ := bind_tramp_user slot ps mps' l ρ (σ.set (.loc pid) v) rest restArgs hr h.2.2 hslot' hnd'
          refine ⟨ρ1, ?_, ?_, ?_⟩
          · simp [toMArg, Msl.bindArgs, hslot (pid, .in_, T) (by simp), bindIn, h1]
          · intro s hs
            simp only [List.map_cons, List.mem_cons, not_or] at hs
            exact h2 s hs.2
          · simp only [UserEnv]
            exact ⟨h2 _ hhead, h3⟩
        | some x =>
          obtain ⟨hd, hvx, hxs, hxo⟩ := h.2.1
          simp [htn, hr, hd] at hg; subst hg
          obtain ⟨ρ1, h1, h2, h3⟩ := bind_tramp_user slot ps mps' l (fun s => if s = cx.locName pid then some x else ρ s) σ rest restArgs
            hr h.2.2 hslot' hnd'
          refine ⟨ρ1, ?_, ?_, ?_⟩
          · simp [toMArg, Msl.bindArgs, bindIn, h1]
          · intro s hs
            simp only [List.map_cons, List.mem_cons, not_or] at hs
            rw [h2 s hs.2]; simp [hs.1]
          · simp only [UserEnv]
            refine ⟨by rw [h2 _ hhead]; simp, UserEnv.congr ps l ?_ h3⟩
            intro p hp
            have : cx.locName p.1 ≠ cx.locName pid := by
              intro hc
              apply hhead
              rw [← hc]
              exact List.mem_map_of_mem (f := fun p => cx.locName p.1) hp
            simp [this]

end RsslVerif.Lemmas.GenMsl

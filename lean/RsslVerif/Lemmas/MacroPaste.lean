import RsslVerif.Model.Macro
import RsslVerif.Model.Lexer
import RsslVerif.Gen.MacroTables
import RsslVerif.Lemmas.MacroSubst
import RsslVerif.Lemmas.LexerInt
import RsslVerif.Lemmas.Dec2BinCutoff
/-!
# `##`: the merged token is the token the lexer (C10's model) reads from the joined spellings

`apply_single_macro` unlexes the two operands of `##`, joins the texts, lexes the result and accepts it if that is
exactly one token followed by the line end the lexer appends.  The macro model decides this with `pasteTokens`
(identifiers, decimal integers, one-character operators).  Here:
* `pasteTokens_spelling`: the merged token is spelled like the two operands joined;
* `lex_word`: for every identifier-shaped byte string the lexer model of C10 reads one word token and the line end;
  `paste_identifiers_matches_lexer`: so for identifier operands `pasteTokens` answers what lexing the joined text gives
  (an identifier unless the joined spelling is a keyword or reserved word -- `Gen.MacroTables.keywords` is compared
  with the lexer's own tables);
* `paste_operators_match_lexer`: for the one-character operators of the model, `pasteTokens` merges a pair exactly
  when the lexer model reads the two characters as one token (all 49 pairs).
-/
namespace RsslVerif.Lemmas.MacroPaste
open RsslVerif.Model.Macro

/-! ## strings and bytes -/

theorem toList_loop_eq (data : Array UInt8) (n : Nat) : ∀ (i : Nat) (r : List UInt8), data.size - i = n →
    i ≤ data.size → ByteArray.toList.loop ⟨data⟩ i r = r.reverse ++ data.toList.drop i := by
  induction n with
  | zero =>
    intro i r h hi
    rw [ByteArray.toList.loop]
    have h1 : ¬ i < (ByteArray.mk data).size := by show ¬ i < data.size; omega
    simp only [h1, if_false]
    have : data.toList.drop i = [] := List.drop_eq_nil_of_le (by simp; omega)
    rw [this]; simp
  | succ n ih =>
    intro i r h hi
    rw [ByteArray.toList.loop]
    have hlt : i < data.size := by omega
    have h1 : i < (ByteArray.mk data).size := hlt
    simp only [h1, if_true]
    rw [ih (i + 1) _ (by omega) (by omega)]
    have hlt' : i < data.toList.length := by simpa using hlt
    rw [List.drop_eq_getElem_cons hlt']
    have hget : (ByteArray.mk data).get! i = data.toList[i] := by
      show data[i]! = data.toList[i]
      simp [hlt]
    rw [hget]
    simp [List.reverse_cons, List.append_assoc]

theorem byteArray_toList_eq (bs : ByteArray) : bs.toList = bs.data.toList := by
  obtain ⟨data⟩ := bs
  unfold ByteArray.toList
  have := toList_loop_eq data data.size 0 [] (by omega) (by omega)
  simpa using this

open RsslVerif.Model.Lexer in
theorem str_append (a b : String) : str (a ++ b) = str a ++ str b := by
  unfold str String.toUTF8
  rw [String.toByteArray_append, byteArray_toList_eq, byteArray_toList_eq, byteArray_toList_eq,
    ByteArray.data_append, Array.toList_append]

open RsslVerif.Model.Lexer in
theorem str_inj {a b : String} (h : str a = str b) : a = b := by
  unfold str String.toUTF8 at h
  rw [byteArray_toList_eq, byteArray_toList_eq] at h
  apply String.toByteArray_inj.mp
  apply ByteArray.ext
  exact Array.toList_inj.mp h

/-! ## spelling -/

/-- what `unlex` writes for a token of the macro model -/
def spell : Tok → String
  | .id s | .int s | .punct s => s
  | .lparen => "("
  | .rparen => ")"
  | .comma => ","
  | .hashhash => "##"
  | _ => ""

theorem pasteTokens_spelling (l r m : PTok) (h : pasteTokens l r = .ok m) :
    spell m.tok = spell l.tok ++ spell r.tok ∧ m.located = true := by
  unfold pasteTokens at h
  split at h
  · cases h
  · split at h
    · split at h
      · cases h
      · cases h; rename_i h1 h2 _; simp [spell, h1, h2]
    · split at h
      · cases h
      · cases h; rename_i h1 h2 _; simp [spell, h1, h2]
    · split at h
      · cases h
      · split at h
        · cases h
        · cases h; rename_i h1 h2 _ _; simp [spell, h1, h2]
    · split at h
      · cases h; rename_i h1 h2 _; simp [spell, h1, h2]
      · cases h
    · split at h <;> cases h

/-! ## the lexer model of C10 on an identifier-shaped text -/

section Lexer
open RsslVerif.Model.Lexer RsslVerif.Gen.LexTables

theorem spanIdent_all (cs : Bytes) (h : ∀ x ∈ cs, isIdentChar x = true) : spanIdent cs = (cs, []) := by
  induction cs with
  | nil => rfl
  | cons c r ih =>
    have := ih (fun x hx => h x (by simp [hx]))
    simp [spanIdent, h c (by simp), this]

theorem identStart_not_digit (c : UInt8) (h : isIdentStart c = true) : ¬ (48 ≤ c.toNat ∧ c.toNat ≤ 57) := by
  unfold isIdentStart at h
  simp only [Bool.or_eq_true, Bool.and_eq_true, decide_eq_true_eq] at h
  omega

theorem keyword_not_endline : ∀ kw ∈ keywords, kw.2 ≠ Simple.Endline := by decide

theorem wordToken_ne_endline (w : Bytes) : wordToken w ≠ .simple .Endline := by
  unfold wordToken
  split
  · rename_i kw hf
    have := keyword_not_endline kw (List.mem_of_find?_eq_some hf)
    intro h
    simp only [Token.simple.injEq] at h
    exact this h
  · split <;> (intro h; cases h)

/-- **the lexer on an identifier-shaped text**: one word token (identifier, keyword or reserved word) over the whole
text, then the line end the lexer appends -- the `[token, Endline]` shape `apply_single_macro` accepts after `##` -/
theorem lex_word (c : UInt8) (cs : Bytes) (hc : isIdentStart c = true) (hcs : ∀ x ∈ cs, isIdentChar x = true) :
    readToEnd (c :: cs) =
      .ok [⟨wordToken (c :: cs), 0, cs.length + 1⟩, ⟨.simple .Endline, cs.length + 1, cs.length + 1⟩] := by
  have htok : tokenIntermediate (c :: cs) false = .ok ([], wordToken (c :: cs)) := by
    simp only [tokenIntermediate, tokenStep, identStart_not_digit c hc, if_false, hc, if_true, anyWord,
      spanIdent_all cs hcs]
  have hne := wordToken_ne_endline (c :: cs)
  unfold readToEnd readAll
  have hfuel : (c :: cs).length + 2 = (cs.length + 0) + 1 + 1 + 1 := by simp
  rw [hfuel]
  simp only [readLoop, Stream.new, Stream.endOfStream, Stream.next, List.length_cons, List.drop_zero, htok,
    List.length_nil]
  simp [hne]

end Lexer


/-! ## the lexer model of C10 on a decimal number -/

section LexerInt
open RsslVerif.Model.Lexer RsslVerif.Gen.LexTables RsslVerif.Spec

/-- a byte that is a decimal digit -/
def isDigitByte (b : UInt8) : Bool := decide (48 ≤ b.toNat ∧ b.toNat ≤ 57)

theorem decDigit_of_digit (b : UInt8) (h : isDigitByte b = true) : decDigit? b = some (b.toNat - 48) := by
  simp only [isDigitByte, decide_eq_true_eq] at h
  simp [decDigit?, h]

theorem spanDigits_all (r : Bytes) (h : ∀ x ∈ r, isDigitByte x = true) :
    spanDigits r = (digitRun decDigit? r, []) := by
  induction r with
  | nil => rfl
  | cons b r ih =>
    have hb := decDigit_of_digit b (h b (by simp))
    have := ih (fun x hx => h x (by simp [hx]))
    simp [spanDigits, digitRun, hb, this]

theorem afterRun_all (r : Bytes) (h : ∀ x ∈ r, isDigitByte x = true) : afterRun decDigit? r = [] := by
  induction r with
  | nil => rfl
  | cons b r ih =>
    have hb := decDigit_of_digit b (h b (by simp))
    simp [afterRun, hb, ih (fun x hx => h x (by simp [hx]))]

theorem digitRun_lt (r : Bytes) : ∀ d ∈ digitRun decDigit? r, d < 10 := by
  induction r with
  | nil => intro d hd; cases hd
  | cons b r ih =>
    intro d hd
    unfold digitRun at hd
    cases hb : decDigit? b with
    | none => simp [hb] at hd
    | some k =>
      simp only [hb, List.mem_cons] at hd
      rcases hd with rfl | hd
      · unfold decDigit? at hb
        split at hb
        · simp only [Option.some.injEq] at hb; omega
        · cases hb
      · exact ih d hd

theorem digitRun_length (r : Bytes) (h : ∀ x ∈ r, isDigitByte x = true) : (digitRun decDigit? r).length = r.length := by
  induction r with
  | nil => rfl
  | cons b r ih =>
    have hb := decDigit_of_digit b (h b (by simp))
    simp [digitRun, hb, ih (fun x hx => h x (by simp [hx]))]

/-- on a text of decimal digits `literal_float` declines (`OtherTokenBytes` at the start) -/
theorem literalFloat_digits (b : UInt8) (r : Bytes) (hb : isDigitByte b = true) (hr : ∀ x ∈ r, isDigitByte x = true) :
    literalFloat (b :: r) = .error (.lex (.rest (b :: r)) .OtherTokenBytes) := by
  have hd := decDigit_of_digit b hb
  have hseq : digitSequence (b :: r) = .ok ([], (b.toNat - 48) :: digitRun decDigit? r) := by
    simp [digitSequence, digitWith, hd, spanDigits_all r hr]
  have hfrac : opt (fractionalConstant (b :: r)) (b :: r) = (b :: r, none) := by
    simp [fractionalConstant, opt, hseq, otherTokenChars]
  unfold literalFloat floatMantissa
  simp only [hfrac, hseq]
  simp [opt, floatExponent, wrongChars, otherTokenChars]

/-- **the lexer on a decimal number** that does not start with `0` and fits in 64 bits: one integer literal with the
value the digits denote, then the appended line end -/
theorem lex_digits (b : UInt8) (r : Bytes) (hb : isDigitByte b = true) (hb0 : b.toNat ≠ 48)
    (hr : ∀ x ∈ r, isDigitByte x = true) (hlen : r.length + 1 ≤ 19) :
    readToEnd (b :: r) =
      .ok [⟨.litInt (Dec2Bin.ofDigits 10 (digitRun decDigit? (b :: r))), 0, r.length + 1⟩,
           ⟨.simple .Endline, r.length + 1, r.length + 1⟩] := by
  have hd := decDigit_of_digit b hb
  have hbd : 48 ≤ b.toNat ∧ b.toNat ≤ 57 := by simpa [isDigitByte] using hb
  have hall : ∀ x ∈ b :: r, isDigitByte x = true := by
    intro x hx; rcases List.mem_cons.mp hx with rfl | hx
    · exact hb
    · exact hr x hx
  -- the value fits
  have hv : Dec2Bin.ofDigits 10 (digitRun decDigit? (b :: r)) < 2 ^ 64 := by
    have h1 := Dec2Bin.ofDigits_lt (digitRun decDigit? (b :: r)) (digitRun_lt (b :: r))
    rw [digitRun_length (b :: r) hall] at h1
    have h2 : (10 : Nat) ^ (b :: r).length ≤ 10 ^ 19 := Nat.pow_le_pow_right (by omega) (by simpa using hlen)
    have h3 : (10 : Nat) ^ 19 < 2 ^ 64 := by decide
    omega
  have hint : literalInt (b :: r) =
      .ok ([], .litInt (Dec2Bin.ofDigits 10 (digitRun decDigit? (b :: r)))) := by
    have hs1 : stripPrefix? [48, 120] (b :: r) = none := by
      have : ¬ ((48 : UInt8) = b) := fun hh => hb0 (by rw [← hh]; rfl)
      simp [stripPrefix?, this]
    have hs2 : stripPrefix? [48] (b :: r) = none := by
      have : ¬ ((48 : UInt8) = b) := fun hh => hb0 (by rw [← hh]; rfl)
      simp [stripPrefix?, this]
    simp only [literalInt, hs1, hs2, literalIntWith]
    rw [digitsWith_closed decDigit? 10 (by omega) (fun x d h => by
      unfold decDigit? at h; split at h
      · simp only [Option.some.injEq] at h; omega
      · cases h) b r _ hd]
    simp only [hv, if_true, afterRun_all (b :: r) hall]
    rfl
  have htok : tokenIntermediate (b :: r) false =
      .ok ([], .litInt (Dec2Bin.ofDigits 10 (digitRun decDigit? (b :: r)))) := by
    simp only [tokenIntermediate, tokenStep, hbd, and_self, if_true, literalFloat_digits b r hb hr, ErrAt.len,
      List.length_cons, hint]
  unfold readToEnd readAll
  have hfuel : (b :: r).length + 2 = (r.length + 0) + 1 + 1 + 1 := by simp
  rw [hfuel]
  simp only [readLoop, Stream.new, Stream.endOfStream, Stream.next, List.length_cons, List.drop_zero, htok,
    List.length_nil]
  simp

end LexerInt


/-! ## `pasteTokens` against the lexer model -/

section Tie
open RsslVerif.Model.Lexer

/-- the model's keyword list (`Gen.MacroTables.keywords`: the spellings `any_word` does not turn into `Token::Id`) is
the union of the lexer's keyword table and its reserved words (`Gen.LexTables`) -/
theorem keywords_agree :
    (∀ s ∈ RsslVerif.Gen.MacroTables.keywords,
      s ∈ RsslVerif.Gen.LexTables.keywords.map (·.1) ∨ s ∈ RsslVerif.Gen.LexTables.reservedWords) ∧
    (∀ s ∈ RsslVerif.Gen.LexTables.keywords.map (·.1), s ∈ RsslVerif.Gen.MacroTables.keywords) ∧
    (∀ s ∈ RsslVerif.Gen.LexTables.reservedWords, s ∈ RsslVerif.Gen.MacroTables.keywords) := by
  decide +kernel

theorem wordToken_id (s : String) (h : RsslVerif.Gen.MacroTables.keywords.contains s = false) :
    wordToken (str s) = .id (str s) := by
  have hs : s ∉ RsslVerif.Gen.MacroTables.keywords := by
    intro hm
    have : RsslVerif.Gen.MacroTables.keywords.contains s = true := by simpa using hm
    rw [h] at this; cases this
  unfold wordToken
  have h1 : RsslVerif.Gen.LexTables.keywords.find? (fun kw => str kw.1 == str s) = none := by
    rw [List.find?_eq_none]
    intro kw hkw heq
    have : kw.1 = s := str_inj (by simpa using heq)
    exact hs (keywords_agree.2.1 s (by rw [← this]; exact List.mem_map.mpr ⟨kw, hkw, rfl⟩))
  have h2 : RsslVerif.Gen.LexTables.reservedWords.any (fun w => str w == str s) = false := by
    rw [List.any_eq_false]
    intro w hw heq
    have : w = s := str_inj (by simpa using heq)
    exact hs (keywords_agree.2.2 s (by rw [← this]; exact hw))
  simp only [h1, h2]
  rfl

/-- an identifier-shaped text: a letter or `_`, then letters, digits, `_` -/
def IdentText (w : Bytes) : Prop := ∃ c cs, w = c :: cs ∧ isIdentStart c = true ∧ ∀ x ∈ cs, isIdentChar x = true

/-- the text of an identifier followed by identifier characters (an identifier or a number) is identifier-shaped -/
theorem identText_append (a b : String) (ha : IdentText (str a)) (hb : ∀ x ∈ str b, isIdentChar x = true) :
    IdentText (str (a ++ b)) := by
  obtain ⟨c, cs, hw, hc, hcs⟩ := ha
  refine ⟨c, cs ++ str b, by rw [str_append, hw]; rfl, hc, ?_⟩
  intro x hx
  rcases List.mem_append.mp hx with h | h
  · exact hcs x h
  · exact hb x h

/-- **`##` of an identifier with an identifier or a number.**  If the joined spelling is identifier-shaped and is no
keyword, `pasteTokens` yields the identifier of that spelling -- and the lexer model of C10 reads the joined text as
exactly that identifier followed by the appended line end. -/
theorem paste_identifiers_matches_lexer (a b : String) (k : String → Tok) (hk : k = Tok.id ∨ k = Tok.int)
    (hshape : IdentText (str (a ++ b))) (hkw : RsslVerif.Gen.MacroTables.keywords.contains (a ++ b) = false) :
    pasteTokens ⟨.id a, true⟩ ⟨k b, true⟩ = .ok ⟨.id (a ++ b), true⟩ ∧
    readToEnd (str (a ++ b)) =
      .ok [⟨.id (str (a ++ b)), 0, (str (a ++ b)).length⟩,
           ⟨.simple .Endline, (str (a ++ b)).length, (str (a ++ b)).length⟩] := by
  constructor
  · have hkw' : ¬ (a ++ b) ∈ RsslVerif.Gen.MacroTables.keywords := by
      intro hm
      have : RsslVerif.Gen.MacroTables.keywords.contains (a ++ b) = true := by simpa using hm
      rw [hkw] at this; cases this
    rcases hk with rfl | rfl <;> simp [pasteTokens, hkw']
  · obtain ⟨c, cs, hw, hc, hcs⟩ := hshape
    have hlen : (str (a ++ b)).length = cs.length + 1 := by rw [hw]; simp
    rw [hlen, hw, lex_word c cs hc hcs, ← hw, wordToken_id _ hkw]

/-- a decimal number: digits, the first one not `0` (rssl compares integer tokens by value; a leading `0` would be
octal), at most 19 of them (fits in 64 bits) -/
def NumberText (w : Bytes) : Prop :=
  ∃ c cs, w = c :: cs ∧ isDigitByte c = true ∧ c.toNat ≠ 48 ∧ (∀ x ∈ cs, isDigitByte x = true) ∧ cs.length + 1 ≤ 19

/-- **`##` of two numbers.**  If the joined spelling is a decimal number (no leading `0`, at most 19 digits),
`pasteTokens` yields the integer token of that spelling -- and the lexer model of C10 reads the joined text as exactly
one integer literal, whose value is the number the digits denote, followed by the appended line end. -/
theorem paste_numbers_matches_lexer (a b : String) (hshape : NumberText (str (a ++ b))) :
    pasteTokens ⟨.int a, true⟩ ⟨.int b, true⟩ = .ok ⟨.int (a ++ b), true⟩ ∧
    readToEnd (str (a ++ b)) =
      .ok [⟨.litInt (RsslVerif.Spec.Dec2Bin.ofDigits 10 (digitRun decDigit? (str (a ++ b)))), 0,
              (str (a ++ b)).length⟩,
           ⟨.simple .Endline, (str (a ++ b)).length, (str (a ++ b)).length⟩] := by
  have hlex : readToEnd (str (a ++ b)) =
      .ok [⟨.litInt (RsslVerif.Spec.Dec2Bin.ofDigits 10 (digitRun decDigit? (str (a ++ b)))), 0,
              (str (a ++ b)).length⟩,
           ⟨.simple .Endline, (str (a ++ b)).length, (str (a ++ b)).length⟩] := by
    obtain ⟨c, cs, hw, hc, hc0, hcs, hl⟩ := hshape
    have hlen' : (str (a ++ b)).length = cs.length + 1 := by rw [hw]; simp
    rw [hlen', hw, lex_digits c cs hc hc0 hcs hl]
  refine ⟨?_, hlex⟩
  have h1 : lexOne (a ++ b) =
      some (.litInt (RsslVerif.Spec.Dec2Bin.ofDigits 10 (digitRun decDigit? (str (a ++ b))))) := by
    unfold lexOne
    rw [hlex]
    simp
  simp [pasteTokens, h1, isIntLiteral]

/-- **`##` of two numbers in ANY spelling** (hex, octal, leading zeros, suffixes): the model joins the two source
spellings and asks the lexer model of C10 -- the paste succeeds with the integer token *spelled* `a ++ b` exactly when
the lexer reads the joined SPELLING as one integer literal followed by the appended line end, and it is `ConcatFailed`
exactly when the lexer does not read one token.  Nothing depends on the values of the operands: `0x1 ## 0` is `0x10`
(16), not `10`; `00 ## 7` is `007` (7); `1u ## 2` is no token. -/
theorem paste_number_spellings_match_lexer (a b : String) :
    (pasteTokens ⟨.int a, true⟩ ⟨.int b, true⟩ = .ok ⟨.int (a ++ b), true⟩ ↔
      ∃ t, lexOne (a ++ b) = some t ∧ isIntLiteral t = true) ∧
    (pasteTokens ⟨.int a, true⟩ ⟨.int b, true⟩ = .error .concatFailed ↔ lexOne (a ++ b) = none) ∧
    (∀ m, pasteTokens ⟨.int a, true⟩ ⟨.int b, true⟩ = .ok m → m = ⟨.int (a ++ b), true⟩) := by
  cases h : lexOne (a ++ b) with
  | none => simp [pasteTokens, h]
  | some t =>
    cases ht : isIntLiteral t <;> simp [pasteTokens, h, ht]

/-- does the lexer read this text as exactly one token followed by the appended line end? -/
def lexesToOneToken (w : Bytes) : Bool :=
  match readToEnd w with
  | .ok [_, e] => e.tok == .simple .Endline
  | _ => false

/-- the one-character operators of the macro model -/
def modelOperators : List String := ["+", "-", "*", ";", "=", "{", "}"]

/-- **`##` of two operators.**  For the one-character operators of the model, `pasteTokens` merges a pair exactly
when the lexer model of C10 reads the two characters as one token (`++ -- += -= *= ==`): all 49 pairs. -/
theorem paste_operators_match_lexer :
    ∀ a ∈ modelOperators, ∀ b ∈ modelOperators,
      punctMerges.contains (a, b) = lexesToOneToken (str (a ++ b)) := by
  decide +kernel

end Tie


/-! ## one `##` operation of the loop -/

section Step
open RsslVerif.Lemmas.MacroSubst RsslVerif.Lemmas.MacroTerm

theorem lastNonWs_acc (l : List PTok) (i : Nat) (acc : Option Nat) (h : ∀ t ∈ l, t.tok.isWhitespace = true) :
    lastNonWs l i acc = acc := by
  induction l generalizing i acc with
  | nil => rfl
  | cons t r ih =>
    simp only [lastNonWs, h t (by simp), if_true]
    exact ih (i + 1) acc (fun x hx => h x (by simp [hx]))

theorem lastNonWs_append (a b : List PTok) (i : Nat) (acc : Option Nat) :
    lastNonWs (a ++ b) i acc = lastNonWs b (i + a.length) (lastNonWs a i acc) := by
  induction a generalizing i acc with
  | nil => rfl
  | cons t r ih =>
    simp only [List.cons_append, lastNonWs, List.length_cons]
    rw [ih]
    congr 1; omega

theorem firstNonWs_ws (w rest : List PTok) (i : Nat) (h : ∀ t ∈ w, t.tok.isWhitespace = true) :
    firstNonWs (w ++ rest) i = firstNonWs rest (i + w.length) := by
  induction w generalizing i with
  | nil => rfl
  | cons t r ih =>
    simp only [List.cons_append, firstNonWs, h t (by simp), if_true, List.length_cons]
    rw [ih (i + 1) (fun x hx => h x (by simp [hx]))]
    congr 1; omega

/-- **`##` pastes its neighbours into one token.**  In a text whose other tokens start no operation, the two tokens
next to `##` -- white space (blanks, comments, line ends) on either side of the operator aside -- are replaced, together
with the operator and that white space, by the single token `pasteTokens` makes of them. -/
theorem paste_step (env : List Entry) (before w1 w2 after : List PTok) (lt c rt m : PTok)
    (hc : c.tok = .concat) (hw1 : ∀ t ∈ w1, t.tok.isWhitespace = true) (hw2 : ∀ t ∈ w2, t.tok.isWhitespace = true)
    (hlt : lt.tok.isWhitespace = false) (hrt : rt.tok.isWhitespace = false)
    (hpre : Inert env (before ++ lt :: w1)) (hpaste : pasteTokens lt rt = .ok m)
    (hpost : Inert env (m :: after)) :
    applyLoop env (before ++ lt :: (w1 ++ c :: (w2 ++ rt :: after))) SearchPos.start = .ok (before ++ m :: after) := by
  generalize htoks : before ++ lt :: (w1 ++ c :: (w2 ++ rt :: after)) = toks
  have htoks' : toks = (before ++ lt :: w1) ++ c :: (w2 ++ rt :: after) := by rw [← htoks]; simp
  let i := (before ++ lt :: w1).length
  have hi : i = before.length + 1 + w1.length := by simp [i]; omega
  have hlen : toks.length = before.length + 1 + w1.length + 1 + w2.length + 1 + after.length := by
    rw [← htoks]; simp; omega
  -- the scan reaches the operator
  have htake : toks.take i = before ++ lt :: w1 := by rw [htoks']; exact List.take_left
  have hl : lastNonWs (toks.take i) 0 none = some before.length := by
    rw [htake, lastNonWs_append]
    simp only [lastNonWs, hlt, Nat.zero_add]
    exact lastNonWs_acc w1 _ _ hw1
  have hr : firstNonWs (w2 ++ rt :: after) (i + 1) = some (i + 1 + w2.length) := by
    rw [firstNonWs_ws w2 _ _ hw2]
    simp [firstNonWs, hrt]
  have hf : findSingle toks SearchPos.start env = .ok (.concat before.length (i + 1 + w2.length)) := by
    unfold findSingle
    simp only [SearchPos.start, Nat.le_refl, if_true, List.drop_zero]
    rw [htoks', scanFrom_skip_inert _ _ _ _ _ _ hpre, ← htoks']
    simp only [Nat.zero_add]
    rw [scanFrom]
    simp only [hc]
    have : ¬ (before ++ lt :: w1).length < 0 := by omega
    simp only [this, if_false]
    show (match lastNonWs (toks.take i) 0 none with
      | none => Except.error Err.concatMissingLeftToken
      | some l =>
        match firstNonWs (w2 ++ rt :: after) (i + 1) with
        | none => Except.error Err.concatMissingRightToken
        | some r => Except.ok (Found.concat l r)) = _
    rw [hl, hr]
  have hgl : toks[before.length]? = some lt := by rw [← htoks]; simp
  have hgr : toks[i + 1 + w2.length]? = some rt := by
    rw [htoks', List.getElem?_append_right (by omega)]
    have : i + 1 + w2.length - (before ++ lt :: w1).length = w2.length + 1 := by omega
    rw [this, List.getElem?_cons_succ, List.getElem?_append_right (by omega)]
    simp
  rw [applyLoop]
  have hlt0 : SearchPos.start.next < toks.length := by simp [SearchPos.start]; omega
  simp only [hlt0, dite_true, hf, hgl, hgr, hpaste]
  have h1 : before.length + 1 < i + 1 + w2.length := by omega
  have h2 : SearchPos.start.next < i + 1 + w2.length ∧ i + 1 + w2.length < toks.length := by
    simp [SearchPos.start]; omega
  simp only [h1, if_true, h2, and_self, dite_true]
  have hspl : splice toks before.length (i + 1 + w2.length + 1) [m] = before ++ m :: after := by
    unfold splice
    have e1 : toks.take before.length = before := by rw [← htoks]; simp
    have e2 : toks.drop (i + 1 + w2.length + 1) = after := by
      have hh : toks = (before ++ lt :: (w1 ++ c :: (w2 ++ [rt]))) ++ after := by rw [← htoks]; simp
      have hl2 : (before ++ lt :: (w1 ++ c :: (w2 ++ [rt]))).length = i + 1 + w2.length + 1 := by simp [hi]; omega
      rw [hh, ← hl2, List.drop_left]
    rw [e1, e2]; simp
  rw [hspl]
  apply applyLoop_inert
  · exact Nat.le_refl _
  · simpa using hpost

end Step


end RsslVerif.Lemmas.MacroPaste

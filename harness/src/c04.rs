//! C04: emitted DirectX HLSL is accepted by the front end and is a fixpoint.
//!
//! request : C04.fix \t <gen:<seed> | decl:<seed> | lit:<seed> | disk:<root>|<entry> | text:<hex of source>>
//!           `dfn:<seed>` = the declaration-form stream (c04/declforms.rs): prototype + definition with defaults on either side,
//!           forward-declared functions called before their definition, methods, rarely used exporter features
//!           `tdr:<seed>` = resources / resource arrays declared through typedefs (c04/tdres.rs)
//!           `lit:<seed>` = the literal stream: a program whose initialisers, arguments, array sizes and operands are
//!           numeric literals of every suffix (none, `f`, `h`, `L`, `u`, hex) — long decimal constants (20–30 significant
//!           digits), values whose shortest decimal has 15–17 digits, exponent forms, negative zero, subnormal / huge
//!           magnitudes, integers next to the limits of `int` / `uint` — so that the byte comparison of the two
//!           generations exercises `format_literal` ∘ `literal_float` / `literal_int` (the C10 leg of the composition)
//! observe : first-generation digest, or `reject:<stage>` when the source itself is not accepted
//! oracle  : compile(P, dx, no-pipeline) = G1; compile(G1.text, dx, no-pipeline) must succeed and be
//!           byte-identical to G1, with every resource on the same binding slot (group, name, location, count).
mod declforms;
mod names;
mod reelab;
mod tdres;
mod tmpl;

use crate::compile_util::*;
use crate::declgen;
use crate::progen::*;
use crate::util::*;


// ------------------------------------------------------------------------------------------------
// the literal stream

/// decimal expansion of p/q with `digits` significant digits (p < q * 10^6), as `int.frac`
fn long_division(mut p: u64, q: u64, digits: usize) -> String {
    let int = p / q;
    p %= q;
    let mut s = format!("{}.", int);
    let mut significant = if int > 0 { int.to_string().len() } else { 0 };
    let mut started = int > 0;
    let mut n = 0;
    while significant < digits && n < 60 {
        p *= 10;
        let d = p / q;
        p %= q;
        s.push((b'0' + d as u8) as char);
        if d != 0 {
            started = true;
        }
        if started {
            significant += 1;
        }
        n += 1;
    }
    s
}

#[derive(Clone, Copy, PartialEq, Eq)]
enum LTy {
    Double,
    Float,
    Half,
    Int,
    UInt,
}

impl LTy {
    fn name(self) -> &'static str {
        match self {
            LTy::Double => "double",
            LTy::Float => "float",
            LTy::Half => "half",
            LTy::Int => "int",
            LTy::UInt => "uint",
        }
    }
    fn pass(self) -> &'static str {
        match self {
            LTy::Double => "pd",
            LTy::Float => "pf",
            LTy::Half => "ph",
            LTy::Int => "pi",
            LTy::UInt => "pu",
        }
    }
}

/// one numeric literal together with the type of the variable / parameter it is used for
fn gen_literal(rng: &mut Rng, hist: &mut Hist) -> (String, LTy) {
    let fsuffix = |rng: &mut Rng| -> (&'static str, LTy) {
        match rng.below(8) {
            0 | 1 | 2 => ("L", LTy::Double),
            3 => ("", LTy::Double), // untyped literal converted to double
            4 | 5 => ("f", LTy::Float),
            6 => ("", LTy::Float),
            _ => ("h", LTy::Half),
        }
    };
    match rng.below(10) {
        0 | 1 => {
            // a rational with a small denominator written with 20–30 significant digits (maths-header style)
            hist.add("lit:long-decimal");
            let q = rng.range(3, 97) as u64;
            let p = rng.range(1, 3 * q as i64) as u64;
            let digits = rng.range(20, 30) as usize;
            let (sfx, ty) = fsuffix(rng);
            (format!("{}{}", long_division(p, q, digits), sfx), ty)
        }
        2 => {
            // a random double in a moderate range, written with its shortest round-trip digits (15–17 of them)
            hist.add("lit:shortest-double");
            let exp = 1023 - 40 + rng.below(80);
            let bits = (exp << 52) | (rng.next() & ((1u64 << 52) - 1));
            let v = f64::from_bits(bits);
            let text = format!("{}", v);
            let text = if text.contains('.') { text } else { format!("{}.0", text) };
            let (sfx, ty) = if rng.chance(3, 4) { ("L", LTy::Double) } else { ("", LTy::Double) };
            (format!("{}{}", text, sfx), ty)
        }
        3 => {
            // the same value with more digits than needed (exact decimal expansion cut at 25 places)
            hist.add("lit:over-long-double");
            let exp = 1023 - 8 + rng.below(16);
            let bits = (exp << 52) | (rng.next() & ((1u64 << 52) - 1));
            let v = f64::from_bits(bits);
            (format!("{:.25}L", v), LTy::Double)
        }
        4 => {
            // exponent forms, small and large magnitudes
            hist.add("lit:exponent");
            let forms: [(&str, LTy); 25] = [
                ("1e10", LTy::Float), ("2.5e-3f", LTy::Float), ("1.0e+38f", LTy::Float), ("6.02214076e23", LTy::Double),
                ("1e300L", LTy::Double), ("4.9e-324L", LTy::Double), ("1e-45f", LTy::Float), ("3.4028235e38f", LTy::Float),
                ("1.7976931348623157e308L", LTy::Double), ("2.2250738585072014e-308L", LTy::Double),
                ("1.17549435e-38f", LTy::Float), ("9.999999999999999e22L", LTy::Double), ("1e22L", LTy::Double),
                ("1e23L", LTy::Double), ("8.98846567431158e307L", LTy::Double), ("1e-7h", LTy::Half), ("6.1e-5h", LTy::Half),
                ("65504.0h", LTy::Half), ("123456789012345678.0L", LTy::Double), ("0.1e1f", LTy::Float),
                ("9007199254740993.0L", LTy::Double), ("16777217.0f", LTy::Float),
                // a float whose shortest digits (7.038531e-26) select the neighbouring float when they are read through a
                // double (fix 265a080: format_literal prints the digits of the value as a double there)
                ("7.038530691851209e-26f", LTy::Float), ("7.038531e-26f", LTy::Float), ("7.038530691851209e-26h", LTy::Half),
            ];
            let (t, ty) = *rng.pick(&forms);
            (t.to_string(), ty)
        }
        5 => {
            hist.add("lit:negative-zero");
            let forms: [(&str, LTy); 5] =
                [("-0.0", LTy::Float), ("-0.0f", LTy::Float), ("-0.0h", LTy::Half), ("-0.0L", LTy::Double), ("-0.0", LTy::Double)];
            let (t, ty) = *rng.pick(&forms);
            (t.to_string(), ty)
        }
        6 => {
            // short decimals of every suffix
            hist.add("lit:short-decimal");
            let a = rng.below(1000);
            let b = rng.below(10000);
            let (sfx, ty) = fsuffix(rng);
            (format!("{}.{}{}", a, b, sfx), ty)
        }
        9 => {
            // a random float / half written with the digits of its value as a double (15-17 of them): the lexer reads a
            // double and rounds a second time, the printer goes back to the shortest digits of the float unless those
            // would be read as a neighbour (fix 265a080)
            hist.add("lit:float-with-double-digits");
            let exp = 127 - 90 + rng.below(120) as u32;
            let bits = (exp << 23) | (rng.next() as u32 & ((1u32 << 23) - 1));
            let v = f32::from_bits(bits) as f64;
            let text = format!("{}", v);
            let text = if text.contains('.') || text.contains('e') { text } else { format!("{}.0", text) };
            if rng.chance(3, 4) { (format!("{}f", text), LTy::Float) } else { (format!("{}h", text), LTy::Half) }
        }
        7 => {
            hist.add("lit:int-limit");
            let forms: [(&str, LTy); 16] = [
                ("2147483647", LTy::Int), ("-2147483648", LTy::Int), ("-2147483647", LTy::Int), ("0x7fffffff", LTy::Int),
                ("2147483648", LTy::UInt), ("4294967295", LTy::UInt), ("4294967295u", LTy::UInt), ("0xffffffffu", LTy::UInt),
                ("0xffffffff", LTy::UInt), ("-1", LTy::UInt), ("4294967294u", LTy::UInt), ("0", LTy::Int), ("0u", LTy::UInt),
                ("2147483647", LTy::Float), ("4294967295u", LTy::Float), ("16777217", LTy::Float),
            ];
            let (t, ty) = *rng.pick(&forms);
            (t.to_string(), ty)
        }
        _ => {
            hist.add("lit:int-random");
            if rng.chance(1, 2) {
                (format!("{}", rng.next() as u32 as i32), LTy::Int)
            } else if rng.chance(1, 2) {
                (format!("{}u", rng.next() as u32), LTy::UInt)
            } else {
                (format!("0x{:x}", rng.next() as u32), LTy::UInt)
            }
        }
    }
}

/// the program of the literal stream: literals as global and local initialisers, call arguments, operands and array sizes
pub fn literal_program(rng: &mut Rng) -> String {
    let mut hist = Hist::default();
    literal_program_h(rng, &mut hist)
}

fn literal_program_h(rng: &mut Rng, hist: &mut Hist) -> String {
    let mut s = String::new();
    for t in [LTy::Double, LTy::Float, LTy::Half, LTy::Int, LTy::UInt] {
        s.push_str(&format!("{} {}({} a) {{ return a; }}\n", t.name(), t.pass(), t.name()));
    }
    let nglob = 2 + rng.below(4);
    for i in 0..nglob {
        let (l, t) = gen_literal(rng, hist);
        s.push_str(&format!("static const {} g{} = {};\n", t.name(), i, l));
    }
    let sizes = ["1", "2u", "0x10", "16u", "3", "64", "255u", "0x7f", "2 + 2", "4 * 4u"];
    s.push_str(&format!("static float garr[{}];\n", rng.pick(&sizes)));
    s.push_str("void f() {\n");
    let nloc = 4 + rng.below(8);
    for i in 0..nloc {
        let (l, t) = gen_literal(rng, hist);
        match rng.below(5) {
            0 | 1 => s.push_str(&format!("    {} v{} = {};\n", t.name(), i, l)),
            2 => s.push_str(&format!("    {} v{} = {}({});\n", t.name(), i, t.pass(), l)),
            3 => {
                let (l2, t2) = gen_literal(rng, hist);
                s.push_str(&format!("    {} v{} = {} + {}({});\n", t.name(), i, l, t2.pass(), l2));
            }
            _ => {
                s.push_str(&format!("    {} v{};\n    v{} = {};\n", t.name(), i, i, l));
            }
        }
    }
    s.push_str(&format!("    float arr[{}];\n", rng.pick(&sizes)));
    s.push_str("}\n");
    s
}

/// fixed programs tried first when a proof obligation of a cited leg no longer checks (`search` of checks/c04.py)
pub fn literal_search_sources() -> Vec<String> {
    vec![
        "static const double a = 0.93333333333333333333L;\nstatic const double b = 0.20833333333333333333L;\nstatic const double c = 0.090909090909090909091L;\nstatic const double d = 0.23333333333333333333L;\n".to_string(),
        "double f() { double x = 0.3333333333333333148296L; double y = 0.1; double z = 6.02214076e23; return x + y + z + 123456789012345678.0L; }\n".to_string(),
        "float f() { float a = 0.1; float b = 16777217.0f; float c = 1e-45f; float d = 3.4028235e38f; float e = -0.0f; half h = 0.1h; return a + b + c + d + e + (float)h; }\n".to_string(),
        "int f() { int a = 2147483647; int b = -2147483648; uint c = 4294967295u; uint d = 0xffffffff; uint e = -1; float arr[0x10]; return a + b + (int)(c + d + e); }\n".to_string(),
    ]
}

fn first_generation(id: &str) -> Option<CompileOutcome> {
    if let Some(seed) = id.strip_prefix("gen:") {
        let seed: u64 = seed.parse().ok()?;
        let prog = gen_program(&mut Rng::new(seed), &GenOpts::default());
        Some(compile_src(&render(&prog, &|_| true), Tgt::Dx, Mode::NoPipeline))
    } else if let Some(seed) = id.strip_prefix("decl:") {
        let seed: u64 = seed.parse().ok()?;
        Some(compile_src(&declgen::gen_source(&mut Rng::new(seed)), Tgt::Dx, Mode::NoPipeline))
    } else if let Some(seed) = id.strip_prefix("lit:") {
        let seed: u64 = seed.parse().ok()?;
        Some(compile_src(&literal_program(&mut Rng::new(seed)), Tgt::Dx, Mode::NoPipeline))
    } else if let Some(seed) = id.strip_prefix("tpl:") {
        let seed: u64 = seed.parse().ok()?;
        Some(compile_src(&tmpl::source(seed), Tgt::Dx, Mode::NoPipeline))
    } else if let Some(seed) = id.strip_prefix("dfn:") {
        let seed: u64 = seed.parse().ok()?;
        Some(compile_src(&declforms::source(seed), Tgt::Dx, Mode::NoPipeline))
    } else if let Some(seed) = id.strip_prefix("tdr:") {
        let seed: u64 = seed.parse().ok()?;
        Some(compile_src(&tdres::source(seed), Tgt::Dx, Mode::NoPipeline))
    } else if let Some(rest) = id.strip_prefix("disk:") {
        let (root, entry) = rest.split_once('|')?;
        Some(compile_disk(root, entry, Tgt::Dx, Mode::NoPipeline))
    } else if let Some(h) = id.strip_prefix("text:") {
        let bytes = unhex(h)?;
        Some(compile_src(&String::from_utf8_lossy(&bytes), Tgt::Dx, Mode::NoPipeline))
    } else {
        None
    }
}

/// the source text of a request that carries or regenerates one (not `disk:`)
fn source_text(id: &str) -> Option<String> {
    if let Some(seed) = id.strip_prefix("decl:") {
        Some(declgen::gen_source(&mut Rng::new(seed.parse().ok()?)))
    } else if let Some(seed) = id.strip_prefix("gen:") {
        Some(render(&gen_program(&mut Rng::new(seed.parse().ok()?), &GenOpts::default()), &|_| true))
    } else if let Some(seed) = id.strip_prefix("lit:") {
        Some(literal_program(&mut Rng::new(seed.parse().ok()?)))
    } else if let Some(seed) = id.strip_prefix("tpl:") {
        Some(tmpl::source(seed.parse().ok()?))
    } else if let Some(seed) = id.strip_prefix("dfn:") {
        Some(declforms::source(seed.parse().ok()?))
    } else if let Some(seed) = id.strip_prefix("tdr:") {
        Some(tdres::source(seed.parse().ok()?))
    } else if let Some(h) = id.strip_prefix("text:") {
        Some(String::from_utf8_lossy(&unhex(h)?).to_string())
    } else {
        None
    }
}

pub(crate) fn first_diff(a: &str, b: &str) -> String {
    for (i, (la, lb)) in a.lines().zip(b.lines()).enumerate() {
        if la != lb {
            return format!("line {}: `{}` became `{}`", i + 1, la.trim(), lb.trim());
        }
    }
    format!("line counts {} vs {}", a.lines().count(), b.lines().count())
}

fn run_one(id: &str, out: &mut Out, hist: &mut Hist) {
    let req = format!("C04.fix\t{}", id);
    let Some(g1) = first_generation(id) else {
        out.case(&req, "bad-request", "SKIP:bad request");
        return;
    };
    match g1 {
        CompileOutcome::Err(e) => {
            hist.add("source-rejected");
            let stage = if e.contains("hlsl generate") || e.contains("hlsl format") { "export" } else { "front-end" };
            out.case(&req, &format!("reject:{}", stage), "SKIP:source not accepted");
        }
        CompileOutcome::Panic(p) => {
            hist.add("panic-first-generation");
            out.case(&req, "panic", &format!("FAIL:panic {}", p));
        }
        CompileOutcome::Ok(ps) => {
            let p1 = &ps[0];
            let text1 = p1.text();
            let g2 = compile_src(&text1, Tgt::Dx, Mode::NoPipeline);
            let oracle = match &g2 {
                CompileOutcome::Ok(ps2) => {
                    let p2 = &ps2[0];
                    let (const_lines, other_diff) =
                        if p2.data != p1.data { tdres::split_const_lines(&text1, &p2.text()) } else { (0, None) };
                    if const_lines > 0 && other_diff.is_none() && p2.slots != p1.slots {
                        hist.add("not-fixpoint-slots");
                        format!("FAIL:binding slots differ between generations: {:?} vs {:?}", p1.slots, p2.slots)
                    } else if const_lines > 0 && other_diff.is_none() {
                        // every differing line is of the known class `const` of the element type printed once (tdres.rs)
                        hist.add("not-fixpoint-text:element-const");
                        format!("FAIL:second generation differs: {} {}", first_diff(&text1, &p2.text()), tdres::CONST_TAG)
                    } else if p2.data != p1.data {
                        hist.add("not-fixpoint-text");
                        // lines of the known element-const class are passed over: the first OTHER differing line is reported
                        let d = other_diff.unwrap_or_else(|| first_diff(&text1, &p2.text()));
                        // template stream: the generator's own record of argument kinds names the known class
                        let tag = id
                            .strip_prefix("tpl:")
                            .and_then(|s| s.parse::<u64>().ok())
                            .and_then(|seed| {
                                let prog = tmpl::generate(&mut Rng::new(seed), &mut Hist::default());
                                let line = d.strip_prefix("line ")?.split(':').next()?.parse::<usize>().ok()?;
                                tmpl::classify(&prog, &text1, line)
                            })
                            .map(|t| format!(" {}", t))
                            .unwrap_or_default();
                        format!("FAIL:second generation differs: {}{}", d, tag)
                    } else if p2.slots != p1.slots {
                        hist.add("not-fixpoint-slots");
                        format!("FAIL:binding slots differ between generations: {:?} vs {:?}", p1.slots, p2.slots)
                    } else {
                        hist.add("fixpoint");
                        "ok".to_string()
                    }
                }
                CompileOutcome::Err(e) => {
                    hist.add("output-rejected");
                    // a failure caused by the pairing of a prototype with a definition is named on the source text alone
                    let tag = source_text(id)
                        .and_then(|src| declforms::classify(&src, &format!("emitted HLSL is rejected: {}", e)))
                        .map(|t| format!(" {}", t))
                        .unwrap_or_default();
                    format!("FAIL:emitted HLSL is rejected: {}{}", one_line(&e.chars().take(200).collect::<String>()), tag)
                }
                CompileOutcome::Panic(p) => {
                    hist.add("panic-second-generation");
                    format!("FAIL:panic {}", p)
                }
            };
            out.case(&req, &format!("ok:{}", p1.digest()), &oracle);
        }
    }
}

/// debugging aid: `harness c04 dump <id>` prints source, both generations and metadata
fn dump(id: &str) {
    let src = if let Some(seed) = id.strip_prefix("decl:") {
        declgen::gen_source(&mut Rng::new(seed.parse().unwrap()))
    } else if let Some(seed) = id.strip_prefix("gen:") {
        render(&gen_program(&mut Rng::new(seed.parse().unwrap()), &GenOpts::default()), &|_| true)
    } else if let Some(seed) = id.strip_prefix("lit:") {
        literal_program(&mut Rng::new(seed.parse().unwrap()))
    } else if let Some(seed) = id.strip_prefix("tpl:") {
        tmpl::source(seed.parse().unwrap())
    } else if let Some(seed) = id.strip_prefix("dfn:") {
        declforms::source(seed.parse().unwrap())
    } else if let Some(seed) = id.strip_prefix("tdr:") {
        tdres::source(seed.parse().unwrap())
    } else if let Some(h) = id.strip_prefix("text:") {
        String::from_utf8_lossy(&unhex(h).unwrap_or_default()).to_string()
    } else {
        String::new()
    };
    eprintln!("=== source\n{}", src);
    match compile_src(&src, Tgt::Dx, Mode::NoPipeline) {
        CompileOutcome::Ok(ps) => {
            eprintln!("=== generation 1\n{}\n=== metadata 1\n{}", ps[0].text(), ps[0].metadata);
            match compile_src(&ps[0].text(), Tgt::Dx, Mode::NoPipeline) {
                CompileOutcome::Ok(p2) => eprintln!("=== generation 2\n{}\n=== metadata 2\n{}", p2[0].text(), p2[0].metadata),
                other => eprintln!("=== generation 2: {:?}", other),
            }
        }
        other => eprintln!("=== generation 1: {:?}", other),
    }
}

pub fn run(args: &Args, out: &mut Out) {
    let mut hist = Hist::default();
    if args.extra.first().map(|s| s == "dump").unwrap_or(false) {
        dump(&args.extra[1]);
        return;
    }
    if args.extra.first().map(|s| s == "source").unwrap_or(false) {
        // `harness c04 source <id>`: the source text of a generated request (used by the shrinker of checks/c04.py)
        let id = &args.extra[1];
        let src = if let Some(seed) = id.strip_prefix("decl:") {
            declgen::gen_source(&mut Rng::new(seed.parse().unwrap_or(0)))
        } else if let Some(seed) = id.strip_prefix("gen:") {
            render(&gen_program(&mut Rng::new(seed.parse().unwrap_or(0)), &GenOpts::default()), &|_| true)
        } else if let Some(seed) = id.strip_prefix("lit:") {
            literal_program(&mut Rng::new(seed.parse().unwrap_or(0)))
        } else if let Some(seed) = id.strip_prefix("tpl:") {
            tmpl::source(seed.parse().unwrap_or(0))
        } else if let Some(seed) = id.strip_prefix("dfn:") {
            declforms::source(seed.parse().unwrap_or(0))
        } else if let Some(seed) = id.strip_prefix("tdr:") {
            tdres::source(seed.parse().unwrap_or(0))
        } else if let Some(h) = id.strip_prefix("text:") {
            String::from_utf8_lossy(&unhex(h).unwrap_or_default()).to_string()
        } else {
            String::new()
        };
        print!("{}", src);
        return;
    }
    if args.extra.first().map(|s| s == "names").unwrap_or(false) {
        // `harness c04 names --n N --seed S`: the name-resolution stream alone
        let mut names_hist = Hist::default();
        names::run(args, out, &mut names_hist);
        out.stat(&format!("{{\"stream\":\"names\",\"hist\":{}}}", names_hist.json()));
        return;
    }
    if args.extra.first().map(|s| s == "names-shrink").unwrap_or(false) {
        // `harness c04 names-shrink <descriptor>`: the descriptor with one declaration / statement / use less, one per line
        for c in names::shrink_candidates(&args.extra[1]) {
            println!("{}", c);
        }
        return;
    }
    if args.extra.first().map(|s| s == "names-source").unwrap_or(false) {
        if let Some(nodes) = names::parse(&args.extra[1]) {
            print!("{}", names::render(&nodes));
        }
        return;
    }
    if args.extra.first().map(|s| s == "search-requests").unwrap_or(false) {
        for src in literal_search_sources() {
            println!("C04.fix\ttext:{}", hex(src.as_bytes()));
        }
        // resources declared through typedefs (obligation slot_peel_as_modelled / a peel theorem of C05 no longer checks)
        for src in tdres::fixed_sources() {
            println!("C04.fix\ttext:{}", hex(src.as_bytes()));
        }
        for k in 1..=40u64 {
            println!("C04.fix\ttdr:{}", 7919 * k);
        }
        return;
    }
    if let Some(lines) = args.request_lines() {
        for line in lines {
            if let Some(id) = line.strip_prefix("C04.fix\t") {
                run_one(id, out, &mut hist);
            } else if let Some(rest) = line.strip_prefix("C04.names\t") {
                names::run_descriptor(rest.split('\t').next().unwrap_or(""), out, &mut hist);
            } else if let Some(rest) = line.strip_prefix("C04.reelab\t").or_else(|| line.strip_prefix("C04.accept\t")) {
                let src = reelab::unescape(rest.split('\t').next().unwrap_or(""));
                reelab::run_source(&src, out, &mut hist);
            }
        }
        out.stat(&format!("{{\"mode\":\"replay\",\"hist\":{}}}", hist.json()));
        return;
    }
    let repo = std::env::var("VERIF_REPO").unwrap_or_else(|_| "/repo".into());
    let mut rng = Rng::new(args.seed);
    let n = args.n.unwrap_or(if args.thorough() { 5000 } else { 300 });
    for _ in 0..n {
        run_one(&format!("decl:{}", rng.next() >> 16), out, &mut hist);
    }
    for _ in 0..n / 3 {
        run_one(&format!("gen:{}", rng.next() >> 16), out, &mut hist);
    }
    // the literal stream (its own distribution in the statistics)
    let nlit = n / 2;
    let mut lit_hist = Hist::default();
    for _ in 0..nlit {
        let seed = rng.next() >> 16;
        let _ = literal_program_h(&mut Rng::new(seed), &mut lit_hist);
        run_one(&format!("lit:{}", seed), out, &mut hist);
    }
    // the template stream: value parameters / deduced type parameters combined with untyped literals
    let ntpl = n / 2;
    let mut tpl_hist = Hist::default();
    for _ in 0..ntpl {
        let seed = rng.next() >> 16;
        let _ = tmpl::generate(&mut Rng::new(seed), &mut tpl_hist);
        run_one(&format!("tpl:{}", seed), out, &mut hist);
    }
    out.stat(&format!("{{\"stream\":\"templates\",\"programs\":{},\"hist\":{}}}", ntpl, tpl_hist.json()));
    // the declaration-form stream: prototypes / definitions / defaults on either side, forward calls, methods, and the
    // exporter features no other stream writes
    let ndfn = n / 2;
    let mut dfn_hist = Hist::default();
    for _ in 0..ndfn {
        let seed = rng.next() >> 16;
        let _ = declforms::generate(&mut Rng::new(seed), &mut dfn_hist);
        run_one(&format!("dfn:{}", seed), out, &mut hist);
    }
    out.stat(&format!("{{\"stream\":\"declaration-forms\",\"programs\":{},\"hist\":{}}}", ndfn, dfn_hist.json()));
    // resources and resource arrays declared through typedefs, mixed with directly declared ones
    let ntdr = n / 2;
    let mut tdr_hist = Hist::default();
    for _ in 0..ntdr {
        let seed = rng.next() >> 16;
        let _ = tdres::generate(&mut Rng::new(seed), &mut tdr_hist);
        run_one(&format!("tdr:{}", seed), out, &mut hist);
    }
    out.stat(&format!("{{\"stream\":\"typedef-resources\",\"programs\":{},\"hist\":{}}}", ntdr, tdr_hist.json()));
    let corpus = repo_corpus(&repo);
    let take = if args.thorough() { corpus.len() } else { corpus.len().min(31) };
    let step = (corpus.len() / take.max(1)).max(1);
    for (i, (root, entry)) in corpus.iter().enumerate() {
        if i % step == 0 {
            run_one(&format!("disk:{}|{}", root, entry), out, &mut hist);
        }
    }
    // the name-resolution stream: which entity every emitted path is looked up to
    let mut names_hist = Hist::default();
    names::run(args, out, &mut names_hist);
    out.stat(&format!("{{\"stream\":\"names\",\"hist\":{}}}", names_hist.json()));
    // the re-elaboration stream: second-generation IR against first-generation IR, node by node
    let mut re_hist = Hist::default();
    reelab::run(args, out, &mut re_hist);
    out.stat(&format!("{{\"stream\":\"reelab\",\"hist\":{}}}", re_hist.json()));
    out.stat(&format!(
        "{{\"generated\":{},\"literal_programs\":{},\"literal_kinds\":{},\"hist\":{}}}",
        n + n / 3,
        nlit,
        lit_hist.json(),
        hist.json()
    ));
}

import RsslVerif.Model.Names
/-!
`NameMap::build` commutes with a renaming `σ` of the identifiers that is injective, keeps reserved-ness, commutes with
the candidate format (`σ (n_k) = (σ n)_k`) and is an order embedding for `String::cmp`.
-/
namespace RsslVerif.Lemmas.NamesRename
open RsslVerif.Model
open RsslVerif.Model.Names

/-- the hypotheses on the renaming -/
structure Renaming (reserved : List String) (σ : String → String) : Prop where
  inj : ∀ a b, σ a = σ b → a = b
  res : ∀ x, σ x ∈ reserved ↔ x ∈ reserved
  cand : ∀ n k, σ (Names.cand n k) = Names.cand (σ n) k
  ord : ∀ a b, σ a < σ b ↔ a < b

/-- `u'` is the renamed version of the set `u` (as far as membership tests of renamed strings and the fuel go) -/
def Rel (σ : String → String) (u u' : List String) : Prop :=
  u'.length = u.length ∧ ∀ x, σ x ∈ u' ↔ x ∈ u

variable {reserved : List String} {σ : String → String}

theorem Rel.contains {u u' : List String} (h : Rel σ u u') (x : String) : u'.contains (σ x) = u.contains x := by
  rw [Bool.eq_iff_iff]
  simp [h.2 x]

theorem rel_reserved (hσ : Renaming reserved σ) : Rel σ reserved reserved := ⟨rfl, hσ.res⟩

theorem rel_cons (hσ : Renaming reserved σ) {u u' : List String} (h : Rel σ u u') (c : String) :
    Rel σ (c :: u) (σ c :: u') := by
  refine ⟨by simp [h.1], fun x => ?_⟩
  simp only [List.mem_cons, h.2 x]
  constructor
  · rintro (e | e)
    · exact Or.inl (hσ.inj _ _ e)
    · exact Or.inr e
  · rintro (e | e)
    · exact Or.inl (by rw [e])
    · exact Or.inr e

theorem rel_map (hσ : Renaming reserved σ) (l : List String) : Rel σ l (l.map σ) := by
  refine ⟨by simp, fun x => ?_⟩
  constructor
  · intro h
    obtain ⟨y, hy, e⟩ := List.mem_map.mp h
    rw [← hσ.inj _ _ e]; exact hy
  · intro h; exact List.mem_map.mpr ⟨x, h, rfl⟩

theorem rel_append {a a' b b' : List String} (ha : Rel σ a a') (hb : Rel σ b b') : Rel σ (a ++ b) (a' ++ b') := by
  refine ⟨by simp [ha.1, hb.1], fun x => ?_⟩
  simp [List.mem_append, ha.2 x, hb.2 x]

theorem firstFree_rename (hσ : Renaming reserved σ) {u u' : List String} (h : Rel σ u u') (n : String) :
    ∀ (fuel k : Nat), firstFree u' (σ n) fuel k = (firstFree u n fuel k).map σ := by
  intro fuel
  induction fuel with
  | zero => intro k; simp [firstFree, Except.map]
  | succ f ih =>
    intro k
    unfold firstFree
    rw [← hσ.cand, h.contains]
    split
    · exact ih _
    · simp [Except.map]

/-- renamed groups: same symbols, renamed key -/
def mapGroups (σ : String → String) (gs : List (String × List Sym)) : List (String × List Sym) :=
  gs.map fun g => (σ g.1, g.2)

theorem claimKept_rename (hσ : Renaming reserved σ) :
    ∀ (gs : List (String × List Sym)) {u u' : List String}, Rel σ u u' →
      Rel σ (claimKept u gs).1 (claimKept u' (mapGroups σ gs)).1 ∧
      (claimKept u' (mapGroups σ gs)).2 = (claimKept u gs).2.map σ := by
  intro gs
  induction gs with
  | nil => intro u u' h; simp [claimKept, mapGroups, h]
  | cons g r ih =>
    intro u u' h
    simp only [mapGroups, List.map_cons, claimKept, h.contains]
    split
    · have := ih (rel_cons hσ h g.1)
      simp only [mapGroups] at this
      exact ⟨this.1, by simp [this.2]⟩
    · have := ih h
      simp only [mapGroups] at this
      exact this

/-- the state of the renamed run -/
def StRel (σ : String → String) (st st' : St) : Prop :=
  Rel σ st.used st'.used ∧ st'.gen = st.gen.map σ ∧ st'.out = st.out.map fun q => (q.1, σ q.2)

theorem assignSym_rename (hσ : Renaming reserved σ) (n : String) (keep : Bool) {st st' : St} (h : StRel σ st st')
    (s : Sym) :
    (∃ e, assignSym n keep st s = .error e ∧ assignSym (σ n) keep st' s = .error e) ∨
    (∃ r r', assignSym n keep st s = .ok r ∧ assignSym (σ n) keep st' s = .ok r' ∧ StRel σ r r') := by
  unfold assignSym
  cases keep with
  | true =>
    simp only [if_true]
    refine Or.inr ⟨_, _, rfl, rfl, h.1, h.2.1, ?_⟩
    simp [h.2.2]
  | false =>
    simp only [Bool.false_eq_true, if_false]
    rw [h.1.1, firstFree_rename hσ h.1 n]
    cases hf : firstFree st.used n (st.used.length + 1) 0 with
    | error e => exact Or.inl ⟨e, by simp [Except.map], by simp [Except.map]⟩
    | ok c =>
      refine Or.inr ⟨_, ⟨σ c :: st'.used, σ c :: st'.gen, st'.out ++ [(s, σ c)]⟩, rfl, by simp [Except.map], rel_cons hσ h.1 c, ?_, ?_⟩
      · simp [h.2.1]
      · simp [h.2.2]

theorem assignSyms_rename (hσ : Renaming reserved σ) (n : String) (keep : Bool) :
    ∀ (ss : List Sym) {st st' : St}, StRel σ st st' →
    (∃ e, assignSyms n keep st ss = .error e ∧ assignSyms (σ n) keep st' ss = .error e) ∨
    (∃ r r', assignSyms n keep st ss = .ok r ∧ assignSyms (σ n) keep st' ss = .ok r' ∧ StRel σ r r') := by
  intro ss
  induction ss with
  | nil => intro st st' h; exact Or.inr ⟨st, st', rfl, rfl, h⟩
  | cons s r ih =>
    intro st st' h
    unfold assignSyms
    rcases assignSym_rename hσ n keep h s with ⟨e, h1, h2⟩ | ⟨a, a', h1, h2, hr⟩
    · rw [h1, h2]; exact Or.inl ⟨e, rfl, rfl⟩
    · rw [h1, h2]; exact ih hr

theorem contains_map (hσ : Renaming reserved σ) (l : List String) (x : String) :
    (l.map σ).contains (σ x) = l.contains x := (rel_map hσ l).contains x

theorem assignGroups_rename (hσ : Renaming reserved σ) (kept : List String) :
    ∀ (gs : List (String × List Sym)) {st st' : St}, StRel σ st st' →
    (∃ e, assignGroups kept st gs = .error e ∧ assignGroups (kept.map σ) st' (mapGroups σ gs) = .error e) ∨
    (∃ r r', assignGroups kept st gs = .ok r ∧ assignGroups (kept.map σ) st' (mapGroups σ gs) = .ok r' ∧ StRel σ r r') := by
  intro gs
  induction gs with
  | nil => intro st st' h; exact Or.inr ⟨st, st', rfl, rfl, h⟩
  | cons g r ih =>
    intro st st' h
    simp only [mapGroups, List.map_cons, assignGroups, assignGroup, contains_map hσ]
    rcases assignSyms_rename hσ g.1 (kept.contains g.1) g.2 h with ⟨e, h1, h2⟩ | ⟨a, a', h1, h2, hr⟩
    · rw [h1, h2]; exact Or.inl ⟨e, rfl, rfl⟩
    · rw [h1, h2]; exact ih hr

/-- the per-scope result of the renamed run is the renamed per-scope result -/
def mapSt (σ : String → String) (st : St) (used' : List String) : St :=
  { used := used', gen := st.gen.map σ, out := st.out.map fun q => (q.1, σ q.2) }

theorem scopeRun_rename (hσ : Renaming reserved σ) (gs : List (String × List Sym)) :
    (∃ e, scopeRun reserved gs = .error e ∧ scopeRun reserved (mapGroups σ gs) = .error e) ∨
    (∃ r r', scopeRun reserved gs = .ok r ∧ scopeRun reserved (mapGroups σ gs) = .ok r' ∧ StRel σ r r') := by
  unfold scopeRun
  simp only
  obtain ⟨h1, h2⟩ := claimKept_rename hσ gs (rel_reserved hσ)
  rw [h2]
  exact assignGroups_rename hσ _ gs ⟨h1, rfl, rfl⟩

/-! ### the sorted key vector -/

theorem insertSorted_rename (hσ : Renaming reserved σ) (n : String) :
    ∀ (l : List String), insertSorted (σ n) (l.map σ) = (insertSorted n l).map σ := by
  intro l
  induction l with
  | nil => simp [insertSorted]
  | cons m r ih =>
    simp only [List.map_cons, insertSorted]
    by_cases h : n < m
    · have : σ n < σ m := (hσ.ord n m).mpr h
      simp [h, this]
    · have : ¬ σ n < σ m := fun e => h ((hσ.ord n m).mp e)
      simp [h, this, ih]

theorem sortedNames_rename (hσ : Renaming reserved σ) :
    ∀ (xs : List String), sortedNames (xs.map σ) = (sortedNames xs).map σ := by
  intro xs
  induction xs with
  | nil => simp [sortedNames]
  | cons x r ih =>
    have hr : sortedNames (x :: r) = (if (sortedNames r).contains x then sortedNames r else insertSorted x (sortedNames r)) := by
      simp [sortedNames]
    have hr' : sortedNames (σ x :: r.map σ) =
        (if (sortedNames (r.map σ)).contains (σ x) then sortedNames (r.map σ) else insertSorted (σ x) (sortedNames (r.map σ))) := by
      simp [sortedNames]
    rw [List.map_cons, hr', hr, ih, contains_map hσ]
    split
    · rfl
    · exact insertSorted_rename hσ x _

theorem groupsOf_rename (hσ : Renaming reserved σ) (syms : List (String × Sym)) :
    groupsOf (syms.map fun p => (σ p.1, p.2)) = mapGroups σ (groupsOf syms) := by
  unfold groupsOf groupsOfKeys mapGroups
  rw [List.map_map]
  have : (List.map ((fun x => x.1) ∘ fun p : String × Sym => (σ p.1, p.2)) syms) = (syms.map (·.1)).map σ := by
    simp [List.map_map, Function.comp]
  rw [this, sortedNames_rename hσ, List.map_map, List.map_map]
  apply List.map_congr_left
  intro n _
  simp only [Function.comp, List.filter_map, List.map_map]
  congr 2
  apply List.filter_congr
  intro p _
  show (σ p.1 == σ n) = (p.1 == n)
  by_cases e : p.1 = n
  · rw [e]; simp
  · have : σ p.1 ≠ σ n := fun e' => e (hσ.inj _ _ e')
    rw [beq_eq_false_iff_ne.mpr e, beq_eq_false_iff_ne.mpr this]

/-! ### the whole function -/

/-- rename every user-chosen identifier of the module -/
def renameInput (σ : String → String) (inp : Input) : Input :=
  { nss := inp.nss.map (fun p => (p.1, σ p.2))
    entries := inp.entries.map (fun e => { e with name := σ e.name })
    used := inp.used
    locals := inp.locals.map σ }

def renameNamed (σ : String → String) (n : Named) : Named := { n with name := σ n.name }

theorem nsFrom_rename (σ : String → String) (scope : Option Nat) :
    ∀ (l : List (Option Nat × String)) (i : Nat),
      scopeSyms.nsFrom scope (l.map (fun p => (p.1, σ p.2))) i =
        (scopeSyms.nsFrom scope l i).map (fun p => (σ p.1, p.2)) := by
  intro l
  induction l with
  | nil => intro i; simp [scopeSyms.nsFrom]
  | cons a r ih =>
    intro i
    obtain ⟨p, n⟩ := a
    simp only [List.map_cons, scopeSyms.nsFrom]
    split
    · simp [ih]
    · exact ih (i + 1)

theorem scopeSyms_rename (σ : String → String) (inp : Input) (s : Option Nat) :
    scopeSyms (renameInput σ inp) s = (scopeSyms inp s).map (fun p => (σ p.1, p.2)) := by
  unfold scopeSyms renameInput
  simp only [List.map_append, nsFrom_rename, List.filter_map, List.map_map]
  congr 1

theorem checkScopes_ns_rename (σ : String → String) :
    ∀ (l : List (Option Nat × String)) (i : Nat),
      checkScopes.ns (l.map (fun p => (p.1, σ p.2))) i = checkScopes.ns l i := by
  intro l
  induction l with
  | nil => intro i; rfl
  | cons a r ih =>
    intro i
    obtain ⟨p, n⟩ := a
    simp only [List.map_cons, checkScopes.ns]
    cases p with
    | none => exact ih _
    | some q =>
      simp only
      split
      · exact ih _
      · rfl

theorem checkScopes_rename (σ : String → String) (inp : Input) :
    checkScopes (renameInput σ inp) = checkScopes inp := by
  unfold checkScopes renameInput
  simp only [checkScopes_ns_rename, List.length_map, List.all_map]
  rfl

theorem scopeIds_rename (σ : String → String) (inp : Input) : scopeIds (renameInput σ inp) = scopeIds inp := by
  simp [scopeIds, renameInput]

def outOf (scopes : List (Option Nat × St)) : List Named :=
  scopes.flatMap fun p => p.2.out.map fun q => (⟨q.1, p.1, q.2⟩ : Named)

theorem runScopes_rename (hσ : Renaming reserved σ) (inp : Input) :
    ∀ (ss : List (Option Nat)),
    (∃ e, runScopes reserved inp ss = .error e ∧ runScopes reserved (renameInput σ inp) ss = .error e) ∨
    (∃ r r', runScopes reserved inp ss = .ok r ∧ runScopes reserved (renameInput σ inp) ss = .ok r' ∧
      outOf r' = (outOf r).map (renameNamed σ) ∧ r'.flatMap (·.2.gen) = (r.flatMap (·.2.gen)).map σ) := by
  intro ss
  induction ss with
  | nil => exact Or.inr ⟨[], [], rfl, rfl, rfl, rfl⟩
  | cons s rest ih =>
    unfold runScopes
    rw [scopeSyms_rename, groupsOf_rename hσ]
    rcases scopeRun_rename hσ (groupsOf (scopeSyms inp s)) with ⟨e, h1, h2⟩ | ⟨a, a', h1, h2, hr⟩
    · rw [h1, h2]; exact Or.inl ⟨e, rfl, rfl⟩
    · rw [h1, h2]
      rcases ih with ⟨e, h3, h4⟩ | ⟨r, r', h3, h4, ho, hg⟩
      · rw [h3, h4]; exact Or.inl ⟨e, rfl, rfl⟩
      · rw [h3, h4]
        refine Or.inr ⟨_, _, rfl, rfl, ?_, ?_⟩
        · simp only [outOf, List.flatMap_cons, List.map_append] at ho ⊢
          rw [ho, hr.2.2]
          simp [renameNamed, List.map_map, Function.comp]
        · simp only [List.flatMap_cons, List.map_append]
          rw [hg, hr.2.1]

theorem firstFreeLocal_rename (hσ : Renaming reserved σ) (al : List String) {ua ua' : List String} (h : Rel σ ua ua')
    (n : String) : ∀ (fuel k : Nat),
      firstFreeLocal (al.map σ) ua' (σ n) fuel k = (firstFreeLocal al ua n fuel k).map σ := by
  intro fuel
  induction fuel with
  | zero => intro k; simp [firstFreeLocal, Except.map]
  | succ f ih =>
    intro k
    unfold firstFreeLocal
    rw [← hσ.cand, contains_map hσ, h.contains]
    split
    · simp [Except.map]
    · exact ih _

theorem assignLocals_rename (hσ : Renaming reserved σ) (al : List String) :
    ∀ (ls : List String) {ua ua' : List String}, Rel σ ua ua' →
      assignLocals (al.map σ) ua' (ls.map σ) = (assignLocals al ua ls).map (List.map σ) := by
  intro ls
  induction ls with
  | nil => intro ua ua' _; simp [assignLocals, Except.map]
  | cons n r ih =>
    intro ua ua' h
    simp only [List.map_cons, assignLocals, h.contains, List.length_map, h.1]
    split
    · rw [firstFreeLocal_rename hσ al h]
      cases hf : firstFreeLocal al ua n (al.length + ua.length + 1) 0 with
      | error e => simp [Except.map]
      | ok c =>
        simp only [Except.map]
        rw [ih (rel_cons hσ h c)]
        cases assignLocals al (c :: ua) r <;> simp [Except.map]
    · rw [ih h]
      cases assignLocals al ua r <;> simp [Except.map]

theorem numberLocals_rename (σ : String → String) :
    ∀ (ls : List String) (i : Nat), numberLocals (ls.map σ) i = (numberLocals ls i).map (renameNamed σ) := by
  intro ls
  induction ls with
  | nil => intro i; rfl
  | cons x r ih => intro i; simp [numberLocals, ih, renameNamed]

theorem usedNames_rename (σ : String → String) (inp : Input) (out : List Named) :
    usedNames (renameInput σ inp) (out.map (renameNamed σ)) = (usedNames inp out).map σ := by
  unfold usedNames
  induction out with
  | nil => rfl
  | cons n r ih =>
    simp only [List.map_cons, List.filterMap_cons, renameNamed, renameInput] at ih ⊢
    by_cases hc : ((n.sym.kind == Kind.func || n.sym.kind == Kind.global) && inp.used.contains n.sym) = true
    · simp only [hc, if_true, List.map_cons]
      rw [ih]
    · simp only [hc]
      exact ih

theorem finish_rename (hσ : Renaming reserved σ) (inp : Input) {r r' : List (Option Nat × St)}
    (ho : outOf r' = (outOf r).map (renameNamed σ)) (hg : r'.flatMap (·.2.gen) = (r.flatMap (·.2.gen)).map σ) :
    finish reserved (renameInput σ inp) r' = (finish reserved inp r).map (List.map (renameNamed σ)) := by
  unfold finish
  simp only
  have ho' : (r'.flatMap fun p => p.2.out.map fun q => (⟨q.1, p.1, q.2⟩ : Named)) = (outOf r).map (renameNamed σ) := ho
  rw [ho']
  have hsyms : ((outOf r).map (renameNamed σ)).map (·.sym) = (outOf r).map (·.sym) := by
    simp [List.map_map, Function.comp, renameNamed]
  rw [hsyms]
  show (if hasDup ((outOf r).map (·.sym)) = true then _ else _) = _
  change _ = Except.map _ (if hasDup ((outOf r).map (·.sym)) = true then _ else _)
  split
  · simp [Except.map]
  · rw [usedNames_rename, hg]
    have hrel : Rel σ (reserved ++ r.flatMap (·.2.gen) ++ usedNames inp (outOf r))
        (reserved ++ (r.flatMap (·.2.gen)).map σ ++ (usedNames inp (outOf r)).map σ) :=
      rel_append (rel_append (rel_reserved hσ) (rel_map hσ _)) (rel_map hσ _)
    have := assignLocals_rename hσ inp.locals inp.locals hrel
    simp only [renameInput]
    rw [this]
    simp only [outOf, List.append_assoc]
    generalize assignLocals inp.locals _ inp.locals = A
    cases A with
    | error e => simp [Except.map]
    | ok ls => simp [Except.map, numberLocals_rename]

/-- **`NameMap::build` commutes with the renaming** -/
theorem build_rename (hσ : Renaming reserved σ) (inp : Input) :
    build reserved (renameInput σ inp) = (build reserved inp).map (List.map (renameNamed σ)) := by
  unfold build
  rw [checkScopes_rename, scopeIds_rename]
  cases checkScopes inp with
  | error e => simp [Except.map]
  | ok u =>
    simp only
    rcases runScopes_rename hσ inp (scopeIds inp) with ⟨e, h1, h2⟩ | ⟨r, r', h1, h2, ho, hg⟩
    · rw [h1, h2]; simp [Except.map]
    · rw [h1, h2]
      exact finish_rename hσ inp ho hg

/-! ### renamings that satisfy the hypotheses: putting a prefix in front of every identifier -/

theorem list_prefix_lt (p : List Char) (a b : List Char) : p ++ a < p ++ b ↔ a < b := by
  induction p with
  | nil => simp
  | cons c r ih =>
    simp only [List.cons_append, List.cons_lt_cons_iff, ih]
    constructor
    · rintro (h | ⟨_, h⟩)
      · exact absurd h (by simp)
      · exact h
    · intro h; exact Or.inr ⟨trivial, h⟩

theorem prefix_renaming (pre : String) : Renaming [] (fun n => pre ++ n) where
  inj := fun a b h => (String.append_right_inj pre).mp h
  res := fun x => by simp
  cand := fun n k => by simp [Names.cand, String.append_assoc]
  ord := fun a b => by
    rw [String.lt_iff, String.lt_iff, String.toList_append, String.toList_append]
    exact list_prefix_lt _ _ _

end RsslVerif.Lemmas.NamesRename

//! C04 harness (stub until built)
use crate::util::*;

pub fn run(_args: &Args, _out: &mut Out) {
    eprintln!("C04: harness not built yet");
    std::process::exit(2);
}

import RsslVerif.Lemmas.SlotsInline
import RsslVerif.Lemmas.SlotsCompile
import RsslVerif.Lemmas.SlotsMeta
import RsslVerif.Lemmas.SlotsFront
/-!
# C06 — binding slots are allocated completely, contiguously and without overlap

All theorems are about `Model.Slots.assign` (the model of `Module::assign_api_bindings`) instantiated
with the tables regenerated from `/repo` (`Gen.SlotTables`).  They hold for every declaration list of
any length, every default group and every parameter set satisfying `ParamsOk` — which every parameter
set `compile()` can produce does (`params_of_targets_ok`).  Arithmetic is unbounded (`Nat`); the Rust
code works in `u32`, so the statements apply below 2^32 slots per group (C08 reports the rest).
-/
namespace RsslVerif.Thm.C06
open RsslVerif.Gen.SlotTables RsslVerif.Model.Slots RsslVerif.Spec.Slots RsslVerif.Lemmas.Slots

/-- Tie to the source: the generated per-kind cost table is the specified one. -/
theorem slice_cost_table (metal : Bool) (k : ObjKind) :
    sliceCost metal (some k) = if metal && doubled k then 2 else 1 :=
  sliceCost_spec metal k

/-- Tie to the source: every parameter set `compile()` builds satisfies the side condition. -/
theorem params_of_targets_ok (t : Target) (sba : Bool) : ParamsOk (paramsFor t sba) :=
  paramsFor_ok t sba

/-- Tie to the source: the four configurations are the ones the property names. -/
theorem params_of_targets :
    paramsFor .HlslForDirectX false = ⟨true, false, false, true⟩ ∧
    paramsFor .HlslForVulkan false = ⟨false, false, false, true⟩ ∧
    paramsFor .HlslForVulkan true = ⟨false, true, false, true⟩ ∧
    paramsFor .Msl false = ⟨false, false, true, false⟩ ∧
    paramsFor .MetalBytecode false = ⟨false, false, true, false⟩ ∧
    bufferAddressOnlyVulkan = true := by
  decide

/-- Tie to the source: `process_definition` / `assign_api_bindings` still have, statement by statement,
    the shape that `Model.Slots.step` / `assign` mirror (16 regex facts over the current source; since fix 774c0b4
    they include: only a type with a register class is bound, that class is the reported slot type, and the body of
    `process_definition` contains no `panic!`). -/
theorem alloc_shape_as_modelled :
    allocShape = ⟨true, true, true, true, true, true, true, true, true, true, true, true, true, true, true, true⟩ := by decide

/-- Tie to the source: `get_register_type` gives a register class exactly to the kinds the property calls
    resources (`Spec.resource`, written by hand); the others return `None` and are therefore never bound. -/
theorem register_class_iff_resource (k : ObjKind) : (registerType k).isSome = resource k :=
  registerType_isSome_spec k

/-- Index slots: in every group the index-bound declarations receive, in declaration order,
    consecutive ranges of exactly the required length starting at zero — no gap, no overlap —
    and they end at the group's specified total. -/
theorem index_ranges_tile {p : Params} (hp : ParamsOk p) {dflt : Nat} {ds : List Decl} {res : Result}
    (h : assign p dflt ds = .ok res) (g : Nat) :
    TilesTo 0 (indexRanges p g ds res.bindings) (totalIndex p dflt g ds) := by
  unfold assign at h
  split at h
  · cases h
  · rename_i st bs hrun
    cases h
    obtain ⟨_, t1, _, e1, _⟩ := run_spec hp g hrun
    simp only [State.init, Counter.empty] at t1 e1
    rw [e1] at t1
    simpa using t1

/-- Inline constants: in every group the buffer addresses receive consecutive 8-byte offsets from 0
    in declaration order, ending at the block's specified size. -/
theorem inline_offsets_tile {p : Params} (hp : ParamsOk p) {dflt : Nat} {ds : List Decl} {res : Result}
    (h : assign p dflt ds = .ok res) (g : Nat) :
    TilesTo 0 (inlineRanges p g ds res.bindings) (totalInline p dflt g ds) := by
  unfold assign at h
  split at h
  · cases h
  · rename_i st bs hrun
    cases h
    obtain ⟨_, _, t2, _, e2⟩ := run_spec hp g hrun
    simp only [State.init, Counter.empty] at t2 e2
    rw [e2] at t2
    simpa using t2

/-- per-declaration completeness: which declarations are bound, to which group, and by which
    mechanism (index vs inline constant). -/
def Agrees (p : Params) (dflt : Nat) : List Decl → List (Option Binding) → Prop
  | [], [] => True
  | d :: ds, ob :: bs =>
    (match ob with
     | none => bound p d = false
     | some b => bound p d = true ∧ b.set = group dflt d ∧
        (match b.loc with
         | .index _ => inlineBytes p d = 0
         | .inline _ => inlineBytes p d = 8)) ∧ Agrees p dflt ds bs
  | _, _ => False

theorem run_agrees {p : Params} (hp : ParamsOk p) {dflt : Nat} :
    ∀ {ds : List Decl} {st st' : State} {bs : List (Option Binding)},
      run p dflt st ds = .ok (st', bs) → Agrees p dflt ds bs := by
  intro ds
  induction ds with
  | nil => intro st st' bs h; simp [run] at h; obtain ⟨rfl, rfl⟩ := h; trivial
  | cons d ds ih =>
    intro st st' bs h
    unfold run at h
    split at h
    · cases h
    · rename_i st1 ob hstep
      split at h
      · cases h
      · rename_i st2 bs' hrun
        cases h
        refine ⟨?_, ih hrun⟩
        obtain ⟨_, _, hob⟩ := step_spec hp hstep
        cases ob with
        | none =>
          cases hbb : bound p d with
          | false => rfl
          | true => simp [expected, hbb] at hob
        | some b =>
          simp only [Option.map, expected, setLoc] at hob
          split at hob
          · rename_i hb
            simp only [Option.some.injEq, Prod.mk.injEq] at hob
            obtain ⟨hset, hloc⟩ := hob
            refine ⟨hb, hset, ?_⟩
            by_cases hz : inlineBytes p d = 0
            · simp only [hz, if_true] at hloc; rw [hloc]; exact hz
            · simp only [hz, if_false] at hloc; rw [hloc]
              cases d with
              | other => simp [inlineBytes] at hz
              | cbuffer _ => simp [inlineBytes] at hz
              | global s ss k l =>
                cases k with
                | none => simp [inlineBytes] at hz
                | some k =>
                  simp only [inlineBytes] at hz ⊢
                  split
                  · rename_i h1; simp [h1] at hz
                  · split
                    · rename_i h1 h2; simp [h1, h2] at hz
                    · split
                      · rfl
                      · rename_i h1 h2 h3; simp [h1, h2, h3] at hz
          · cases hob

/-- Completeness: exactly the bindable declarations are bound (cbuffers and globals of a resource kind
    — `Spec.resource`; since fix 774c0b4 a global of a non-resource object kind such as `RayDesc` is not —
    minus static samplers where the target implements them in source); non-resources take nothing;
    each lands in its explicit group or else the default group; buffer addresses go inline
    exactly when the target supports them. -/
theorem binding_complete {p : Params} (hp : ParamsOk p) {dflt : Nat} {ds : List Decl} {res : Result}
    (h : assign p dflt ds = .ok res) : Agrees p dflt ds res.bindings := by
  unfold assign at h
  split at h
  · cases h
  · rename_i st bs hrun
    cases h
    exact run_agrees hp hrun

/-- Inline constant blocks: one per group that has buffer addresses, sorted by group, whose size is
    the sum of its members and whose slot is the group's total index-slot count (it follows all
    other slots of the group). -/
theorem inline_buffers_correct {p : Params} (hp : ParamsOk p) {dflt : Nat} {ds : List Decl}
    {res : Result} (h : assign p dflt ds = .ok res) :
    (∀ b ∈ res.inlineBufs, b.sizeInBytes = totalInline p dflt b.set ds ∧
        b.apiLocation = totalIndex p dflt b.set ds ∧ 0 < b.sizeInBytes) ∧
    (∀ g, 0 < totalInline p dflt g ds → ∃ b ∈ res.inlineBufs, b.set = g) ∧
    res.inlineBufs.Pairwise (fun a b => a.set < b.set) := by
  unfold assign at h
  split at h
  · cases h
  · rename_i st bs hrun
    cases h
    have hk := run_inline_inv hp hrun (by simpa [State.init] using KeysInv.empty)
    have hspec := fun g => run_spec hp g hrun
    simp only [inlineBuffers]
    refine ⟨?_, ?_, ?_⟩
    · intro b hb
      rw [mem_sortBufs] at hb
      simp only [List.mem_map] at hb
      obtain ⟨g, hg, rfl⟩ := hb
      obtain ⟨_, _, _, e1, e2⟩ := hspec g
      simp only [State.init, Counter.empty] at e1 e2
      refine ⟨by simpa using e2, by simpa using e1, (hk.2 g).1 hg⟩
    · intro g hg
      obtain ⟨_, _, _, _, e2⟩ := hspec g
      simp only [State.init, Counter.empty] at e2
      have : g ∈ st.inline.keys := (hk.2 g).2 (by omega)
      exact ⟨_, mem_sortBufs.2 (List.mem_map_of_mem this), rfl⟩
    · apply sortBufs_sorted
      simpa [List.map_map, Function.comp_def] using hk.1

/-- The allocator never panics: for every parameter set, default group and declaration sequence — including globals
    of the object kinds without a register class (`RayDesc`, `RayQuery`, `TriangleStream`, the mips views), on which
    `get_register_type` used to panic before fix 774c0b4 — `assign` returns a result.  (Was
    `assign_ok_of_root_kinds`, which had to assume every global's kind has a register class.) -/
theorem assign_never_panics (p : Params) (dflt : Nat) (ds : List Decl) :
    ∃ res, assign p dflt ds = .ok res := by
  have key : ∀ (ds : List Decl) (st : State), ∃ r, run p dflt st ds = .ok r := by
    intro ds
    induction ds with
    | nil => intro st; exact ⟨_, rfl⟩
    | cons d ds ih =>
      intro st
      have hstep : ∃ r, step p dflt st d = .ok r := by
        cases d with
        | other => exact ⟨_, rfl⟩
        | cbuffer s => exact ⟨_, rfl⟩
        | global s ss k l =>
          cases k with
          | none => unfold step; simp only []; split <;> exact ⟨_, rfl⟩
          | some k =>
            unfold step; simp only []
            split
            · exact ⟨_, rfl⟩
            · split
              · exact ⟨_, rfl⟩
              · split <;> exact ⟨_, rfl⟩
      obtain ⟨⟨st1, ob⟩, h1⟩ := hstep
      obtain ⟨⟨st2, bs⟩, h2⟩ := ih st1
      exact ⟨(st2, ob :: bs), by simp [run, h1, h2]⟩
  obtain ⟨⟨st, bs⟩, hr⟩ := key ds State.init
  exact ⟨{ bindings := bs, inlineBufs := inlineBuffers st }, by simp [assign, hr]⟩

/-- A global of a non-resource object kind takes nothing and moves nothing: from every state the allocator step
    returns the unchanged counters and no binding, whatever its group, array length and the parameter set. -/
theorem non_resource_global_is_inert {p : Params} {dflt : Nat} {st : State} {s : Option Nat} {ss : Bool}
    {k : ObjKind} {l : Option Nat} (hk : resource k = false) :
    step p dflt st (.global s ss (some k) l) = .ok (st, none) := by
  have hreg := registerType_none_iff.2 hk
  unfold step; simp only [hreg]
  split <;> rfl

/-! Non-vacuity: a concrete mixed sequence meets every hypothesis, on two configurations. -/
def exampleDecls : List Decl :=
  [ .cbuffer none, .global (some 1) false (some .Texture2D) (some 3), .other,
    .global none false (some .RWStructuredBuffer) none, .global none true (some .SamplerState) none,
    .global none false (some .BufferAddress) none, .global none false none none,
    .global (some 1) false (some .RWBufferAddress) none, .global none false (some .RayDesc) none,
    .global none false (some .ByteAddressBuffer) (some 2) ]

example : ParamsOk (paramsFor .HlslForVulkan true) ∧ ParamsOk (paramsFor .Msl false) :=
  ⟨paramsFor_ok _ _, paramsFor_ok _ _⟩

example : (assign (paramsFor .Msl false) 0 exampleDecls).toOption.map (·.bindings.map (·.map setLoc)) =
    some [some (0, .index 0), some (1, .index 0), none, some (0, .index 1), none, some (0, .index 3),
          none, some (1, .index 3), none, some (0, .index 5)] := by decide

example : (assign (paramsFor .HlslForVulkan true) 0 exampleDecls).toOption.map (·.inlineBufs) =
    some [⟨0, 5, 8⟩, ⟨1, 3, 8⟩] := by decide

/-! ## The end-to-end leg: what `compile()` returns per pipeline

`Model.SlotsCompile` mirrors `compile()` / `build_pipeline()` / `select_pipeline` / the guard of
`assign_api_bindings` and the metadata construction of both exporters. -/
section EndToEnd
open RsslVerif.Gen.SlotCompile RsslVerif.Model.SlotsCompile RsslVerif.Lemmas.SlotsCompile

/-- Tie to the source: `compile()` keeps one immutable type-checked module, `build_pipeline` takes no state shared
    between pipelines, clones the unbound module, selects the pipeline by name and calls `assign_api_bindings`
    unconditionally; the allocator never reads a language-level slot index; an explicit group is the register space or the
    overriding attribute and a pipeline's default group is its DefaultBindGroup property (0 if absent); in the type
    checker every declarator of a global-variable declaration starts from a FRESH language binding (nothing but the
    attribute result, the base type and the storage class is computed before the loop over the declarators; the binding
    the annotations write is the `lang_slot` of the global `insert_global` has just pushed with
    `LanguageBinding::default()`; no file but globals.rs assigns a language binding), the annotation loop, the attribute overrides after it, the whole attribute loop
    (`parse_attributes_for_global`, `parse_expr_as_u32`), the storage-class loop of `parse_globaltype` and the cbuffer
    path have the statement sequence `Model.SlotsFront` mirrors; the exporters read that bound module and list
    bound root definitions in order, grouped by set
    (42 comparisons with the comment-stripped, whitespace-normalised current source; wave 5 added
    `cbufferMemberLoopShape` and `optionsNeverReachBinding`). -/
theorem compile_shape_as_modelled :
    compileShape = ⟨true, true, true, true, true, true, true, true, true, true, true, true, true, true, true, true,
                    true, true, true, true, true, true, true, true, true, true, true, true, true, true, true, true,
                    true, true, true, true, true, true, true, true, true, true⟩ := by decide

/-- **Per-pipeline default group.**  For every module the type checker can hand to `compile()` (any declaration
    sequence, any list of pipelines) and every argument set: the call returns one result per requested pipeline
    (all / the named one / the single no-pipeline build), and the k-th result is exactly the allocator run
    `assign (paramsFor target) (default group of the k-th requested pipeline) decls` on the module's whole declaration
    sequence, followed by the exporter's description of it — whatever other pipelines the file contains and
    whatever was built before it. -/
theorem per_pipeline_default_group {a : Args} {ir : Module} {outs : List Built}
    (hfresh : ir.assigned = false) (hsel : ir.selected = none) (h : compile a ir = .ok outs) :
    outs.map (fun b => (Except.ok b.slots : Except String Result)) =
      (requestedDefaults a.mode ir.pipelines).map
        (fun d => assign (paramsFor a.target a.supportBufferAddress) d ir.decls) ∧
    outs.map (fun b => (Except.ok b.groups : Except Err (List MetaGroup))) =
      outs.map (fun b => describe a.target ir.names ir.decls b.slots) := by
  have key := compile_spec hfresh hsel h
  clear h
  generalize requestedDefaults a.mode ir.pipelines = ds at key
  induction outs generalizing ds with
  | nil => cases ds with
    | nil => simp
    | cons d ds => simp [AllBuiltFor] at key
  | cons b bs ih => cases ds with
    | nil => simp [AllBuiltFor] at key
    | cons d ds =>
      obtain ⟨⟨h1, h2⟩, hrest⟩ := key
      obtain ⟨i1, i2⟩ := ih ds hrest
      exact ⟨by simp [h1, i1], by simp [h2, i2]⟩

/-- The module `typer::type_check` returns satisfies the side conditions (nothing selected, nothing assigned). -/
theorem fresh_module_unbound (names : List String) (decls : List Decl) (ps : List Pipeline) :
    (Module.fresh names decls ps).assigned = false ∧ (Module.fresh names decls ps).selected = none := ⟨rfl, rfl⟩

/-- Hence every C06 statement holds for every returned pipeline with ITS default group: index ranges tile,
    inline offsets tile, exactly the bindable declarations are bound (ungrouped ones in this pipeline's default
    group), inline blocks are correct. -/
theorem per_pipeline_tiling {a : Args} {ir : Module} {outs : List Built}
    (hfresh : ir.assigned = false) (hsel : ir.selected = none) (h : compile a ir = .ok outs) :
    ∀ (k : Nat) (b : Built), outs[k]? = some b → ∃ d, (requestedDefaults a.mode ir.pipelines)[k]? = some d ∧
      let p := paramsFor a.target a.supportBufferAddress
      (∀ g, TilesTo 0 (indexRanges p g ir.decls b.slots.bindings) (totalIndex p d g ir.decls)) ∧
      (∀ g, TilesTo 0 (inlineRanges p g ir.decls b.slots.bindings) (totalInline p d g ir.decls)) ∧
      Agrees p d ir.decls b.slots.bindings ∧
      (∀ ib ∈ b.slots.inlineBufs, ib.sizeInBytes = totalInline p d ib.set ir.decls ∧
        ib.apiLocation = totalIndex p d ib.set ir.decls) := by
  intro k b hb
  have key := compile_spec hfresh hsel h
  have hlen := key.length
  have hk : k < (requestedDefaults a.mode ir.pipelines).length := by
    rw [hlen]; exact (List.getElem?_eq_some_iff.1 hb).1
  refine ⟨(requestedDefaults a.mode ir.pipelines)[k], List.getElem?_eq_getElem hk, ?_⟩
  have hb' := (key.get (List.getElem?_eq_getElem hk) hb).1
  have hp := paramsFor_ok a.target a.supportBufferAddress
  exact ⟨fun g => index_ranges_tile hp hb' g, fun g => inline_offsets_tile hp hb' g, binding_complete hp hb',
    fun ib hib => ⟨((inline_buffers_correct hp hb').1 ib hib).1, ((inline_buffers_correct hp hb').1 ib hib).2.1⟩⟩

/-- Independence of the other pipelines, in the form the seeded defect violated: building the k-th pipeline of a
    file by name gives exactly one result, equal to the k-th entry of the whole-file result. -/
theorem by_name_agrees_with_whole_file {t : Target} {sba : Bool} {ir : Module} {outs outs' : List Built}
    {k : Nat} {p : Pipeline} {b : Built}
    (hfresh : ir.assigned = false) (hsel : ir.selected = none)
    (hall : compile { target := t, supportBufferAddress := sba, mode := .all } ir = .ok outs)
    (hp : ir.pipelines[k]? = some p) (hb : outs[k]? = some b)
    (hname : compile { target := t, supportBufferAddress := sba, mode := .named p.name } ir = .ok outs') :
    outs' = [b] := by
  have kall := compile_spec hfresh hsel hall
  have kname := compile_spec hfresh hsel hname
  simp only [requestedDefaults] at kall kname
  have hbk : IsBuiltFor t (paramsFor t sba) ir p.defaultGroup b := kall.get (by simp [hp]) hb
  have hpm : p ∈ ir.pipelines := List.mem_of_getElem? hp
  -- by-name mode: the loop succeeded, the result list has exactly one element
  unfold compile at hname
  simp only [] at hname
  split at hname
  · cases hname
  · cases hl : buildLoop t ir (paramsFor t sba) (some p.name) ir.pipelines with
    | error e => simp [hl] at hname
    | ok bs =>
      simp only [hl] at hname
      split at hname
      · cases hname
      · rename_i hlen
        split at hname
        · cases hname
        · rename_i hne
          cases hname
          -- p itself was built, so its name is unique in the module
          obtain ⟨bp, hbp⟩ := buildLoop_ok_mem hl p hpm (by simp [keeps])
          obtain ⟨m', hm'⟩ := buildPipeline_ok_select hbp
          have huniq := selectPipeline_unique hm'
          have hfil : ∀ q ∈ ir.pipelines.filter (fun q => decide (q.name = p.name)), q = p := by
            intro q hq
            simp only [List.mem_filter, decide_eq_true_eq] at hq
            exact huniq q hq.1 p hpm hq.2 rfl
          cases outs' with
          | nil => simp at hne
          | cons b' rest =>
            cases rest with
            | cons r rs => simp at hlen
            | nil =>
              cases hf : ir.pipelines.filter (fun q => decide (q.name = p.name)) with
              | nil => rw [hf] at kname; simp [AllBuiltFor] at kname
              | cons q qs =>
                rw [hf] at kname hfil
                have hq : q = p := hfil q (by simp)
                subst hq
                simp only [List.map_cons] at kname
                rw [IsBuiltFor.unique kname.1 hbk]

/-! ### The reflection metadata is the allocation -/
open RsslVerif.Lemmas.SlotsMeta

theorem inlineBytes_zero_of_no_buffer_address {p : Params} (h : p.supportBufferAddress = false) (d : Decl) :
    inlineBytes p d = 0 := by
  cases d with
  | other => rfl
  | cbuffer _ => rfl
  | global s ss k l =>
    cases k with
    | none => rfl
    | some k => simp [inlineBytes, isInline, h]

theorem totalInline_zero_of_no_buffer_address {p : Params} (h : p.supportBufferAddress = false) (dflt g : Nat) :
    ∀ ds : List Decl, totalInline p dflt g ds = 0
  | [] => rfl
  | d :: ds => by
    have ih := totalInline_zero_of_no_buffer_address h dflt g ds
    unfold totalInline at ih ⊢
    simp only [List.map_cons, List.sum_cons, inlineBytes_zero_of_no_buffer_address h, ite_self] at ih ⊢
    omega

theorem agrees_all_index {p : Params} {dflt : Nat} (h : p.supportBufferAddress = false) :
    ∀ {ds : List Decl} {bs : List (Option Binding)}, Agrees p dflt ds bs →
      ∀ ob ∈ bs, ∀ b, ob = some b → ∃ i, b.loc = .index i
  | [], [], _, ob, hob, _, _ => by simp at hob
  | d :: ds, ob0 :: bs, ha, ob, hob, b, hb => by
    obtain ⟨h0, hrest⟩ := ha
    rcases List.mem_cons.1 hob with rfl | hob
    · subst hb
      simp only [] at h0
      cases hl : b.loc with
      | index i => exact ⟨i, rfl⟩
      | inline o =>
        rw [hl] at h0
        have := inlineBytes_zero_of_no_buffer_address h d
        omega
    · exact agrees_all_index h hrest ob hob b hb
  | [], _ :: _, ha, _, _, _, _ => by simp [Agrees] at ha
  | _ :: _, [], ha, _, _, _, _ => by simp [Agrees] at ha

theorem metal_params_no_buffer_address (t : Target) (sba : Bool) (h : isMetal t = true) :
    (paramsFor t sba).supportBufferAddress = false := by
  cases t <;> simp_all [isMetal, paramsFor]

/-- **What is observed is what was allocated.**  For every pipeline `compile()` returns, on every target, the
    returned metadata lists in group `g` exactly the bound declarations whose binding is in group `g`, in
    declaration order, each with the allocator's location and its descriptor count, and the group's inline block
    is the allocator's inline block of that set (none on Metal, where there are none).  On Metal this includes
    that the exporter's per-group sort by index changes nothing, because the index ranges tile in declaration order. -/
theorem metadata_is_the_allocation {a : Args} {ir : Module} {outs : List Built}
    (hfresh : ir.assigned = false) (hsel : ir.selected = none) (h : compile a ir = .ok outs) :
    ∀ b ∈ outs, ∀ g,
      bindingsAt b.groups g = entriesOf g ir.names ir.decls b.slots.bindings ∧
      inlineAt b.groups g =
        (b.slots.inlineBufs.find? (fun x => x.set == g)).map (fun x => (x.apiLocation, x.sizeInBytes)) := by
  intro b hb g
  obtain ⟨d, _, hassign, hdesc⟩ := (compile_spec hfresh hsel h).mem b hb
  have hp := paramsFor_ok a.target a.supportBufferAddress
  have hbuf := inline_buffers_correct hp hassign
  cases hm : isMetal a.target with
  | false => exact describe_hlsl_spec hm hbuf.2.2 hdesc g
  | true =>
    have hsba := metal_params_no_buffer_address a.target a.supportBufferAddress hm
    have hidx := agrees_all_index hsba (binding_complete hp hassign)
    have hnil : b.slots.inlineBufs = [] := by
      cases hl : b.slots.inlineBufs with
      | nil => rfl
      | cons x xs =>
        obtain ⟨h1, _, h3⟩ := hbuf.1 x (by simp [hl])
        have := totalInline_zero_of_no_buffer_address hsba d x.set ir.decls
        omega
    obtain ⟨m1, m2⟩ := describe_metal_spec hm (fun g' => ⟨_, index_ranges_tile hp hassign g'⟩) hidx hdesc g
    exact ⟨m1, by simp [m2, hnil]⟩

/-! Non-vacuity: two pipelines with different default groups over one ungrouped buffer address and one explicit
    group — the whole-file call returns both layouts, each in its own default group. -/
def examplePipelines : List Pipeline := [⟨"P0", 2⟩, ⟨"P1", 0⟩]
def exampleModule : Module :=
  Module.fresh ["g_a", "g_b", "cb"]
    [.global none false (some .RWBufferAddress) none, .global (some 1) false (some .Texture2D) (some 2), .cbuffer none]
    examplePipelines

example : (compile ⟨.HlslForVulkan, true, .all⟩ exampleModule).toOption.map (·.map (·.groups)) =
    some [ [⟨[], none⟩, ⟨[⟨"g_b", .index 0, 2⟩], none⟩, ⟨[⟨"g_a", .inline 0, 1⟩, ⟨"cb", .index 0, 1⟩], some (1, 8)⟩],
           [⟨[⟨"g_a", .inline 0, 1⟩, ⟨"cb", .index 0, 1⟩], some (1, 8)⟩, ⟨[⟨"g_b", .index 0, 2⟩], none⟩] ] := by decide

example : (compile ⟨.Msl, false, .named "P1"⟩ exampleModule).toOption.map (·.map (·.groups)) =
    some [ [⟨[⟨"g_a", .index 0, 1⟩, ⟨"cb", .index 2, 1⟩], none⟩, ⟨[⟨"g_b", .index 0, 2⟩], none⟩] ] := by decide

end EndToEnd

/-! ## Per declarator: how every bound global gets its explicit group (`Model.SlotsFront`) -/
section PerDeclarator
open RsslVerif.Gen.SlotCompile RsslVerif.Model.SlotsCompile RsslVerif.Lemmas.SlotsCompile
open RsslVerif.Model.SlotsFront RsslVerif.Lemmas.SlotsFront

/-- The attributes of a declaration are read once, in order: an ill-formed one rejects the declaration; otherwise
    the group / binding index in force is the one named by the LAST attribute that names one
    (`rssl::bind_group(g)`, `vk::binding(i)` / `vk::binding(i, g)`), `bindless` is set by any `rssl::bindless`. -/
theorem attribute_fold_later_wins {attrs : List Attr} {attr : AttrResult} (h : parseAttributes attrs = .ok attr) :
    attrs.all wellFormed = true ∧
    attr.groupOverride = lastSome attrGroup attrs ∧
    attr.indexOverride = lastSome attrIndex attrs ∧
    attr.bindless = attrs.any isBindless :=
  ⟨attrLoop_wellFormed attrs h, parseAttributes_group h, parseAttributes_index h, parseAttributes_bindless h⟩

/-- On the fresh slot of one name: if its annotations are accepted, they are all `register(..)` annotations and every
    one of them (the parser never produces an empty `register()`) asks for the same language binding — the one the
    name ends up with before the attribute overrides.  So "the space of ITS register annotation" is unambiguous. -/
theorem accepted_annotations_agree {e : RegT} {conflict : FrontErr} {name : String} {anns : List Annotation}
    {s : LangBinding} (h : annotate (some e) conflict name LangBinding.default anns = .ok s) :
    (∀ a ∈ anns, ∃ r, a = .register r) ∧
    ((∀ r, Annotation.register r ∈ anns → Register.nontrivial r) →
      ∀ r, Annotation.register r ∈ anns → bindingOf e name r = some s) :=
  ⟨annotate_all_registers h, fun hnt => annotate_fresh_agree hnt h⟩

/-- **The group of declarator j depends only on its own annotations and the declaration-level attributes.**
    For every declaration (any attributes, base type, storage class, any number of declarators with any annotations)
    and every registry it is appended to: if the type checker accepts it, it appends exactly one global per
    declarator, in declarator order, and the j-th of them is literally what the declaration consisting of THAT
    declarator alone gives on an empty registry; its name, shape and static-sampler flag are the declarator's and
    its explicit group is `explicitGroup attrs (its own annotations)` — the last group attribute of the declaration,
    else the space of its own register annotation, else none. -/
theorem declarator_groups_independent {σ : Type} (attrs : List Attr) (base : Option ObjKind) (isExtern : Bool)
    {registry registry' : List (GlobalVar σ)} {ds : List (Declarator σ)}
    (h : parseGlobalVariable attrs base isExtern registry ds = .ok registry') :
    ∃ news : List (GlobalVar σ), registry' = registry ++ news ∧ news.length = ds.length ∧
      ∀ (j : Nat) (d : Declarator σ), ds[j]? = some d →
        ∃ g, news[j]? = some g ∧
          parseGlobalVariable attrs base isExtern [] [d] = .ok [g] ∧
          g.name = d.name ∧ g.shape = d.shape ∧ g.staticSampler = d.staticSampler ∧
          g.langSlot.set = explicitGroup attrs d.annotations := by
  unfold parseGlobalVariable at h
  split at h
  · cases h
  · rename_i attr ha
    obtain ⟨news, h1, h2, h3⟩ := declaratorLoop_spec h
    refine ⟨news, h1, h2, ?_⟩
    intro j d hd
    obtain ⟨g, hg, hs⟩ := h3 j d hd
    obtain ⟨n1, n2, n3, _, n5⟩ := declaratorStep_single ha hs
    refine ⟨g, hg, ?_, n1, n2, n3, n5⟩
    simp [parseGlobalVariable, ha, declaratorLoop, hs]

/-- The same in the form the seeded defect C06-4 violated: two accepted declarations with the same attributes —
    whatever their other declarators say and wherever they stand — give a declarator with the same annotations the
    same explicit group. -/
theorem declarator_group_depends_only_on_itself {σ : Type} (attrs : List Attr) (base base' : Option ObjKind)
    (isExtern isExtern' : Bool) {r1 r1' r2 r2' : List (GlobalVar σ)} {ds ds' : List (Declarator σ)}
    (h : parseGlobalVariable attrs base isExtern r1 ds = .ok r1')
    (h' : parseGlobalVariable attrs base' isExtern' r2 ds' = .ok r2')
    {j j' : Nat} {d d' : Declarator σ} (hd : ds[j]? = some d) (hd' : ds'[j']? = some d')
    (hsame : d.annotations = d'.annotations) :
    ∃ g g', r1'[r1.length + j]? = some g ∧ r2'[r2.length + j']? = some g' ∧ g.langSlot.set = g'.langSlot.set := by
  obtain ⟨n, e1, _, a1⟩ := declarator_groups_independent attrs base isExtern h
  obtain ⟨n', e2, _, a2⟩ := declarator_groups_independent attrs base' isExtern' h'
  obtain ⟨g, hg, _, _, _, _, s1⟩ := a1 j d hd
  obtain ⟨g', hg', _, _, _, _, s2⟩ := a2 j' d' hd'
  refine ⟨g, g', ?_, ?_, by rw [s1, s2, hsame]⟩
  · rw [e1, List.getElem?_append_right (by omega)]; simpa using hg
  · rw [e2, List.getElem?_append_right (by omega)]; simpa using hg'

/-- the allocator declaration of one declarator of an accepted declaration -/
def declOf (attrs : List Attr) (base : Option ObjKind) (isExtern : Bool) (d : Declarator Shape) : String × Decl :=
  (d.name, .global (explicitGroup attrs d.annotations) d.staticSampler
    (if isExtern && d.shape.peelable then base else none) (if d.shape.peelable then d.shape.len else none))

/-- **Declaration order = declarator order, one allocator declaration per declarator.**  For every accepted file that
    contains the declaration `attrs base mods ds` between any root definitions `pre` and `post`: what the slot
    allocator is given is (front end of `pre`) ++ (one entry per declarator, in order, `declOf` of that declarator
    alone) ++ (front end of `post`) — no state is carried between root definitions or between declarators. -/
theorem front_lists_each_declarator {pre post : List RootItem} {attrs : List Attr} {base : Option ObjKind}
    {mods : List StorageMod} {ds : List (Declarator Shape)} {out : List (String × Decl)}
    (h : frontItems (pre ++ RootItem.globals attrs base mods ds :: post) = .ok out) :
    ∃ opre opost isExtern, frontItems pre = .ok opre ∧ frontItems post = .ok opost ∧
      isExternStorage mods = .ok isExtern ∧
      out = opre ++ ds.map (declOf attrs base isExtern) ++ opost := by
  obtain ⟨opre, orest, h1, h2, h3⟩ := frontItems_append pre _ h
  have h2' : frontItems ([RootItem.globals attrs base mods ds] ++ post) = .ok orest := by simpa using h2
  obtain ⟨omid, opost, h4, h5, h6⟩ := frontItems_append _ post h2'
  simp only [frontItems] at h4
  split at h4
  · cases h4
  · rename_i xs hx
    simp only [List.append_nil, Except.ok.injEq] at h4
    subst h4
    split at hx
    · cases hx
    · rename_i isExtern hext
      refine ⟨opre, opost, isExtern, h1, h5, hext, ?_⟩
      rw [h3, h6, List.append_assoc]
      congr 2
      split at hx
      · cases hx
      · rename_i gs hgs
        cases hx
        obtain ⟨news, e1, e2, e3⟩ := declarator_groups_independent attrs base isExtern hgs
        simp only [List.nil_append] at e1
        subst e1
        apply List.ext_getElem?
        intro j
        simp only [List.getElem?_map]
        cases hd : ds[j]? with
        | none =>
          have : gs.length ≤ j := by rw [e2]; exact List.getElem?_eq_none_iff.1 hd
          simp [List.getElem?_eq_none_iff.2 this]
        | some d =>
          obtain ⟨g, hg, _, n1, n2, n3, n4⟩ := e3 j d hd
          simp [hg, declOf, GlobalVar.toDecl, n1, n2, n3, n4]

/-- `Agrees`, read at one position -/
theorem agrees_get {p : Params} {dflt : Nat} : ∀ {ds : List Decl} {bs : List (Option Binding)},
    Agrees p dflt ds bs → ∀ (i : Nat) (d : Decl), ds[i]? = some d →
      ∃ ob, bs[i]? = some ob ∧ (ob = none → bound p d = false) ∧
        ∀ b, ob = some b → bound p d = true ∧ b.set = group dflt d := by
  intro ds
  induction ds with
  | nil => intro bs _ i d hd; simp at hd
  | cons x xs ih =>
    intro bs h i d hd
    cases bs with
    | nil => simp [Agrees] at h
    | cons ob bs =>
      obtain ⟨h1, h2⟩ := h
      cases i with
      | zero =>
        simp only [List.getElem?_cons_zero, Option.some.injEq] at hd
        subst hd
        refine ⟨ob, by simp, ?_, ?_⟩
        · intro hn; subst hn; exact h1
        · intro b hb; subst hb; exact ⟨h1.1, h1.2.1⟩
      | succ i =>
        simp only [List.getElem?_cons_succ] at hd
        obtain ⟨ob', e1, e2, e3⟩ := ih h2 i d hd
        exact ⟨ob', by simpa using e1, e2, e3⟩

/-- **Every declarator lands in its own group, end to end.**  For every accepted file that contains the declaration
    `attrs base mods ds` (between any root definitions), every list of pipelines, target, mode: in every pipeline
    `compile()` returns — with THAT pipeline's default group `dflt` — the j-th declarator of the declaration is bound
    exactly when the property says a global of its kind is, and then in group
    `(explicitGroup attrs (ITS annotations)).getD dflt`: the declaration's last group attribute, else the space of
    its own register annotation, else the pipeline's default group — whatever the other declarators say. -/
theorem declarator_lands_in_its_own_group {a : Args} {pre post : List RootItem} {attrs : List Attr}
    {base : Option ObjKind} {mods : List StorageMod} {ds : List (Declarator Shape)} {nds : List (String × Decl)}
    {ps : List Pipeline} {outs : List Built}
    (hf : frontItems (pre ++ RootItem.globals attrs base mods ds :: post) = .ok nds)
    (h : compile a (Module.fresh (nds.map (·.1)) (nds.map (·.2)) ps) = .ok outs) :
    ∃ opre isExtern, frontItems pre = .ok opre ∧ isExternStorage mods = .ok isExtern ∧
      ∀ (k : Nat) (b : Built), outs[k]? = some b → ∃ dflt, (requestedDefaults a.mode ps)[k]? = some dflt ∧
        ∀ (j : Nat) (d : Declarator Shape), ds[j]? = some d →
          ∃ ob, b.slots.bindings[opre.length + j]? = some ob ∧
            let decl := (declOf attrs base isExtern d).2
            (ob = none → bound (paramsFor a.target a.supportBufferAddress) decl = false) ∧
            ∀ bd, ob = some bd → bound (paramsFor a.target a.supportBufferAddress) decl = true ∧
              bd.set = (explicitGroup attrs d.annotations).getD dflt := by
  obtain ⟨opre, opost, isExtern, h1, _, hext, h3⟩ := front_lists_each_declarator hf
  refine ⟨opre, isExtern, h1, hext, ?_⟩
  intro k b hb
  obtain ⟨dflt, hd1, _, _, hagree, _⟩ :=
    per_pipeline_tiling (fresh_module_unbound _ _ ps).1 (fresh_module_unbound _ _ ps).2 h k b hb
  refine ⟨dflt, hd1, ?_⟩
  intro j d hd
  have hdecl : (Module.fresh (nds.map (·.1)) (nds.map (·.2)) ps).decls[opre.length + j]? =
      some (declOf attrs base isExtern d).2 := by
    show (nds.map (·.2))[opre.length + j]? = _
    rw [h3, List.getElem?_map, List.append_assoc, List.getElem?_append_right (by omega)]
    simp only [Nat.add_sub_cancel_left]
    rw [List.getElem?_append_left (by simpa using (List.getElem?_eq_some_iff.1 hd).1)]
    simp [List.getElem?_map, hd]
  obtain ⟨ob, e1, e2, e3⟩ := agrees_get hagree _ _ hdecl
  refine ⟨ob, e1, e2, ?_⟩
  intro bd hbd
  obtain ⟨x1, x2⟩ := e3 bd hbd
  exact ⟨x1, by rw [x2]; rfl⟩

/-! Non-vacuity: `Texture2D<float4> a : register(t0, space1), b;` followed by
    `[[rssl::bind_group(3)]] SamplerState c : register(s2, space1) : register(s2, space1), d : register(space2);`
    with pipelines of default group 2 and 0: `a` is in group 1, `b` in the default group of each pipeline (the seeded
    defect C06-4 put it into group 1), `c` and `d` in group 3 (the attribute wins over both register spaces). -/
def exampleItems : List RootItem :=
  [ .globals [] (some .Texture2D) []
      [ ⟨"a", [.register ⟨some (.T, 0), some 1⟩], false, ⟨none, true⟩⟩, ⟨"b", [], false, ⟨some 2, true⟩⟩ ],
    .globals [.bindGroup 3] (some .SamplerState) [.extern]
      [ ⟨"c", [.register ⟨some (.S, 2), some 1⟩, .register ⟨some (.S, 2), some 1⟩], false, ⟨none, true⟩⟩,
        ⟨"d", [.register ⟨none, some 2⟩], false, ⟨none, true⟩⟩ ] ]

example : (frontItems exampleItems).toOption = some
    [ ("a", .global (some 1) false (some .Texture2D) none), ("b", .global none false (some .Texture2D) (some 2)),
      ("c", .global (some 3) false (some .SamplerState) none), ("d", .global (some 3) false (some .SamplerState) none) ] := by
  decide

example : ((frontItems exampleItems).toOption.bind fun nds =>
      (compile ⟨.HlslForDirectX, false, .all⟩ (Module.fresh (nds.map (·.1)) (nds.map (·.2)) examplePipelines)).toOption).map
      (·.map (·.groups)) =
    some [ [⟨[], none⟩, ⟨[⟨"a", .index 0, 1⟩], none⟩, ⟨[⟨"b", .index 0, 2⟩], none⟩, ⟨[⟨"c", .index 0, 1⟩, ⟨"d", .index 1, 1⟩], none⟩],
           [⟨[⟨"b", .index 0, 2⟩], none⟩, ⟨[⟨"a", .index 0, 1⟩], none⟩, ⟨[], none⟩, ⟨[⟨"c", .index 0, 1⟩, ⟨"d", .index 1, 1⟩], none⟩] ] := by
  decide

/-- a second annotation that says something else is rejected (and names the declarator), an agreeing one is not -/
example : (match frontItems [.globals [] (some .Texture2D) []
      [⟨"a", [.register ⟨some (.T, 0), some 1⟩], false, ⟨none, true⟩⟩,
       ⟨"b", [.register ⟨some (.T, 0), some 1⟩, .register ⟨some (.T, 0), some 2⟩], false, ⟨none, true⟩⟩]] with
      | .error e => some e
      | .ok _ => none) = some (.invalidRegisterAnnotation "b") := by decide

/-- an ill-formed attribute rejects the declaration; `static extern` is a modifier conflict -/
example : (match frontItems [.globals [.bindGroup 1, .badCount "binding"] (some .Texture2D) []
      [⟨"a", [], false, ⟨none, true⟩⟩]] with
      | .error e => some e
      | .ok _ => none) = some (.attributeArgumentCount "binding") := by decide

example : (match frontItems [.globals [] (some .Texture2D) [.static, .static, .extern]
      [⟨"a", [], false, ⟨none, true⟩⟩]] with
      | .error e => some e
      | .ok _ => none) = some (.modifierConflict "extern" "static") := by decide

end PerDeclarator

/-! ## Wave 5: arguments outside the four parameter sets, array typedefs, cbuffer members -/
section Wave5
open RsslVerif.Gen.SlotCompile RsslVerif.Model.SlotsCompile RsslVerif.Lemmas.SlotsCompile
open RsslVerif.Model.SlotsFront RsslVerif.Lemmas.SlotsFront

/-- **No fifth parameter set.**  Buffer addresses requested for a target other than Vulkan-flavoured HLSL: `compile`
    refuses the arguments before it looks at the module, for every module and mode. -/
theorem compile_refuses_buffer_address_off_vulkan (a : Args) (ir : Module)
    (hba : a.supportBufferAddress = true) (ht : a.target ≠ .HlslForVulkan) :
    compile a ir = .error .invalidArgs := by
  unfold compile
  have : (a.supportBufferAddress && a.target != Target.HlslForVulkan) = true := by
    simp [hba, ht]
  simp [this]

/-- ... and therefore whatever `compile` returns was allocated with one of the four parameter sets the property
    names (DirectX, Vulkan, Vulkan with buffer addresses, Metal). -/
theorem returned_parameter_set_is_one_of_four {a : Args} {ir : Module} {outs : List Built}
    (h : compile a ir = .ok outs) :
    paramsFor a.target a.supportBufferAddress ∈
      [⟨true, false, false, true⟩, ⟨false, false, false, true⟩, ⟨false, true, false, true⟩, ⟨false, false, true, false⟩] := by
  cases hba : a.supportBufferAddress with
  | false => cases ht : a.target <;> decide
  | true =>
    by_cases ht : a.target = .HlslForVulkan
    · rw [ht]; decide
    · rw [compile_refuses_buffer_address_off_vulkan a ir hba ht] at h; cases h

example : (match compile ⟨.HlslForDirectX, true, .noPipeline⟩ (Module.fresh [] [] []) with
    | .error e => some e
    | .ok _ => none) = some .invalidArgs := by decide
example : (compile ⟨.HlslForVulkan, true, .noPipeline⟩ (Module.fresh [] [] [])).toOption.isSome = true := by decide

/-- **A declaration whose base type has no register class** (not an object, a non-resource object, or -- the class the
    spelling matrix added -- an ARRAY typedef of a resource, `typedef Texture2D<float4> TA[2]; TA g : register(t0);`,
    since the lookup is done on the declaration's base type): a declarator that carries any annotation is rejected,
    whatever the attributes, the storage class and the registry are. -/
theorem annotation_without_register_class_rejected {σ : Type} (isExtern : Bool) (attr : AttrResult)
    (registry : List (GlobalVar σ)) (d : Declarator σ) (hne : d.annotations ≠ []) :
    ∃ e, declaratorStep none isExtern attr registry d = .error e := by
  unfold declaratorStep
  split
  · exact ⟨_, rfl⟩
  · cases hd : d.annotations with
    | nil => exact absurd hd hne
    | cons x rest => cases x <;> simp [annotate]

/-- ... and a declaration over such a base that IS accepted has no annotation on any declarator, so each of its globals
    has the attributes' group or none. -/
theorem accepted_without_register_class_has_no_annotation {σ : Type} (isExtern : Bool) (attr : AttrResult) :
    ∀ (ds : List (Declarator σ)) (registry out : List (GlobalVar σ)),
      declaratorLoop none isExtern attr registry ds = .ok out → ∀ d ∈ ds, d.annotations = [] := by
  intro ds
  induction ds with
  | nil => intro _ _ _ d hd; cases hd
  | cons d0 rest ih =>
    intro registry out h d hd
    simp only [declaratorLoop] at h
    split at h
    · cases h
    · rename_i registry' hstep
      have h0 : d0.annotations = [] := by
        cases hd0 : d0.annotations with
        | nil => rfl
        | cons x xs =>
          exfalso
          obtain ⟨e, he⟩ := annotation_without_register_class_rejected isExtern attr registry d0 (by simp [hd0])
          rw [he] at hstep; cases hstep
      rcases List.mem_cons.mp hd with rfl | hmem
      · exact h0
      · exact ih registry' out h d hmem

example : (match frontItems [.globals [.bindGroup 2] none [] [⟨"g", [.register ⟨some (.T, 0), none⟩], false, ⟨some 2, true⟩⟩]] with
      | .error e => some e
      | .ok _ => none) = some (.invalidRegisterAnnotation "g") := by decide

/-- **Members of a cbuffer never touch its binding.**  Their annotations can only reject the block (a register or a
    semantic on a member, a second packoffset); when they do not, the block's language-level binding is the one the
    block has without looking at the members. -/
theorem cbuffer_members_only_reject (name : String) (attrs : List Attr) (members : List (String × List Annotation))
    (anns : List Annotation) {slot : LangBinding} (h : parseConstantBuffer name attrs members anns = .ok slot) :
    memberLoop members = .ok () ∧ parseConstantBuffer name attrs [] anns = .ok slot := by
  unfold parseConstantBuffer at h ⊢
  split at h
  · cases h
  · rename_i attr hattr
    split at h
    · cases h
    · rename_i hm
      refine ⟨hm, ?_⟩
      simpa [memberLoop] using h

/-- a member that is accepted carries no register and no semantic -/
theorem accepted_member_has_no_register (n : String) : ∀ (seen : Bool) (anns : List Annotation),
    memberAnnotations n seen anns = .ok () → ∀ a ∈ anns, a = .packOffset := by
  intro seen anns
  induction anns generalizing seen with
  | nil => intro _ a ha; cases ha
  | cons x rest ih =>
    intro h a ha
    cases x with
    | register r => simp [memberAnnotations] at h
    | semantic => simp [memberAnnotations] at h
    | packOffset =>
      simp only [memberAnnotations] at h
      split at h
      · cases h
      · rcases List.mem_cons.mp ha with rfl | hmem
        · rfl
        · exact ih true h a hmem

example : (match parseConstantBuffer "cb" [.bindGroup 1] [("cb_v", [.register ⟨some (.B, 0), none⟩])] [] with
    | .error e => some e
    | .ok _ => none) = some (.unexpectedRegisterAnnotation "cb_v") := by decide
example : (parseConstantBuffer "cb" [.bindGroup 1] [("cb_v", []), ("p", [.packOffset])] [.register ⟨none, some 2⟩]).toOption =
    some ⟨some 1, none⟩ := by decide

end Wave5

end RsslVerif.Thm.C06

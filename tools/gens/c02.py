"""Gen.UsageTables: what ir/src/usage_analysis.rs descends into, the shape of its fixpoint loop, and how
msl/src/generator.rs analyse_globals classifies globals and names implicit parameters/arguments."""
import re


def register(gen, T):
    @gen("UsageTables")
    def usage_tables():
        from rustsrc import (ExtractError, fn_body, first_match, match_arms, lean_str, normws, enum_variants,
                             split_top, matching)
        ua = T.src("ir/src/usage_analysis.rs")
        gm = T.src("msl/src/generator.rs")
        names_rs = T.src("msl/src/names.rs")
        out = [T.header("UsageTables", ["ir/src/usage_analysis.rs", "msl/src/generator.rs", "msl/src/names.rs"])]

        def lb(b):
            return "true" if b else "false"

        def binders(pat, prefix):
            """`Prefix::Variant(a, ref b, Some(c))` -> (Variant, [a, b, c]) ; `Prefix::Variant` -> (Variant, [])"""
            m = re.fullmatch(re.escape(prefix) + r'::([A-Za-z0-9_]+)\s*(\((.*)\))?', pat, re.S)
            if not m:
                raise ExtractError(f"pattern {pat!r} is not a {prefix} variant")
            if m.group(3) is None:
                return m.group(1), []
            bs = []
            for part in split_top(m.group(3), ','):
                part = part.strip()
                if not part:
                    continue
                part = re.sub(r'^(ref\s+|mut\s+|&)+', '', part)
                inner = re.fullmatch(r'Some\(\s*(?:ref\s+)?([a-z_][a-z_0-9]*)\s*\)', part)
                if inner:
                    part = inner.group(1)
                if part == 'None':
                    part = '_'
                if not re.fullmatch(r'[a-z_][a-z_0-9]*', part):
                    raise ExtractError(f"binder {part!r} in {pat!r} unsupported")
                bs.append(part)
            return m.group(1), bs

        def descends(result, b):
            """the field bound to `b` is passed on to a gather_usage_* call (directly, through a field, a loop
            variable or a nested match)"""
            if b == '_':
                return False
            if not re.search(r'\b' + re.escape(b) + r'\b', result):
                return False
            return 'gather_usage_for_' in result

        def arm_table(fn, scrut_pat, prefix, variants):
            body = fn_body(ua, fn)
            _, arms_text, _ = first_match(body, scrut_pat)
            rows = {}
            inserts = []
            for pats, guard, result in match_arms(arms_text):
                if guard is not None:
                    raise ExtractError(f"{fn}: guard unsupported")
                for p in pats:
                    v, bs = binders(p, prefix)
                    flags = [descends(result, b) for b in bs]
                    if v in rows:
                        # e.g. Return(Some(expr)) and Return(None): a field is descended if any arm does
                        old = rows[v]
                        flags = [a or b for a, b in zip(old, flags)] if len(old) == len(flags) else old
                    rows[v] = flags
                    for m in re.finditer(r'usage\s*\.\s*required\s*\.\s*insert\(\s*UsageSymbol::([A-Za-z]+)\(', result):
                        inserts.append((v, m.group(1)))
            missing = [v for v in variants if v not in rows]
            if missing:
                raise ExtractError(f"{fn}: no arm for {missing}")
            return [(v, rows[v]) for v in variants], inserts

        ir_stmt = T.src("ir/src/ir_statements.rs")
        ir_expr = T.src("ir/src/ir_expressions.rs")
        stmt_variants = [v for v, _ in enum_variants(ir_stmt, "StatementKind")]
        expr_variants = [v for v, _ in enum_variants(ir_expr, "Expression")]
        init_variants = [v for v, _ in enum_variants(ir_stmt, "Initializer")]
        forinit_variants = [v for v, _ in enum_variants(ir_stmt, "ForInit")]

        stmt_rows, _ = arm_table("gather_usage_for_statement", r'statement\.kind', "StatementKind", stmt_variants)
        expr_rows, inserts = arm_table("gather_usage_for_expression", r'expr', "Expression", expr_variants)
        init_rows, _ = arm_table("gather_usage_for_init", r'^init$', "Initializer", init_variants)
        # ForInit is matched inside the For arm of gather_usage_for_statement
        sbody = fn_body(ua, "gather_usage_for_statement")
        _, fi_arms, _ = first_match(sbody, r'^init$')
        fi_rows = {}
        for pats, guard, result in match_arms(fi_arms):
            for p in pats:
                v, bs = binders(p, "ForInit")
                fi_rows[v] = [descends(result, b) for b in bs]
        if sorted(fi_rows) != sorted(forinit_variants):
            raise ExtractError(f"ForInit arms {sorted(fi_rows)} vs variants {sorted(forinit_variants)}")

        def table(name, doc, rows):
            s = f"/-- {doc} -/\ndef {name} : List (String × List Bool) := [\n"
            s += ",\n".join(f"  ({lean_str(v)}, [{', '.join(lb(x) for x in fl)}])" for v, fl in rows)
            return s + "\n]\n\n"

        out.append(table("stmtArms", "gather_usage_for_statement: StatementKind variant ↦ for each field, is it passed on to gather_usage_*", stmt_rows))
        out.append(table("exprArms", "gather_usage_for_expression: Expression variant ↦ per field, is it descended into", expr_rows))
        out.append(table("initArms", "gather_usage_for_init", init_rows))
        out.append(table("forInitArms", "ForInit arms inside the For arm", [(v, fi_rows[v]) for v in forinit_variants]))
        out.append("/-- which Expression variants record a symbol: (variant, UsageSymbol constructor) -/\n"
                   "def symbolInserts : List (String × String) := [" +
                   ", ".join(f"({lean_str(a)}, {lean_str(b)})" for a, b in inserts) + "]\n\n")

        # ---- what calculate_local looks at
        cf = normws(fn_body(ua, "calculate_for_function"))
        m = re.search(r'if let Some\(def\) = def \{(.*)\} usage$', cf)
        if not m:
            raise ExtractError("calculate_for_function: `if let Some(def) = def { … } usage` not found")
        inner = m.group(1).strip()
        body_rx = r'gather_usage_for_scope_block\(&def\.scope_block, &mut usage\);'
        dflt_rx = (r'for param in &def\.params \{ if let Some\(default_expr\) = &param\.default_expr \{ '
                   r'gather_usage_for_expression\(default_expr, &mut usage\); \} \}')
        body_only = bool(re.search(body_rx, inner))
        defaults = bool(re.search(dflt_rx, inner))
        rest = re.sub(dflt_rx, '', re.sub(body_rx, '', inner)).strip()
        if rest:
            raise ExtractError(f"calculate_for_function gathers something unknown: {rest[:80]!r}")
        cl = normws(fn_body(ua, "calculate_local"))
        glob_default = bool(re.search(r'let id = GlobalId\(i as u32\); let usage = LocalUsageAnalysis::default\(\);', cl))
        glob_init = bool(re.search(r'let id = GlobalId\(i as u32\); let mut usage = LocalUsageAnalysis::default\(\); '
                                   r'gather_usage_for_init_opt\(&module\.global_registry\[i\]\.init, &mut usage\); '
                                   r'let valid_insert = result \.insert\(UsageSymbol::GlobalVariable\(id\), usage\)', cl))
        if glob_default == glob_init:
            raise ExtractError("calculate_local: cannot tell whether global initialisers are gathered")
        gio = normws(fn_body(ua, "gather_usage_for_init_opt"))
        init_opt_ok = gio == "if let Some(init) = init { gather_usage_for_init(init, usage); }"
        cb_default = bool(re.search(r'let id = ConstantBufferId\(i as u32\); let usage = LocalUsageAnalysis::default\(\);', cl))
        fn_all = bool(re.search(r'for id in module\.function_registry\.iter\(\) \{ let usage = LocalUsageAnalysis::calculate_for_function\(id, module\);', cl))
        out.append("/-- calculate_for_function gathers the implementation's scope block -/\n"
                   f"def functionBodyGathered : Bool := {lb(body_only)}\n"
                   "/-- … and the default expressions of its parameters -/\n"
                   f"def defaultArgumentsGathered : Bool := {lb(defaults)}\n"
                   "/-- the entry of a global variable gathers its initialiser (through gather_usage_for_init_opt) -/\n"
                   f"def globalInitialisersGathered : Bool := {lb(glob_init and init_opt_ok)}\n"
                   f"def cbuffersHaveEmptyUsage : Bool := {lb(cb_default)}\n"
                   f"def everyFunctionHasAnEntry : Bool := {lb(fn_all)}\n\n")

        # ---- shape of recurse
        rb = normws(fn_body(ua, "recurse"))
        facts = {
            "keysSnapshot": r'let keys = self\.0\.keys\(\)\.cloned\(\)\.collect::<Vec<_>>\(\);',
            "outerLoopUntilUnmodified": r'loop \{ let mut modified = false; for key in &keys \{.*\} if !modified \{ break; \} \} self$',
            "startsFromCurrent": r'let current_set = self\.0\.get\(key\)\.unwrap\(\); let mut new_set = current_set\.required\.clone\(\);',
            "unionsMembersSets": r'for other in &current_set\.required \{ new_set\.extend\(&self\.0\.get\(other\)\.unwrap\(\)\.required\); \}',
            "storesWhenGrown": r'if new_set\.len\(\) > current_set\.required\.len\(\) \{ let stored_analysis = self\.0\.get_mut\(key\)\.unwrap\(\); stored_analysis\.required = new_set; modified = true; \}',
        }
        out.append("/-- syntactic shape of GlobalUsageAnalysis::recurse (regexes over the normalised source) -/\n")
        out.append("structure RecurseShape where\n" + "".join(f"  {k} : Bool\n" for k in facts) + "  deriving DecidableEq, Repr\n\n")
        out.append("def recurseShape : RecurseShape := { " +
                   ", ".join(f"{k} := {lb(bool(re.search(rx, rb)))}" for k, rx in facts.items()) + " }\n\n")

        # ---- analyse_globals: classification of globals
        ag = fn_body(gm, "analyse_globals")
        nag = normws(ag)
        out.append("inductive Storage where | Extern | Static | GroupShared\n  deriving DecidableEq, Repr, Inhabited\n\n")

        def bool_expr(text, atoms):
            """translate a Rust boolean expression over known atoms into Lean"""
            res = []
            s = text.strip()
            # tokenise by hand: atoms may contain parentheses
            while s:
                s = s.lstrip()
                if not s:
                    break
                hit = False
                for a, l in atoms:
                    if s.startswith(a):
                        res.append(l)
                        s = s[len(a):]
                        hit = True
                        break
                if hit:
                    continue
                for op, l in (("&&", "&&"), ("||", "||"), ("(", "("), (")", ")"), ("!", "!")):
                    if s.startswith(op):
                        res.append(l)
                        s = s[len(op):]
                        hit = True
                        break
                if not hit:
                    raise ExtractError(f"cannot translate boolean expression near {s[:40]!r}")
            return " ".join(res)

        m = re.search(r'let is_global_constant = (.*?);', nag)
        if not m:
            raise ExtractError("is_global_constant not found")
        atoms = [("is_const", "isConst"),
                 ("def.storage_class == ir::GlobalStorage::Static", "(storage == .Static)"),
                 ("def.storage_class == ir::GlobalStorage::Extern", "(storage == .Extern)"),
                 ("def.storage_class == ir::GlobalStorage::GroupShared", "(storage == .GroupShared)"),
                 ("def.static_sampler.is_some()", "staticSampler")]
        out.append("/-- `is_global_constant` of analyse_globals: such globals stay at file scope (GlobalMode::Constant) -/\n"
                   "def isGlobalConstant (isConst : Bool) (storage : Storage) (staticSampler : Bool) : Bool :=\n  "
                   + bool_expr(m.group(1), atoms) + "\n\n")
        mode_ok = bool(re.search(r'let mode = if is_global_constant \{ GlobalMode::Constant \} else \{', nag))
        skip_intrinsic = bool(re.search(r'let def = &context\.module\.global_registry\[id\.0 as usize\]; if def\.is_intrinsic \{ continue; \}', nag))
        out.append(f"def constantModeIffGlobalConstant : Bool := {lb(mode_ok)}\n"
                   f"def intrinsicGlobalsHaveNoMode : Bool := {lb(skip_intrinsic)}\n\n")

        # natural address space
        m = re.search(r'let natural_address_space = ', ag)
        if not m:
            raise ExtractError("natural_address_space not found")
        _, arms_text, _ = first_match(ag, r'def\.storage_class', m.end() - 1)
        out.append("inductive AddressSpace where | Constant | Thread | ThreadGroup | Device | ObjectData\n  deriving DecidableEq, Repr, Inhabited\n\n")
        out.append("def naturalAddressSpace : Storage → AddressSpace\n")
        seen = set()
        for pats, guard, result in match_arms(arms_text):
            rm = re.fullmatch(r'ast::AddressSpace::([A-Za-z]+)', result)
            if not rm or guard is not None:
                raise ExtractError(f"natural_address_space arm {result!r}")
            for p in pats:
                pm = re.fullmatch(r'ir::GlobalStorage::([A-Za-z]+)', p)
                if not pm:
                    raise ExtractError(f"natural_address_space pattern {p!r}")
                seen.add(pm.group(1))
                out.append(f"  | .{pm.group(1)} => .{rm.group(1)}\n")
        if seen != {"Extern", "Static", "GroupShared"}:
            raise ExtractError(f"natural_address_space covers {sorted(seen)}")
        # requires_reference
        m = re.search(r'let requires_reference = \{.*?if (natural_address_space == ast::AddressSpace::Constant && tyl\.is_object\(\)) \{ false \} else \{ true \} \};', nag)
        if not m:
            raise ExtractError("requires_reference has an unexpected shape")
        out.append("\n/-- threaded globals are passed by reference unless they are extern objects (not arrays of objects) -/\n"
                   "def requiresReference (storage : Storage) (isObject : Bool) : Bool :=\n"
                   "  !(naturalAddressSpace storage == .Constant && isObject)\n\n")

        # ---- implicit parameters: enum order (derived Ord), sort, producers, names
        variants = enum_variants(gm, "ImplicitFunctionParameter")
        derive = re.search(r'#\[derive\(([^)]*)\)\]\s*enum\s+ImplicitFunctionParameter', gm)
        derives_ord = bool(derive and re.search(r'\bOrd\b', derive.group(1)) and re.search(r'\bPartialOrd\b', derive.group(1)))
        vnames = [v for v, _ in variants]
        out.append("/-- variants of ImplicitFunctionParameter in declaration order (= derived `Ord` order) -/\n"
                   "def implicitVariants : List String := [" + ", ".join(lean_str(v) for v in vnames) + "]\n"
                   f"def implicitDerivesOrd : Bool := {lb(derives_ord)}\n")
        sorts = bool(re.search(r'required_globals\.sort\(\); let valid_insert = context \.function_required_globals \.insert\(id, required_globals\)', nag))
        out.append(f"def requiredGlobalsSorted : Bool := {lb(sorts)}\n")
        pushes_param = bool(re.search(
            r'if !matches!\( context\.global_variable_modes\.get\(gid\)\.unwrap\(\), GlobalMode::Constant \) \{ required_globals\.push\(ImplicitFunctionParameter::Global\(\*gid\)\); \}', nag))
        skips_intrinsic_fn = bool(re.search(
            r'for id in context\.module\.function_registry\.iter\(\) \{ if context \.module \.function_registry \.get_intrinsic_data\(id\) \.is_some\(\) \{ continue; \}', nag))
        out.append(f"def pushesNonConstantGlobals : Bool := {lb(pushes_param)}\n"
                   f"def intrinsicFunctionsSkipped : Bool := {lb(skips_intrinsic_fn)}\n\n")
        # intrinsic function symbols that add implicit parameters
        m = re.search(r'match intrinsic \{', ag)
        if not m:
            raise ExtractError("match intrinsic not found in analyse_globals")
        _, arms_text, _ = first_match(ag, r'^intrinsic$', m.start())
        rows = []
        for pats, guard, result in match_arms(arms_text):
            pushed = re.findall(r'required_globals\s*\.push\(\s*ImplicitFunctionParameter::([A-Za-z]+)', result)
            for p in pats:
                if p == '_':
                    if pushed:
                        raise ExtractError("wildcard intrinsic arm pushes parameters")
                    continue
                pm = re.fullmatch(r'ir::Intrinsic::([A-Za-z0-9_]+)', p)
                if not pm:
                    raise ExtractError(f"intrinsic pattern {p!r}")
                rows.append((pm.group(1), pushed))
        out.append("/-- intrinsic function symbols in a function's closure that add implicit parameters -/\n"
                   "def intrinsicImplicits : List (String × List String) := [\n" +
                   ",\n".join(f"  ({lean_str(a)}, [{', '.join(lean_str(x) for x in b)}])" for a, b in rows) + "\n]\n\n")

        # names: parameter name (generate_function_inner) and argument name (append_arguments_for_globals)
        consts = dict(re.findall(r'pub const ([A-Z_0-9]+): &str = "([^"]*)";', names_rs))

        def names_of(fn, scrut):
            body = fn_body(gm, fn)
            k = body.find("parameters_for_globals")
            _, arms_text, _ = first_match(body, scrut, k)
            res = {}
            for pats, guard, result in match_arms(arms_text):
                for p in pats:
                    pm = re.fullmatch(r'ImplicitFunctionParameter::([A-Za-z]+)(\(.*\))?', p)
                    if not pm:
                        raise ExtractError(f"{fn}: pattern {p!r}")
                    v = pm.group(1)
                    if v == "Global":
                        which = "param" if "params.push(param.clone())" in normws(result) else \
                            ("argument" if "args.push(Located::none(argument.clone()))" in normws(result) else "?")
                        res[v] = "<" + which + ">"
                        continue
                    nm = re.search(r'ScopedIdentifier::trivial\(\s*(&?[A-Za-z_"0-9]+)\s*,?\s*\)', result)
                    if not nm:
                        raise ExtractError(f"{fn}: no identifier in arm {v}")
                    tok = nm.group(1).lstrip('&')
                    if tok.startswith('"'):
                        res[v] = tok.strip('"')
                    elif tok in consts:
                        res[v] = consts[tok]
                    else:
                        raise ExtractError(f"{fn}: unknown name constant {tok}")
            return res

        pn = names_of("generate_function_inner", r'^param$')
        an = names_of("append_arguments_for_globals", r'^param$')
        for v in vnames:
            if v not in pn or v not in an:
                raise ExtractError(f"implicit variant {v} has no parameter/argument arm")
        out.append("/-- implicit variant ↦ (name of the parameter generate_function_inner adds, name of the argument\n"
                   "    append_arguments_for_globals passes); `<param>`/`<argument>` = the two halves of GlobalMode::Parameter -/\n"
                   "def implicitNames : List (String × String × String) := [\n" +
                   ",\n".join(f"  ({lean_str(v)}, {lean_str(pn[v])}, {lean_str(an[v])})" for v in vnames) + "\n]\n\n")
        # GlobalMode::Parameter: param declarator name and argument identifier come from the same `name`
        same_name = bool(re.search(r'let name = context\.get_global_name\(id\)\?\.to_string\(\); let \(mut param_type, declarator\) = generate_type_and_declarator\(def\.type_id, &name, is_global_constant, context\)\?;', nag)) and \
            bool(re.search(r'let argument = ast::Expression::Identifier\(ast::ScopedIdentifier::from\(Located::none\( name\.as_str\(\), \)\)\);', nag))
        out.append(f"def globalParamAndArgumentShareName : Bool := {lb(same_name)}\n\n")
        # call sites and trampolines append the callee's list; parameters come after user parameters
        guc = normws(fn_body(gm, "generate_user_call"))
        call_appends = bool(re.search(r'let mut args = generate_invocation_args\(arguments, context\)\?;.*append_arguments_for_globals\(&mut args, id, context\); let expr = ast::Expression::Call\(Box::new\(Located::none\(object\)\), type_args, args\);', guc))
        fills = bool(re.search(
            r'let mut args = generate_invocation_args\(arguments, context\)\?; let module = context\.module; '
            r'if !context \.function_required_globals \.get\(&id\) \.unwrap\(\) \.is_empty\(\) '
            r'&& let Some\(decl\) = module\.function_registry\.get_function_implementation\(id\) \{ '
            r'for param in decl\.params\.iter\(\)\.skip\(arguments\.len\(\)\) \{ '
            r'if let Some\(default_expr\) = &param\.default_expr \{ '
            r'args\.push\(Located::none\(generate_expression\(default_expr, context\)\?\)\); \} \} \} '
            r'append_arguments_for_globals\(&mut args, id, context\);', guc))
        direct = bool(re.search(r'let mut args = generate_invocation_args\(arguments, context\)\?; append_arguments_for_globals\(&mut args, id, context\);', guc))
        if fills == direct:
            raise ExtractError("generate_user_call: cannot tell whether omitted default arguments are filled in")
        out.append("/-- generate_user_call passes the default values of omitted arguments explicitly when the callee\n"
                   "    receives parameters for globals -/\n"
                   f"def callSitesFillDefaults : Bool := {lb(fills)}\n")
        tramp = normws(fn_body(gm, "generate_function_out_trampoline_body"))
        tramp_appends = bool(re.search(r'metal_lib_identifier\("true_type"\).*append_arguments_for_globals\(&mut params, id, context\);', tramp))
        gfi = normws(fn_body(gm, "generate_function_inner"))
        order_ok = bool(re.search(r'for param in &decl\.params \{ params\.push\(generate_function_param\( param, false, (?:trampoline_target|trampoline_target \|\| has_parameters_for_globals), context, \)\?\); \} if trampoline_target \{ params\.push\(ast::FunctionParam \{ param_type: ast::Type::from\(metal_lib_identifier\("true_type"\)\),.*?\}\) \} let parameters_for_globals = context\.function_required_globals\.get\(&id\)\.unwrap\(\)\.clone\(\); for param in parameters_for_globals \{', gfi))
        no_defaults = bool(re.search(
            r'let has_parameters_for_globals = !context \.function_required_globals \.get\(&id\) \.unwrap\(\) \.is_empty\(\);.*'
            r'generate_function_param\( param, false, trampoline_target \|\| has_parameters_for_globals, context, \)', gfi))
        old_defaults = bool(re.search(r'generate_function_param\( param, false, trampoline_target, context, \)', gfi))
        if no_defaults == old_defaults:
            raise ExtractError("generate_function_inner: cannot tell when parameter defaults are emitted")
        gfp = normws(fn_body(gm, "generate_function_param"))
        dis = bool(re.search(r'let default_expr = if let Some\(default_expr\) = &param\.default_expr \{ if disable_default \{ None \} else \{ Some\(generate_expression\(default_expr, context\)\?\) \} \} else \{ None \};', gfp))
        out.append("/-- functions with parameters for globals (and trampoline targets) are emitted without parameter defaults -/\n"
                   f"def noDefaultsWithImplicitParams : Bool := {lb(no_defaults and dis)}\n")
        # initialisers of threaded statics are generated after function_required_globals is complete
        late_init = bool(re.search(
            r'\.function_required_globals \.insert\(id, required_globals\) \.is_none\(\); assert!\(valid_insert\); \} '
            r'for i in 0\.\.context\.module\.global_registry\.len\(\) \{.*'
            r'let generated_init = generate_initializer\(&def\.init, def\.type_id, context\)\?;', nag)) and \
            not re.search(r'generate_initializer\(.*for id in context\.module\.function_registry\.iter\(\)', nag)
        out.append(f"def staticInitialisersGeneratedLast : Bool := {lb(late_init)}\n")
        gft = normws(fn_body(gm, "generate_function_and_trampoline"))
        tramp_rule = bool(re.search(r'let has_out = sig \.param_types \.iter\(\) \.any\(\|p\| p\.input_modifier != ir::InputModifier::In\); let needs_trampoline = has_out && context\.called_functions\.contains\(&id\);', gft))
        aag = normws(fn_body(gm, "append_arguments_for_globals"))
        append_in_order = bool(re.match(r'let parameters_for_globals = context\.function_required_globals\.get\(&id\)\.unwrap\(\); for param in parameters_for_globals \{ match param \{', aag))
        out.append(f"def argumentsAppendedInListOrder : Bool := {lb(append_in_order)}\n")
        out.append(f"def callSitesAppendCalleeList : Bool := {lb(call_appends)}\n"
                   f"def trampolineAppendsOwnList : Bool := {lb(tramp_appends)}\n"
                   f"def implicitParamsFollowUserParams : Bool := {lb(order_ok)}\n"
                   f"def trampolineIffOutAndCalled : Bool := {lb(tramp_rule)}\n")
        out.append(T.footer("UsageTables"))
        return "".join(out)

import RsslVerif.Lemmas.CondChain
import RsslVerif.Lemmas.CondParse
import RsslVerif.Lemmas.CondFile
import RsslVerif.Lemmas.CondFileFrame
import RsslVerif.Lemmas.CondMacro
/-!
# C11 — conditional compilation selects exactly the branches C semantics select

Objects: `Model.CondChain.runFile` is the model of `preprocess_initial_file` restricted to the
conditional machinery (`ConditionChain`, the gating of `preprocess_command`, `flush_normal`), built on
the tables re-extracted from `/repo` (`Gen.CondTables`); `Model.CondExpr.condValue` is the model of
`apply_macros(.., true, ..)` + `condition_parser::parse`.  `Spec.CPre` is the reference: if-sections as
a tree with the textbook selection rule, conditions as syntax trees with `evalU64`.

All statements hold for every tree / line list / expression (no bound on length or nesting).
-/
namespace RsslVerif.Thm.C11
open RsslVerif.Gen.CondTables RsslVerif.Model.CondExpr RsslVerif.Model.CondChain
open RsslVerif.Spec.CPre RsslVerif.Lemmas.CondChain RsslVerif.Lemmas.CondExpr RsslVerif.Lemmas.CondParse

/-! ## 1. the extracted tables are the specified ones -/

/-- Tie to the source: the transition table of `ConditionChain::switch`, that nothing can follow the `#else`
    branch of a block (`Block.switch`: `ElseAfterElse` / `ElifAfterElse`, otherwise `seen_else := is_else`),
    the `is_else` flags `#else` and `#elif` pass, the states pushed by `#if/#ifdef/#ifndef` (with `seen_else =
    false`), the state that counts as active, the five error variants, which commands are gated by `skip`
    (and how), and that a directive without a name is ignored while skipping are exactly what the selection
    rule and the C grammar of if-sections need. -/
theorem chain_tables_agree :
    (∀ b, CS.switch .Enabled b = .DisabledOuter) ∧
    CS.switch .DisabledInner true = .Enabled ∧ CS.switch .DisabledInner false = .DisabledInner ∧
    (∀ b, CS.switch .DisabledOuter b = .DisabledOuter) ∧
    (∀ c a, Block.switch ⟨c, true⟩ a true = .error .ElseAfterElse) ∧
    (∀ c a, Block.switch ⟨c, true⟩ a false = .error .ElifAfterElse) ∧
    (∀ c a e, Block.switch ⟨c, false⟩ a e = .ok ⟨c.switch a, e⟩) ∧
    (∀ c, newBlock c = ⟨c, false⟩) ∧ elseIsElse = true ∧ elifIsElse = false ∧
    pushState true = .Enabled ∧ pushState false = .DisabledInner ∧ activeState = .Enabled ∧
    elseSwitchArg = true ∧
    switchEmptyErr = .ElseNotMatched ∧ popEmptyErr = .EndIfNotMatched ∧
    unfinishedErr = .ConditionChainNotFinished ∧ fileUnfinishedErr = .ConditionChainNotFinished ∧
    nonNameGate = .skipNoEffect ∧
    gate "if" = .skipPushes .DisabledInner ∧ gate "ifdef" = .skipPushes .DisabledInner ∧
    gate "ifndef" = .skipPushes .DisabledInner ∧
    gate "elif" = .notGated ∧ gate "else" = .notGated ∧ gate "endif" = .notGated ∧
    gate "define" = .skipNoEffect ∧ gate "undef" = .skipNoEffect ∧ gate "include" = .skipNoEffect ∧
    gate "pragma" = .skipNoEffect := by
  refine ⟨by decide, by decide, by decide, by decide, fun _ _ => rfl, fun _ _ => rfl, fun _ _ _ => rfl,
    fun _ => rfl, ?_⟩
  decide

/-! ## 2. the automaton selects what the tree-shaped reference selects -/

/-- **Main theorem (selection).**  For every source tree `t` (any nesting of `#if/#ifdef/#ifndef` groups
    with `#elif`/`#else`), every condition evaluator `cv`, every invariant `Inv` of the macro table that
    the `#define/#undef` lines of `t` preserve and under which the `#elif` conditions of `t` are
    well-formed, and every initial macro table satisfying `Inv`: running the stack automaton over the
    lines of `t` accepts iff the reference does, ends with an empty stack, and produces exactly the
    reference's output text and macro table — in particular `#define/#undef/#include/#pragma`/unknown
    directives inside unselected groups have no effect, and a rejected selected line is rejected with the
    same reason. -/
theorem automaton_refines_tree (Inv : Macros → Prop) (cv : Macros → List CTok → Except CondErr Bool)
    (t : Items) (hwf : ItemsWF Inv cv t) (m : Macros) (hm : Inv m) :
    runFile cv m (flattenItems t) =
      match t.sel cv true (m, []) with
      | .ok s' => .ok ⟨[], s'.1, s'.2⟩
      | .error e => .error (toErr e) := by
  have h := Items.refines Inv cv t hwf [] m [] [] hm
  simp only [List.append_nil, active_nil] at h
  unfold runFile
  rw [h]
  cases t.sel cv true (m, []) <;> simp [andThen, run]

/-- The same statement from the middle of a file: from any stack `ch`, the lines of `t` leave the stack
    unchanged and have the reference effect for "enclosing group processed = `active ch`". -/
theorem automaton_refines_tree_any_stack (Inv : Macros → Prop)
    (cv : Macros → List CTok → Except CondErr Bool) (t : Items)
    (hwf : ItemsWF Inv cv t) (ch : List Block) (m : Macros) (hm : Inv m) (out : Out) :
    run cv ⟨ch, m, out⟩ (flattenItems t) =
      match t.sel cv (active ch) (m, out) with
      | .ok s' => .ok ⟨ch, s'.1, s'.2⟩
      | .error e => .error (toErr e) := by
  have h := Items.refines Inv cv t hwf ch m out [] hm
  simp only [List.append_nil] at h
  rw [h]
  cases t.sel cv (active ch) (m, out) <;> simp [andThen, run]

/-- Non-vacuity: a three-deep nesting with `#elif`, `#else`, `#ifdef`, a `#define` in a skipped group and
    one in a selected group satisfies the hypothesis for the real evaluator, and the model keeps exactly
    lines 2 and 5. -/
example :
    let one : List CTok := [.LiteralInt 1]
    let zero : List CTok := [.LiteralInt 0]
    let t : Items :=
      .cons (.cond (.ifc zero)
              (.cons (.plain (.define "M" one)) (.cons (.plain (.text [.Id "l1"])) .nil))
              (.elif one
                (.cons (.cond (.ifndef "M")
                         (.cons (.plain (.text [.Id "l2"])) (.cons (.plain (.define "N" one)) .nil))
                         (.els (.cons (.plain (.text [.Id "l3"])) .nil))) .nil)
                (.els (.cons (.plain (.text [.Id "l4"])) .nil))))
      (.cons (.cond (.ifdef "N") (.cons (.plain (.text [.Id "l5", .Id "N"])) .nil) .endif) .nil)
    ItemsWF (fun _ => True) condValue t ∧
    (runFile condValue [] (flattenItems t)).toOption.map (·.out) =
      some [[.Id "l2"], [.Id "l5", .LiteralInt 1]] := by
  refine ⟨?_, by decide⟩
  simp only [ItemsWF, ItemWF, ChainWF, and_true, true_and, implies_true]
  intro m _
  exact ⟨true, rfl⟩

/-- Lines inside a group that is not being processed have no effect, whatever they are: `#define`,
    `#undef`, `#include` (even of a missing file), `#pragma` (even unknown), unknown directives, directives
    that do not even start with a name (`#3`, since fix ed75afa) and text leave macro table and output
    untouched and cannot fail. -/
theorem inactive_has_no_effect (cv : Macros → List CTok → Except CondErr Bool) (ch : List Block)
    (m : Macros) (out : List (List CTok)) (h : active ch = false) (d : Dir)
    (hd : shape d = .other) :
    step cv ⟨ch, m, out⟩ d = .ok ⟨ch, m, out⟩ := by
  rw [step_inactive cv ch m out h]
  cases d <;> simp_all [shape]

/-- … and an `#if/#ifdef/#ifndef` met there is not evaluated: it only deepens the stack. -/
theorem inactive_if_not_evaluated (cv : Macros → List CTok → Except CondErr Bool) (ch : List Block)
    (m : Macros) (out : List (List CTok)) (h : active ch = false) (d : Dir) (hd : shape d = .opens) :
    step cv ⟨ch, m, out⟩ d = .ok ⟨⟨.DisabledInner, false⟩ :: ch, m, out⟩ := by
  rw [step_inactive cv ch m out h]
  cases d <;> simp_all [shape]

/-! ## 3. unterminated chains, unmatched `#else/#endif` and everything after an `#else` are rejected -/

/-- **Main theorem (rejection).**  For every line list whose lines cannot fail for another reason
    (`CleanDir`: well-formed conditions, no unknown pragma/directive, no missing include): the file is
    accepted iff the grammar scan of C accepts it (`Spec.CPre.scanC`: every `#elif/#else/#endif` has its
    `#if`, nothing follows the `#else` of an if-section, every if-section is closed), and otherwise it is
    rejected with exactly `ElseNotMatched` / `EndIfNotMatched` / `ElseAfterElse` / `ElifAfterElse` /
    `ConditionChainNotFinished` as the scan says.  (Before fix 03ca601 this held for the depth scan only; a
    second `#else` and an `#elif` after `#else` were accepted: the former negation witnesses.) -/
theorem unmatched_rejected (cv : Macros → List CTok → Except CondErr Bool) (ds : List Dir)
    (hclean : ∀ d ∈ ds, CleanDir cv d) (m : Macros) :
    (runFile cv m ds).map (fun _ => ()) = (scanC [] (ds.map shape)).mapError shapeErr := by
  have h := run_scan cv ds hclean ⟨[], m, []⟩
  simp only [flags, List.map_nil] at h
  rw [← h]
  unfold runFile finish
  cases run cv ⟨[], m, []⟩ ds with
  | error e => rfl
  | ok s =>
    by_cases h1 : s.chain.length ≠ 0
    · simp [h1, Except.map]
    · cases hs : s.chain.isEmpty <;> simp [h1, hs, Except.map]

/-- corollary: the accepted clean line lists are exactly the ones that satisfy the strict C grammar of
    if-sections (`scanStrict`: at most one `#else` per if-section, no `#elif` after it, balanced) -/
theorem strict_grammar_enforced (cv : Macros → List CTok → Except CondErr Bool) (ds : List Dir)
    (hclean : ∀ d ∈ ds, CleanDir cv d) (m : Macros) :
    (∃ s, runFile cv m ds = .ok s) ↔ scanStrict [] (ds.map shape) = true := by
  have h := unmatched_rejected cv ds hclean m
  rw [← scanC_ok_iff_strict]
  constructor
  · rintro ⟨s, hs⟩
    rw [hs] at h
    cases hc : scanC [] (ds.map shape) with
    | ok u => rfl
    | error e => rw [hc] at h; simp [Except.map, Except.mapError] at h
  · intro hc
    rw [hc] at h
    cases hr : runFile cv m ds with
    | ok s => exact ⟨s, rfl⟩
    | error e => rw [hr] at h; simp [Except.map, Except.mapError] at h

/-- corollary: well-nested input is accepted -/
theorem well_nested_accepted (cv : Macros → List CTok → Except CondErr Bool) (ds : List Dir)
    (hclean : ∀ d ∈ ds, CleanDir cv d) (m : Macros) (hscan : scanStrict [] (ds.map shape) = true) :
    ∃ s, runFile cv m ds = .ok s :=
  (strict_grammar_enforced cv ds hclean m).2 hscan

/-- Non-vacuity of `CleanDir` and the five rejections on concrete inputs of the real evaluator. -/
example :
    (runReal [] [.ifc [.LiteralInt 1], .text [.Id "a"]]).toOption = none ∧
    runReal [] [.text [.Id "a"], .els] = .error (.chain .ElseNotMatched) ∧
    runReal [] [.ifc [.LiteralInt 1], .endif, .endif] = .error (.chain .EndIfNotMatched) ∧
    runReal [] [.ifc [.LiteralInt 0], .ifdef false "X"] = .error (.chain .ConditionChainNotFinished) ∧
    runReal [] [.ifc [.LiteralInt 1], .els, .els, .endif] = .error (.chain .ElseAfterElse) ∧
    runReal [] [.ifc [.LiteralInt 1], .els, .elif [.LiteralInt 1], .endif] = .error (.chain .ElifAfterElse) := by
  decide

/-- Every line sequence that comes from a tree passes the *strict* C grammar check (at most one `#else`
    per if-section, no `#elif` after it). -/
theorem tree_lines_are_grammatical (t : Items) : scanStrict [] ((flattenItems t).map shape) = true := by
  have h := Items.strict t [] []
  simpa [scanStrict] using h

/-- **A second `#else` is rejected** (the input of the former negation witness `else_after_else_accepted`,
    repaired by fix 03ca601): the line list fails the strict check and the model — like the real
    preprocessor, replayed by `corpus/C11.txt` — rejects it with `ElseAfterElse`; also when the if-section
    lies inside a group that is skipped.  The general statement is `unmatched_rejected`. -/
theorem else_after_else_rejected :
    let ds : List Dir := [.ifc [.LiteralInt 0], .els, .text [.Id "a"], .els, .text [.Id "b"], .endif]
    scanStrict [] (ds.map shape) = false ∧
    runReal [] ds = .error (.chain .ElseAfterElse) ∧
    runReal [] ([.ifc [.LiteralInt 0]] ++ ds ++ [.endif]) = .error (.chain .ElseAfterElse) := by
  decide

/-- **An `#elif` after `#else` is rejected** (former witness `elif_after_else_accepted`, fix 03ca601). -/
theorem elif_after_else_rejected :
    let ds : List Dir := [.ifc [.LiteralInt 0], .els, .text [.Id "a"], .elif [.LiteralInt 1],
      .text [.Id "b"], .endif]
    scanStrict [] (ds.map shape) = false ∧
    runReal [] ds = .error (.chain .ElifAfterElse) ∧
    runReal [] ([.ifc [.LiteralInt 0]] ++ ds ++ [.endif]) = .error (.chain .ElifAfterElse) := by
  decide

/-- **Documented divergence outside the property** (the reason for the well-formedness hypothesis of
    `automaton_refines_tree`): the code evaluates an `#elif` condition even in a group C never looks at,
    so a malformed dead `#elif` is an error, while the reference skips it. -/
theorem dead_elif_is_evaluated :
    let bad : List CTok := [.Other "+"]
    runReal [] [.ifc [.LiteralInt 1], .elif bad, .endif] = .error (.cond .FailedToParseIfCondition) ∧
    (Items.sel condValue true (([], []) : Env × Out)
      (.cons (.cond (.ifc [.LiteralInt 1]) .nil (.elif bad .nil .endif)) .nil)).toOption
      = some ([], []) := by
  decide

/-! ## 4. condition values equal the reference evaluation over unsigned 64-bit integers -/

/-- Tie to the source: `BinOp::apply` is the C operator semantics on `u64`; every operator is recognised
    by `parse_op` of exactly the level the C grammar gives it (relational < equality < `&&` < `||`, four
    binary levels) and of no other level; `!` negates; the leaf arms give literals their value, `true` 1,
    `false` 0, every identifier 0, open a parenthesis on `(` and reject everything else. -/
theorem cond_tables_agree :
    (∀ (op : Op) a b, (genOp op).apply a b = op.sem a b) ∧
    (∀ (op : Op) X, (∀ r, X ≠ .Equals :: r) → opsAt op.level (op.toks ++ X) = some (genOp op, X)) ∧
    (∀ (op : Op) j, j ≠ op.level → ∀ X, opsAt j (op.toks ++ X) = none) ∧
    numLevels = 4 ∧ notTok = .ExclamationPoint ∧ closeTok = .RightParen ∧
    (∀ v, notApply v = b2u (v == 0)) ∧ (∀ v, truthy v = (v != 0)) ∧
    (∀ v, leafKind (.LiteralInt v) = .value v) ∧ (∀ v, leafKind (.LiteralIntUnsigned32 v) = .value v) ∧
    leafKind .True = .value 1 ∧ leafKind .False = .value 0 ∧ (∀ x, leafKind (.Id x) = .value 0) ∧
    leafKind .LeftParen = .paren ∧
    (∀ t, (∀ v, t ≠ .LiteralInt v) → (∀ v, t ≠ .LiteralIntUnsigned32 v) → t ≠ .True → t ≠ .False →
      (∀ x, t ≠ .Id x) → t ≠ .LeftParen → leafKind t = .fail) := by
  refine ⟨apply_eq_sem, opsAt_own, opsAt_other, rfl, rfl, rfl, notApply_eq, truthy_eq,
    fun _ => rfl, fun _ => rfl, rfl, rfl, fun _ => rfl, rfl, ?_⟩
  intro t h1 h2 h3 h4 h5 h6
  cases t <;> simp_all [leafKind]

/-- The model parser is total: at the fuel `parseCond` supplies, the fuelled recursion never runs out
    (so every token list is either parsed or rejected, and fuel is unobservable). -/
theorem cond_parser_total (ts : List CTok) : pLvl (fuelFor ts) numLevels ts ≠ .oof :=
  pLvl_fuel_enough ts

/-- **Main theorem (condition values).**  For every condition syntax tree `e` — any nesting of
    `|| && == != < <= > >= !`, parentheses (necessary or redundant), `defined X` / `defined(X)`, literals
    (plain or `u`-suffixed), `true`/`false`, macro names and unknown identifiers — printed with exactly
    the parentheses the C grammar requires, and every macro table `σ` in which `e` is well-formed (each
    macro used as an operand has a one-literal body): macro substitution followed by the
    precedence-climbing parser accepts the whole line and yields the truth value of the reference
    evaluation over unsigned 64-bit integers.
    (Macros with several body tokens are textual substitution in C as well; they are outside this
    tree-level statement and are covered by the correspondence run only.) -/
theorem cond_parse_eval (σ : Env) (e : Expr) (hwf : e.WellFormedIn σ) :
    condValue σ (print 4 e) = .ok (evalU64 σ e != 0) :=
  condValue_print σ e hwf

/-- the macro-free instance, on the parser alone -/
theorem cond_parse_eval_closed (e : Expr) (hc : Closed e) :
    parseCond (print 4 e) = some (evalU64 [] e != 0) := by
  rw [parseCond_print e hc, truthy_eq]

/-! ### 4b. the token level: the parser accepts exactly the grammar, and the parse is the unique tree -/

/-- **Main theorem (token level, completeness + soundness).**  For *every* token sequence `ts` (not only
    printed trees): the model of `condition_parser::parse` accepts `ts` with truth value `b` iff `ts` is the
    printing of a canonical syntax tree `e` (explicit parentheses as `.paren` nodes, every operand at the
    level the C grammar gives it, so `print` adds no parentheses of its own) whose reference value over
    unsigned 64-bit integers has truth `b`.  `parseTree ts` — the model parser with syntax trees in place of
    values (`Lemmas.CondParse.sim`: the model parser *is* `parseTree` followed by `evalU64`) — returns that
    tree. -/
theorem cond_parse_tokens (ts : List CTok) (b : Bool) :
    parseCond ts = some b ↔ ∃ e, Canon e ∧ print 4 e = ts ∧ parseTree ts = some e ∧ b = (evalU64 [] e != 0) := by
  rw [parseCond_parseTree]
  constructor
  · intro h
    cases ht : parseTree ts with
    | none => simp [ht] at h
    | some e =>
      simp only [ht, Option.map_some, Option.some.injEq] at h
      obtain ⟨h1, h2⟩ := parseTree_spec ts e ht
      exact ⟨e, h1, h2, rfl, by rw [← h, truthy_eq]⟩
  · rintro ⟨e, _, _, h3, rfl⟩
    simp [h3, truthy_eq]

/-- **Unambiguity.**  The tree is unique: two canonical trees with the same printing are equal; two
    arbitrary `defined`-free trees with the same printing differ only in redundant parentheses (they have
    the same canonical form, `canon` = make the parentheses `print` adds explicit) and have the same value.
    Together with `cond_parse_tokens`: the parse of an accepted token sequence is *the* tree whose printing
    is that sequence, modulo redundant parentheses. -/
theorem cond_parse_unambiguous :
    (∀ e₁ e₂, Canon e₁ → Canon e₂ → print 4 e₁ = print 4 e₂ → e₁ = e₂) ∧
    (∀ e₁ e₂, Closed e₁ → Closed e₂ → print 4 e₁ = print 4 e₂ →
      canon e₁ = canon e₂ ∧ evalU64 [] e₁ = evalU64 [] e₂) ∧
    (∀ e, Closed e → Canon (canon e) ∧ print 4 (canon e) = print 4 e ∧ evalU64 [] (canon e) = evalU64 [] e) := by
  have key : ∀ e₁ e₂, Canon e₁ → Canon e₂ → print 4 e₁ = print 4 e₂ → e₁ = e₂ := by
    intro e₁ e₂ h1 h2 hp
    have a := parseTree_print e₁ h1
    have b := parseTree_print e₂ h2
    rw [hp, b] at a
    exact (Option.some.inj a).symm
  refine ⟨key, ?_, fun e hc => ⟨canon_canon e hc, print_canon e 4, ev_canon e⟩⟩
  intro e₁ e₂ h1 h2 hp
  have hc : canon e₁ = canon e₂ :=
    key _ _ (canon_canon e₁ h1) (canon_canon e₂ h2) (by rw [print_canon, print_canon, hp])
  refine ⟨hc, ?_⟩
  have a := ev_canon e₁
  have b := ev_canon e₂
  simp only [ev] at a b
  rw [← a, ← b, hc]

/-- **Ill-formed token sequences are rejected**, well-formed ones accepted: with `Gram` the C grammar of
    conditions over the supported operators on tokens (`Spec.CPre.Gram`: literals, `true/false`,
    identifiers, `!`, parentheses, four left-associative binary levels), the model parser accepts `ts`
    iff `Gram 4 ts`. -/
theorem cond_rejects_illformed (ts : List CTok) :
    (¬ Gram 4 ts → parseCond ts = none) ∧ (Gram 4 ts → ∃ b, parseCond ts = some b) := by
  rw [parseCond_parseTree, gram_iff_accepts]
  constructor
  · intro h
    cases ht : parseTree ts with
    | none => rfl
    | some e => exact absurd ⟨e, ht⟩ h
  · rintro ⟨e, he⟩
    exact ⟨truthy (ev e), by simp [he]⟩

/-- Non-vacuity: `1 < 2 == ( 3 || 0 ) && ! x` is in the grammar and parses to the expected tree;
    `1 < = 2` (separate `<` and `=`), `1 ||`, `( 1` and `1 2` are not in the grammar and are rejected. -/
example :
    Gram 4 [.LiteralInt 1, .LeftAngleBracket .Whitespace, .LiteralInt 2, .EqualsEquals,
      .LeftParen, .LiteralInt 3, .VerticalBarVerticalBar, .LiteralInt 0, .RightParen,
      .AmpersandAmpersand, .ExclamationPoint, .Id "x"] ∧
    parseTree [.LiteralInt 1, .LeftAngleBracket .Whitespace, .LiteralInt 2, .EqualsEquals,
      .LeftParen, .LiteralInt 3, .VerticalBarVerticalBar, .LiteralInt 0, .RightParen,
      .AmpersandAmpersand, .ExclamationPoint, .Id "x"] = some (.bin .land
      (.bin .eq (.bin (.lt .Whitespace) (.lit 1 false) (.lit 2 false))
                (.paren (.bin .lor (.lit 3 false) (.lit 0 false))))
      (.not (.name "x"))) ∧
    parseCond [.LiteralInt 1, .LeftAngleBracket .Whitespace, .LiteralInt 2, .EqualsEquals,
      .LeftParen, .LiteralInt 3, .VerticalBarVerticalBar, .LiteralInt 0, .RightParen,
      .AmpersandAmpersand, .ExclamationPoint, .Id "x"] = some true ∧
    ¬ Gram 4 [.LiteralInt 1, .LeftAngleBracket .Whitespace, .Equals, .LiteralInt 2] ∧
    ¬ Gram 4 [.LiteralInt 1, .VerticalBarVerticalBar] ∧
    ¬ Gram 4 [.LeftParen, .LiteralInt 1] ∧
    ¬ Gram 4 [.LiteralInt 1, .LiteralInt 2] := by
  have hp : parseTree [.LiteralInt 1, .LeftAngleBracket .Whitespace, .LiteralInt 2, .EqualsEquals,
      .LeftParen, .LiteralInt 3, .VerticalBarVerticalBar, .LiteralInt 0, .RightParen,
      .AmpersandAmpersand, .ExclamationPoint, .Id "x"] = some (.bin .land
      (.bin .eq (.bin (.lt .Whitespace) (.lit 1 false) (.lit 2 false))
                (.paren (.bin .lor (.lit 3 false) (.lit 0 false))))
      (.not (.name "x"))) := by decide
  exact ⟨(gram_iff_accepts _).2 ⟨_, hp⟩, hp, by decide, not_gram_of_none _ (by decide),
    not_gram_of_none _ (by decide), not_gram_of_none _ (by decide), not_gram_of_none _ (by decide)⟩

/-- Non-vacuity: a depth-5 condition mixing all four binary levels, both associativity-sensitive shapes
    (`a - (b - c)`-like right nesting that needs parentheses, left nesting that does not), `!`, `defined`
    in both spellings, a macro operand, an unknown identifier and operands up to 2^64-1 is well-formed,
    and the theorem's two sides are the concrete value `true`. -/
example :
    let σ : Env := [("A", [.LiteralInt 5]), ("B", [.LiteralIntUnsigned32 0])]
    let e : Expr :=
      .bin .lor
        (.bin .land (.bin .eq (.name "A") (.bin (.lt .Token) (.lit 2 false) (.lit 18446744073709551615 false)))
                    (.not (.defined "C" true)))
        (.bin .ge (.bin .le (.name "U") (.bin .lor (.name "B") (.defined "A" false)))
                  (.paren (.bin .ne (.lit 4294967296 false) (.bin (.gt .Whitespace) .tru .fls))))
    e.WellFormedIn σ ∧ condValue σ (print 4 e) = .ok true ∧ evalU64 σ e = 1 := by
  refine ⟨⟨?_, ?_⟩, by decide, by decide⟩
  · show ∀ x ∈ ["A", "U", "B"], _
    intro x hx
    simp only [List.mem_cons, List.mem_nil_iff, or_false] at hx
    rcases hx with rfl | rfl | rfl
    · exact Or.inr ⟨_, 5, rfl, rfl⟩
    · exact Or.inl rfl
    · exact Or.inr ⟨_, 0, rfl, rfl⟩
  · show ∀ x ∈ ["A", "C", "U", "B", "A"], x ≠ "defined"
    decide

/-- A condition without macro operands is well-formed in every macro table; in particular the
    well-formedness hypothesis of `automaton_refines_tree` holds with the trivial invariant for every tree
    whose `#elif` conditions are printed trees over literals, `defined`, `!` and the binary operators. -/
theorem total_of_no_operands (e : Expr) (h1 : e.operandNames = []) (h2 : ∀ x ∈ e.names, x ≠ "defined") :
    Total condValue (print 4 e) := by
  intro m _
  exact ⟨_, cond_parse_eval m e ⟨by simp [h1], h2⟩⟩

/-- the invariant under which conditions with macro operands are well-formed: every macro body is one
    literal (it is preserved by every `#define NAME <literal>` and every `#undef`) -/
def LiteralMacros (m : Macros) : Prop :=
  ∀ x body, Env.lookup m x = some body → ∃ v, tokValue body = some v

/-- Under `LiteralMacros`, every printed condition tree that does not use the name `defined` as an
    identifier has a value — and by `cond_parse_eval` it is the reference value.  This discharges the
    `#elif` hypothesis of `automaton_refines_tree` (with `Inv := LiteralMacros`) for conditions that use
    macros as operands. -/
theorem total_under_literal_macros (e : Expr) (h2 : ∀ x ∈ e.names, x ≠ "defined") :
    TotalOn LiteralMacros condValue (print 4 e) := by
  intro m hm
  refine ⟨_, cond_parse_eval m e ⟨?_, h2⟩⟩
  intro x _
  cases hl : Env.lookup m x with
  | none => exact Or.inl rfl
  | some body =>
    obtain ⟨v, hv⟩ := hm x body hl
    exact Or.inr ⟨body, v, rfl, hv⟩

/-- the two facts that make `LiteralMacros` usable as the invariant of `automaton_refines_tree` -/
theorem literalMacros_define (m : Macros) (n : String) (body : List CTok) (v : UInt64)
    (hb : tokValue body = some v) (hm : LiteralMacros m) : LiteralMacros (Macros.define m n body) := by
  intro x bd hl
  rw [define_eq, Env.define, lookup_append_single, lookup_filter] at hl
  by_cases hx : x = n
  · simp only [hx, if_true] at hl
    simp at hl; subst hl; exact ⟨v, hb⟩
  · simp only [hx, if_false] at hl
    cases h : Env.lookup m x with
    | none => simp [h, Ne.symm hx] at hl
    | some b' => simp [h] at hl; subst hl; exact hm x _ h

theorem literalMacros_undef (m : Macros) (n : String) (hm : LiteralMacros m) :
    LiteralMacros (Macros.undef m n) := by
  intro x bd hl
  rw [undef_eq, Env.undef, lookup_filter] at hl
  by_cases hx : x = n
  · simp [hx] at hl
  · simp only [hx, if_false] at hl; exact hm x bd hl

theorem literalMacros_nil : LiteralMacros [] := by
  intro x bd hl; simp [Env.lookup] at hl

/-- Non-vacuity of the invariant form: a file that defines `A` and then tests `A == 5` in an `#elif`
    satisfies the hypotheses of `automaton_refines_tree` with `Inv := LiteralMacros`. -/
example :
    let t : Items :=
      .cons (.plain (.define "A" [.LiteralInt 5]))
        (.cons (.cond (.ifc [.LiteralInt 0]) .nil
                 (.elif (print 4 (.bin .eq (.name "A") (.lit 5 false)))
                    (.cons (.plain (.text [.Id "x"])) .nil) .endif)) .nil)
    ItemsWF LiteralMacros condValue t ∧ LiteralMacros [] ∧
    (runFile condValue [] (flattenItems t)).toOption.map (·.out) = some [[.Id "x"]] := by
  refine ⟨?_, literalMacros_nil, by decide⟩
  simp only [ItemsWF, ItemWF, ChainWF, and_true, true_and]
  exact ⟨fun m hm => literalMacros_define m "A" _ 5 rfl hm,
         total_under_literal_macros _ (by decide)⟩

/-! ## 5. include boundaries: every file's conditional directives balance on their own

`Model.CondFile` is the composed token-level model (`preprocess_command` + the token loop of
`preprocess_included_file` + `FileLoader` + the C12 macro engine); it is compared with the real
`rssl_preprocess::preprocess` on every run (`C11.raw`).  In C every file's conditional directives must balance
by themselves.  Since fix 115a619 the code has this rule (one `ConditionChain` object, but every file works
above the number of blocks that were open at its start), and the model proves it. -/

section IncludeBoundary
open RsslVerif.Model.CondFile RsslVerif.Model.Macro RsslVerif.Lemmas.CondFile

/-- Tie to the source for the composed model: the include-depth limit, that `preprocess_included_file` records
    the block count at its start, checks it at its end and restores the includer's (`chainPerFile`), that
    `switch`/`pop` cannot reach below it (`fileBaseGuardsSwitchAndPop`), that `find_single_macro` tests for
    `defined` before the macro loop, that the recursive expansions run with `apply_defined = false`, that only
    `#if/#elif` lines use `apply_defined = true`, that an API define with a line break is refused, and the
    three token kinds the name split of `preprocess_command` accepts — re-extracted from `/repo` on every run
    (`tools/gens/c11.py` raises `ExtractError` when a shape changes). -/
theorem composed_shape_agree :
    maxIncludeDepth = 200 ∧ chainPerFile = true ∧ fileBaseGuardsSwitchAndPop = true ∧ definedTestFirst = true ∧
    innerCallsWithoutDefined = true ∧ definedOnlyInConditions = true ∧ apiDefineRejectsLineBreak = true ∧
    nameTokens = ["Id", "If", "Else"] := by
  decide

/-- **Main theorem (files).**  For every include handler, fuel, file name and includer state — any file
    contents, any nesting of further includes, any macros: if processing the included file succeeds, the
    condition chain (every block with its state and its `#else` flag) and the file base are handed back to
    the includer exactly as they were.  An included file can therefore neither close, nor switch, nor leave
    open an if-section across its boundary: each file's `#if … #endif` balance on their own (the C rule;
    before fix 115a619 the chain was shared and the opposite was proved, `include_shares_chain`). -/
theorem included_file_is_balanced (h : Handler) (fuel : Nat) (name : String) (st st' : FState)
    (hok : includeFile h fuel name st = .ok st') : st'.chain = st.chain ∧ st'.base = st.base :=
  includeFile_restores h fuel name st st' hok

/-- … and while the file is being processed the includer's blocks stay untouched at the bottom of the
    stack: the invariant `Above st.chain` holds after every prefix of the file's token stream. -/
theorem includers_blocks_untouched (h : Handler) (fuel : Nat) (cur : String) (st : FState) (items : List SItem)
    (ps : PState) (act act' : List PTok) (st' : FState)
    (hl : fileLoop (includeFile h fuel) cur { st with base := st.chain.length } ps act items = .ok (st', act')) :
    ∃ pre, st'.chain = pre ++ st.chain ∧ st'.base = st.chain.length :=
  fileLoop_above _ (includeFile_restores h fuel) cur st.chain items _ ps act st' act' ⟨[], by simp, rfl⟩ hl

/-- **What an included file cannot do (for every includer state).**  Whatever handler, fuel and state: a file
    whose whole text is `#endif` is rejected with `EndIfNotMatched` — it does not pop the level the *includer*
    opened; a file `#else` is rejected with `ElseNotMatched`; a file `#ifdef X` is rejected with
    `ConditionChainNotFinished` at its end.  (The positive form of the former `include_shares_chain`.) -/
theorem include_cannot_touch_includers_chain (h : Handler) (fuel : Nat) (name : String) (st : FState)
    (ho : st.once.contains name = false) :
    (h name = some hdrEndif → includeFile h (fuel + 1) name st = .error (.chain .EndIfNotMatched)) ∧
    (h name = some hdrElse → includeFile h (fuel + 1) name st = .error (.chain .ElseNotMatched)) ∧
    (∀ x, h name = some (hdrIfdef x) →
      includeFile h (fuel + 1) name st = .error (.chain .ConditionChainNotFinished)) :=
  ⟨fun hf => include_endif h fuel name st hf ho,
   fun hf => include_else h fuel name st hf ho,
   fun x hf => include_ifdef h fuel name x st hf ho⟩

/-- **End to end (former negation witness `if_closed_by_includers_endif_accepted`).**  `wHdrA` = `#ifndef A⏎2⏎`
    opens an if-section and never closes it, `wMainA` = `#include "h.h"⏎1⏎#endif⏎` would close it: neither file
    is balanced (C rejects both), and the whole run is rejected with `ConditionChainNotFinished`.  Replayed on
    the real preprocessor by `corpus/C11.txt` (fixed finding `unterminated-in-include accepted`). -/
theorem if_closed_by_includers_endif_rejected :
    fileBalanced wHdrA = false ∧ fileBalanced wMainA = false ∧
    preprocessAll (fun n => if n = "main.rssl" then some wMainA else if n = "h.h" then some wHdrA else none)
      [] "main.rssl" = .error (.chain .ConditionChainNotFinished) :=
  RsslVerif.Lemmas.CondFile.witnessA

/-- **End to end (former negation witness `else_of_other_file_accepted`).**  `hdrElse` = `#else⏎` has an `#else`
    without an `#if`; included from inside the selected group of `wMainB` = `#ifndef A⏎1⏎#include "h.h"⏎2⏎#endif⏎`
    it is rejected with `ElseNotMatched`.  Fixed finding `unmatched-in-include accepted`. -/
theorem else_of_other_file_rejected :
    fileBalanced hdrElse = false ∧
    preprocessAll (fun n => if n = "main.rssl" then some wMainB else if n = "h.h" then some hdrElse else none)
      [] "main.rssl" = .error (.chain .ElseNotMatched) :=
  RsslVerif.Lemmas.CondFile.witnessB

/-- **Directives that do not start with a name** (`#3`, `# +`, `#"x"`; fix ed75afa), on the token-level model,
    for every state: inside a group that is not being processed such a directive has no effect at all; where
    it is processed it is an `UnknownCommand`. -/
theorem nonname_directive_ignored_when_skipped (inc : String → FState → Except RsslVerif.Model.CondFile.Err FState)
    (cur : String) (st : FState) (cmd : List PTok) (hn : commandName cmd = none) :
    (RsslVerif.Model.CondFile.active st.chain = false → command inc cur st cmd = .ok st) ∧
    (RsslVerif.Model.CondFile.active st.chain = true → command inc cur st cmd = .error .unknownCommand) := by
  constructor <;> intro ha <;> simp [command, hn, gated, ha, nonNameGate]

/-! ### an `#include` is processed every time it is met

C has no multiple-include memory: `#include` names a file, and the file's text is processed in the macro state
of that moment, every time (`#pragma once` is the one documented exception).  A header
`#ifndef X / A / #else / B / #endif` therefore delivers `A` on a visit with `X` undefined and `B` on a visit with
`X` defined. -/

open RsslVerif.Lemmas.CondFileFrame in
/-- Tie to the source: the `"include"` arm of `preprocess_command` is, token for token, `if skip { return }`,
    the operand test (`InvalidInclude`), the depth limit (`IncludeDepthExceeded`), then `load` +
    `preprocess_included_file` unconditionally (`includeArmHasNoSkip`, `includeArmExits`); `FileLoader::load`
    withholds a file's text only when the file is in `pragma_once_files` (`loadWithholdsOnlyOnce`); the fields of
    `struct FileLoader` and the members `preprocess_command` / `preprocess_included_file` touch are exactly the
    ones the model has a counterpart for (the two name maps, the source manager and the include handler = the
    pure `Handler`; `pragma_once_files` = `FState.once`; `include_depth` = `FState.depth`).  Re-extracted from
    `/repo` on every run; any other shape is an `ExtractError`. -/
theorem include_arm_shape_agree :
    includeArmHasNoSkip = true ∧ loadWithholdsOnlyOnce = true ∧
    includeArmExits = ["skip", "InvalidInclude", "IncludeDepthExceeded"] ∧
    fileLoaderFields = ["file_name_remap", "real_name_remap", "pragma_once_files", "source_manager",
      "include_handler", "include_depth"] ∧
    fileLoaderUses = ["get_source_location_from_file_offset", "include_depth", "load", "mark_as_pragma_once",
      "source_manager"] := by
  decide

open RsslVerif.Lemmas.CondFileFrame in
/-- **Main theorem (re-inclusion).**  For every include handler, fuel, file name and state:

    1. a file that is not in the pragma-once set is run through the token loop of `preprocess_included_file`
       with its full token stream — there is no other condition under which the model leaves a file out;
    2. the output produced so far is write-only: the include after any output `st.out` is the include after the
       empty output with `st.out` put in front (`reout`), error or not.  So the tokens an `#include`
       contributes, the macro table, chain and pragma-once set it leaves, or the error it raises, are a function
       of the handler (the files' texts) and of `(chain, base, macros, once, depth)` at that point — nothing else
       survives from earlier visits of the same file;
    3. in particular two states that differ only in their output history get the same contribution. -/
theorem include_is_processed_each_time (h : Handler) (fuel : Nat) (name : String) (st : FState) :
    (∀ items, h name = some items → st.once.contains name = false →
      includeFile h (fuel + 1) name st = runStream (includeFile h fuel) name st items) ∧
    includeFile h fuel name st = reout st.out (includeFile h fuel name { st with out := [] }) ∧
    (∀ o : List PTok, includeFile h fuel name { st with out := o } =
      reout o (includeFile h fuel name { st with out := [] })) := by
  refine ⟨?_, includeFile_framed h fuel name st, ?_⟩
  · intro items hf ho
    simp only [includeFile, hf, ho]
    rfl
  · intro o
    exact includeFile_framed h fuel name { st with out := o }

open RsslVerif.Lemmas.CondFileFrame in
/-- **The `#else` group of a guard block is delivered on a later visit.**  For every handler, fuel and includer
    state whose chain is active and whose pragma-once set does not hold the file: the header
    `hdrGuardElse` = `#ifndef X⏎1⏎#else⏎2⏎#endif⏎` appends `1` when no macro is called `X`, and `2` when one is —
    and changes nothing else.  Hence (second part) a visit with `X` undefined followed, after `X` got defined
    (`ms'`), by a second visit yields `1 ⏎ 2 ⏎`: the second visit is not optimised away. -/
theorem guard_else_group_delivered_on_reinclude (h : Handler) (fuel : Nat) (name : String) (st : FState)
    (hf : h name = some hdrGuardElse) (ho : st.once.contains name = false)
    (hact : RsslVerif.Model.CondFile.active st.chain = true) :
    includeFile h (fuel + 1) name st =
      .ok { st with out := st.out ++
        [⟨.int (if st.macros.any (fun m => m.name == "X") then "2" else "1"), true⟩, ⟨.endline, true⟩] } ∧
    (∀ ms' : List Macro, st.macros.any (fun m => m.name == "X") = false → ms'.any (fun m => m.name == "X") = true →
      ∃ st1, includeFile h (fuel + 1) name st = .ok st1 ∧
        includeFile h (fuel + 1) name { st1 with macros := ms' } =
          .ok { st with macros := ms', out := st.out ++
            [⟨.int "1", true⟩, ⟨.endline, true⟩, ⟨.int "2", true⟩, ⟨.endline, true⟩] }) := by
  refine ⟨include_guard_else h fuel name st hf ho hact, ?_⟩
  intro ms' h0 h1
  refine ⟨_, include_guard_else h fuel name st hf ho hact, ?_⟩
  have h2 := include_guard_else h fuel name
    { st with macros := ms', out := st.out ++ [⟨.int "1", true⟩, ⟨.endline, true⟩] } hf ho hact
  simp only [h0, h1, if_true] at h2 ⊢
  rw [show (if false = true then "2" else "1") = "1" from rfl]
  rw [h2]
  simp

/-- non-vacuity: the hypotheses of `guard_else_group_delivered_on_reinclude` hold for the initial state and a
    handler that knows the header; the first visit yields `1` -/
example : includeFile (fun n => if n = "h.h" then some RsslVerif.Lemmas.CondFileFrame.hdrGuardElse else none) 1 "h.h"
      ⟨[], 0, [], [], [], 0⟩ = .ok ⟨[], 0, [], [⟨.int "1", true⟩, ⟨.endline, true⟩], [], 0⟩ :=
  (guard_else_group_delivered_on_reinclude _ 0 "h.h" ⟨[], 0, [], [], [], 0⟩ rfl rfl rfl).1

end IncludeBoundary

/-! ## 6. macro replacement inside conditions, on the composed model (C11 tables + C12 macro engine)

`Model.CondFile.condD` = `trim_whitespace` + `apply_macros(.., apply_defined = true, ..)` (`topLoop`: the
outermost loop with the `defined` test; arguments and bodies go through C12's `Macro.applyLoop`, exactly as
the recursive calls of the Rust code pass `apply_defined = false`) + `condition_parser::parse`.  Ordinary
text is flushed through C12's `Macro.applyMacros` unchanged (`Model.CondFile.flush`), so every C12 theorem
about text applies verbatim to the composed model. -/

section Composed
open RsslVerif.Model.CondFile RsslVerif.Model.Macro RsslVerif.Lemmas.CondFile RsslVerif.Lemmas.CondMacro

/-- **`defined` is protected from expansion, macros are expanded.**  For every macro list `ms` — object-like
    or function-like macros, bodies of any shape — and every line of the form `a defined X r` /
    `a defined ( X ) r` (blanks as the lexer leaves them; `a`, `r` runs of tokens that are neither macro
    names nor `defined`): macro replacement turns the operator and its operand into the single token `1`/`0`
    according to whether *some* macro is called `X`, and leaves everything else alone — the operand `X` is
    never looked up as a macro, whatever it names.  By contrast the same `X` standing alone *is* replaced by
    its body (third part, for object-like macros with identifier-free bodies). -/
theorem defined_is_protected (ms : List Macro) (a r : List PTok)
    (ha : Quiet (ms.map (⟨·, false⟩)) a) (hr : Quiet (ms.map (⟨·, false⟩)) r) :
    (∀ (x : String) (w : PTok) (bs : List PTok) (ld lx : Bool), w.tok = .ws → Blanks bs →
      applyMacrosD ms (a ++ ⟨.id "defined", ld⟩ :: (w :: bs ++ ⟨.id x, lx⟩ :: r)) =
        .ok (a ++ definedTok (ms.any (fun m => m.name == x)) :: r)) ∧
    (∀ (x : String) (bs1 bs2 bs3 : List PTok) (ld l1 l2 l3 : Bool), Blanks bs1 → Blanks bs2 → Blanks bs3 →
      applyMacrosD ms (a ++ ⟨.id "defined", ld⟩ ::
          (bs1 ++ ⟨.lparen, l1⟩ :: bs2 ++ ⟨.id x, l2⟩ :: bs3 ++ ⟨.rparen, l3⟩ :: r)) =
        .ok (a ++ definedTok (ms.any (fun m => m.name == x)) :: r)) ∧
    (∀ (pre post : List Macro) (m : Macro) (l : Bool), ms = pre ++ m :: post →
      (∀ p ∈ pre, p.name ≠ m.name) → m.isFunction = false → plainBody m.body = true → m.name ≠ "defined" →
      applyMacrosD ms (a ++ ⟨.id m.name, l⟩ :: r) = .ok (a ++ (m.body ++ r))) := by
  have hany : ∀ x, isDefinedIn (ms.map (⟨·, false⟩)) x = ms.any (fun m => m.name == x) := by
    intro x; simp [isDefinedIn, List.any_map, Function.comp_def]
  refine ⟨?_, ?_, ?_⟩
  · intro x w bs ld lx hw hb
    rw [← hany]
    exact applyMacrosD_res ms _ _ (Res.definedId a bs r r x ld lx w ha hw hb (Res.done r hr))
  · intro x bs1 bs2 bs3 ld l1 l2 l3 h1 h2 h3
    rw [← hany]
    exact applyMacrosD_res ms _ _ (Res.definedParen a bs1 bs2 bs3 r r x ld l1 l2 l3 ha h1 h2 h3 (Res.done r hr))
  · intro pre post m l hms hpre hobj hbody hn
    refine applyMacrosD_res ms _ _ (Res.objMacro a r r (pre.map (⟨·, false⟩)) (post.map (⟨·, false⟩)) m l ha ?_ ?_
      hobj hbody hn (Res.done r hr))
    · rw [hms]; simp
    · intro e he
      obtain ⟨p, hp, rfl⟩ := List.mem_map.mp he
      exact hpre p hp

/-- **Main theorem (condition values, composed model).**  Let `ms` be any macro list and `R` an `#if/#elif`
    line (token level, with blanks) such that, after `trim_whitespace`, (1) `R` is covered by `Res`: runs of
    non-macro tokens, `defined X` / `defined ( X )` with arbitrary `X`, and object-like macros with
    identifier-free bodies, and (2) without blanks `R` is the printing of a condition tree `e` that is
    well-formed in the parser's view of the macro table (`cenv`: each macro used as an operand has a
    one-literal body).  Then the composed model — C12's macro engine with the `defined` loop on top, then the
    precedence-climbing parser — yields the truth of the reference value of `e` over unsigned 64-bit
    integers: `defined` is evaluated on the unexpanded operand and macros are expanded before evaluation. -/
theorem cond_eval_composed (ms : List Macro) (R R' : List PTok) (e : Expr)
    (hres : Res (ms.map (⟨·, false⟩)) (trim R) R')
    (hpr : condToks (trim R) = print 4 e)
    (hwf : e.WellFormedIn (cenv (ms.map (⟨·, false⟩)))) :
    condD ms R = .ok (evalU64 (cenv (ms.map (⟨·, false⟩))) e != 0) := by
  rw [condD_eq_condValue ms R R' hres, hpr, cond_parse_eval _ e hwf]

/-- Non-vacuity: `A == 5 && defined F && defined ( X ) && ! defined U` with `A` ↦ `5`, a function-like
    `F(x)` ↦ `x + G` and `X` ↦ `Y` satisfies the hypotheses, and the value is `true`: `F` and `X` are
    reported as defined without being expanded (expanding `F` without arguments or `X` to `Y` would change the
    result), `A` is replaced by `5` before the comparison. -/
example : condD exMacros exLine = .ok true := by
  have ht : trim exLine = exLine := by decide
  have h := cond_eval_composed exMacros exLine exOut
    (.bin .land (.bin .land (.bin .land (.bin .eq (.name "A") (.lit 5 false)) (.defined "F" false))
      (.defined "X" true)) (.not (.defined "U" false)))
    (by rw [ht]; exact exRes) (by rw [ht]; decide)
    ⟨by
      intro x hx
      have : x = "A" := by simpa [Expr.operandNames] using hx
      subst this
      exact Or.inr ⟨[.LiteralInt 5], 5, by decide, rfl⟩,
     by decide⟩
  rw [h]; decide

end Composed

/-! ## 7. the two ways in (`preprocess`, `preprocess_fragment`) and the way out (`prepare_tokens`) -/

section EntryPoints
open RsslVerif.Model.CondFile RsslVerif.Model.Macro RsslVerif.Lemmas.CondFile

/-- Tie to the source: `preprocess_fragment(input, name, ..)` is `preprocess(name, .., [(name, input)], defines)`
    with exactly one define, `__HLSL_VERSION` = `2021` (any other statement in its body is an `ExtractError`), and
    `prepare_tokens` is, token for token, "drop `is_whitespace()` tokens, hand every other token on, push `Eof`". -/
theorem entry_shape_agree :
    fragmentDefines = [("__HLSL_VERSION", "2021")] ∧ prepareKeepsNonBlank = true := by decide

/-- **A fragment is a file.**  For every token stream, every list of defines and every name, `preprocess_fragment`
    is the run of `preprocess_included_file` on the fragment from the empty chain (base 0, no output, nothing
    marked once, depth 0) with the macros of the defines, under a handler that knows the fragment only - so
    every theorem above that is stated for all handlers, states and token streams (selection, balance per file,
    gating of skipped groups, `include_is_processed_each_time`) holds for fragments.  Moreover (for *every*
    handler) a run of the entry file that succeeds ends with the empty chain: an unterminated if-section of the
    entry file is already rejected by the per-file test of `preprocess_included_file`
    (`ConditionChainNotFinished`), and the final test of `preprocess_initial_file` can never fire - which is why
    no input reaches that line of the source. -/
theorem fragment_is_a_file (items : List SItem) (api : List ApiDef) (entry : String) :
    (preprocessFragment items api entry =
      match initialMacros [] api with
      | .error e => .error e
      | .ok ms =>
        match runStream (includeFile (fun n => if n = entry then some items else none) includeFuel) entry
            ⟨[], 0, ms, [], [], 0⟩ items with
        | .error e => .error e
        | .ok st => .ok st.out) ∧
    (∀ (h : Handler) (ms : List Macro) (st : FState),
      runStream (includeFile h includeFuel) entry ⟨[], 0, ms, [], [], 0⟩ items = .ok st → st.chain = []) := by
  have hdead : ∀ (h : Handler) (ms : List Macro) (st : FState),
      runStream (includeFile h includeFuel) entry ⟨[], 0, ms, [], [], 0⟩ items = .ok st → st.chain = [] := by
    intro h ms st hr
    exact (runStream_restores _ (includeFile_restores h includeFuel) entry _ st items hr).1
  refine ⟨?_, hdead⟩
  simp only [preprocessFragment, preprocessAll, if_true]
  cases hm : initialMacros [] api with
  | error e => rfl
  | ok ms =>
    simp only []
    cases hr : runStream (includeFile (fun n => if n = entry then some items else none) includeFuel) entry
        ⟨[], 0, ms, [], [], 0⟩ items with
    | error e => rfl
    | ok st => simp [hdead _ ms st hr]

/-- the tokens `__HLSL_VERSION 2021` lexes to -/
def fragApi : List ApiDef := [some [⟨.id "__HLSL_VERSION", true⟩, ⟨.ws, true⟩, ⟨.int "2021", true⟩]]

/-- `#ifdef __HLSL_VERSION⏎1⏎#else⏎2⏎#endif⏎` -/
def fragIfdef : List SItem :=
  [T (.punct "#"), T (.id "ifdef"), T .ws, T (.id "__HLSL_VERSION"), T .endline, T (.int "1"), T .endline,
   T (.punct "#"), T (.punct "else"), T .endline, T (.int "2"), T .endline, T (.punct "#"), T (.id "endif"), T .endline]

/-- Non-vacuity / witness (replayed on the real `preprocess_fragment` by `corpus/C11.txt`): the define the
    function supplies selects the first group; without it (`preprocess` with no defines) the second one. -/
theorem fragment_define_selects :
    preprocessFragment fragIfdef fragApi "main.rssl" = .ok [⟨.int "1", true⟩, ⟨.endline, true⟩] ∧
    preprocessFragment fragIfdef [] "main.rssl" = .ok [⟨.int "2", true⟩, ⟨.endline, true⟩] := by
  have e : includeFuel = 201 + 1 := rfl
  have hm : initialMacros [] fragApi = .ok [⟨"__HLSL_VERSION", false, 0, [⟨.int "2021", true⟩]⟩] := by decide
  constructor
  · simp [preprocessFragment, preprocessAll, hm, fragIfdef, runStream, T, fileLoop, isHash,
      dropTrailingBlanks, command, commandName, gated, RsslVerif.Model.CondFile.exec, trim,
      trimStart, trimEnd, Tok.isWhitespace, Tok.isBlank, List.dropWhile, flush_nil, flush_noIds, noIds, chainSwitch,
      chainPop, RsslVerif.Model.CondFile.active, activeState, pushState, newBlock, gate,
      elseSwitchArg, elseIsElse, Block.switch, CS.switch]
  · simp [preprocessFragment, preprocessAll, initialMacros, fragIfdef, runStream, T, fileLoop, isHash,
      dropTrailingBlanks, command, commandName, gated, RsslVerif.Model.CondFile.exec, trim,
      trimStart, trimEnd, Tok.isWhitespace, Tok.isBlank, List.dropWhile, flush_nil, flush_noIds, noIds, chainSwitch,
      chainPop, RsslVerif.Model.CondFile.active, activeState, pushState, newBlock, gate,
      elseSwitchArg, elseIsElse, Block.switch, CS.switch]

/-- **Precisely the selected text reaches the parser.**  For every output of the preprocessor: what
    `prepare_tokens` hands to the parser is the list of its non-blank tokens, in order, closed by one `Eof`:
    (1) a token is handed on iff it occurs in the output and is not white space; (2) nothing depends on the
    context - the hand-over of `a ++ b` is the hand-over of `a` without its `Eof` followed by the hand-over of
    `b`; (3) `Eof` is the last token and occurs nowhere else; (4) the number of tokens is the number of
    non-blank tokens plus one; (5) white space only (also: nothing selected) gives `[Eof]`. -/
theorem selected_text_reaches_parser (a b : List PTok) :
    (∀ t : Tok, LexTok.tok t ∈ prepareTokens a ↔ (∃ p ∈ a, p.tok = t) ∧ t.isWhitespace = false) ∧
    prepareTokens (a ++ b) = (prepareTokens a).dropLast ++ prepareTokens b ∧
    (prepareTokens a).getLast? = some .eof ∧ LexTok.eof ∉ (prepareTokens a).dropLast ∧
    (prepareTokens a).length = (a.filter (fun t => !t.tok.isWhitespace)).length + 1 ∧
    ((∀ p ∈ a, p.tok.isWhitespace = true) → prepareTokens a = [.eof]) := by
  refine ⟨?_, ?_, ?_, ?_, ?_, ?_⟩
  · intro t
    simp only [prepareTokens, List.mem_append, List.mem_map, List.mem_filter, List.mem_singleton]
    constructor
    · rintro (⟨p, ⟨hp, hw⟩, he⟩ | h)
      · cases he
        exact ⟨⟨p, hp, rfl⟩, by simpa using hw⟩
      · cases h
    · rintro ⟨⟨p, hp, he⟩, hw⟩
      exact Or.inl ⟨p, ⟨hp, by simp [he, hw]⟩, by rw [he]⟩
  · simp [prepareTokens]
  · simp [prepareTokens]
  · simp [prepareTokens]
  · simp [prepareTokens]
  · intro h
    have : a.filter (fun t => !t.tok.isWhitespace) = [] := by
      rw [List.filter_eq_nil_iff]
      intro p hp
      simp [h p hp]
    simp [prepareTokens, this]

/-- Non-vacuity: `1 ⏎ /* c */ x ⏎` reaches the parser as `1 x Eof`. -/
example : prepareTokens [⟨.int "1", true⟩, ⟨.ws, true⟩, ⟨.endline, true⟩, ⟨.ws, true⟩, ⟨.id "x", true⟩, ⟨.endline, true⟩]
    = [.tok (.int "1"), .tok (.id "x"), .eof] := by decide

end EntryPoints

end RsslVerif.Thm.C11

import RsslVerif.Gen.MslDupSites
import RsslVerif.Gen.MslGenTables
/-!
# C02 — the two places where the Metal exporter writes an operand more than once

1. `msl/src/generator.rs`, `generate_expression`, arm `Cast` to a struct type: `(S)value` is emitted as `S { c₁, c₂, … }`, one
   clause per element of `S` (`get_member_types`): the generated operand copied when the element has the operand's type or
   the operand is a literal, otherwise the operand below a cast to the element's type, generated again (fix 5d2f434) — if
   the side-effect test accepts the operand or the struct has exactly one element; otherwise the export fails with
   `UnsupportedCast`.
2. `generate_intrinsic_op`, arm `RemainderAssignment` on a floating-point target (fixes 92d66eb + 35faaaa): `a %= b` is
   emitted as `a = metal::fmod(a, b)` — the target twice, and read BEFORE `b` is evaluated — if `is_plain_place` accepts the
   target and `is_free_of_writes` the right operand; otherwise the export fails with `ComplexRemainderAssignment`.

This file is the executable model of both decisions, driven by the tables `Gen.MslDupSites.structCastGuard` and
`Gen.MslGenTables.remAssignPlaceGuard / remAssignIndexGuard / remAssignWritesGuard` that the translator re-extracts from the source
(constructor ↦ the fields the test recurses into).  Core Lean only.
-/
namespace RsslVerif.Model.MslDup
open RsslVerif.Gen.MslDupSites RsslVerif.Gen.MslGenTables

mutual
/-- an `ir::Expression` as the side-effect test sees it: the constructor's name and its fields in declaration order -/
inductive DExpr where
  | node (ctor : String) (fields : DFields)
  deriving Repr
/-- fields of a constructor: a payload that is not an expression (ids, types, swizzle slots, operators, call types —
abstracted to a number), a `Box<Expression>`, or a `Vec<Expression>` / `Vec<ConstructorSlot>` -/
inductive DFields where
  | nil
  | payload (tag : Nat) (rest : DFields)
  | one (e : DExpr) (rest : DFields)
  | many (es : DExprs) (rest : DFields)
  deriving Repr
inductive DExprs where
  | nil
  | cons (e : DExpr) (r : DExprs)
  deriving Repr
end

def DFields.length : DFields → Nat
  | .nil => 0
  | .payload _ r => r.length + 1
  | .one _ r => r.length + 1
  | .many _ r => r.length + 1

/-- the payload numbers of a constructor's fields, in order -/
def DFields.payloads : DFields → List Nat
  | .nil => []
  | .payload t r => t :: r.payloads
  | .one _ r => r.payloads
  | .many _ r => r.payloads

def findRow (rows : List GuardRow) (c : String) : Option GuardRow := rows.find? (fun r => r.ctor == c)

mutual
/-- the side-effect test as the table describes it: the arm of the constructor accepts iff the test accepts every field
it recurses into; fields it does not recurse into are NOT looked at (what the code does); no arm = the `_ => false` arm.
(A `Vec` field cannot be handed to a test on one expression: such a row does not type-check in Rust; the model refuses.) -/
def testExpr (rows : List GuardRow) : DExpr → Bool
  | .node c fs =>
    match findRow rows c with
    | none => false
    | some r => r.arity == fs.length && testFields rows r.recursed 0 fs
def testFields (rows : List GuardRow) (recursed : List Nat) (i : Nat) : DFields → Bool
  | .nil => true
  | .payload _ rest => testFields rows recursed (i + 1) rest
  | .one e rest => (if recursed.contains i then testExpr rows e else true) && testFields rows recursed (i + 1) rest
  | .many _ rest => (!recursed.contains i) && testFields rows recursed (i + 1) rest
end

/-- types as `get_member_types` sees them; a leaf carries its (unmodified) type id -/
inductive CTy where
  | leaf (ty : Nat)                       -- scalar, vector, matrix, enum, object: one element
  | arr (elem : CTy) (len : Option Nat)   -- `Array(inner, Some(len))` / `Array(_, None)`
  | struct (members : List CTy)
  deriving Repr, Inhabited

def repeatList (l : List Nat) : Nat → List Nat
  | 0 => []
  | n + 1 => l ++ repeatList l n

mutual
/-- `get_member_types`: an array repeats its element's list, a struct concatenates its members' lists, everything else is
one element of its own type; an unbounded array panics -/
def memberTypes : CTy → Except String (List Nat)
  | .leaf t => .ok [t]
  | .arr e (some n) => match memberTypes e with
    | .ok l => .ok (repeatList l n)
    | .error m => .error m
  | .arr _ none => .error "Can not cast to unbounded array"
  | .struct ms => memberTypesList ms
def memberTypesList : List CTy → Except String (List Nat)
  | [] => .ok []
  | m :: r => match memberTypes m with
    | .ok k => match memberTypesList r with
      | .ok s => .ok (k ++ s)
      | .error e => .error e
    | .error e => .error e
end

/-- one clause of the emitted braced list -/
inductive Clause where
  | copy                 -- `inner.clone()`: the generated operand
  | convert (ty : Nat)   -- `generate_expression(Cast(member_type, expr.clone()))`: the operand converted to the element's type
  deriving Repr, DecidableEq, Inhabited

inductive CastOutcome where
  | clauses (cs : List Clause)  -- `BracedInit(type, clauses)`
  | unsupportedCast             -- `Err(GenerateError::UnsupportedCast)`
  | panic (msg : String)
  deriving Repr, DecidableEq, Inhabited

/-- `matches!(**expr, ir::Expression::Literal(_))` -/
def isLiteral : DExpr → Bool
  | .node c _ => c == "Literal"

/-- the clause for an element of type `t` -/
def clauseFor (inputTy : Nat) (lit : Bool) (t : Nat) : Clause := if t == inputTy || lit then .copy else .convert t

/-- the aggregate branch of the struct half of the Cast arm (operand of type `inputTy`, another type than the struct itself) -/
def structCast (rows : List GuardRow) (oneElementAnything : Bool) (ty : CTy) (inputTy : Nat) (operand : DExpr) : CastOutcome :=
  match memberTypes ty with
  | .error m => .panic m
  | .ok ts =>
    if testExpr rows operand || (oneElementAnything && ts.length == 1) then .clauses (ts.map (clauseFor inputTy (isLiteral operand)))
    else .unsupportedCast

/-- with the tables of the current source -/
def structCastNow (ty : CTy) (inputTy : Nat) (operand : DExpr) : CastOutcome :=
  structCast structCastGuard structCastAcceptsAnythingForOneElement ty inputTy operand

/-! ## the operands of a floating-point `%=` -/

/-- the pattern's operator alternatives admit the node's operator (field 0, an index into `intrinsicOpNames`) -/
def opOK (r : PlaceRow) (fs : DFields) : Bool :=
  r.ops.isEmpty ||
    match fs with
    | .payload p _ =>
      (match intrinsicOpNames[p]? with
        | some n => r.ops.contains n
        | none => false)
    | _ => false

/-- the first arm whose pattern matches the node: the constructor, and one of the operator alternatives if there are any -/
def findPlaceRow (rows : List PlaceRow) (c : String) (fs : DFields) : Option PlaceRow :=
  rows.find? (fun r => r.ctor == c && opOK r fs)

mutual
/-- a local test `fn(expr: &ir::Expression) -> bool` as its table describes it.  `tabs` = the table of the test itself, then
the table of the test it hands its `other` fields to (`is_plain_place` → `is_plain_index`), and so on; no table = `false`.
The arm of the node's constructor accepts iff every `self` field passes the test itself, every `other` field the next test,
every element of an `allOf` field the test itself; fields in none of the lists are NOT looked at (what the code does); no
arm = the `_ => false` arm.  (A `Vec` field handed to a test on one expression, or a `Box` field to `.iter().all`, does not
type-check in Rust; the model refuses.) -/
def testD : List (List PlaceRow) → DExpr → Bool
  | [], _ => false
  | rows :: more, .node c fs =>
    match findPlaceRow rows c fs with
    | none => false
    | some r => r.arity == fs.length && testDFields rows more r 0 fs
def testDFields (rows : List PlaceRow) (more : List (List PlaceRow)) (r : PlaceRow) (i : Nat) : DFields → Bool
  | .nil => true
  | .payload _ rest => testDFields rows more r (i + 1) rest
  | .one e rest =>
    (!r.allOf.contains i) &&
    (if r.self.contains i then testD (rows :: more) e else if r.other.contains i then testD more e else true) &&
      testDFields rows more r (i + 1) rest
  | .many es rest =>
    (!r.self.contains i) && (!r.other.contains i) && (if r.allOf.contains i then testDAll rows more es else true) &&
      testDFields rows more r (i + 1) rest
def testDAll (rows : List PlaceRow) (more : List (List PlaceRow)) : DExprs → Bool
  | .nil => true
  | .cons e rest => testD (rows :: more) e && testDAll rows more rest
end

/-- `is_plain_place` with the tables of the current source -/
def plainPlaceD (e : DExpr) : Bool := testD [remAssignPlaceGuard, remAssignIndexGuard] e
/-- `is_plain_index` -/
def plainIndexD (e : DExpr) : Bool := testD [remAssignIndexGuard] e
/-- `is_free_of_writes` -/
def freeOfWritesD (e : DExpr) : Bool := testD [remAssignWritesGuard] e

inductive RemAssignOutcome where
  | targetTwice        -- `a = inner(a, b)`
  | refused            -- `Err(GenerateError::ComplexRemainderAssignment)`
  deriving Repr, DecidableEq, Inhabited

/-- the floating-point branch of the `RemainderAssignment` arm, with the tables of the current source:
`!is_plain_place(&exprs[0]) || !is_free_of_writes(&exprs[1])` refuses -/
def remAssignNow (target rhs : DExpr) : RemAssignOutcome :=
  if plainPlaceD target && freeOfWritesD rhs then .targetTwice else .refused

end RsslVerif.Model.MslDup

//! Reference evaluators (the property's oracle, independent of the Lean model):
//! `IrEval` runs the typed IR (explicit casts, resolved operators, variables by id),
//! `AstEval` runs re-parsed HLSL text with C-like rules (names, literal suffixes, usual arithmetic conversions,
//! static operand types choose the operation).  Both share the primitive interpretation in `sx.rs`.
#![allow(dead_code)]
use super::sx::*;
use std::collections::HashMap;

thread_local! {
    /// why the last evaluation got stuck (diagnostics only)
    pub static WHY: std::cell::RefCell<Option<String>> = const { std::cell::RefCell::new(None) };
}
fn note(s: String) {
    WHY.with(|w| {
        let mut w = w.borrow_mut();
        if w.is_none() {
            *w = Some(s.chars().take(160).collect());
        }
    });
}
pub fn take_why() -> String {
    WHY.with(|w| w.borrow_mut().take()).unwrap_or_default()
}

pub const FUEL: u32 = 64;
pub const DEPTH: u32 = 12;

#[derive(Clone, PartialEq, Debug)]
pub enum Flow {
    Normal,
    Break,
    Continue,
    Ret(Option<V>),
}

#[derive(Clone, PartialEq, Debug)]
pub struct Outcome {
    pub ret: V,
    pub params: Vec<V>,
    pub globals: Vec<V>,
}

impl Outcome {
    pub fn show(&self) -> String {
        format!(
            "r={} p={} g={}",
            self.ret.show(),
            self.params.iter().map(|v| v.show()).collect::<Vec<_>>().join(","),
            self.globals.iter().map(|v| v.show()).collect::<Vec<_>>().join(",")
        )
    }
}

pub fn show_outcome(o: &Option<Outcome>) -> String {
    match o {
        Some(o) => o.show(),
        None => "none".to_string(),
    }
}

fn dir_of(s: &str) -> u8 {
    match s {
        "out" => 1,
        "inout" => 2,
        _ => 0,
    }
}

// ================================================================================================ IR
#[derive(Clone, Copy, PartialEq, Eq, Hash, Debug)]
pub enum Var {
    Loc(u32),
    Glob(u32),
}

pub struct IrEval<'a> {
    /// function id → `(fn id ret (params ...) (b ...))`
    pub funcs: HashMap<u32, &'a Sx>,
}

type Store = HashMap<Var, V>;

fn ir_lval(e: &Sx) -> Option<Var> {
    match e.head() {
        "var" => e.args()[0].atom().parse().ok().map(Var::Loc),
        "glob" => e.args()[0].atom().parse().ok().map(Var::Glob),
        _ => None,
    }
}

fn ir_const(e: &Sx) -> Option<V> {
    let k = e.args()[0].atom();
    let v = e.args()[1].atom();
    Some(match k {
        "bool" => V::B(v == "1"),
        "intlit" => V::L(v.parse().ok()?),
        "i32" => V::I(u32::from_str_radix(v, 16).ok()?),
        "u32" => V::U(u32::from_str_radix(v, 16).ok()?),
        "f32" => V::F(u32::from_str_radix(v, 16).ok()?),
        "flit" => V::D(u64::from_str_radix(v, 16).ok()?),
        _ => return None,
    })
}

impl<'a> IrEval<'a> {
    pub fn new(prog: &'a [Sx]) -> Self {
        let mut funcs = HashMap::new();
        for f in prog {
            if f.head() == "fn" {
                if let Ok(id) = f.args()[0].atom().parse::<u32>() {
                    funcs.insert(id, f);
                }
            }
        }
        IrEval { funcs }
    }

    fn get(st: &Store, x: Var) -> V {
        st.get(&x).copied().unwrap_or(V::Void)
    }

    pub fn eval(&self, e: &Sx, st: &mut Store, depth: u32) -> Option<V> {
        let r = self.eval_inner(e, st, depth);
        if r.is_none() {
            note(format!("ir: {}", e.show()));
        }
        r
    }

    fn eval_inner(&self, e: &Sx, st: &mut Store, depth: u32) -> Option<V> {
        match e.head() {
            "lit" => ir_const(e),
            "var" | "glob" => Some(Self::get(st, ir_lval(e)?)),
            "cast" => {
                let t = T::parse(e.args()[0].atom())?;
                let v = self.eval(&e.args()[1], st, depth)?;
                cast_val(t, v)
            }
            "tern" => match self.eval(&e.args()[0], st, depth)? {
                V::B(true) => self.eval(&e.args()[1], st, depth),
                V::B(false) => self.eval(&e.args()[2], st, depth),
                _ => None,
            },
            "seq" => {
                let mut last = None;
                for x in e.args() {
                    last = Some(self.eval(x, st, depth)?);
                }
                last
            }
            "intr" => {
                // (intr Name ret (types...) args...): resolved signature, arguments left to right
                let name = e.args()[0].atom();
                let t = match &e.args()[2] {
                    Sx::L(ts) => T::parse(ts.first()?.atom())?,
                    _ => return None,
                };
                let mut vals = Vec::new();
                for x in &e.args()[3..] {
                    vals.push(self.eval(x, st, depth)?);
                }
                intr(name, t, &vals)
            }
            "call" => {
                let id: u32 = e.args()[0].atom().parse().ok()?;
                let f = *self.funcs.get(&id)?;
                let params = f.args()[2].args();
                let args = &e.args()[1..];
                if params.len() != args.len() {
                    return None;
                }
                let mut vals = Vec::new();
                let mut lvs = Vec::new();
                for (p, x) in params.iter().zip(args) {
                    if dir_of(p.args()[1].atom()) == 0 {
                        vals.push(self.eval(x, st, depth)?);
                        lvs.push(None);
                    } else {
                        let lv = ir_lval(x)?;
                        vals.push(Self::get(st, lv));
                        lvs.push(Some(lv));
                    }
                }
                let (ret, finals) = self.call(id, &vals, st, depth)?;
                for (lv, v) in lvs.iter().zip(finals) {
                    if let Some(x) = lv {
                        st.insert(*x, v);
                    }
                }
                Some(ret)
            }
            "op" => {
                let name = e.args()[0].atom();
                let xs = &e.args()[1..];
                match (op_sem(name), xs.len()) {
                    (OpSem::Un(m), 1) => {
                        let v = self.eval(&xs[0], st, depth)?;
                        unop(m, v)
                    }
                    (OpSem::IncDec(pre, inc), 1) => {
                        let x = ir_lval(&xs[0])?;
                        let old = Self::get(st, x);
                        let new = step(inc, old)?;
                        st.insert(x, new);
                        Some(if pre { new } else { old })
                    }
                    (OpSem::Bin(m), 2) => {
                        let p = self.eval(&xs[0], st, depth)?;
                        let q = self.eval(&xs[1], st, depth)?;
                        binop(m, p, q)
                    }
                    (OpSem::Land, 2) | (OpSem::Lor, 2) => {
                        let is_and = op_sem(name) == OpSem::Land;
                        match self.eval(&xs[0], st, depth)? {
                            V::B(p) if p != is_and => Some(V::B(p)),
                            V::B(_) => match self.eval(&xs[1], st, depth)? {
                                V::B(q) => Some(V::B(q)),
                                _ => None,
                            },
                            _ => None,
                        }
                    }
                    (OpSem::Assign, 2) => {
                        let x = ir_lval(&xs[0])?;
                        let v = self.eval(&xs[1], st, depth)?;
                        st.insert(x, v);
                        Some(v)
                    }
                    (OpSem::Compound(m), 2) => {
                        let x = ir_lval(&xs[0])?;
                        let q = self.eval(&xs[1], st, depth)?;
                        let r = binop(m, Self::get(st, x), q)?;
                        st.insert(x, r);
                        Some(r)
                    }
                    _ => None,
                }
            }
            _ => None,
        }
    }

    fn cond(&self, e: &Sx, st: &mut Store, depth: u32) -> Option<bool> {
        if e.head() == "none" {
            return Some(true);
        }
        // a statement condition is contextually converted to bool (the type checker inserts no cast here)
        match cast_val(T::Bool, self.eval(e, st, depth)?)? {
            V::B(x) => Some(x),
            _ => None,
        }
    }

    fn vardef(&self, d: &[Sx], st: &mut Store, depth: u32) -> Option<()> {
        let id: u32 = d[0].atom().parse().ok()?;
        if d.len() > 1 {
            let v = self.eval(&d[1], st, depth)?;
            st.insert(Var::Loc(id), v);
        }
        Some(())
    }

    fn block(&self, b: &Sx, st: &mut Store, depth: u32) -> Option<Flow> {
        for s in b.args() {
            match self.exec(s, st, depth)? {
                Flow::Normal => {}
                other => return Some(other),
            }
        }
        Some(Flow::Normal)
    }

    pub fn exec(&self, s: &Sx, st: &mut Store, depth: u32) -> Option<Flow> {
        let x = s.args();
        match s.head() {
            "expr" => {
                self.eval(&x[0], st, depth)?;
                Some(Flow::Normal)
            }
            "var" => {
                self.vardef(x, st, depth)?;
                Some(Flow::Normal)
            }
            "block" => self.block(&x[0], st, depth),
            "if" => {
                if self.cond(&x[0], st, depth)? { self.block(&x[1], st, depth) } else { Some(Flow::Normal) }
            }
            "ifelse" => {
                if self.cond(&x[0], st, depth)? { self.block(&x[1], st, depth) } else { self.block(&x[2], st, depth) }
            }
            "for" | "while" => {
                let (cond, inc, body) = if s.head() == "for" {
                    match x[0].head() {
                        "none" => {}
                        "e" => {
                            self.eval(&x[0].args()[0], st, depth)?;
                        }
                        "defs" => {
                            for d in x[0].args() {
                                self.vardef(d.args(), st, depth)?;
                            }
                        }
                        _ => return None,
                    }
                    (&x[1], Some(&x[2]), &x[3])
                } else {
                    (&x[0], None, &x[1])
                };
                for _ in 0..FUEL {
                    if !self.cond(cond, st, depth)? {
                        return Some(Flow::Normal);
                    }
                    match self.block(body, st, depth)? {
                        Flow::Break => return Some(Flow::Normal),
                        Flow::Ret(v) => return Some(Flow::Ret(v)),
                        _ => {}
                    }
                    if let Some(i) = inc {
                        if i.head() != "none" {
                            self.eval(i, st, depth)?;
                        }
                    }
                }
                None
            }
            "dowhile" => {
                for _ in 0..FUEL {
                    match self.block(&x[0], st, depth)? {
                        Flow::Break => return Some(Flow::Normal),
                        Flow::Ret(v) => return Some(Flow::Ret(v)),
                        _ => {}
                    }
                    if !self.cond(&x[1], st, depth)? {
                        return Some(Flow::Normal);
                    }
                }
                None
            }
            "break" => Some(Flow::Break),
            "continue" => Some(Flow::Continue),
            "ret" => {
                if x.is_empty() {
                    Some(Flow::Ret(None))
                } else {
                    let v = self.eval(&x[0], st, depth)?;
                    Some(Flow::Ret(Some(v)))
                }
            }
            // labels are statements of their own in the IR; executed in sequence they do nothing
            "case" | "default" => Some(Flow::Normal),
            "switch" => {
                // jump to the first matching `case`, else to `default`, else past the block; fall through until `break`
                let v = self.eval(&x[1], st, depth)?;
                let t = T::parse(x[0].atom())?;
                let items = x[2].args();
                // a label's constant is kept as written (usually an IntLiteral) and compared in the scrutinee's type
                let mut start = None;
                for (i, s) in items.iter().enumerate() {
                    if s.head() == "case" && cast_val(t, ir_const(&s.args()[0])?)? == v {
                        start = Some(i);
                        break;
                    }
                }
                let start = start.or_else(|| items.iter().position(|s| s.head() == "default"));
                if let Some(i) = start {
                    for s in &items[i..] {
                        match self.exec(s, st, depth)? {
                            Flow::Normal => {}
                            Flow::Break => return Some(Flow::Normal),
                            other => return Some(other),
                        }
                    }
                }
                Some(Flow::Normal)
            }
            _ => None,
        }
    }

    /// returns (return value, final parameter values)
    pub fn call(&self, id: u32, vals: &[V], st: &mut Store, depth: u32) -> Option<(V, Vec<V>)> {
        if depth == 0 {
            return None;
        }
        let f = *self.funcs.get(&id)?;
        let params = f.args()[2].args();
        if params.len() != vals.len() {
            return None;
        }
        let mut ids = Vec::new();
        for (p, v) in params.iter().zip(vals) {
            let pid: u32 = p.args()[0].atom().parse().ok()?;
            st.insert(Var::Loc(pid), *v);
            ids.push(pid);
        }
        let fl = self.block(&f.args()[3], st, depth - 1)?;
        let ret = match fl {
            Flow::Ret(Some(v)) => v,
            _ => V::Void,
        };
        Some((ret, ids.iter().map(|i| Self::get(st, Var::Loc(*i))).collect()))
    }

    pub fn run(&self, id: u32, vals: &[V], globals: &[(u32, V)]) -> Option<Outcome> {
        let mut st = Store::new();
        for (g, v) in globals {
            st.insert(Var::Glob(*g), *v);
        }
        let (ret, params) = self.call(id, vals, &mut st, DEPTH)?;
        Some(Outcome { ret, params, globals: globals.iter().map(|(g, _)| Self::get(&st, Var::Glob(*g))).collect() })
    }
}

// ================================================================================================ AST (text)
pub struct AstEval<'a> {
    pub funcs: HashMap<String, &'a Sx>,
    /// name → declared type, in declaration order
    pub globals: Vec<(String, T)>,
    pub global_init: HashMap<String, &'a Sx>,
}

struct Frame {
    vals: HashMap<String, V>,
    types: HashMap<String, T>,
    ret: T,
}

fn common(x: T, y: T) -> Option<T> {
    use T::*;
    if x == y {
        return Some(x);
    }
    Some(match (x, y) {
        (Lit, Int) | (Int, Lit) => Int,
        (Lit, Uint) | (Uint, Lit) => Uint,
        (Lit, Float) | (Float, Lit) | (Flit, Float) | (Float, Flit) => Float,
        (Int, Uint) | (Uint, Int) => Uint,
        (Int, Float) | (Float, Int) | (Uint, Float) | (Float, Uint) => Float,
        (Bool, Int) | (Int, Bool) | (Bool, Lit) | (Lit, Bool) => Int,
        (Bool, Uint) | (Uint, Bool) => Uint,
        (Bool, Float) | (Float, Bool) => Float,
        _ => return None,
    })
}

fn convert(from: T, to: T, v: V) -> Option<V> {
    if from == to { Some(v) } else { cast_val(to, v) }
}

fn c_type(name: &str) -> Option<T> {
    match name {
        "bool" => Some(T::Bool),
        "int" => Some(T::Int),
        "uint" => Some(T::Uint),
        "float" => Some(T::Float),
        "void" => Some(T::Void),
        _ => None,
    }
}

/// declared types of every local of a function body (names are unique per function in the programs of this subset)
fn collect_decls(s: &Sx, out: &mut HashMap<String, T>) {
    match s {
        Sx::A(_) => {}
        Sx::L(items) => {
            if s.head() == "var" || s.head() == "decl" {
                if let Some(t) = c_type(s.args()[0].atom()) {
                    for d in &s.args()[1..] {
                        out.insert(d.args()[0].atom().to_string(), t);
                    }
                }
            }
            for i in items {
                collect_decls(i, out);
            }
        }
    }
}

impl<'a> AstEval<'a> {
    pub fn new(prog: &'a [Sx]) -> Self {
        let mut funcs = HashMap::new();
        let mut globals = Vec::new();
        let mut global_init = HashMap::new();
        for d in prog {
            match d.head() {
                "fn" => {
                    funcs.insert(d.args()[0].atom().to_string(), d);
                }
                "global" => {
                    if let Some(t) = c_type(d.args()[1].atom()) {
                        let n = d.args()[0].atom().to_string();
                        if d.args().len() > 3 {
                            global_init.insert(n.clone(), &d.args()[3]);
                        }
                        globals.push((n, t));
                    }
                }
                _ => {}
            }
        }
        AstEval { funcs, globals, global_init }
    }

    fn var_type(&self, name: &str, fr: &Frame) -> Option<T> {
        fr.types.get(name).copied().or_else(|| self.globals.iter().find(|g| g.0 == name).map(|g| g.1))
    }

    pub fn type_of(&self, e: &Sx, fr: &Frame) -> Option<T> {
        let x = e.args();
        match e.head() {
            "lit" => Some(match x[0].atom() {
                "bool" => T::Bool,
                "int" => T::Lit,
                "uint" => T::Uint,
                "f32" => T::Float,
                "flt" => T::Flit,
                _ => return None,
            }),
            "id" => self.var_type(x[0].atom(), fr),
            "un" => {
                let t = self.type_of(&x[1], fr)?;
                match op_sem(x[0].atom()) {
                    OpSem::Un(MUn::Lnot) => Some(T::Bool),
                    OpSem::Un(_) | OpSem::IncDec(_, _) => Some(t),
                    _ => None,
                }
            }
            "bin" => {
                let ta = self.type_of(&x[1], fr)?;
                let tb = self.type_of(&x[2], fr)?;
                match op_sem(x[0].atom()) {
                    OpSem::Bin(m) => {
                        let t = common(ta, tb)?;
                        Some(if m.is_cmp() { T::Bool } else { t })
                    }
                    OpSem::Land | OpSem::Lor => Some(T::Bool),
                    OpSem::Assign | OpSem::Compound(_) => Some(ta),
                    OpSem::Comma => Some(tb),
                    _ => None,
                }
            }
            "tern" => {
                self.type_of(&x[0], fr)?;
                common(self.type_of(&x[1], fr)?, self.type_of(&x[2], fr)?)
            }
            "cast" => {
                self.type_of(&x[1], fr)?;
                c_type(x[0].atom())
            }
            "call" => match self.funcs.get(x[0].atom()) {
                Some(f) => c_type(f.args()[1].atom()),
                None => {
                    // a built-in: applied at the common type of its arguments
                    let b = builtin_of_hlsl_name(x[0].atom())?;
                    Some(builtin_ret(b, self.args_type(&x[1..], fr)?))
                }
            },
            _ => None,
        }
    }

    fn args_type(&self, args: &[Sx], fr: &Frame) -> Option<T> {
        let mut it = args.iter().rev();
        let mut t = self.type_of(it.next()?, fr)?;
        for a in it {
            t = common(self.type_of(a, fr)?, t)?;
        }
        // all arguments literals: the built-in is resolved at int / float
        Some(match t {
            T::Lit => T::Int,
            T::Flit => T::Float,
            t => t,
        })
    }

    fn read(&self, name: &str, fr: &Frame, gl: &HashMap<String, V>) -> Option<V> {
        if fr.types.contains_key(name) {
            Some(fr.vals.get(name).copied().unwrap_or(V::Void))
        } else if self.globals.iter().any(|g| g.0 == name) {
            Some(gl.get(name).copied().unwrap_or(V::Void))
        } else {
            None
        }
    }

    fn write(&self, name: &str, v: V, fr: &mut Frame, gl: &mut HashMap<String, V>) -> Option<()> {
        if fr.types.contains_key(name) {
            fr.vals.insert(name.to_string(), v);
            Some(())
        } else if self.globals.iter().any(|g| g.0 == name) {
            gl.insert(name.to_string(), v);
            Some(())
        } else {
            None
        }
    }

    fn lval<'e>(&self, e: &'e Sx) -> Option<&'e str> {
        if e.head() == "id" { Some(e.args()[0].atom()) } else { None }
    }

    fn eval_as(&self, to: T, e: &Sx, fr: &mut Frame, gl: &mut HashMap<String, V>, depth: u32) -> Option<V> {
        let from = match self.type_of(e, fr) {
            Some(t) => t,
            None => {
                note(format!("text: no static type for {}", e.show()));
                return None;
            }
        };
        let v = self.eval(e, fr, gl, depth)?;
        let r = convert(from, to, v);
        if r.is_none() {
            note(format!("text: no conversion {:?} -> {:?} of {}", from, to, v.show()));
        }
        r
    }

    pub fn eval(&self, e: &Sx, fr: &mut Frame, gl: &mut HashMap<String, V>, depth: u32) -> Option<V> {
        let r = self.eval_inner(e, fr, gl, depth);
        if r.is_none() {
            note(format!("text: {}", e.show()));
        }
        r
    }

    fn eval_inner(&self, e: &Sx, fr: &mut Frame, gl: &mut HashMap<String, V>, depth: u32) -> Option<V> {
        let x = e.args();
        match e.head() {
            "lit" => {
                let v = x[1].atom();
                Some(match x[0].atom() {
                    "bool" => V::B(v == "1"),
                    "int" => V::L(v.parse().ok()?),
                    "uint" => V::U(v.parse::<u64>().ok()? as u32),
                    "f32" => V::F(u32::from_str_radix(v, 16).ok()?),
                    "flt" => V::D(u64::from_str_radix(v, 16).ok()?),
                    _ => return None,
                })
            }
            "id" => self.read(x[0].atom(), fr, gl),
            "cast" => {
                let t = c_type(x[0].atom())?;
                let v = self.eval(&x[1], fr, gl, depth)?;
                cast_val(t, v)
            }
            "tern" => {
                self.type_of(&x[0], fr)?;
                let t = common(self.type_of(&x[1], fr)?, self.type_of(&x[2], fr)?)?;
                match self.eval_as(T::Bool, &x[0], fr, gl, depth)? {
                    V::B(true) => self.eval_as(t, &x[1], fr, gl, depth),
                    V::B(false) => self.eval_as(t, &x[2], fr, gl, depth),
                    _ => None,
                }
            }
            "call" if !self.funcs.contains_key(x[0].atom()) => {
                let b = builtin_of_hlsl_name(x[0].atom())?;
                let t = self.args_type(&x[1..], fr)?;
                let mut vals = Vec::new();
                for a in &x[1..] {
                    vals.push(self.eval_as(t, a, fr, gl, depth)?);
                }
                intr(b, t, &vals)
            }
            "call" => {
                let f = *self.funcs.get(x[0].atom())?;
                let params = f.args()[2].args();
                let args = &x[1..];
                if params.len() != args.len() {
                    return None;
                }
                let mut vals = Vec::new();
                let mut lvs: Vec<Option<String>> = Vec::new();
                for (p, arg) in params.iter().zip(args) {
                    let pt = c_type(p.args()[2].atom())?;
                    if dir_of(p.args()[1].atom()) == 0 {
                        vals.push(self.eval_as(pt, arg, fr, gl, depth)?);
                        lvs.push(None);
                    } else {
                        let n = self.lval(arg)?;
                        vals.push(self.read(n, fr, gl)?);
                        lvs.push(Some(n.to_string()));
                    }
                }
                let (ret, finals) = self.call(x[0].atom(), &vals, gl, depth)?;
                for (lv, v) in lvs.iter().zip(finals) {
                    if let Some(n) = lv {
                        self.write(n, v, fr, gl)?;
                    }
                }
                Some(ret)
            }
            "un" => match op_sem(x[0].atom()) {
                OpSem::Un(m) => {
                    let te = self.type_of(&x[1], fr)?;
                    let v = self.eval_as(if m == MUn::Lnot { T::Bool } else { te }, &x[1], fr, gl, depth)?;
                    unop(m, v)
                }
                OpSem::IncDec(pre, inc) => {
                    let n = self.lval(&x[1])?;
                    let old = self.read(n, fr, gl)?;
                    let new = step(inc, old)?;
                    self.write(n, new, fr, gl)?;
                    Some(if pre { new } else { old })
                }
                _ => None,
            },
            "bin" => {
                let (l, r) = (&x[1], &x[2]);
                match op_sem(x[0].atom()) {
                    OpSem::Bin(m) => {
                        let t = common(self.type_of(l, fr)?, self.type_of(r, fr)?)?;
                        let p = self.eval_as(t, l, fr, gl, depth)?;
                        let q = self.eval_as(t, r, fr, gl, depth)?;
                        binop(m, p, q)
                    }
                    OpSem::Land | OpSem::Lor => {
                        let is_and = op_sem(x[0].atom()) == OpSem::Land;
                        self.type_of(r, fr)?;
                        match self.eval_as(T::Bool, l, fr, gl, depth)? {
                            V::B(p) if p != is_and => Some(V::B(p)),
                            V::B(_) => match self.eval_as(T::Bool, r, fr, gl, depth)? {
                                V::B(q) => Some(V::B(q)),
                                _ => None,
                            },
                            _ => None,
                        }
                    }
                    OpSem::Assign => {
                        let n = self.lval(l)?;
                        let t = self.var_type(n, fr)?;
                        let v = self.eval_as(t, r, fr, gl, depth)?;
                        self.write(n, v, fr, gl)?;
                        Some(v)
                    }
                    OpSem::Compound(m) => {
                        let n = self.lval(l)?;
                        let t = self.var_type(n, fr)?;
                        let c = common(t, self.type_of(r, fr)?)?;
                        let q = self.eval_as(c, r, fr, gl, depth)?;
                        let cur = convert(t, c, self.read(n, fr, gl)?)?;
                        let res = convert(c, t, binop(m, cur, q)?)?;
                        self.write(n, res, fr, gl)?;
                        Some(res)
                    }
                    OpSem::Comma => {
                        self.type_of(l, fr)?;
                        self.eval(l, fr, gl, depth)?;
                        self.eval(r, fr, gl, depth)
                    }
                    _ => None,
                }
            }
            _ => None,
        }
    }

    fn cond(&self, e: &Sx, fr: &mut Frame, gl: &mut HashMap<String, V>, depth: u32) -> Option<bool> {
        if e.head() == "none" {
            return Some(true);
        }
        self.type_of(e, fr)?;
        match cast_val(T::Bool, self.eval(e, fr, gl, depth)?)? {
            V::B(x) => Some(x),
            _ => None,
        }
    }

    fn decls(&self, items: &[Sx], fr: &mut Frame, gl: &mut HashMap<String, V>, depth: u32) -> Option<()> {
        let t = c_type(items[0].atom())?;
        for d in &items[1..] {
            let n = d.args()[0].atom();
            if d.args().len() > 1 {
                let v = self.eval_as(t, &d.args()[1], fr, gl, depth)?;
                fr.vals.insert(n.to_string(), v);
            }
        }
        Some(())
    }

    pub fn exec(&self, s: &Sx, fr: &mut Frame, gl: &mut HashMap<String, V>, depth: u32) -> Option<Flow> {
        let x = s.args();
        match s.head() {
            "expr" => {
                self.eval(&x[0], fr, gl, depth)?;
                Some(Flow::Normal)
            }
            "var" => {
                self.decls(x, fr, gl, depth)?;
                Some(Flow::Normal)
            }
            "block" => {
                for st in x {
                    match self.exec(st, fr, gl, depth)? {
                        Flow::Normal => {}
                        other => return Some(other),
                    }
                }
                Some(Flow::Normal)
            }
            "if" => {
                if self.cond(&x[0], fr, gl, depth)? { self.exec(&x[1], fr, gl, depth) } else { Some(Flow::Normal) }
            }
            "ifelse" => {
                if self.cond(&x[0], fr, gl, depth)? { self.exec(&x[1], fr, gl, depth) } else { self.exec(&x[2], fr, gl, depth) }
            }
            "for" | "while" => {
                let (cond, inc, body) = if s.head() == "for" {
                    match x[0].head() {
                        "none" => {}
                        "e" => {
                            self.eval(&x[0].args()[0], fr, gl, depth)?;
                        }
                        "decl" => self.decls(x[0].args(), fr, gl, depth)?,
                        _ => return None,
                    }
                    (&x[1], Some(&x[2]), &x[3])
                } else {
                    (&x[0], None, &x[1])
                };
                for _ in 0..FUEL {
                    if !self.cond(cond, fr, gl, depth)? {
                        return Some(Flow::Normal);
                    }
                    match self.exec(body, fr, gl, depth)? {
                        Flow::Break => return Some(Flow::Normal),
                        Flow::Ret(v) => return Some(Flow::Ret(v)),
                        _ => {}
                    }
                    if let Some(i) = inc {
                        if i.head() != "none" {
                            self.eval(i, fr, gl, depth)?;
                        }
                    }
                }
                None
            }
            "dowhile" => {
                for _ in 0..FUEL {
                    match self.exec(&x[0], fr, gl, depth)? {
                        Flow::Break => return Some(Flow::Normal),
                        Flow::Ret(v) => return Some(Flow::Ret(v)),
                        _ => {}
                    }
                    if !self.cond(&x[1], fr, gl, depth)? {
                        return Some(Flow::Normal);
                    }
                }
                None
            }
            "break" => Some(Flow::Break),
            "continue" => Some(Flow::Continue),
            "ret" => {
                if x.is_empty() {
                    Some(Flow::Ret(None))
                } else {
                    let v = self.eval_as(fr.ret, &x[0], fr, gl, depth)?;
                    Some(Flow::Ret(Some(v)))
                }
            }
            "empty" => Some(Flow::Normal),
            // a label reached in sequence: just the statement it labels
            "case" => self.exec(&x[1], fr, gl, depth),
            "default" => self.exec(&x[0], fr, gl, depth),
            "switch" => {
                if x[1].head() != "block" {
                    return None;
                }
                // C: the controlling expression is promoted (a literal int is an int); each label's constant is
                // converted to that type; control jumps to the matching label, else `default`, else past the block
                let tc = self.type_of(&x[0], fr)?;
                let t = if tc == T::Lit { T::Int } else { tc };
                let v = self.eval_as(t, &x[0], fr, gl, depth)?;
                enum Item<'s> {
                    Case(&'s Sx),
                    Default,
                    Stmt(&'s Sx),
                }
                fn flat<'s>(s: &'s Sx, out: &mut Vec<Item<'s>>) {
                    match s.head() {
                        "case" => {
                            out.push(Item::Case(&s.args()[0]));
                            flat(&s.args()[1], out)
                        }
                        "default" => {
                            out.push(Item::Default);
                            flat(&s.args()[0], out)
                        }
                        "empty" => {}
                        _ => out.push(Item::Stmt(s)),
                    }
                }
                let mut items = Vec::new();
                for s in x[1].args() {
                    flat(s, &mut items);
                }
                let mut start = None;
                for (i, it) in items.iter().enumerate() {
                    if let Item::Case(e) = it {
                        if self.eval_as(t, e, fr, gl, depth)? == v {
                            start = Some(i);
                            break;
                        }
                    }
                }
                if start.is_none() {
                    start = items.iter().position(|it| matches!(it, Item::Default));
                }
                if let Some(i) = start {
                    for it in &items[i..] {
                        if let Item::Stmt(s) = it {
                            match self.exec(s, fr, gl, depth)? {
                                Flow::Normal => {}
                                Flow::Break => return Some(Flow::Normal),
                                other => return Some(other),
                            }
                        }
                    }
                }
                Some(Flow::Normal)
            }
            _ => None,
        }
    }

    pub fn call(&self, name: &str, vals: &[V], gl: &mut HashMap<String, V>, depth: u32) -> Option<(V, Vec<V>)> {
        if depth == 0 {
            return None;
        }
        let f = *self.funcs.get(name)?;
        let params = f.args()[2].args();
        if params.len() != vals.len() {
            return None;
        }
        let mut fr = Frame { vals: HashMap::new(), types: HashMap::new(), ret: c_type(f.args()[1].atom())? };
        collect_decls(&f.args()[3], &mut fr.types);
        let mut names = Vec::new();
        for (p, v) in params.iter().zip(vals) {
            let n = p.args()[0].atom().to_string();
            fr.types.insert(n.clone(), c_type(p.args()[2].atom())?);
            fr.vals.insert(n.clone(), *v);
            names.push(n);
        }
        let fl = self.exec(&f.args()[3], &mut fr, gl, depth - 1)?;
        let ret = match fl {
            Flow::Ret(Some(v)) => v,
            _ => V::Void,
        };
        Some((ret, names.iter().map(|n| fr.vals.get(n).copied().unwrap_or(V::Void)).collect()))
    }

    /// initial values of the static globals: their initialisers converted to the declared type
    pub fn init_globals(&self) -> Option<HashMap<String, V>> {
        let mut gl = HashMap::new();
        for (n, t) in &self.globals {
            if let Some(e) = self.global_init.get(n) {
                let mut fr = Frame { vals: HashMap::new(), types: HashMap::new(), ret: T::Void };
                let mut scratch = gl.clone();
                let v = self.eval_as(*t, e, &mut fr, &mut scratch, 1)?;
                gl.insert(n.clone(), v);
            }
        }
        Some(gl)
    }

    /// `order`: names of the globals to report, in the caller's order
    pub fn run(&self, name: &str, vals: &[V], order: &[String]) -> Option<Outcome> {
        let mut gl = self.init_globals()?;
        let (ret, params) = self.call(name, vals, &mut gl, DEPTH)?;
        Some(Outcome { ret, params, globals: order.iter().map(|n| gl.get(n).copied().unwrap_or(V::Void)).collect() })
    }
}

"""Translator plugin for C03: Gen.TypingTables

Re-extracted from /repo on every run (literal matches only; the algorithms around them are hand-modelled in
Model/Elab.lean and tied by the correspondence run):
  ir/src/intrinsics.rs               enum IntrinsicOp; IntrinsicOp::get_return_type: per arm the asserts (arity, equal operand
                                     types, lvalue first operand) and the shape of the result expression
  ast/src/ast_expressions.rs         enum BinOp, enum UnaryOp
  typer/src/typer/expressions.rs     parse_expr_binop: the three arms of `match *op` (arithmetic / assignment / sequence),
                                     both `let i = match *op` operator maps, the `require_integer` list, the short-circuit ops;
                                     get_non_vector_conversion_rank (scalar arms + enum), is_integer_or_bool_or_enum,
                                     most_sig_scalar::get_order
  typer/src/casting.rs               ImplicitConversion::apply: the two literal re-tagging matches
"""
import re


def register(gen, T):
    from rustsrc import (ExtractError, fn_body, impl_fn_body, enum_variants, first_match, match_arms,
                         split_top, normws, lean_str, matching)

    def lower(name):
        return name[0].lower() + name[1:]

    def strip_asserts(text):
        """remove `assert_eq!( .. );` / `assert!( .. );` statements"""
        out = []
        i = 0
        while i < len(text):
            m = re.compile(r'assert(_eq)?!\s*\(').match(text, i)
            if m:
                j = matching(text, m.end() - 1)
                i = j + 1
                while i < len(text) and text[i] in " ;":
                    i += 1
                continue
            out.append(text[i])
            i += 1
        return normws("".join(out))

    def nows(text):
        return re.sub(r'\s+', '', text)

    # ---- pinned source copies (comments stripped): the model functions `checkMutablePlace` / `checkOutArgs` were written from them
    ASSIGN_HEAD = """
            if context.module.type_registry.extract_modifier(lhs_type.0).1.is_const {
                return Err(TyperError::MutableRequired(lhs.get_location()));
            }
            let required_rtype = match lhs_type.1 {
                ir::ValueType::Lvalue => ExpressionType(lhs_type.0, ir::ValueType::Rvalue),
                _ => return Err(TyperError::LvalueRequired(lhs.get_location())),
            };
            check_mutable_place(&lhs_ir, lhs.get_location(), context)?;
            match ImplicitConversion::find(rhs_type, required_rtype, &mut context.module) {
    """
    CHECK_OUTPUT_ARGUMENTS = """
        let signature = context.module.function_registry.get_function_signature(id);
        for (param_type, param_value) in signature.param_types.iter().zip(param_values) {
            if matches!(
                param_type.input_modifier,
                ir::InputModifier::Out | ir::InputModifier::InOut
            ) {
                check_mutable_place(param_value, call_location, context)?;
            }
        }
        Ok(())
    """
    MOST_SIGNIFICANT_NON_VECTOR = """
        let left_tyl = module.type_registry.get_type_layer(left);
        let right_tyl = module.type_registry.get_type_layer(right);
        let (left, right) = match (left_tyl, right_tyl) {
            (ir::TypeLayer::Enum(_), ir::TypeLayer::Enum(_)) => (left, right),
            (ir::TypeLayer::Enum(id), _) => (module.enum_registry.get_underlying_type_id(id), right),
            (_, ir::TypeLayer::Enum(id)) => (left, module.enum_registry.get_underlying_type_id(id)),
            _ => (left, right),
        };
        let left_order = match get_non_vector_conversion_rank(left, module) {
            Some(order) => order,
            None => return Err(TyperError::NumericTypeExpected(left_location)),
        };
        let right_order = match get_non_vector_conversion_rank(right, module) {
            Some(order) => order,
            None => return Err(TyperError::NumericTypeExpected(right_location)),
        };
        if left_order > right_order {
            Ok(left)
        } else {
            Ok(right)
        }
    """
    CHECK_MUTABLE_PLACE = """
        let mut current = expr;
        loop {
            let ety = match current.get_type(&context.module) {
                Ok(ety) => ety,
                Err(_) => return Err(TyperError::InternalError(location)),
            };
            if ety.1 != ir::ValueType::Lvalue {
                return Err(TyperError::LvalueRequired(location));
            }
            if context.module.type_registry.is_const(ety.0) {
                return Err(TyperError::MutableRequired(location));
            }
            current = match current {
                ir::Expression::StructMember(object, _, _)
                | ir::Expression::ObjectMember(object, _)
                | ir::Expression::Swizzle(object, _)
                | ir::Expression::MatrixSwizzle(object, _) => object,
                ir::Expression::ArraySubscript(object, _) => {
                    let object_ty = match object.get_type(&context.module) {
                        Ok(ety) => context.module.type_registry.remove_modifier(ety.0),
                        Err(_) => return Err(TyperError::InternalError(location)),
                    };
                    if context.module.type_registry.get_type_layer(object_ty).is_object() {
                        return Ok(());
                    }
                    object
                }
                ir::Expression::ConstantVariable(_) => {
                    return Err(TyperError::MutableRequired(location));
                }
                _ => return Ok(()),
            };
        }
    """

    @gen("TypingTables")
    def typing_tables():
        intr = T.src("ir/src/intrinsics.rs")
        ast = T.src("ast/src/ast_expressions.rs")
        expr = T.src("typer/src/typer/expressions.rs")
        casting = T.src("typer/src/casting.rs")
        ir_types = T.src("ir/src/ir_types.rs")
        out = ["-- GENERATED by tools/translate.py from ir/src/intrinsics.rs, ast/src/ast_expressions.rs, "
               "typer/src/typer/expressions.rs, typer/src/casting.rs -- do not edit\n"
               "import RsslVerif.Gen.RankTable\n"
               "namespace RsslVerif.Gen.TypingTables\nopen RsslVerif.Gen.RankTable\n\n"]
        scalars = [v for v, _ in enum_variants(ir_types, "ScalarType")]

        # ------------------------------------------------------------ IntrinsicOp
        ops = enum_variants(intr, "IntrinsicOp")
        if any(p for _, p in ops):
            raise ExtractError("IntrinsicOp has a variant with a payload")
        ops = [v for v, _ in ops]
        out.append("/-- `ir::IntrinsicOp` -/\ninductive IOp where\n" + "".join(f"  | {lower(o)}\n" for o in ops) +
                   "  deriving DecidableEq, Repr, Inhabited\n\n")
        out.append("def IOp.all : List IOp := " + T.lean_list("." + lower(o) for o in ops) + "\n\n")
        out.append("def IOp.name : IOp → String\n" + "".join(f"  | .{lower(o)} => {lean_str(o)}\n" for o in ops) + "\n")
        out.append("def IOp.ofName? (s : String) : Option IOp := IOp.all.find? (fun k => k.name == s)\n\n")

        # ------------------------------------------------------------ get_return_type
        body = impl_fn_body(intr, r'IntrinsicOp', "get_return_type")
        _, arms_text, _ = first_match(body, r'^\*self$')
        rules = {}
        logical_not_matrix = None
        for pats, guard, result in match_arms(arms_text):
            if guard is not None:
                raise ExtractError("get_return_type: guard unsupported")
            m = re.search(r'assert_eq!\(\s*param_types\.len\(\)\s*,\s*(\d+)\s*\)', result)
            arity = f"some {m.group(1)}" if m else "none"
            same = bool(re.search(r'assert_eq!\(\s*param_types\[0\]\.0\s*,\s*param_types\[1\]\.0\s*[,)]', result))
            lval = bool(re.search(r'assert_eq!\(\s*param_types\[0\]\.1\s*,\s*ValueType::Lvalue\s*\)', result))
            n_asserts = len(re.findall(r'assert(_eq)?!\s*\(', result))
            if n_asserts != (1 if m else 0) + (1 if same else 0) + (1 if lval else 0):
                raise ExtractError(f"get_return_type: arm {pats[:2]} has an assert the translator does not know")
            tail = strip_asserts(result).strip("{} ")
            if tail == "param_types[0]":
                res = "arg0"
            elif tail == "module .type_registry .remove_modifier(param_types[0].0) .to_rvalue()":
                res = "unmodR"
            elif tail == "param_types[0].0.to_rvalue()":
                res = "arg0R"
            elif re.fullmatch(r'let ty = module \.type_registry \.transform_scalar\(param_types\[0\]\.0, ScalarType::Bool\); '
                              r'ty\.to_rvalue\(\)', tail):
                res = "boolOf"
            elif tail.startswith("let type_id = module.type_registry.remove_modifier(param_types[0].0); "
                                 "match module.type_registry.get_type_layer(type_id)") and \
                    'panic!("invalid logical not intrinsic")' in tail:
                # the arms of the inner match: Scalar -> bool, Vector(_, x) -> boolx, [Matrix(_, x, y) -> boolxxy], _ -> panic
                whole = strip_asserts(result)
                i0 = whole.index("match module.type_registry.get_type_layer(type_id)")
                _, inner, _ = first_match(whole, None, i0)
                layers = []
                for ipats, iguard, ires in match_arms(inner):
                    if iguard is not None or len(ipats) != 1:
                        raise ExtractError("get_return_type/LogicalNot: arm unsupported")
                    pat = ipats[0]
                    if pat == "TypeLayer::Scalar(_)" and "TypeLayer::Scalar(ScalarType::Bool)" in ires and "Vector" not in ires:
                        layers.append("scalar")
                    elif pat == "TypeLayer::Vector(_, x)" and "TypeLayer::Vector(bool_ty, x)" in ires:
                        layers.append("vector")
                    elif pat == "TypeLayer::Matrix(_, x, y)" and "TypeLayer::Matrix(bool_ty, x, y)" in ires:
                        layers.append("matrix")
                    elif pat == "_" and ires.startswith("panic!"):
                        layers.append("_")
                    else:
                        raise ExtractError(f"get_return_type/LogicalNot: arm {pat!r} unsupported")
                if layers not in (["scalar", "vector", "_"], ["scalar", "vector", "matrix", "_"]):
                    raise ExtractError(f"get_return_type/LogicalNot: arms {layers}")
                logical_not_matrix = "matrix" in layers
                res = "logicalNot"
            else:
                res = "other"
            for p in pats:
                if p not in ops:
                    raise ExtractError(f"get_return_type: pattern {p!r} is not an IntrinsicOp")
                if p in rules:
                    raise ExtractError(f"get_return_type: {p} matched twice")
                rules[p] = (arity, same, lval, res)
        missing = [o for o in ops if o not in rules]
        if missing:
            raise ExtractError(f"get_return_type: no arm for {missing}")
        out.append("/-- shape of the value `IntrinsicOp::get_return_type` returns -/\n"
                   "inductive ResultRule where\n"
                   "  /-- `param_types[0]` -/\n  | arg0\n"
                   "  /-- `remove_modifier(param_types[0].0).to_rvalue()` -/\n  | unmodR\n"
                   "  /-- `param_types[0].0.to_rvalue()` -/\n  | arg0R\n"
                   "  /-- `transform_scalar(param_types[0].0, Bool).to_rvalue()` -/\n  | boolOf\n"
                   "  /-- the `LogicalNot` arm: bool / boolN (/ boolNxM, see `logicalNotHasMatrixArm`) for scalar / vector (/ matrix) operands, `panic!` otherwise -/\n  | logicalNot\n"
                   "  /-- anything else (internal and mesh operators, not produced by the modelled elaboration) -/\n  | other\n"
                   "  deriving DecidableEq, Repr, Inhabited\n\n")
        out.append("/-- one arm of `IntrinsicOp::get_return_type`: its asserts and its result -/\n"
                   "structure Rule where\n  /-- `assert_eq!(param_types.len(), n)` -/\n  arity : Option Nat\n"
                   "  /-- `assert_eq!(param_types[0].0, param_types[1].0)` -/\n  sameTypes : Bool\n"
                   "  /-- `assert_eq!(param_types[0].1, ValueType::Lvalue)` -/\n  lhsLvalue : Bool\n"
                   "  result : ResultRule\n  deriving DecidableEq, Repr, Inhabited\n\n")
        if logical_not_matrix is None:
            raise ExtractError("get_return_type: LogicalNot arm not recognised")
        out.append("/-- whether the `LogicalNot` arm of `get_return_type` has a `Matrix(_, x, y) => bool matrix` arm -/\n"
                   f"def logicalNotHasMatrixArm : Bool := {'true' if logical_not_matrix else 'false'}\n\n")
        out.append("def IOp.rule : IOp → Rule\n" + "".join(
            f"  | .{lower(o)} => ⟨{rules[o][0]}, {'true' if rules[o][1] else 'false'}, "
            f"{'true' if rules[o][2] else 'false'}, .{rules[o][3]}⟩\n" for o in ops) + "\n")

        # ------------------------------------------------------------ ast operators
        binops = enum_variants(ast, "BinOp")
        unops = enum_variants(ast, "UnaryOp")
        if any(p for _, p in binops) or any(p for _, p in unops):
            raise ExtractError("BinOp/UnaryOp has a variant with a payload")
        binops = [v for v, _ in binops]
        unops = [v for v, _ in unops]
        for nm, lst, doc in (("BinOp", binops, "ast::BinOp"), ("UnOp", unops, "ast::UnaryOp")):
            out.append(f"/-- `{doc}` -/\ninductive {nm} where\n" + "".join(f"  | {lower(o)}\n" for o in lst) +
                       "  deriving DecidableEq, Repr, Inhabited\n\n")
            out.append(f"def {nm}.all : List {nm} := " + T.lean_list("." + lower(o) for o in lst) + "\n\n")
            out.append(f"def {nm}.name : {nm} → String\n" + "".join(f"  | .{lower(o)} => {lean_str(o)}\n" for o in lst) + "\n")
            out.append(f"def {nm}.ofName? (s : String) : Option {nm} := {nm}.all.find? (fun k => k.name == s)\n\n")

        # ------------------------------------------------------------ parse_expr_binop
        pb = fn_body(expr, "parse_expr_binop")
        scrut, arms_text, _ = first_match(pb, r'^\*op$')
        arms = match_arms(arms_text)
        if len(arms) != 3:
            raise ExtractError(f"parse_expr_binop: `match *op` has {len(arms)} arms, expected arithmetic/assignment/sequence")
        cls = {}
        maps = {}
        for idx, (pats, guard, result) in enumerate(arms):
            if guard is not None:
                raise ExtractError("parse_expr_binop: guard unsupported")
            names = []
            for p in pats:
                m = re.fullmatch(r'ast::BinOp::([A-Za-z]+)', p)
                if not m or m.group(1) not in binops:
                    raise ExtractError(f"parse_expr_binop: pattern {p!r}")
                names.append(m.group(1))
            if idx == 2:
                if names != ["Sequence"] or "ir::Expression::Sequence" not in result:
                    raise ExtractError("parse_expr_binop: third arm is not the Sequence arm")
                kind = "sequence"
            else:
                m = re.search(r'let\s+i\s*=\s*', result)
                if not m:
                    raise ExtractError("parse_expr_binop: `let i = match *op` not found")
                sc, inner, _ = first_match(result, None, m.end() - 1)
                if normws(sc) != "*op":
                    raise ExtractError(f"parse_expr_binop: operator map scrutinee {sc!r}")
                local = {}
                for ipats, iguard, ires in match_arms(inner):
                    if ipats == ["_"]:
                        if ires != "unreachable!()":
                            raise ExtractError("operator map: catch-all is not unreachable!()")
                        continue
                    rm = re.fullmatch(r'ir::IntrinsicOp::([A-Za-z]+)', ires)
                    if iguard is not None or not rm or rm.group(1) not in ops:
                        raise ExtractError(f"operator map: arm {ipats} => {ires!r}")
                    for p in ipats:
                        pm = re.fullmatch(r'ast::BinOp::([A-Za-z]+)', p)
                        if not pm:
                            raise ExtractError(f"operator map: pattern {p!r}")
                        local[pm.group(1)] = rm.group(1)
                if set(local) != set(names):
                    raise ExtractError("operator map does not cover exactly the operators of its arm")
                maps.update(local)
                if "ImplicitConversion::find(rhs_type, required_rtype" in normws(result) and "MutableRequired" in result:
                    kind = "assign"
                elif "select_vector_rank" in result and "most_significant_non_vector" in result:
                    kind = "arith"
                else:
                    raise ExtractError("parse_expr_binop: cannot tell the arithmetic arm from the assignment arm")
            for n in names:
                cls[n] = kind
        if set(cls) != set(binops):
            raise ExtractError("parse_expr_binop: not every BinOp is handled")
        out.append("/-- which arm of `match *op` in `parse_expr_binop` handles the operator -/\n"
                   "inductive BinCls where | arith | assign | sequence\n  deriving DecidableEq, Repr, Inhabited\n\n")
        out.append("def BinOp.cls : BinOp → BinCls\n" + "".join(f"  | .{lower(b)} => .{cls[b]}\n" for b in binops) + "\n")
        out.append("/-- the two `let i = match *op` maps of `parse_expr_binop` -/\n"
                   "def BinOp.toIOp : BinOp → Option IOp\n" +
                   "".join(f"  | .{lower(b)} => {'some .' + lower(maps[b]) if b in maps else 'none'}\n" for b in binops) + "\n")
        # require_integer
        m = re.search(r'let\s+require_integer\s*=\s*matches!\s*\(', pb)
        if not m:
            raise ExtractError("parse_expr_binop: require_integer not found")
        j = matching(pb, m.end() - 1)
        parts = split_top(pb[m.end():j], ',')
        if normws(parts[0]) != "op":
            raise ExtractError("require_integer: scrutinee is not op")
        ri = re.findall(r'ast::BinOp::([A-Za-z]+)', parts[1])
        if not ri or any(x not in binops for x in ri):
            raise ExtractError("require_integer: list unreadable")
        out.append("/-- `require_integer` of `parse_expr_binop` -/\ndef BinOp.requireInteger (b : BinOp) : Bool :=\n  " +
                   T.lean_list("." + lower(x) for x in ri) + ".contains b\n\n")
        m = re.search(r'let\s+target_nv_id\s*=\s*if\s+(.*?)\{', pb, re.S)
        if not m:
            raise ExtractError("parse_expr_binop: target_nv_id not found")
        cond = normws(m.group(1))
        sc = re.findall(r'\*op == ast::BinOp::([A-Za-z]+)', cond)
        if normws(" || ".join(f"*op == ast::BinOp::{x}" for x in sc)) != cond or not sc:
            raise ExtractError(f"parse_expr_binop: short-circuit condition {cond!r} unsupported")
        out.append("/-- operators whose operands are cast to `bool` and must not be vectors (`target_nv_id`) -/\n"
                   "def BinOp.shortCircuit (b : BinOp) : Bool :=\n  " + T.lean_list("." + lower(x) for x in sc) + ".contains b\n\n")

        # ------------------------------------------------------------ literal operands of vector / matrix operators
        # (fix 40c6233): between `select_vector_rank` and `let ty = match dim` the scalar kind of an untyped literal is
        # replaced by a concrete kind when the operation is not scalar
        m = re.search(r'let\s+target_nv_id\s*=\s*if\s+dim\s*!=\s*ir::NumericDimension::Scalar\s*\{', pb)
        if not m:
            raise ExtractError("parse_expr_binop: `let target_nv_id = if dim != ir::NumericDimension::Scalar` (literal kinds of "
                               "vector / matrix operations) not found")
        blk_end = matching(pb, m.end() - 1)
        i_sel = pb.find("select_vector_rank(lhs_tyl, rhs_tyl)")
        m_ty = re.search(r'let\s+ty\s*=\s*match\s+dim\b', pb)
        if i_sel < 0 or not m_ty or not (i_sel < m.start() < m_ty.start()):
            raise ExtractError("parse_expr_binop: the literal remap is not between select_vector_rank and `let ty = match dim`")
        if not nows(pb[blk_end + 1:]).startswith("else{target_nv_id};"):
            raise ExtractError("parse_expr_binop: literal remap: the scalar branch is not `else { target_nv_id }`")
        sc_, inner, e_ = first_match(pb[m.end():blk_end], None)
        if nows(sc_) != "context.module.type_registry.extract_scalar(target_nv_id)" or pb[m.end():blk_end][e_:].strip() != "":
            raise ExtractError("parse_expr_binop: literal remap: not a single match on extract_scalar(target_nv_id)")
        remap = {}
        for pats, guard, result in match_arms(inner):
            if pats == ["_"]:
                if guard is not None or result != "target_nv_id":
                    raise ExtractError("parse_expr_binop: literal remap: catch-all arm is not `target_nv_id`")
                continue
            pm = re.fullmatch(r'Some\(ir::ScalarType::([A-Za-z0-9]+)\)', pats[0]) if len(pats) == 1 else None
            rm = re.fullmatch(r'context\.module\.type_registry\.register_type\(ir::TypeLayer::Scalar\(ir::ScalarType::([A-Za-z0-9]+)\)\)',
                              nows(result))
            if guard is not None or not pm or not rm or pm.group(1) not in scalars or rm.group(1) not in scalars:
                raise ExtractError(f"parse_expr_binop: literal remap: arm {pats} => {result!r} unsupported")
            remap[pm.group(1)] = rm.group(1)
        out.append("/-- `parse_expr_binop`, arithmetic arm: when the operation is done on vectors / matrices (`dim != Scalar`) the scalar\n"
                   "    kind both operands are converted to is replaced by this one (the untyped literal kinds become concrete) -/\n"
                   "def litVecRemap : Scalar → Scalar\n" +
                   "".join(f"  | .{lower(s_)} => .{lower(remap.get(s_, s_))}\n" for s_ in scalars) + "\n")

        # ------------------------------------------------------------ the same remap in parse_expr_ternary (fix c05bffa):
        # between `let st = match (lhs_scalar, rhs_scalar)` and `most_significant_dimension`, guarded by `!is_scalar_result`
        pt = fn_body(expr, "parse_expr_ternary")
        m_sc = re.search(r'let\s+is_scalar_result\s*=\s*matches!\s*\(', pt)
        if not m_sc:
            raise ExtractError("parse_expr_ternary: `let is_scalar_result = matches!(` not found")
        j_sc = matching(pt, m_sc.end() - 1)
        if nows(pt[m_sc.end():j_sc]) != nows("(lhs_tyl, rhs_tyl), (ir::TypeLayer::Scalar(_), ir::TypeLayer::Scalar(_))"):
            raise ExtractError("parse_expr_ternary: is_scalar_result is no longer `both arms are Scalar layers`")
        m_st = re.search(r'let\s+st\s*=\s*match\s+st\s*\{', pt[j_sc:])
        if not m_st:
            raise ExtractError("parse_expr_ternary: `let st = match st` (literal remap) not found after is_scalar_result")
        i_st = j_sc + m_st.end() - 1
        j_st = matching(pt, i_st)
        i_first = pt.find("let st = match (lhs_scalar, rhs_scalar)")
        i_nd = pt.find("most_significant_dimension(lhs_tyl, rhs_tyl)")
        if i_first < 0 or i_nd < 0 or not (i_first < m_sc.start() < i_st < i_nd):
            raise ExtractError("parse_expr_ternary: the literal remap is not between most_sig_scalar and most_significant_dimension")
        if len(re.findall(r'let\s+st\s*=', pt)) != 2:
            raise ExtractError("parse_expr_ternary: `st` is expected to be bound exactly twice")
        tremap = {}
        for pats, guard, result in match_arms(pt[i_st + 1:j_st]):
            if pats == ["st"]:
                if guard is not None or result != "st":
                    raise ExtractError("parse_expr_ternary: literal remap: catch-all arm is not `st => st`")
                continue
            pm = re.fullmatch(r'Some\(ir::ScalarType::([A-Za-z0-9]+)\)', pats[0]) if len(pats) == 1 else None
            rm = re.fullmatch(r'Some\(ir::ScalarType::([A-Za-z0-9]+)\)', result)
            if guard != "!is_scalar_result" or not pm or not rm or pm.group(1) not in scalars or rm.group(1) not in scalars:
                raise ExtractError(f"parse_expr_ternary: literal remap: arm {pats} if {guard} => {result!r} unsupported")
            tremap[pm.group(1)] = rm.group(1)
        out.append("/-- `parse_expr_ternary`: unless both arms are `Scalar` layers (`is_scalar_result`) the scalar kind the arms are compared\n"
                   "    at is replaced by this one -/\n"
                   "def litTernRemap : Scalar → Scalar\n" +
                   "".join(f"  | .{lower(s_)} => .{lower(tremap.get(s_, s_))}\n" for s_ in scalars) + "\n")

        # ------------------------------------------------------------ where written places are checked (fixes 4575004,
        # b359800, 3758fdd): pinned shape facts, the functions themselves are hand-modelled (`checkMutablePlace`,
        # `checkOutArgs` of Model/Elab.lean, Model/ElabX.lean)
        def pin(text, want, what):
            if nows(want) not in nows(text):
                raise ExtractError(f"{what}: the pinned text `{normws(want)[:90]}..` was not found")
        pu = fn_body(expr, "parse_expr_unaryop")
        mu = re.search(r'let\s*\(intrinsic,\s*eir,\s*ety\)\s*=\s*', pu)
        if not mu:
            raise ExtractError("parse_expr_unaryop: `let (intrinsic, eir, ety) = match *op` not found")
        _, un_arms_text, _ = first_match(pu, r'^\*op$', mu.end() - 1)
        seen = []
        for pats, guard, result in match_arms(un_arms_text):
            for p_ in pats:
                nm = re.fullmatch(r'ast::UnaryOp::(\w+)', p_)
                if nm and nm.group(1) in ("PrefixIncrement", "PrefixDecrement", "PostfixIncrement", "PostfixDecrement"):
                    seen.append(nm.group(1))
                    if guard is not None or len(pats) != 1 or not nows(result).startswith(
                            "{enforce_increment_type(expr_ty,op,base_location,context)?;"
                            "check_mutable_place(&expr_ir,base_location,context)?;(ir::IntrinsicOp::" + nm.group(1) + ","):
                        raise ExtractError(f"parse_expr_unaryop: the {nm.group(1)} arm no longer is enforce_increment_type; "
                                           "check_mutable_place; node")
                elif "check_mutable_place" in result:
                    raise ExtractError(f"parse_expr_unaryop: arm {p_} calls check_mutable_place")
        if sorted(seen) != ["PostfixDecrement", "PostfixIncrement", "PrefixDecrement", "PrefixIncrement"]:
            raise ExtractError(f"parse_expr_unaryop: increment arms {seen}")
        assign_arm = [r_ for (p_, g_, r_) in arms if any(x.endswith("::Assignment") for x in p_)]
        if len(assign_arm) != 1:
            raise ExtractError("parse_expr_binop: assignment arm not found")
        pin(assign_arm[0], ASSIGN_HEAD, "parse_expr_binop / assignment arm")
        if nows(pb).count("check_mutable_place(") != 1:
            raise ExtractError("parse_expr_binop: check_mutable_place is expected exactly once (assignment arm)")
        wf = fn_body(expr, "write_function")
        pin(wf, "let param_values = apply_casts(casts, param_values, context); "
                "check_output_arguments(id, &param_values, call_location, context)?; let return_type =", "write_function")
        if nows(wf).count("check_output_arguments(") != 1:
            raise ExtractError("write_function: check_output_arguments is expected exactly once, after apply_casts")
        if nows(fn_body(expr, "check_output_arguments")) != nows(CHECK_OUTPUT_ARGUMENTS):
            raise ExtractError("check_output_arguments: the body differs from the pinned copy (tools/gens/c03.py)")
        if nows(fn_body(expr, "check_mutable_place")) != nows(CHECK_MUTABLE_PLACE):
            raise ExtractError("check_mutable_place: the body differs from the pinned copy (tools/gens/c03.py)")
        isc = impl_fn_body(ir_types, r'TypeRegistry', "is_const")
        if nows(isc) != nows("matches!(self.get_non_array_layer(id), TypeLayer::Modifier(m, _) if m.is_const)"):
            raise ExtractError("TypeRegistry::is_const: body differs from the pinned copy")
        gna = impl_fn_body(ir_types, r'TypeRegistry', "get_non_array_id")
        if nows(gna) != nows("match self.get_type_layer(id) { TypeLayer::Array(inner, _) => self.get_non_array_id(inner), _ => id, }"):
            raise ExtractError("TypeRegistry::get_non_array_id: body differs from the pinned copy")
        out.append("/-- pinned by the translator (an `ExtractError` otherwise): `check_mutable_place` is called right after\n"
                   "    `enforce_increment_type` in the four `++` / `--` arms of `parse_expr_unaryop`, between the lvalue test and\n"
                   "    `ImplicitConversion::find` in the assignment arm of `parse_expr_binop`, and (through `check_output_arguments`) on\n"
                   "    the arguments of `out` / `inout` parameters **after** `apply_casts` in `write_function`; the bodies of\n"
                   "    `check_mutable_place`, `check_output_arguments`, `TypeRegistry::is_const`, `get_non_array_id` equal the copies the\n"
                   "    model was written from.  The nodes `check_mutable_place` walks through: -/\n"
                   "def mutablePlaceProjections : List String := " +
                   T.lean_list(lean_str(x) for x in ["StructMember", "ObjectMember", "Swizzle", "MatrixSwizzle", "ArraySubscript"]) + "\n\n")

        # ------------------------------------------------------------ scalar order tables
        def scalar_table(fn_text, scrutinee, what):
            _, inner, _ = first_match(fn_text, scrutinee)
            tab = {}
            for pats, guard, result in match_arms(inner):
                rm = re.fullmatch(r'Some\((\d+)\)', result)
                for p in pats:
                    pm = re.fullmatch(r'(?:ir::)?ScalarType::([A-Za-z0-9]+)', p)
                    if guard is not None or not rm or not pm or pm.group(1) not in scalars:
                        raise ExtractError(f"{what}: arm {p!r} => {result!r} unsupported")
                    tab[pm.group(1)] = rm.group(1)
            if set(tab) != set(scalars):
                raise ExtractError(f"{what}: does not cover every scalar type")
            return tab
        gn = fn_body(expr, "get_non_vector_conversion_rank")
        tab = scalar_table(gn, r'^scalar$', "get_non_vector_conversion_rank")
        out.append("/-- the `ir::TypeLayer::Scalar(scalar)` arm of `get_non_vector_conversion_rank` -/\n"
                   "def nonVectorRank : Scalar → Nat\n" + "".join(f"  | .{lower(s)} => {tab[s]}\n" for s in scalars) + "\n")
        m = re.search(r'ir::TypeLayer::Enum\(_\)\s*=>\s*Some\((\d+)\)', gn)
        if not m:
            raise ExtractError("get_non_vector_conversion_rank: enum arm not found")
        out.append(f"/-- the `ir::TypeLayer::Enum(_)` arm -/\ndef enumRank : Nat := {m.group(1)}\n\n")
        others = dict(re.findall(r'ir::TypeLayer::(Void|Struct|StructTemplate|Object|Array)\s*(?:\([^)]*\))?\s*=>\s*(None|Some\(\d+\))', gn))
        if any(others.get(k) != "None" for k in ("Void", "Struct", "Object", "Array")):
            raise ExtractError("get_non_vector_conversion_rank: non-numeric layers are expected to give None")
        ms = fn_body(expr, "most_sig_scalar")
        go = fn_body(ms, "get_order")
        tab = scalar_table(go, r'^\*ty$', "most_sig_scalar::get_order")
        out.append("/-- `most_sig_scalar::get_order` -/\ndef mostSigOrder : Scalar → Nat\n" +
                   "".join(f"  | .{lower(s)} => {tab[s]}\n" for s in scalars) + "\n")
        if not re.search(r'if\s+left_order\s*>\s*right_order\s*\{\s*left\s*\}\s*else\s*\{\s*right\s*\}', ms):
            raise ExtractError("most_sig_scalar: `if left_order > right_order { left } else { right }` not found")
        msn = fn_body(expr, "most_significant_non_vector")
        if not re.search(r'if\s+left_order\s*>\s*right_order\s*\{\s*Ok\(left\)\s*\}\s*else\s*\{\s*Ok\(right\)\s*\}', msn):
            raise ExtractError("most_significant_non_vector: `if left_order > right_order` not found")
        # fix 80dd7f9: the operands are first re-bound — an enum that meets a non-enum takes part with its underlying type.
        # The model only ranks operands that are not enums (`elabArith` answers `unsupported enum operand` before
        # `arithTarget`), i.e. the `_ => (left, right)` arm: the whole body is pinned so that this stays true.
        if nows(msn) != nows(MOST_SIGNIFICANT_NON_VECTOR):
            raise ExtractError("most_significant_non_vector: the body differs from the pinned copy (tools/gens/c03.py)")
        _, rebinding, _ = first_match(msn, r'^\(left_tyl, right_tyl\)$')
        msn_arms = [(normws(" | ".join(p_)), normws(r_)) for p_, g_, r_ in match_arms(rebinding) if g_ is None]
        if len(msn_arms) != 4 or msn_arms[-1] != ("_", "(left, right)"):
            raise ExtractError(f"most_significant_non_vector: arms of the operand re-binding changed: {msn_arms}")
        out.append("/-- pinned by the translator (fix 80dd7f9): `most_significant_non_vector` re-binds `(left, right)` before ranking —\n"
                   "    an enum that meets a non-enum takes part with its underlying type; operands that are not enums pass through\n"
                   "    (last arm), which is the only case `Model.Elab.arithTarget` is asked about.  `(pattern, operands ranked)`: -/\n"
                   "def mostSigNonVectorOperands : List (String × String) := " +
                   T.lean_list(f"({lean_str(a_)}, {lean_str(b_)})" for a_, b_ in msn_arms) + "\n\n")
        ii = fn_body(expr, "is_integer_or_bool_or_enum")
        m = re.search(r'ir::TypeLayer::Scalar\(scalar\)\s*=>\s*matches!\s*\(', ii)
        if not m:
            raise ExtractError("is_integer_or_bool_or_enum: scalar arm not found")
        j = matching(ii, m.end() - 1)
        lst = re.findall(r'ir::ScalarType::([A-Za-z0-9]+)', ii[m.end():j])
        if not lst or not re.search(r'ir::TypeLayer::Enum\(_\)\s*=>\s*true', ii):
            raise ExtractError("is_integer_or_bool_or_enum: unreadable")
        out.append("/-- scalar arm of `is_integer_or_bool_or_enum` (enums are accepted as well) -/\n"
                   "def isIntegerScalar (s : Scalar) : Bool :=\n  " + T.lean_list("." + lower(x) for x in lst) + ".contains s\n\n")

        # ------------------------------------------------------------ literal re-tagging of ImplicitConversion::apply
        ab = impl_fn_body(casting, r'ImplicitConversion', "apply")

        def retag(marker, what):
            i = ab.find(marker)
            if i < 0:
                raise ExtractError(f"apply: `{marker}` not found")
            _, inner, _ = first_match(ab, r'get_type_layer\(target_type_unmodified\)', i)
            tab = {}
            for pats, guard, result in match_arms(inner):
                if pats == ["_"]:
                    if result.strip("{} ") != "":
                        raise ExtractError(f"apply/{what}: catch-all arm is not empty")
                    continue
                rm = re.search(r'return Expression::Literal\(Constant::([A-Za-z0-9]+)\(', result)
                for p in pats:
                    pm = re.fullmatch(r'TypeLayer::Scalar\(ScalarType::([A-Za-z0-9]+)\)', p)
                    if guard is not None or not rm or not pm or rm.group(1) not in scalars:
                        raise ExtractError(f"apply/{what}: arm {p!r} unsupported")
                    tab[pm.group(1)] = rm.group(1)
            return tab
        def retag_guarded(marker):
            i = ab.find(marker)
            return bool(re.match(r'\s*&&\s*target_is_unmodified\s*\{', ab[i + len(marker):]))
        guards = [retag_guarded("Expression::Literal(Constant::IntLiteral(v)) = expr"),
                  retag_guarded("Expression::Literal(Constant::FloatLiteral(v)) = expr")]
        has_def = bool(re.search(r'let\s+target_is_unmodified\s*=\s*target_type_unmodified\s*==\s*target_type\.0\s*;', ab))
        if guards[0] != guards[1] or (guards[0] and not has_def):
            raise ExtractError("apply: the two literal re-tagging blocks are guarded differently")
        out.append("/-- `ImplicitConversion::apply` re-tags untyped literals only when the target type carries no modifier "
                   "(`&& target_is_unmodified`) -/\n"
                   f"def retagRequiresUnmodified : Bool := {'true' if guards[0] else 'false'}\n\n")
        ti = retag("Expression::Literal(Constant::IntLiteral(v)) = expr", "int literal")
        tf = retag("Expression::Literal(Constant::FloatLiteral(v)) = expr", "float literal")
        if not re.search(r'if let ImplicitConversion\(_, _, None, None, None\) = \*self \{\s*return expr;\s*\}', ab):
            raise ExtractError("apply: the `(_, _, None, None, None) => return expr` shortcut was not found")
        if not normws(ab).endswith("Expression::Cast(target_type.0, Box::new(expr))"):
            raise ExtractError("apply: does not end in Expression::Cast(target_type.0, ..)")
        for nm, tab, doc in (("retagInt", ti, "IntLiteral"), ("retagFloat", tf, "FloatLiteral")):
            out.append(f"/-- `ImplicitConversion::apply`: a `Constant::{doc}` operand converted to this scalar type becomes a literal "
                       f"of the given kind instead of a `Cast` -/\ndef {nm} : Scalar → Option Scalar\n" +
                       "".join(f"  | .{lower(s)} => {'some .' + lower(tab[s]) if s in tab else 'none'}\n" for s in scalars) + "\n")
        out.append("end RsslVerif.Gen.TypingTables\n")
        return "".join(out)


    # ==================================================================================================
    # IntrinsicSigs : ir/src/intrinsic_data.rs  `const INTRINSICS` (the free intrinsic functions) expanded exactly as
    #                 `add_intrinsics` registers them: one function per entry and per multi type, in source order,
    #                 so that the k-th signature is `FunctionId(k)`
    # ==================================================================================================
    SCALAR_WORDS = [("bool", "bool"), ("int", "int32"), ("uint", "uInt32"), ("dword", "uInt32"), ("half", "float16"),
                    ("float", "float32"), ("double", "float64")]

    def numeric(name, src_scalar_parse):
        """NumericType::from_str: <scalar>[<1-4>[x<1-4>]]; the scalar words are re-read from ScalarType::parse_str"""
        for w, sc in sorted(src_scalar_parse, key=lambda x: -len(x[0])):
            if name.startswith(w):
                rest = name[len(w):]
                if rest == "":
                    return f".num .{sc} .scalar"
                m = re.fullmatch(r'([1-4])', rest)
                if m:
                    return f".num .{sc} (.vector {m.group(1)})"
                m = re.fullmatch(r'([1-4])x([1-4])', rest)
                if m:
                    return f".num .{sc} (.matrix {m.group(1)} {m.group(2)})"
        return None

    @gen("IntrinsicSigs")
    def intrinsic_sigs():
        data = T.src("ir/src/intrinsic_data.rs")
        ir_types = T.src("ir/src/ir_types.rs")
        scalars = [v for v, _ in enum_variants(ir_types, "ScalarType")]
        # the scalar words of ScalarType::parse_str
        ps = impl_fn_body(ir_types, r'ScalarType\b', "parse_str")
        words = []
        for m in re.finditer(r'\[((?:b\'.\',\s*)+)rest @ \.\.\]\s*=>\s*Some\(\(rest,\s*ScalarType::([A-Za-z0-9]+)\)\)', ps):
            w = "".join(re.findall(r"b'(.)'", m.group(1)))
            if m.group(2) not in scalars:
                raise ExtractError(f"ScalarType::parse_str: unknown scalar {m.group(2)}")
            words.append((w, m.group(2)[0].lower() + m.group(2)[1:]))
        if sorted(words) != sorted(SCALAR_WORDS):
            raise ExtractError(f"ScalarType::parse_str: scalar words changed: {words}")
        # add_intrinsics must still register one function per (entry, multi type) in order
        ai = fn_body(data, "add_intrinsics")
        need = [r'for def in INTRINSICS', r'for multi_type in multi_types', r'register_function\(',
                r'set_intrinsic_data\(id,', r'let non_default_params = param_types\.len\(\);',
                r'if def\.multi_types\.is_empty\(\) \{ &\[TypeDef::Void\] \} else \{ def\.multi_types \}']
        flat = normws(ai)
        for pat in need:
            if not re.search(pat, flat):
                raise ExtractError(f"add_intrinsics: `{pat}` not found")
        m = re.search(r'const\s+INTRINSICS\s*:\s*&\[IntrinsicDefinition\]\s*=\s*&\[', data)
        if not m:
            raise ExtractError("const INTRINSICS not found")
        i = m.end() - 1
        j = matching(data, i)
        table = data[i + 1:j]
        entries = []
        pos = 0
        while True:
            mm = re.compile(r'\s*f!\s*\{').match(table, pos)
            if not mm:
                if table[pos:].strip(" ,\n") != "":
                    raise ExtractError(f"INTRINSICS: unreadable text {table[pos:pos+60]!r}")
                break
            b = mm.end() - 1
            e = matching(table, b)
            entries.append(normws(table[b + 1:e]))
            pos = e + 1
            while pos < len(table) and table[pos] in " ,\n":
                pos += 1
        if len(entries) < 100:
            raise ExtractError(f"INTRINSICS: only {len(entries)} entries read")

        def type_def(word, multi):
            if word == "void":
                return ".void"
            if word == "T":
                return ".template"
            if word == "M":
                if multi is None:
                    raise ExtractError("INTRINSICS: M without multi types")
                return multi
            n = numeric(word, words)
            if n is None:
                raise ExtractError(f"INTRINSICS: type {word!r} unsupported")
            return n

        sigs = []
        names = []
        for ent in entries:
            mm = re.fullmatch(r'(\w+) (\w+)\s*\((.*?)\)\s*=>\s*(\w+)(?:\s*\|\s*(.*))?', ent)
            if not mm:
                raise ExtractError(f"INTRINSICS: entry {ent!r} unreadable")
            ret, name, params, intrinsic, multi = mm.groups()
            plist = [normws(x) for x in params.split(",")] if params.strip() else []
            multis = [normws(x) for x in multi.split(",")] if multi else [None]
            if name not in names:
                names.append(name)
            for mt in multis:
                mt_l = None
                if mt is not None:
                    mt_l = numeric(mt, words)
                    if mt_l is None:
                        raise ExtractError(f"INTRINSICS: multi type {mt!r} unsupported")
                ps_l = []
                for p in plist:
                    io = "«in»"
                    w = p
                    if p.startswith("out "):
                        io, w = "out", p[4:]
                    elif p.startswith("inout "):
                        io, w = "inOut", p[6:]
                    ps_l.append(f"⟨{type_def(w, mt_l)}, .{io}⟩")
                sigs.append((name, intrinsic, type_def(ret, mt_l), ps_l))
        out = ["-- GENERATED by tools/translate.py from ir/src/intrinsic_data.rs, ir/src/ir_types.rs -- do not edit\n"
               "import RsslVerif.Gen.RankTable\n"
               "namespace RsslVerif.Gen.IntrinsicSigs\nopen RsslVerif.Gen.RankTable\n\n"
               "/-- `intrinsic_data::TypeDef` after the multi type has been substituted -/\n"
               "inductive IType where\n  | void\n  | num (s : Scalar) (d : Dim)\n  /-- `TypeDef::FunctionTemplateArgument` -/\n  | template\n"
               "  deriving DecidableEq, Repr, Inhabited\n\n"
               "structure IParam where\n  ty : IType\n  io : InputModifier\n  deriving DecidableEq, Repr, Inhabited\n\n"
               "/-- one function `add_intrinsics` registers: entry `k` of `sigs` is `FunctionId(k)` -/\n"
               "structure ISig where\n  /-- index of the function name in `names` -/\n  name : Nat\n  /-- `Intrinsic::<variant>` -/\n"
               "  intrinsic : String\n  ret : IType\n  params : List IParam\n  deriving DecidableEq, Repr, Inhabited\n\n"]
        out.append("/-- the distinct function names, in order of first appearance -/\ndef names : List String :=\n  " +
                   T.lean_list(lean_str(n) for n in names) + "\n\n")
        # chunked: one very long list literal elaborates slowly
        chunk = 40
        parts = []
        for c in range(0, len(sigs), chunk):
            nm = f"sigs{c // chunk}"
            parts.append(nm)
            out.append(f"def {nm} : List ISig := [\n" + ",\n".join(
                f"  ⟨{names.index(n)}, {lean_str(intr)}, {r}, {T.lean_list(ps_)}⟩" for n, intr, r, ps_ in sigs[c:c + chunk]) + "]\n\n")
        out.append("def sigs : List ISig := " + " ++ ".join(parts) + "\n\n")
        out.append(f"def count : Nat := {len(sigs)}\n")
        out.append("\nend RsslVerif.Gen.IntrinsicSigs\n")
        return "".join(out)


    # ==================================================================================================
    # ElabTables : typer/src/typer/expressions.rs  the character tables of swizzles (`Member` arm of parse_expr_unchecked,
    #              read_matrix_subscript), the layers a subscript applies to; ir/src/ir_expressions.rs SwizzleSlot /
    #              ComponentIndex; typer/src/typer/statements.rs the layers an aggregate initialiser applies to
    # ==================================================================================================
    @gen("ElabTables")
    def elab_tables():
        expr = T.src("typer/src/typer/expressions.rs")
        irx = T.src("ir/src/ir_expressions.rs")
        stm = T.src("typer/src/typer/statements.rs")
        slots = [v for v, _ in enum_variants(irx, "SwizzleSlot")]
        comps = [v for v, _ in enum_variants(irx, "ComponentIndex")]
        if len(slots) != 4 or len(comps) != 4:
            raise ExtractError("SwizzleSlot / ComponentIndex: expected four variants")

        def char_table(arms, var, result_re, order, err_pat, what):
            rows = []
            for pats, guard, result in arms:
                if pats == ["_"]:
                    if guard is not None or not re.search(err_pat, result):
                        raise ExtractError(f"{what}: catch-all arm {result!r}")
                    continue
                rm = re.fullmatch(result_re, result)
                if not rm or rm.group(1) not in order:
                    raise ExtractError(f"{what}: result {result!r}")
                mn = 0
                if guard is not None:
                    gm = re.fullmatch(var + r' >= (\d+)', guard)
                    if not gm:
                        raise ExtractError(f"{what}: guard {guard!r}")
                    mn = int(gm.group(1))
                chars = []
                for p in pats:
                    pm = re.fullmatch(r"'(.)'", p)
                    if not pm:
                        raise ExtractError(f"{what}: pattern {p!r}")
                    chars.append(pm.group(1))
                rows.append((chars, mn, order.index(rm.group(1))))
            if arms[-1][0] != ["_"]:
                raise ExtractError(f"{what}: no catch-all arm")
            return rows

        def lean_rows(rows):
            return T.lean_list("(" + T.lean_list(f"'{c}'" for c in cs) + f", {mn}, {k})" for cs, mn, k in rows)

        body = fn_body(expr, "parse_expr_unchecked")
        _, member_arms, _ = first_match(body, r'^composite_tyl_nomod$')
        arms = match_arms(member_arms)
        heads = [normws(" | ".join(p)) for p, _, _ in arms]
        want = ["ir::TypeLayer::Struct(id)", "ir::TypeLayer::Scalar(_)", "ir::TypeLayer::Vector(scalar, x)",
                "ir::TypeLayer::Matrix(scalar, x, y)", "ir::TypeLayer::Object(ir::ObjectType::RayDesc)",
                "ir::TypeLayer::Object(object_type)", "_"]
        if heads != want:
            raise ExtractError(f"Member: arms of `match composite_tyl_nomod` changed: {heads}")
        if "TypeDoesNotHaveMembers" not in arms[-1][2]:
            raise ExtractError("Member: catch-all arm is not TypeDoesNotHaveMembers")
        _, a0, _ = first_match(arms[1][2], r'^c$')
        scalar_rows = char_table(match_arms(a0), "x", r'ir::SwizzleSlot::(\w+)', slots, r'TypeDoesNotHaveMembers', "scalar swizzle")
        _, a1, _ = first_match(arms[2][2], r'^c$')
        vector_rows = char_table(match_arms(a1), "x", r'ir::SwizzleSlot::(\w+)', slots, r'InvalidSwizzle', "vector swizzle")
        for arm_i, node in ((1, "Swizzle"), (2, "Swizzle"), (3, "MatrixSwizzle")):
            t = normws(arms[arm_i][2])
            if f"ir::Expression::{node}(Box::new(composite_ir), swizzle_slots)" not in t or \
                    "combine_modifier(ty_unmod, composite_mod)" not in t or "if swizzle_slots.len() == 1" not in t:
                raise ExtractError(f"Member: the {heads[arm_i]} arm no longer builds {node} the known way")
        # fix c805c03: both arms refuse more than four slots right after the character loop, before anything is built:
        # `for c in member.chars() { swizzle_slots.push(match c { .. }); } if swizzle_slots.len() > N { return Err(InvalidSwizzle(..)); }
        #  let vt = ir::get_swizzle_value_type(&swizzle_slots, vt);`
        max_len = {}
        for arm_i, what in ((1, "scalar"), (2, "vector")):
            t = nows(arms[arm_i][2])
            mm = re.search(r'forcinmember\.chars\(\)\{swizzle_slots\.push\(matchc\{.*?\}\);\}'
                           r'ifswizzle_slots\.len\(\)>(\d+)\{returnErr\(TyperError::(\w+)\('
                           r'composite_ty,member\.node\.clone\(\),member\.get_location\(\),?\)\);\}'
                           r'letvt=ir::get_swizzle_value_type\(&swizzle_slots,vt\);', t)
            if not mm:
                raise ExtractError(f"Member: the {what} arm has no `if swizzle_slots.len() > N {{ return Err(..) }}` between the "
                                   "character loop and get_swizzle_value_type")
            if mm.group(2) != "InvalidSwizzle":
                raise ExtractError(f"Member: the {what} arm reports too many slots as {mm.group(2)}, not InvalidSwizzle")
            if t.count("swizzle_slots.len()>") != 1 or t.count("forcinmember.chars()") != 1:
                raise ExtractError(f"Member: the {what} arm compares swizzle_slots.len() more than once")
            max_len[what] = int(mm.group(1))
        if "get_swizzle_value_type(&swizzle_slots, vt)" not in normws(arms[2][2]) or \
                "get_matrix_swizzle_value_type(&swizzle_slots, vt)" not in normws(arms[3][2]):
            raise ExtractError("Member: value type of swizzles")
        rm_ = fn_body(expr, "read_matrix_subscript")
        _, m0, e0 = first_match(rm_, r'^c$')
        open_arms = match_arms(m0)
        if len(open_arms) != 2 or not re.fullmatch(r"'(.)'", open_arms[0][0][0]) or "Some((false, None))" not in open_arms[0][2]:
            raise ExtractError("read_matrix_subscript: opening character")
        open_char = open_arms[0][0][0][1]
        mm = re.search(r"Some\(\(false, None\)\) if c == '(.)' => \{ state = Some\(\(true, None\)\); \}", normws(rm_))
        if not mm:
            raise ExtractError("read_matrix_subscript: the `m` arm")
        m_char = mm.group(1)
        _, m1, e1 = first_match(rm_, r'^c$', e0)
        _, m2, _ = first_match(rm_, r'^c$', e1)
        rows_m = char_table(match_arms(m1), "l", r'ir::ComponentIndex::(\w+)', comps, r'make_err', "matrix swizzle _m")
        rows_1 = char_table(match_arms(m2), "l", r'ir::ComponentIndex::(\w+)', comps, r'make_err', "matrix swizzle _")
        if "let l = if first_value.is_none() { x } else { y };" not in normws(rm_) or "let component = if is_m {" not in normws(rm_):
            raise ExtractError("read_matrix_subscript: dimension / form selection")
        mm = re.search(r'if state\.is_some\(\) \|\| swizzle_slots\.is_empty\(\) \|\| swizzle_slots\.len\(\) > (\d+)', normws(rm_))
        if not mm:
            raise ExtractError("read_matrix_subscript: final check")
        max_slots = int(mm.group(1))
        # subscripts
        _, idx_arms_text, _ = first_match(body, r'^tyl_nomod$')
        idx_arms = match_arms(idx_arms_text)
        first = [normws(x) for x in idx_arms[0][0]]
        uint_layers = [x for x in first if not x.startswith("ir::TypeLayer::Object") and not x.startswith("ir::ObjectType")]
        # the first arm lists Array | Vector | Matrix | Object(...): the object alternatives are one nested pattern
        plain = [x for x in first if re.fullmatch(r'ir::TypeLayer::(Array|Vector|Matrix)\([_, ]*\)', x)]
        if [re.match(r'ir::TypeLayer::(\w+)', x).group(1) for x in plain] != ["Array", "Vector", "Matrix"] or \
                normws(idx_arms[0][2]) != "uint_ty":
            raise ExtractError(f"ArraySubscript: first arm of `match tyl_nomod` changed: {first}")
        if idx_arms[-1][0] != ["_"] or "ArrayIndexingNonArrayType" not in idx_arms[-1][2]:
            raise ExtractError("ArraySubscript: catch-all arm")
        # resources: index width per object kind (typer), read-only / read-write element per object kind (get_type)
        obj_width = []
        for pats_, guard_, res_ in idx_arms[:-1]:
            r_ = normws(res_)
            if r_ == "uint_ty":
                w_ = 1
            else:
                mw = re.fullmatch(r'context \.module \.type_registry \.register_type\(ir::TypeLayer::Vector\(uint_ty, (\d)\)\)', r_)
                if not mw:
                    raise ExtractError(f"ArraySubscript: index type {r_!r} unsupported")
                w_ = int(mw.group(1))
            if guard_ is not None:
                raise ExtractError("ArraySubscript: guard unsupported")
            for p_ in pats_:
                pn = normws(p_)
                if pn.startswith("ir::TypeLayer::Object("):
                    kinds_ = re.findall(r'ir::ObjectType::(\w+)\(_\)', pn)
                    rest_ = re.sub(r'ir::ObjectType::\w+\(_\)', '', pn[len("ir::TypeLayer::Object("):]).strip(" |,)")
                    if rest_ or not kinds_:
                        raise ExtractError(f"ArraySubscript: object pattern {pn!r}")
                    obj_width += [(k_, w_) for k_ in kinds_]
                elif not re.fullmatch(r'ir::TypeLayer::(Array|Vector|Matrix)\([_, ]*\)', pn):
                    raise ExtractError(f"ArraySubscript: pattern {pn!r}")
        gt = impl_fn_body(irx, r'Expression', 'get_type')
        _, sub_text, _ = first_match(gt, r'^array_tyl_nomod$')
        ro, rw, special = [], [], []
        for pats_, guard_, res_ in match_arms(sub_text):
            r_ = normws(res_).strip("{} ")
            names_ = []
            for p_ in pats_:
                mo = re.fullmatch(r'TypeLayer::Object\(ObjectType::(\w+)\(ty\)\)', normws(p_))
                names_.append(mo.group(1) if mo else None)
            if all(n_ is not None for n_ in names_):
                if r_ == "module.type_registry.make_const(ty)":
                    ro += names_
                elif r_ == "ty":
                    rw += names_
                else:
                    special += names_
        if "Ok(ty.to_lvalue())" not in normws(gt):
            raise ExtractError("get_type/ArraySubscript: does not end in `Ok(ty.to_lvalue())`")
        if set(k_ for k_, _ in obj_width) != set(ro) | set(rw) | set(special) or not ro or not rw:
            raise ExtractError("ArraySubscript: the object kinds of the typer and of get_type differ")
        flat = normws(body)
        for pat in ["let index = index_type.to_rvalue();", "ImplicitConversion::find(subscript_ty, index, &mut context.module)",
                    "ArraySubscriptIndexNotInteger", "Ok(cast) => cast.apply(subscript_ir, &mut context.module)",
                    "let node = ir::Expression::ArraySubscript(array, sub);"]:
            if pat not in flat:
                raise ExtractError(f"ArraySubscript: `{pat}` not found")
        # aggregate initialisers
        pi = fn_body(stm, "parse_initializer")
        i0 = pi.index("ast::Initializer::Aggregate")
        _, agg_text, _ = first_match(pi, r'^tyl$', i0)
        agg = [normws(" | ".join(p)) for p, _, _ in match_arms(agg_text)]
        want_agg = ["ir::TypeLayer::Scalar(_)", "ir::TypeLayer::Vector(ref scalar, ref dim)",
                    "ir::TypeLayer::Array(ref inner, Some(ref dim))", "ir::TypeLayer::Struct(id)", "_"]
        if agg != want_agg:
            raise ExtractError(f"parse_initializer: arms of the aggregate `match tyl` changed: {agg}")
        out = [T.header("ElabTables", ["typer/src/typer/expressions.rs", "ir/src/ir_expressions.rs", "typer/src/typer/statements.rs"])]
        out.append("/-- `ir::SwizzleSlot`, in declaration order = slot numbers 0..3 -/\ndef swizzleSlotNames : List String := " +
                   T.lean_list(lean_str(x) for x in slots) + "\n\n")
        out.append("/-- `ir::ComponentIndex`, in declaration order = component numbers 0..3 -/\ndef componentNames : List String := " +
                   T.lean_list(lean_str(x) for x in comps) + "\n\n")
        out.append("/-- swizzle of a scalar: `(characters, minimal width (no guard = 0), slot)` per arm of `match c` -/\n"
                   "def scalarSwizzle : List (List Char × Nat × Nat) := " + lean_rows(scalar_rows) + "\n\n")
        out.append("/-- swizzle of a vector of width `x`: the arm applies when `x >= minimal width` -/\n"
                   "def vectorSwizzle : List (List Char × Nat × Nat) := " + lean_rows(vector_rows) + "\n\n")
        out.append("/-- scalar arm: `if swizzle_slots.len() > n { return Err(InvalidSwizzle) }` after the character loop -/\n"
                   f"def scalarMaxSlots : Nat := {max_len['scalar']}\n\n")
        out.append("/-- vector arm: the same check -/\n"
                   f"def vectorMaxSlots : Nat := {max_len['vector']}\n\n")
        out.append(f"/-- `read_matrix_subscript`: every slot starts with this character -/\ndef matrixOpen : Char := '{open_char}'\n\n")
        out.append(f"/-- ... optionally followed by this one (zero-based form) -/\ndef matrixM : Char := '{m_char}'\n\n")
        out.append("/-- component digits of the `_m` form: `(characters, minimal dimension, component)` -/\n"
                   "def matrixDigitsM : List (List Char × Nat × Nat) := " + lean_rows(rows_m) + "\n\n")
        out.append("/-- component digits of the `_` form -/\n"
                   "def matrixDigits : List (List Char × Nat × Nat) := " + lean_rows(rows_1) + "\n\n")
        out.append(f"/-- `swizzle_slots.len() > n` is an error -/\ndef matrixMaxSlots : Nat := {max_slots}\n\n")
        out.append("/-- subscripts of resources: `(ObjectType variant, width of the uint index vector; 1 = scalar)` per arm of `match tyl_nomod` -/\n"
                   "def subscriptIndexWidth : List (String × Nat) := " +
                   T.lean_list(f"({lean_str(k_)}, {w_})" for k_, w_ in obj_width) + "\n\n")
        out.append("/-- `get_type(ArraySubscript)`: resources whose element is `make_const(ty)` -/\n"
                   "def subscriptReadOnly : List String := " + T.lean_list(lean_str(k_) for k_ in ro) + "\n\n")
        out.append("/-- ... and whose element is `ty` itself -/\n"
                   "def subscriptReadWrite : List String := " + T.lean_list(lean_str(k_) for k_ in rw) + "\n")
        out.append(T.footer("ElabTables"))
        return "".join(out)

    # ------------------------------------------------------------------------------------------------------------
    # TypeMods: the modifier handling of parse_type_for_usage (typer/src/typer/types.rs) and TypeModifier::combine
    # ------------------------------------------------------------------------------------------------------------
    @gen("TypeMods")
    def type_mods():
        types = T.src("typer/src/typer/types.rs")
        irt = T.src("ir/src/ir_types.rs")

        def statements(text):
            return [nows(x) for x in split_top(text, ';') if x.strip()]

        # (1) parse_type_for_usage: the two statements that read the named type and the written modifiers, and everything
        #     after the last position check (the merge of the named type's own modifier with the written one)
        body = fn_body(types, "parse_type_for_usage")
        last = "deny_precise(&ty.modifiers, position)?;"
        k = body.rfind(last)
        if k < 0:
            raise ExtractError("parse_type_for_usage: the `deny_precise` check is not there")
        k = body.index('}', k) + 1
        tail = statements(body[k:])
        head = statements(body[:body.index("if !matches!")])
        returns = len(re.findall(r'\breturn\b', body))

        # (2) TypeModifier: fields in declaration order; combine: `field: self.field || other.field`
        m = re.search(r'\bstruct\s+TypeModifier\s*\{', irt)
        if not m:
            raise ExtractError("struct TypeModifier not found")
        i = m.end() - 1
        fields = []
        for part in split_top(irt[i + 1:matching(irt, i)], ','):
            part = re.sub(r'#\[[^\]]*\]', '', part).strip()
            if part:
                fm = re.fullmatch(r'pub\s+(\w+)\s*:\s*bool', part)
                if not fm:
                    raise ExtractError(f"TypeModifier: field {part!r}")
                fields.append(fm.group(1))
        cb = impl_fn_body(irt, r'TypeModifier\b', "combine")
        lit = T.struct_literal_fields(cb[cb.index("TypeModifier"):])
        combine = []
        for f_, v in lit.items():
            vm = re.fullmatch(r'(\w+)\.(\w+) (\S+) (\w+)\.(\w+)', v)
            if not vm:
                raise ExtractError(f"TypeModifier::combine: field {f_}: {v!r}")
            combine.append((f_, vm.group(1) + "." + vm.group(2), vm.group(3), vm.group(4) + "." + vm.group(5)))
        if nows(cb[:cb.index("TypeModifier")]) != "" or len(statements(cb)) != 1:
            raise ExtractError("TypeModifier::combine is no longer a single struct literal")

        # (3) parse_type_modifier: where the carried modifier comes from; per keyword arm: the field it sets, the
        #     fields it conflicts with (written before / carried by the named type), what it requires of the type below
        #     the modifiers, the positions that deny it, the errors it can raise (source order)
        pm = fn_body(types, "parse_type_modifier")
        pre = statements(pm[:pm.index("for modifier in")])
        _, arms_text, _ = first_match(pm, r'^&modifier\.node$')
        rows = []
        arms = match_arms(arms_text)
        if arms[-1][0] != ["_"] or nows(arms[-1][2]) != "continue":
            raise ExtractError("parse_type_modifier: the catch-all arm is not `_ => continue`")
        for pats, guard, result in arms[:-1]:
            if len(pats) != 1 or guard is not None or not pats[0].startswith("ast::TypeModifier::"):
                raise ExtractError(f"parse_type_modifier: arm {pats!r}")
            kw = pats[0].split("::")[-1]
            sets = re.findall(r'full_modifier\.(\w+) = true', result)
            if len(sets) != 1:
                raise ExtractError(f"parse_type_modifier: arm {kw} sets {sets}")
            conflicts = re.findall(r'if ((?:\w+\.\w+)(?: \|\| \w+\.\w+)*) \{', result)
            conflicts = conflicts[0].split(" || ") if conflicts else []
            req = ""
            if re.search(r'if !matches!\( ?tyl, ir::TypeLayer::Matrix\(\.\.\) ?\)', result):
                req = "matrix"
            if re.search(r'if !matches!\( ?context\.module\.type_registry\.extract_scalar\(unmodified_type\), Some\(ir::ScalarType::Float32\),? ?\)', result):
                req = (req + "+" if req else "") + "float32"
            denied = []
            dm = re.search(r'if matches!\( ?position, ([^)]*?),? ?\)', result)
            if dm:
                denied = [x.strip().split("::")[-1] for x in dm.group(1).split("|")]
            errs = re.findall(r'TyperError::(\w+)', result)
            ifs = len(re.findall(r'\bif\b', result))
            if ifs != (1 if conflicts else 0) + (1 if req else 0) + (1 if denied else 0):
                raise ExtractError(f"parse_type_modifier: arm {kw} has a check of an unknown shape")
            rows.append((kw, sets[0], conflicts, req, denied, errs))
        after = statements(pm[first_match(pm, r'^&modifier\.node$')[2]:])

        def strs(xs):
            return T.lean_list(lean_str(x) for x in xs)

        out = [T.header("TypeMods", ["typer/src/typer/types.rs", "ir/src/ir_types.rs"])]
        out.append("/-- `parse_type_for_usage`: the statements before the position checks (whitespace removed) -/\n"
                   "def usageHead : List String := " + strs(head) + "\n\n")
        out.append("/-- `parse_type_for_usage`: the statements after the last position check: how the modifier the named type carries\n"
                   "    and the modifier written at the use site end up in the returned type -/\n"
                   "def usageTail : List String := " + strs(tail) + "\n\n")
        out.append(f"/-- number of `return`s in `parse_type_for_usage` (no early exit around the merge) -/\ndef usageReturns : Nat := {returns}\n\n")
        out.append("/-- fields of `ir::TypeModifier` in declaration order -/\ndef modifierFields : List String := " + strs(fields) + "\n\n")
        out.append("/-- `TypeModifier::combine`: `(field, left operand, operator, right operand)` of the returned struct literal -/\n"
                   "def combineFields : List (String × String × String × String) := " +
                   T.lean_list(f"({lean_str(a)}, {lean_str(b)}, {lean_str(c)}, {lean_str(d)})" for a, b, c, d in combine) + "\n\n")
        out.append("/-- `parse_type_modifier`: the statements before the keyword loop -/\ndef modifierPrelude : List String := " + strs(pre) + "\n\n")
        out.append("/-- `parse_type_modifier`: what follows the `match` inside the loop and the loop -/\ndef modifierEpilogue : List String := " + strs(after) + "\n\n")
        out.append("/-- per keyword arm of `match &modifier.node`: `(keyword, field set, conflicting fields, requirement of the type below the\n"
                   "    modifiers, positions that deny the keyword, errors in source order)` -/\n"
                   "def keywordRows : List (String × String × List String × String × List String × List String) := " +
                   T.lean_list(f"({lean_str(kw)}, {lean_str(st)}, {strs(cf)}, {lean_str(rq)}, {strs(dn)}, {strs(er)})"
                               for kw, st, cf, rq, dn, er in rows) + "\n")
        out.append(T.footer("TypeMods"))
        return "".join(out)

    # ------------------------------------------------------------------------------------------------------------------
    @gen("RetScope")
    def ret_scope():
        """where `return` statements get "the return type of the current function" from (Model/RetScope.lean)"""
        import os
        scopes = T.src("typer/src/typer/scopes.rs")
        functions = T.src("typer/src/typer/functions.rs")

        def same(body, pinned):
            return nows(body).rstrip(';') == nows(pinned).rstrip(';')

        def fn_spans(text):
            spans = []
            for m in re.finditer(r'\bfn\s+(\w+)', text):
                i = m.end()
                while i < len(text):
                    c = text[i]
                    if c in '([':
                        i = matching(text, i) + 1
                        continue
                    if c == '{':
                        spans.append((m.group(1), i, matching(text, i)))
                        break
                    if c == ';':
                        break
                    i += 1
            return spans

        def enclosing(spans, pos):
            best = None
            for name, a, b in spans:
                if a <= pos <= b and (best is None or a > best[1]):
                    best = (name, a, b)
            return best[0] if best else "<top level>"

        typer_dir = os.path.join(T.REPO, "typer", "src")
        files = []
        for root, _, names in os.walk(typer_dir):
            for n in sorted(names):
                if n.endswith(".rs"):
                    files.append(os.path.relpath(os.path.join(root, n), T.REPO))
        files.sort()
        writers, set_callers, get_callers, none_inits, other_inits = [], [], [], 0, []
        for rel in files:
            text = T.src(rel)
            spans = fn_spans(text)
            base = os.path.basename(rel)
            for m in re.finditer(r'function_return_type\s*=[^=]', text):
                writers.append(enclosing(spans, m.start()))
            for m in re.finditer(r'\.\s*set_function_return_type\s*\(', text):
                set_callers.append(base + ":" + enclosing(spans, m.start()))
            for m in re.finditer(r'\.\s*get_current_return_type\s*\(', text):
                get_callers.append(base + ":" + enclosing(spans, m.start()))
            for m in re.finditer(r'function_return_type\s*:\s*([^,}]*)', text):
                v = m.group(1).strip()
                if v == "None":
                    none_inits += 1
                elif not v.startswith("Option<"):
                    other_inits.append(v)
        if other_inits:
            raise ExtractError(f"ScopeData.function_return_type is initialised with {other_inits}")
        writers = sorted(set(writers))

        m = re.search(r'\bpub\s+struct\s+Context\s*\{', scopes)
        if not m:
            raise ExtractError("struct Context not found")
        i = m.end() - 1
        fields = []
        # one field per line (generic arguments contain commas)
        for line in scopes[i + 1:matching(scopes, i)].splitlines():
            line = re.sub(r'#\[[^\]]*\]', '', line).strip()
            if line:
                fm = re.match(r'(?:pub(?:\([^)]*\))?\s+)?(\w+)\s*:[^:]', line)
                if not fm:
                    raise ExtractError(f"Context: field line {line!r}")
                fields.append(fm.group(1))

        get_ok = same(impl_fn_body(scopes, r'Context\b', "get_current_return_type"),
                      'match self.search_scopes(|s| s.function_return_type) { Some(ret) => ret, None => panic!("Not inside function"), }')
        search_ok = same(fn_body(scopes, "search_scopes"),
                         'let mut scope_index = self.current_scope; loop { if let Some(s) = search(&self.scopes[scope_index]) { return Some(s); } '
                         'scope_index = self.scopes[scope_index].parent_scope; if scope_index == usize::MAX { break; } } None')
        revisit_ok = (same(fn_body(scopes, "revisit_function"), 'self.revisit_scope(self.function_to_scope[&id])')
                      and same(fn_body(scopes, "revisit_scope"),
                               'assert_eq!(self.scopes[scope].parent_scope, self.current_scope); self.current_scope = scope'))
        set_ok = same(fn_body(scopes, "set_function_return_type"),
                      'assert_eq!(self.scopes[self.current_scope].function_return_type, None); '
                      'self.scopes[self.current_scope].function_return_type = Some(return_type);')
        est = nows(fn_body(scopes, "ensure_struct_template"))
        seq = nows('let current_scope = self.current_scope; self.current_scope = struct_template_data.scope; '
                   'let sid_res = self.instantiate_struct_template(id, ast, template_args, error_loc); self.current_scope = current_scope;')
        bft = nows(fn_body(scopes, "build_function_template_body"))
        pfb = nows(fn_body(functions, "parse_function_body"))
        restores = (seq in est and est.count("self.current_scope=") == 2
                    and nows('let caller_scope_position = self.current_scope; self.current_scope = parent_scope_id;') in bft
                    and nows('assert_eq!(self.current_scope, parent_scope_id); self.current_scope = caller_scope_position;') in bft
                    and bft.count("self.current_scope=") == 2 and bft.count("parse_function_body(") == 1
                    and pfb.startswith("context.revisit_function(id);") and pfb.count("context.pop_scope_with_locals()") == 1
                    and "current_scope" not in pfb)

        def b(x):
            return "true" if x else "false"

        def strs(xs):
            return T.lean_list(lean_str(x) for x in xs)

        out = [T.header("RetScope", ["typer/src/typer/scopes.rs", "typer/src/typer/functions.rs", "typer/src/**/*.rs"])]
        out.append("/-- `Context::get_current_return_type` is `search_scopes(|s| s.function_return_type)` (panic if none) -/\n"
                   f"def returnTypeComesFromTheScopeChain : Bool := {b(get_ok)}\n\n")
        out.append("/-- `search_scopes` starts at `current_scope` and follows `parent_scope` to the root, first hit wins -/\n"
                   f"def searchScopesWalksParents : Bool := {b(search_ok)}\n\n")
        out.append("/-- `revisit_function(id)` is `revisit_scope(function_to_scope[&id])`; `revisit_scope` sets `current_scope` only -/\n"
                   f"def revisitFunctionOnlyReentersScope : Bool := {b(revisit_ok)}\n\n")
        out.append("/-- `set_function_return_type` writes the field of the current scope (asserting it was `None`) -/\n"
                   f"def setFunctionReturnTypeAsPinned : Bool := {b(set_ok)}\n\n")
        out.append("/-- functions of typer/src that assign `function_return_type` -/\n"
                   f"def functionReturnTypeWriters : List String := {strs(writers)}\n\n")
        out.append("/-- struct literals that initialise `function_return_type: None` (root scope, `make_scope`) -/\n"
                   f"def functionReturnTypeInitialisedNone : Nat := {none_inits}\n\n")
        out.append(f"/-- call sites of `set_function_return_type` -/\ndef setFunctionReturnTypeCallers : List String := {strs(set_callers)}\n\n")
        out.append(f"/-- call sites of `get_current_return_type` -/\ndef getCurrentReturnTypeCallers : List String := {strs(get_callers)}\n\n")
        out.append(f"/-- fields of `struct Context` in declaration order -/\ndef contextFields : List String := {strs(fields)}\n\n")
        out.append("/-- `ensure_struct_template` saves `current_scope`, jumps to the template's scope and restores it after\n"
                   "    `instantiate_struct_template`; `build_function_template_body` does the same around its one `parse_function_body`;\n"
                   "    `parse_function_body` starts with `revisit_function(id)`, pops once and never touches `current_scope` itself -/\n"
                   f"def instantiationRestoresCurrentScope : Bool := {b(restores)}\n")
        out.append(T.footer("RetScope"))
        return "".join(out)

"""Gen.SourceMapTables: constants and format pieces re-extracted from text/src/location.rs,
text/src/errors.rs, text/src/tokens.rs and the trivia filter of preprocess/src/preprocess.rs."""
import re


def register(gen, T):

    @gen("SourceMapTables")
    def source_map_tables():
        from rustsrc import ExtractError, fn_body, impl_fn_body, first_match, match_arms, lean_str, normws
        loc = T.src("text/src/location.rs")
        err = T.src("text/src/errors.rs")
        tok = T.src("text/src/tokens.rs")
        pre = T.src("preprocess/src/preprocess.rs")
        out = [T.header("SourceMapTables", ["text/src/location.rs", "text/src/errors.rs", "text/src/tokens.rs",
                                            "preprocess/src/preprocess.rs"])]

        def need(rx, text, what):
            m = re.search(rx, normws(text))
            if not m:
                raise ExtractError(f"{what}: pattern not found")
            return m

        # ---- location.rs constants
        need(r'pub const UNKNOWN: SourceLocation = SourceLocation\(u32::MAX\);', loc, "SourceLocation::UNKNOWN")
        out.append("/-- `SourceLocation::UNKNOWN` = SourceLocation(u32::MAX) -/\ndef unknownRaw : Nat := 4294967295\n\n")
        m = need(r'pub fn first\(\) -> Self \{ SourceLocation\((\d+)\) \}', loc, "SourceLocation::first")
        out.append(f"/-- `SourceLocation::first()` -/\ndef firstRaw : Nat := {m.group(1)}\n\n")
        lf = impl_fn_body(loc, r'Line\b', "first")
        m = need(r'^Line\((\d+)\)$', lf, "Line::first")
        out.append(f"/-- `Line::first()` -/\ndef firstLine : Nat := {m.group(1)}\n\n")
        cf = impl_fn_body(loc, r'Column\b', "first")
        m = need(r'^Column\((\d+)\)$', cf, "Column::first")
        out.append(f"/-- `Column::first()` -/\ndef firstColumn : Nat := {m.group(1)}\n\n")
        for ty in ("Line", "Column"):
            inc = impl_fn_body(loc, ty + r'\b', "increment")
            need(r'^self\.0 \+= 1;?$', inc, f"{ty}::increment")
        # slots reserved per file
        add = fn_body(loc, "add_file")
        m = need(r'self\.next_location = self\.next_location\.offset\(file_size \+ (\d+)\);', add, "add_file slot reservation")
        extra = m.group(1)
        out.append(f"/-- `add_file` reserves `file_size + {extra}` locations per file -/\ndef extraSlots : Nat := {extra}\n\n")
        # the two decoders step by the same amount and compare with `<`
        for fn in ("get_file_location", "get_file_offset_from_source_location"):
            b = fn_body(loc, fn)
            need(r'let next_offset = current_offset \+ source_file\.file_size \+ ' + extra + r';', b, fn + " step")
            need(r'if source_location\.0 < next_offset \{', b, fn + " comparison")
            need(r'\} else \{ current_offset = next_offset; \}', b, fn + " advance")
        gfl = fn_body(loc, "get_file_location")
        # the newline byte and the two arms of the counting loop
        _, arms_text, _ = first_match(gfl, r'^c$')
        arms = match_arms(arms_text)
        if len(arms) != 2:
            raise ExtractError(f"get_file_location: {len(arms)} arms in the byte match")
        (p0, g0, r0), (p1, g1, r1) = arms
        bm = re.fullmatch(r"b'(\\n|\\r|.)'", p0[0]) if len(p0) == 1 else None
        if not bm or g0 is not None or g1 is not None or p1 != ['_']:
            raise ExtractError(f"get_file_location: byte match patterns {p0} / {p1}")
        byte = {"\\n": 10, "\\r": 13}.get(bm.group(1), ord(bm.group(1)[0]))
        if normws(r0) != "{ line.increment(); column = Column::first(); }" or normws(r1) != "{ column.increment(); }":
            raise ExtractError(f"get_file_location: arm bodies {normws(r0)!r} / {normws(r1)!r}")
        out.append(f"/-- the byte that starts a new line in `get_file_location` -/\ndef newlineByte : Nat := {byte}\n\n")
        need(r'for c in &source_file\.contents\.as_bytes\(\)\[\.\.\(source_offset as usize\)\] \{', gfl, "get_file_location prefix loop")
        need(r'return FileLocation::Known\(source_file\.file_name\.clone\(\), line, column\);', gfl, "get_file_location result")
        need(r'\} FileLocation::Unknown$', gfl, "get_file_location fallthrough")
        # offset(): UNKNOWN is absorbing
        off = impl_fn_body(loc, r'SourceLocation\b', "offset")
        need(r'^if self == SourceLocation::UNKNOWN \{ self \} else \{ SourceLocation\(self\.0 \+ offset\) \}$', off, "SourceLocation::offset")
        # get_source_location_from_file_offset
        g = fn_body(loc, "get_source_location_from_file_offset")
        need(r'assert!\(stream_location\.0 < source_file\.file_size \+ ' + extra + r'\); source_file\.base_location\.offset\(stream_location\.0\)$', g,
             "get_source_location_from_file_offset")
        # Display for FileLocation
        disp = impl_fn_body(loc, r'std::fmt::Display\s+for\s+FileLocation', "fmt")
        m = need(r'FileLocation::Known\(file_name, line, column\) => \{ write!\(f, "([^"]*)", file_name\.0, line\.0, column\.0\) \}', disp,
                 "FileLocation Display (known)")
        if m.group(1) != "{}:{}:{}":
            raise ExtractError(f"FileLocation format {m.group(1)!r}")
        m = need(r'FileLocation::Unknown => write!\(f, "([^"]*)"\)', disp, "FileLocation Display (unknown)")
        out.append("/-- separator of `file:line:column` -/\ndef locSep : String := \":\"\n\n")
        out.append(f"def unknownText : String := {lean_str(m.group(1))}\n\n")
        # write_source_for_error
        w = fn_body(loc, "write_source_for_error")
        need(r'let \(before, after\) = contents\.split_at\(fail_index\);', w, "write_source_for_error split")
        need(r"let line_start = match before\.rfind\('\\n'\) \{ Some\(i\) => i \+ 1, None => 0, \};", w, "line_start")
        need(r"let line_end = fail_index \+ after\.find\('\\n'\)\.unwrap_or\(after\.len\(\)\);", w, "line_end")
        need(r'writeln!\(f, "\{\}", &contents\[line_start\.\.line_end\]\)\?;', w, "source line print")
        need(r'for _ in 1\.\.\(column\.0\) \{ write!\(f, " "\)\?; \} writeln!\(f, "\^"\)\?;', w, "caret line")
        m = need(r'\} else \{ writeln!\(f, "([^"]*)"\) \}', w, "invalid source text")
        out.append(f"def invalidSourceText : String := {lean_str(m.group(1))}\n\n")
        m = need(r'None => writeln!\(f, "([^"]*)"\),', w, "no location text")
        out.append(f"def noLocationText : String := {lean_str(m.group(1))}\n\n")
        out.append("def caretText : String := \"^\"\n\ndef padText : String := \" \"\n\n")

        # ---- errors.rs write_message
        wm = fn_body(err, "write_message")
        _, arms_text, _ = first_match(wm, r'^sev$')
        sev = {}
        for pats, guard, result in match_arms(arms_text):
            pm = re.fullmatch(r'Severity::([A-Za-z]+)', pats[0]) if len(pats) == 1 else None
            rm = re.fullmatch(r'"([a-z]+)"', result)
            if not pm or not rm or guard is not None:
                raise ExtractError(f"write_message severity arm {pats} => {result}")
            sev[pm.group(1)] = rm.group(1)
        if set(sev) != {"Error", "Note"}:
            raise ExtractError(f"severities {sorted(sev)}")
        out.append("inductive Severity where | Error | Note\n  deriving DecidableEq, Repr, Inhabited\n\n")
        out.append("def Severity.text : Severity → String\n" + "".join(f"  | .{k} => {lean_str(v)}\n" for k, v in sev.items()) + "\n")
        need(r'if loc != SourceLocation::UNKNOWN \{', wm, "write_message known branch")
        m = need(r'write!\(self\.formatter, "\{file_location\}(: )\{sev_str\}(: )"\)\?; write\(self\.formatter\)\?; writeln!\(self\.formatter\)\?;', wm,
                 "write_message located header")
        out.append(f"/-- separator after the location and after the severity in `write_message` -/\ndef headSep : String := {lean_str(m.group(1))}\n\n")
        need(r'self\.source_manager \.write_source_for_error\(self\.formatter, Some\(loc\)\) \} else \{', wm, "write_message source print")
        need(r'\} else \{ write!\(self\.formatter, "\{sev_str\}: "\)\?; write\(self\.formatter\)\?; writeln!\(self\.formatter\) \}$', wm,
             "write_message unlocated branch")

        # ---- tokens.rs is_whitespace, preprocess.rs prepare_tokens / trim
        iw = fn_body(tok, "is_whitespace")
        m = need(r'^matches!\( self, ((?:Token::[A-Za-z]+ ?\|? ?)+)\)$', iw, "Token::is_whitespace")
        ws = re.findall(r'Token::([A-Za-z]+)', m.group(1))
        out.append("/-- token kinds for which `Token::is_whitespace` is true -/\n")
        out.append("def whitespaceKinds : List String := " + T.lean_list(lean_str(k) for k in ws) + "\n\n")
        pt = fn_body(pre, "prepare_tokens")
        facts = {
            "prepareDropsWhitespace": r'\.filter_map\(\|t\| \{ assert!\(!matches!\(t\.0, Token::MacroArg\(_\)\)\); if t\.0\.is_whitespace\(\) \{ None \} else \{ let loc = t\.get_location\(\); Some\(LexToken\(t\.0, loc\)\) \} \}\)',
            "prepareAppendsEofUnknown": r'source\.push\(LexToken\(Token::Eof, SourceLocation::UNKNOWN\)\); source$',
        }
        npt = normws(pt)
        for k, rx in facts.items():
            out.append(f"def {k} : Bool := {'true' if re.search(rx, npt) else 'false'}\n")
        tws = normws(fn_body(pre, "trim_whitespace_start"))
        out.append(f"/-- `trim_whitespace_start` (used between a macro name and `(`) keeps `Endline` tokens -/\n"
                   f"def trimKeepsEndline : Bool := {'true' if 'if tok.is_whitespace() && *tok != Token::Endline {' in tws else 'false'}\n")
        fsm = normws(fn_body(pre, "find_single_macro"))
        sma = normws(fn_body(pre, "split_macro_args"))
        asm = normws(fn_body(pre, "apply_single_macro"))
        macrofacts = {
            "findMacroUsesTrimStart": bool(re.search(r'if macro_def\.is_function \{ let trimmed = trim_whitespace_start\(&tokens\[i \+ 1\.\.\]\);', fsm)
                                           and re.search(r'let \[PreprocessToken\(Token::LeftParen, _\), \.\.\] = trimmed else \{ continue; \};', fsm)),
            "macroArgsUseTrim": bool(re.search(r'let arg = trim_whitespace\(&remaining\[\.\.pos\]\); args\.push\(arg\);', sma)),
            "emptyArgsTestIsEmpty": bool(re.search(r'if macro_def\.num_params == 0 \{ if !\(args\.len\(\) == 1 && args\[0\]\.is_empty\(\)\) \{', asm)),
        }
        for k, v in macrofacts.items():
            out.append(f"def {k} : Bool := {'true' if v else 'false'}\n")
        # where the search for the next macro goes on after an expansion (seeded mutant C14-7): find_single_macro starts at
        # `early_function_pos`, and the User arm of apply_single_macro sets that to the START of the replaced region -- the
        # region may END with a line break (trim_whitespace_end keeps an `Endline`, so an argument `INC<newline>` keeps it),
        # so the name in front of it is only found when the scan starts at the first token of the region
        twe = normws(fn_body(pre, "trim_whitespace_end"))
        resume = {
            "earlyFunctionPosIsRegionStart": bool(
                re.search(r'tokens\.splice\(pos\.\.end, output\); let new_end = pos \+ tokens_added;', asm)
                and re.search(r'Ok\(MacroSearchPosition \{ next_pos: new_end, early_function_pos: pos, last_macro_function_index: if macro_def\.is_function \{ macro_index \} else \{ usize::MAX \}, \}\)', asm)),
            "findMacroScansFromEarlyFunctionPos": bool(
                re.search(r'assert!\(search_pos\.early_function_pos <= search_pos\.next_pos\); let mut i = search_pos\.early_function_pos; while i < tokens\.len\(\) \{', fsm)),
            "trimEndKeepsEndline": bool(
                re.search(r'^while let Some\(\(PreprocessToken\(tok, _\), rest\)\) = tokens\.split_last\(\) \{ if tok\.is_whitespace\(\) && \*tok != Token::Endline \{ tokens = rest; \} else \{ break; \} \} tokens$', twe)),
        }
        for k, v in resume.items():
            out.append(f"def {k} : Bool := {'true' if v else 'false'}\n")
        # the lexer produces the four whitespace kinds from these spellings
        lex = T.src("preprocess/src/lexer.rs")
        wsimple = normws(fn_body(lex, "whitespace_simple"))
        wend = normws(fn_body(lex, "whitespace_endline"))
        lexfacts = {
            "spaceTabAreWhitespace": (r"\[b' ', rest @ \.\.\] \| \[b'\\t', rest @ \.\.\] => Ok\(\(rest, Token::Whitespace\)\)", wsimple),
            "spliceIsPhysicalEndline": (r"\[b'\\\\', b'\\r', b'\\n', rest @ \.\.\] \| \[b'\\\\', b'\\n', rest @ \.\.\] => \{ Ok\(\(rest, Token::PhysicalEndline\)\) \}", wend),
            "newlineIsEndline": (r"\[b'\\r', b'\\n', rest @ \.\.\] \| \[b'\\n', rest @ \.\.\] => Ok\(\(rest, Token::Endline\)\)", wend),
        }
        for k, (rx, text) in lexfacts.items():
            out.append(f"def {k} : Bool := {'true' if re.search(rx, text) else 'false'}\n")
        # the comment lexers, as the model mirrors them (a change of the loop shape is a change of the modelled function)
        lc = normws(fn_body(lex, "line_comment"))
        bc = normws(fn_body(lex, "block_comment"))
        shape = {
            "lineCommentAsModelled": bool(re.search(
                r'^if input\.starts_with\(b"//"\) \{ let mut pos = 2; while pos < input\.len\(\) \{ let input_at_pos = &input\[pos\.\.\]; '
                r'match whitespace_endline\(&input\[pos\.\.\]\) \{ Ok\(\(_, Token::Endline\)\) => return Ok\(\(input_at_pos, Token::Comment\)\), '
                r'Ok\(\(rest, Token::PhysicalEndline\)\) => pos = input\.len\(\) - rest\.len\(\), _ => pos \+= 1, \} \} '
                r'Ok\(\(&\[\], Token::Comment\)\) \} else \{ other_token_chars\(input\) \}$', lc)),
            "blockCommentAsModelled": bool(re.search(
                r'^if input\.starts_with\(b"/\*"\) \{ (?:// [^{}]*? )?let mut search = &input\[2\.\.\]; loop \{ if search\.len\(\) < 2 \{ break; \} '
                r'if search\.starts_with\(b"\*/"\) \{ return Ok\(\(&search\[2\.\.\], Token::Comment\)\); \} search = &search\[1\.\.\]; \} '
                r'(?:// [^{}]*? )?end_of_stream\(\) \} else \{ (?:// [^{}]*? )?other_token_chars\(input\) \}$', bc)),
        }
        for k, v in shape.items():
            out.append(f"def {k} : Bool := {'true' if v else 'false'}\n")
        # the directive state machine of preprocess_included_file: which tokens keep a line in the `start of line` state,
        # where a `#` starts a command, what ends a command
        pif = normws(fn_body(pre, "preprocess_included_file"))
        dirfacts = {
            "hashStartsCommandAtStartOfLine": r'\(Token::Hash, CommandParseState::StartOfLine\) => \{',
            "startOfLineSkipsAllWhitespace": r'\(tok, CommandParseState::StartOfLine\) => \{ if !tok\.is_whitespace\(\) \{ command_state = CommandParseState::NormalContents; \} active_tokens\.push\(next\) \}',
            "commandNameIsFirstNonWhitespace": r'\(tok, CommandParseState::CommandStart\) if !tok\.is_whitespace\(\) => \{ command_state = CommandParseState::CommandContents;',
            "endlineEndsCommand": r'\(Token::Endline, CommandParseState::CommandContents\) => \{ preprocess_command\(',
            "endlineStartsLine": r'\(Token::Endline, _\) => \{ command_state = CommandParseState::StartOfLine; active_tokens\.push\(next\) \}',
            "otherTokensArePushed": r'_ => active_tokens\.push\(next\), \};',
        }
        for k, rx in dirfacts.items():
            out.append(f"def {k} : Bool := {'true' if re.search(rx, pif) else 'false'}\n")
        # command-line defines (CompileArgs::defines): each is loaded as a file in front of the entry file
        pp_sp = normws(fn_body(pre, "preprocess_initial_file"))
        pp = pp_sp.replace(" ", "")
        m = re.search(r'for\(name,value\)ininitial_defines\{letfile_id=file_loader\.source_manager\.add_file\(FileName\("([^"]*)"\.to_string\(\)\),format!\("([^"]*)"\),\);', pp)
        if not m:
            raise ExtractError("preprocess_initial_file: the loop that loads the command-line defines as files was not found")
        fm = re.search(r'FileName\("[^"]*"\.to_string\(\)\), format!\("([^"]*)"\)', pp_sp)
        if not fm or fm.group(1).replace(" ", "") != m.group(2):
            raise ExtractError("preprocess_initial_file: contents of a command-line define file")
        out.append(f"/-- name of the file a command-line define is loaded as -/\ndef defineFileName : String := {lean_str(m.group(1))}\n\n")
        out.append(f"/-- its contents (a format string over the name and the value) -/\ndef defineFileFormat : String := {lean_str(fm.group(1))}\n\n")
        deffacts = {
            "defineTokensStartAtOffsetZero": r'letlocation=file_loader\.source_manager\.get_source_location_from_file_offset\(file_id,StreamLocation\(0\)\);letcontents=file_loader\.source_manager\.get_contents\(file_id\);lettokens=matchTokenStream::new\(contents,location\)',
            "definesAreLoadedBeforeTheEntryFile": r'for\(name,value\)ininitial_defines\{.*\}preprocess_included_file\(&muttokens,file_loader,input_file,',
        }
        for k, rx in deffacts.items():
            out.append(f"def {k} : Bool := {'true' if re.search(rx, pp) else 'false'}\n")
        out.append(T.footer("SourceMapTables"))
        return "".join(out)

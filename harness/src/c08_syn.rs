// Syntax-category generator: one template (or a few variants) for every syntactic category the front end accepts,
// listed from a reading of parser/src/parser/*.rs, the lexer's token table and the names the type checker matches
// on (attributes, semantics, object types, pipeline / blend / sampler properties, intrinsic families).
// A program = prelude + a random selection of items + an entry point that calls the generated helpers + a pipeline.
// `{n}` in a template is replaced by a fresh number.  Root-level items are placed at file scope, statement items in
// the body of a helper `void fn<n>()`, expression items as `<ty> e<n> = <expr>;` inside such a helper.
// (included into c08_gen.rs)

pub struct SynProgram {
    pub text: String,
    pub cats: std::collections::BTreeSet<&'static str>,
}

const SYN_PRELUDE: &str = "struct S0 { float a; int b; float2 v2; float4 v; };\nstruct V0 { float4 position : SV_Position; float2 uv : TEXCOORD; };\nstruct P0 { uint material : MATERIAL; };\nstruct Pay0 { uint start; };\n\
enum E0 { E0_A, E0_B = 2, E0_C };\ntypedef uint U0;\nstatic const int c0 = 3;\nstatic const uint cu0 = 4u;\nstatic int s0 = 0;\ngroupshared float gs0[64];\ngroupshared Pay0 gs_pay;\n\
Texture2D<float4> g_t2d;\nTexture2DArray<float4> g_t2da;\nTexture3D<float4> g_t3d;\nTextureCube<float4> g_tc;\nRWTexture2D<float4> g_rw2d;\nBuffer<float4> g_buf;\nRWBuffer<uint> g_rwbuf;\n\
StructuredBuffer<S0> g_sb;\nRWStructuredBuffer<S0> g_rwsb;\nByteAddressBuffer g_bab;\nRWByteAddressBuffer g_rwbab;\nConstantBuffer<S0> g_cb;\nSamplerState g_ss;\nSamplerComparisonState g_scs;\n\
cbuffer CB0 { float4x4 cb_m; float4 cb_v; float cb_f; int cb_i; uint cb_u; }\n\
float4 dvs() : SV_Position { return float4(0, 0, 0, 1); }\nfloat4 dps() : SV_Target { return float4(0, 0, 0, 1); }\n[numthreads(1, 1, 1)] void dcs() {}\nfloat hf0(float x) { return x * 2.0f; }\nint hi0(int x, int y = 1) { return x + y; }\ntemplate<typename T> T ht0(T x) { return x; }\nnamespace N0 { static const int nx = 1; int nf(int x) { return x; } struct NS { int a; }; namespace N1 { int nf2() { return 2; } } }\n";

/// file-scope items: (category, text)
const SYN_ROOT: &[(&str, &str)] = &[
    ("struct", "struct SA{n} { uint a; float b; };"),
    ("struct-stray-semicolons", "struct SB{n} {;;;};;;"),
    ("struct-empty", "struct SC{n} {};"),
    ("struct-class-keyword", "class SD{n} { uint a; };"),
    ("struct-base-type", "struct SE{n} : S0 { uint e; };"),
    ("struct-two-base-types", "struct SF{n} : S0, V0 { uint e; };"),
    ("struct-template", "template<typename T> struct SG{n} { T a, b; };\nstatic SG{n}<float> g_sg{n};"),
    ("struct-template-default", "template<typename T = float> struct SH{n} { T a; };"),
    ("struct-template-non-type", "template<typename T, uint N> struct SI{n} { T a[N]; };\nstatic SI{n}<float, 2> g_si{n};"),
    ("struct-member-arrays", "struct SJ{n} { uint a[2], b[3][4]; };"),
    ("struct-member-semantics", "struct SK{n} { float4 p : SV_Position; float2 t[2] : USER0, u : USER1; };"),
    ("struct-member-attribute", "struct SL{n} { [[vk::offset(8)]] uint a; [mine] uint b; };"),
    ("struct-member-default-value", "struct SM{n} { uint a = 1; };"),
    ("struct-method", "struct SN{n} { uint a; uint get() { return a; } void set(uint v) { a = v; } };\nuint use_sn{n}() { SN{n} s; s.set(2u); return s.get(); }"),
    ("struct-method-template", "struct SO{n} { template<typename T> T id(T x) { return x; } };"),
    ("struct-method-declared-only", "struct SP{n} { void m(); };"),
    ("struct-member-modifiers", "struct SQ{n} { row_major float4x4 m; column_major float2x2 c; precise float p; nointerpolation float4 q : COLOR; centroid float2 r : UV; };"),
    ("struct-nested-type-member", "struct SR{n} { S0 inner; S0 arr[2]; E0 e; };"),
    ("enum", "enum EA{n} { EA{n}_X, EA{n}_Y, EA{n}_Z };"),
    ("enum-trailing-comma", "enum EB{n} { EB{n}_X, EB{n}_Y, };"),
    ("enum-values", "enum EC{n} { EC{n}_X = 0, EC{n}_Y, EC{n}_Z = 1 + 2, EC{n}_W = c0 << 1 };"),
    ("enum-empty", "enum ED{n} {};"),
    ("enum-use", "enum EE{n} { EE{n}_X, EE{n}_Y };\nint use_ee{n}(EE{n} e) { return e == EE{n}_Y ? 1 : (int)e; }"),
    ("typedef", "typedef uint TA{n};"),
    ("typedef-array", "typedef uint TB{n}[4];\nstatic TB{n} g_tb{n};"),
    ("typedef-vector-template", "typedef vector<float, 3> TC{n};\ntypedef matrix<float, 2, 2> TD{n};"),
    ("typedef-const", "typedef const float TE{n};"),
    ("typedef-object", "typedef Texture2D<float4> TF{n};\nTF{n} g_tf{n};"),
    ("typedef-struct", "typedef S0 TG{n};\ntypedef N0::NS TH{n};"),
    ("cbuffer", "cbuffer CA{n} { float4x4 ca{n}_m; float ca{n}_x, ca{n}_y[2], ca{n}_z[3][4]; }"),
    ("cbuffer-register", "cbuffer CC{n} : register(b3) { float4 cc{n}_v; }"),
    ("cbuffer-register-space", "cbuffer CD{n} : register(b1, space2) { float4 cd{n}_v; }"),
    ("cbuffer-attribute-binding", "[[vk::binding(1, 2)]] cbuffer CE{n} { float4 ce{n}_v; }"),
    ("cbuffer-attribute-bind-group", "[[rssl::bind_group(1)]] cbuffer CF{n} { float4 cf{n}_v; }"),
    ("cbuffer-struct-member", "cbuffer CG{n} { S0 cg{n}_s; S0 cg{n}_a[2]; E0 cg{n}_e; }"),
    ("cbuffer-packoffset", "cbuffer CH{n} { float4 ch{n}_v : packoffset(c0); }"),
    ("cbuffer-empty", "cbuffer CI{n} {}"),
    ("global-register-t", "Texture2D<float4> ga{n} : register(t7);"),
    ("global-register-u", "RWTexture2D<float4> gb{n} : register(u1);"),
    ("global-register-s", "SamplerState gc{n} : register(s2);"),
    ("global-register-b", "ConstantBuffer<S0> gd{n} : register(b4);"),
    ("global-register-space", "StructuredBuffer<S0> ge{n} : register(t1, space2);"),
    ("global-register-space-only", "Buffer<uint4> gf{n} : register(space3);"),
    ("global-register-mismatched-class", "Texture2D<float4> gg{n} : register(u0);"),
    ("global-bindless-array", "[[rssl::bindless]] [[rssl::bind_group(1)]] Texture2D<float4> gh{n}[1024];"),
    ("global-bindless-unsized", "[[rssl::bindless]] Texture2D<float4> gi{n}[];"),
    ("global-resource-array", "Texture2D<float4> gj{n}[4];"),
    ("global-vk-binding", "[[vk::binding(3)]] ByteAddressBuffer gk{n};"),
    ("global-unknown-attribute", "[[foo::bar(1)]] ByteAddressBuffer gl{n};"),
    ("global-const-resource", "const Texture2D gm{n};\nextern const RWTexture2D<float4> gn{n} : register(space1);"),
    ("global-static-const-array", "static const int go{n}[4] = { 0, 1, 2, 3 };"),
    ("global-static-const-array-2d", "static const int gp{n}[2][3] = { { 0, 1, 2 }, { 3, 4, 5 } };"),
    ("global-static-const-unsized-array", "static const float gq{n}[] = { 1.0f, 2.0f, };"),
    ("global-static-struct-init", "static const S0 gr{n} = { 1.0f, 2, float2(0, 0), float4(0, 0, 0, 1) };"),
    ("global-empty-aggregate", "static S0 gs{n} = {};"),
    ("global-groupshared", "groupshared float4 gt{n}[32];\ngroupshared uint gt2_{n};"),
    ("global-multi-declarator", "static int gu{n} = 1, gv{n}[2], gw{n} = 3;"),
    ("global-plain-uniform", "float4 gx{n};\nint gy{n} = 3;"),
    ("global-object-types", "Texture2D gz{n};\nTextureCubeArray<float4> gz2_{n};\nRWTexture2DArray<float4> gz3_{n};\nRWTexture3D<float4> gz4_{n};\nBuffer gz5_{n};\nRWStructuredBuffer<float4> gz6_{n};"),
    ("global-object-modified-type-arg", "RWTexture2D<unorm float4> ha{n};\nTexture2D<const float4> hb{n};\nRWBuffer<snorm float> hc{n};"),
    ("global-buffer-address", "BufferAddress hd{n};\nRWBufferAddress he{n};"),
    ("global-raytracing", "const RaytracingAccelerationStructure hf{n} : register(t9);"),
    ("global-nested-template-close", "Buffer<vector<int, 4>> hg{n};\nStructuredBuffer<vector<float, 2> > hh{n};"),
    ("global-scoped-type", "StructuredBuffer<N0::NS> hi{n};\nstatic ::N0::NS hj{n};"),
    ("static-sampler", "const SamplerState hk{n} = StaticSampler { Filter = MIN_MAG_MIP_LINEAR; AddressU = Clamp; AddressV = Wrap; AddressW = Border; };"),
    ("static-sampler-all-properties", "const SamplerComparisonState hl{n} = StaticSampler { Filter = MIN_MAG_MIP_POINT; CompareFunc = LessEqual; MaxAnisotropy = 4; MinLOD = 0.0f; MaxLOD = 8.0f; BorderColor = OpaqueWhite; };"),
    ("static-sampler-unknown-property", "const SamplerState hm{n} = StaticSampler { Foo = Bar; };"),
    ("static-sampler-empty", "const SamplerState hn{n} = StaticSampler { };"),
    ("function-declared-then-defined", "int fa{n}(int a);\nint fa{n}(int a) { return a; }"),
    ("function-declared-only", "int fb{n}(int a);"),
    ("function-overloads", "int fc{n}(int a) { return a; }\nfloat fc{n}(float a) { return a; }\nint fc{n}(int a, int b) { return a + b; }\nfloat use_fc{n}() { return fc{n}(1) + fc{n}(1.0f) + fc{n}(1, 2); }"),
    ("function-param-qualifiers", "void fd{n}(in float a, out float b, inout float c, const float d, in const float e) { b = a + d + e; c += 1.0f; }\nvoid use_fd{n}() { float x = 0, y = 0; fd{n}(1.0f, x, y, 2.0f, 3.0f); }"),
    ("function-default-arguments", "int fe{n}(int a, int b = 2, int c = c0 + 1) { return a + b + c; }\nint use_fe{n}() { return fe{n}(1) + fe{n}(1, 2) + fe{n}(1, 2, 3); }"),
    ("function-array-param", "float ff{n}(float v[4], int m[2][2]) { return v[0] + (float)m[1][1]; }"),
    ("function-param-semantics", "float4 fg{n}(float4 p : SV_Position, uint i : SV_InstanceID, float2 t : TEXCOORD) : SV_Target2 { return p; }"),
    ("function-return-semantic-depth", "float fh{n}(float x : X) : SV_Depth { return x; }"),
    ("function-template-typename", "template<typename T> T fi{n}(T a, T b) { return a + b; }\nfloat use_fi{n}() { return fi{n}<float>(1.0f, 2.0f) + fi{n}(1.0f, 2.0f); }"),
    ("function-template-two-params", "template<typename T, typename G> T fj{n}(T a, G b) { return a + (T)b; }\nfloat use_fj{n}() { return fj{n}<float, int>(1.0f, 2); }"),
    ("function-template-non-type", "template<uint L> uint fk{n}() { return L; }\nuint use_fk{n}() { return fk{n}<3>() + fk{n}<cu0>(); }"),
    ("function-template-unnamed-param", "template<typename> void fl{n}() {}\ntemplate<uint> void fl2_{n}() {}"),
    ("function-template-empty-list", "template<> void fm{n}() {}"),
    ("function-template-default", "template<typename T = float> T fn_{n}(T a) { return a; }"),
    ("function-template-vector-param", "template<typename T> T fo{n}(vector<T, 3> v) { return v.x; }\nfloat use_fo{n}() { return fo{n}<float>(float3(1, 2, 3)); }"),
    ("function-attribute-numthreads", "[numthreads(4, 2, 1)] void fp{n}(uint3 a : SV_DispatchThreadID, uint3 b : SV_GroupID, uint c : SV_GroupIndex, uint3 d : SV_GroupThreadID) {}"),
    ("function-attribute-wavesize", "[WaveSize(32)] [numthreads(32, 1, 1)] void fq{n}() {}"),
    ("function-attribute-double-bracket", "[[numthreads(1, 1, 1)]] void fr{n}() {}"),
    ("function-attribute-unknown", "[foo] [bar(1, \"s\")] [a::b(2)] void fs{n}() {}"),
    ("function-static-inline", "static float ft{n}(float x) { return x; }\ninline float fu{n}(float x) { return x; }"),
    ("function-modified-return-type", "const float fv{n}() { return 1.0f; }\nprecise float fw{n}(precise float x) { return x; }"),
    ("function-returning-struct", "S0 fx{n}() { S0 s; s.a = 1.0f; s.b = 2; s.v2 = float2(0, 0); s.v = float4(0, 0, 0, 0); return s; }\nfloat use_fx{n}() { return fx{n}().a; }"),
    ("function-recursive", "int fy{n}(int x) { return x <= 0 ? 0 : fy{n}(x - 1); }"),
    ("function-pointer-declarator", "void fz{n}(float* p, float const*& q) {}"),
    ("function-mesh-params", "[numthreads(64, 1, 1)] [outputtopology(\"triangle\")] void ms{n}(uint3 dtid : SV_DispatchThreadID, in payload Pay0 data, out vertices V0 ov[64], out primitives P0 op[32], out indices uint3 ot[32]) { SetMeshOutputCounts(64, 32); V0 v; v.position = float4(data.start, 0, 0, 1); v.uv = float2(0, 0); ov[dtid.x] = v; P0 p; p.material = 1u; op[dtid.x % 32] = p; ot[dtid.x % 32] = uint3(0, 1, 2); }"),
    ("function-mesh-topology-line", "[numthreads(32, 1, 1)] [outputtopology(\"line\")] void msl{n}(uint3 dtid : SV_DispatchThreadID, out vertices V0 ov[32], out indices uint2 ol[16]) { SetMeshOutputCounts(32, 16); }"),
    ("function-task-dispatch", "[numthreads(64, 1, 1)] void ts{n}(uint3 dtid : SV_DispatchThreadID) { gs_pay.start = dtid.x; DispatchMesh(4u, 1u, 1u, gs_pay); }"),
    ("function-geometry-stream", "[maxvertexcount(3)] void gsf{n}(triangle V0 i[3], inout TriangleStream<V0> o) { o.Append(i[0]); o.RestartStrip(); }"),
    ("namespace", "namespace NA{n} { static const int x = 1; int f() { return x; } }\nint use_na{n}() { return NA{n}::f() + NA{n}::x + ::NA{n}::x; }"),
    ("namespace-anonymous", "namespace { static const int anon{n} = 1; }"),
    ("namespace-nested", "namespace NB{n} { namespace NC { struct T { int a; }; int g() { return 1; } } int h() { return NC::g(); } }\nint use_nb{n}() { NB{n}::NC::T t; t.a = NB{n}::NC::g(); return t.a + NB{n}::h(); }"),
    ("namespace-reopened", "namespace ND{n} { int a() { return 1; } }\nnamespace ND{n} { int b() { return a(); } }"),
    ("namespace-empty", "namespace NE{n} {}"),
    ("namespace-contains-everything", "namespace NF{n} { struct S { int a; }; enum E { X }; typedef int T; cbuffer C { float ncf{n}; } Texture2D<float4> tex; template<typename T> T id(T x) { return x; } }"),
    // ---- one item per diagnostic of the type checker that the other items do not reach (every error must render)
    ("diag-array-dimension-not-specified", "static float dg{n}[];"),
    ("diag-array-dimension-zero", "static float dg{n}[0];"),
    ("diag-array-dimension-negative", "static float dg{n}[-1];"),
    ("diag-array-dimension-huge", "static float dg{n}[4294967296];@@static float dh{n}[65536][65536];"),
    ("diag-cbuffer-already-defined", "cbuffer DG{n} { float dga{n}; }\ncbuffer DG{n} { float dgb{n}; }"),
    ("diag-struct-already-defined", "struct DS{n} { int a; };\nstruct DS{n} { int b; };"),
    ("diag-enum-value-already-defined", "enum DE{n} { DEV{n}, DEV{n} };"),
    ("diag-default-argument-missing", "void dg{n}(int a = 1, int b) {}"),
    ("diag-default-template-argument-missing", "template<typename T = int, typename U> struct DT{n} { T a; U b; };"),
    ("diag-enum-type-not-deduced", "enum DE{n} { DEA{n} = 1.5f };@@enum DF{n} { DFA{n} = 99999999999 };@@enum DG{n} { DGA{n} = -1, DGB{n} = 4294967295u };"),
    ("diag-function-attribute-argument-count", "[numthreads(1, 1)] void dg{n}() {}@@[WaveSize] [numthreads(1, 1, 1)] void dh{n}() {}@@[outputtopology] void di{n}() {}@@[maxvertexcount(1, 2)] void dj{n}() {}"),
    ("diag-function-attribute-argument-type", "[numthreads(1.5f, true, \"s\")] void dg{n}() {}@@[numthreads(0, 0, 0)] void dh{n}() {}@@[numthreads(-1, 1, 1)] void di{n}() {}@@[numthreads(c0 / 0, 1, 1)] void dj{n}() {}"),
    ("diag-global-attribute-argument-count", "[[vk::binding]] ByteAddressBuffer dg{n};@@[[rssl::bind_group(1, 2)]] ByteAddressBuffer dh{n};@@[[rssl::bindless(1)]] Texture2D<float4> di{n}[4];@@[[vk::binding(1, 2, 3)]] ByteAddressBuffer dj{n};"),
    ("diag-global-attribute-argument-type", "[[vk::binding(1.5f)]] ByteAddressBuffer dg{n};@@[[rssl::bind_group(-1)]] ByteAddressBuffer dh{n};@@[[rssl::bind_group(\"s\")]] ByteAddressBuffer di{n};@@[[vk::binding(4294967296)]] ByteAddressBuffer dj{n};"),
    ("diag-illegal-names", "void linear() {}"),
    ("diag-illegal-variable-name", "static int centroid = 1;"),
    ("diag-illegal-struct-name", "struct sample { int a; };"),
    ("diag-illegal-typedef-name", "typedef int point;"),
    ("diag-scoped-declaration-name", "static int N0::dg{n} = 1;@@void N0::dh{n}() {}"),
    ("diag-illegal-struct-base", "struct DS{n} : float { int a; };@@struct DT{n} : E0 { int a; };@@struct DU{n} : Texture2D { int a; };"),
    ("diag-interpolation-modifier-on-output", "void dg{n}(out nointerpolation float x, inout centroid float y) { x = 1.0f; }"),
    ("diag-invalid-output-topology", "[numthreads(1, 1, 1)] [outputtopology(\"quad\")] void dg{n}(out vertices V0 v[3], out indices uint3 t[1]) {}"),
    ("diag-mesh-indices-type", "[numthreads(1, 1, 1)] [outputtopology(\"triangle\")] void dg{n}(out vertices V0 v[3], out indices float3 t[1]) {}@@[numthreads(1, 1, 1)] [outputtopology(\"triangle\")] void dh{n}(out vertices V0 v[3], out indices uint2 t[1]) {}"),
    ("diag-register-on-non-object", "float4 dg{n} : register(t0);@@static int dh{n} : register(b0);"),
    ("diag-two-registers", "Texture2D<float4> dg{n} : register(t0) : register(t1);"),
    ("diag-semantic-on-global", "Texture2D<float4> dg{n} : FOO;@@static int dh{n} : SV_Target;"),
    ("diag-cbuffer-annotations", "cbuffer DG{n} : SV_Target { float dga{n}; }@@cbuffer DH{n} : register(t0) { float dha{n}; }@@cbuffer DI{n} : register(b0) : register(b1) { float dia{n}; }@@cbuffer DJ{n} { float dja{n} : register(b0); float djb{n} : FOO; }"),
    ("diag-bindless-cbuffer", "[[rssl::bindless]] cbuffer DG{n} { float dga{n}; }"),
    ("diag-modifier-conflict", "row_major column_major float4x4 dg{n};@@static extern int dh{n};@@unorm snorm float di{n};@@void dj{n}(in out float x) {}@@static groupshared int dk{n};"),
    ("diag-modifier-on-wrong-type", "row_major float dg{n};@@unorm int dh{n};@@snorm Texture2D di{n};"),
    ("diag-incomplete-type", "static void dg{n};@@void dh{n}(void x) {}@@struct DS{n} { void a; };"),
    ("diag-static-sampler-misuse", "Texture2D<float4> dg{n} = StaticSampler { };@@static SamplerState dh{n} = StaticSampler { };@@SamplerState di{n} : register(s0) = StaticSampler { };@@void dj{n}() { SamplerState s = StaticSampler { }; }"),
    ("diag-sampler-property-argument-types", "const SamplerState dg{n} = StaticSampler { Filter = 1; };@@const SamplerState dh{n} = StaticSampler { MinLOD = Clamp; };@@const SamplerState di{n} = StaticSampler { MaxAnisotropy = 1.5f; };@@const SamplerState dj{n} = StaticSampler { AddressU = \"Clamp\"; };@@const SamplerState dk{n} = StaticSampler { BorderColor = { A = 1; } };"),
    ("diag-template-parameter-redefined", "template<typename T, typename T> void dg{n}() {}@@template<int N, int N> void dh{n}() {}@@template<typename T, int T> void di{n}() {}"),
    ("diag-unknown-type", "Foo{n} dg{n};@@void dh{n}(Bar{n} x) {}@@Baz{n} di{n}() {}"),
    ("diag-redefinitions", "static int dg{n};\nstatic int dg{n};@@void dh{n}() {}\nvoid dh{n}() {}@@typedef int DT{n};\ntypedef float DT{n};@@static int di{n};\nvoid di{n}() {}@@struct DU{n} {};\nenum DU{n} { DUV{n} };@@namespace DV{n} {}\nstatic int DV{n};"),
    ("diag-function-redeclared-differently", "int dg{n}(int a);\nfloat dg{n}(int a) { return 1.0f; }@@void dh{n}(int a = 1);\nvoid dh{n}(int a = 2) {}@@void di{n}(in int a);\nvoid di{n}(out int a) { a = 1; }"),
    ("diag-object-type-arguments", "Texture2D<S0> dg{n};@@RWTexture2D dh{n};@@StructuredBuffer di{n};@@Buffer<float4, 2> dj{n};@@ConstantBuffer<float4> dk{n};@@RayQuery dl{n};@@Texture2D<Texture2D<float4> > dm{n};@@vector<float, 5> dn{n};@@vector<S0, 2> do{n};@@matrix<float, 0, 1> dp{n};@@vector<float, c0> dq{n};"),
    ("diag-entry-point-signature", "[numthreads(1, 1, 1)] int dg{n}(float q) { return 1; }\nPipeline DP{n} { ComputeShader = dg{n}; }"),
    ("diag-entry-point-template", "template<typename T> void dg{n}() {}\nPipeline DP{n} { ComputeShader = dg{n}; }"),
    ("diag-entry-point-overloaded", "[numthreads(1, 1, 1)] void dg{n}() {}\n[numthreads(1, 1, 1)] void dg{n}(int x) {}\nPipeline DP{n} { ComputeShader = dg{n}; }"),
    ("diag-entry-point-missing-numthreads", "void dg{n}() {}\nPipeline DP{n} { ComputeShader = dg{n}; }"),
    ("diag-pipeline-argument-types", "Pipeline DP{n} { ComputeShader = dcs; DefaultBindGroup = \"x\"; }@@Pipeline DQ{n} { ComputeShader = \"dcs\"; }@@Pipeline DR{n} { ComputeShader = { A = 1; } }@@Pipeline DS{n} { ComputeShader = dcs; DefaultBindGroup = 1.5f; }@@Pipeline DT{n} { ComputeShader = dcs; DefaultBindGroup = { A = 1; } }@@Pipeline DU{n} { ComputeShader = dcs; DefaultBindGroup = 4294967296; }@@Pipeline DV{n} { ComputeShader = dcs; DefaultBindGroup = c0 / 0; }"),
    ("diag-graphics-state-argument-types", "Pipeline DP{n} { VertexShader = dvs; PixelShader = dps; CullMode = 1; }@@Pipeline DQ{n} { VertexShader = dvs; PixelShader = dps; RenderTargetFormat0 = R8; }@@Pipeline DR{n} { VertexShader = dvs; PixelShader = dps; BlendState0 = 1; }@@Pipeline DS{n} { VertexShader = dvs; PixelShader = dps; BlendState0 = { Foo = 1; } }@@Pipeline DT{n} { VertexShader = dvs; PixelShader = dps; BlendState0 = { BlendOp = \"Subtrack\"; WriteMask = -1; } }@@Pipeline DU{n} { VertexShader = dvs; PixelShader = dps; RenderTargetFormat0 = \"NOPE\"; }@@Pipeline DV{n} { VertexShader = dvs; PixelShader = dps; WindingOrder = \"Up\"; }@@Pipeline DW{n} { VertexShader = dvs; PixelShader = dps; BlendState0 = { BlendEnabled = 2; } }@@Pipeline DX{n} { VertexShader = dvs; PixelShader = dps; BlendState0 = { SrcBlend = \"Nope\"; } }@@Pipeline DY{n} { VertexShader = dvs; PixelShader = dps; BlendState0 = { BlendOp = \"Nope\"; } }@@Pipeline DZ{n} { VertexShader = dvs; PixelShader = dps; BlendState0 = { WriteMask = 1.5f; } }@@Pipeline EA{n} { VertexShader = dvs; PixelShader = dps; BlendState = { } BlendState0 = { } }@@Pipeline EB{n} { VertexShader = dvs; PixelShader = dps; DepthTargetFormat = 1; }"),
    ("diag-pipeline-stage-combinations", "Pipeline DP{n} { PixelShader = dps; }@@Pipeline DQ{n} { VertexShader = dvs; }@@Pipeline DR{n} { VertexShader = dvs; MeshShader = dvs; PixelShader = dps; }@@Pipeline DS{n} { TaskShader = dvs; PixelShader = dps; }@@Pipeline DT{n} { MeshShader = dvs; }@@Pipeline DU{n} { TaskShader = dcs; }@@Pipeline DV{n} { ComputeShader = dcs; TaskShader = dcs; }@@Pipeline DW{n} { VertexShader = dps; PixelShader = dvs; }@@Pipeline DX{n} { VertexShader = dcs; PixelShader = dcs; }"),
    ("diag-pipeline-redefined", "[numthreads(1, 1, 1)] void dg{n}() {}\nPipeline DP{n} { ComputeShader = dg{n}; }\nPipeline DP{n} { ComputeShader = dg{n}; }"),
    ("root-stray-semicolons", ";;;"),
    ("reserved-word", "unsigned int rw{n};"),
    ("reserved-word-this", "struct RT{n} { int a; int f() { return this.a; } };"),
    ("unused-keyword-constexpr", "constexpr int ck{n} = 1;"),
    ("unused-keyword-decltype", "decltype(c0) dk{n} = 1;"),
    ("elaborated-type-specifier", "struct S0 es{n};"),
    ("operator-overload", "struct OP{n} { int a; OP{n} operator+(OP{n} o) { return o; } };"),
    ("lex-at-sign", "int at{n} = @;"),
    ("lex-string-value", "static const int sv{n} = \"text\";"),
];

/// statement items (inside `void fn<n>() { float x = 1.0f; float y = 2.0f; int i = 0; uint u = 1u; bool b = true; float4 v4 = float4(1, 2, 3, 4); ... }`)
const SYN_STMT: &[(&str, &str)] = &[
    ("stmt-empty", ";;"),
    ("stmt-block", "{ { x = y; } { } }"),
    ("stmt-if", "if (b) x = 1.0f;"),
    ("stmt-if-else", "if (x > y) { x = y; } else if (b) y = x; else { }"),
    ("stmt-dangling-else", "if (b) if (x > y) x = y; else y = x;"),
    ("stmt-for", "for (int k = 0; k < 4; k++) { x += 1.0f; }"),
    ("stmt-for-multi-declarator", "for (uint k = 0, j = 1; k < 4u; k++, j++) { u += j; }"),
    ("stmt-for-empty-clauses", "for (;;) { break; }"),
    ("stmt-for-expression-init", "for (i = 0; i < 2; ++i) ;"),
    ("stmt-while", "while (i < 3) { i++; if (i == 2) continue; }"),
    ("stmt-do-while", "do { i--; } while (i > 0);\ndo ; while (false);"),
    ("stmt-switch", "switch (i) { case 0: x = 1.0f; break; case 1: case 2: { y = 2.0f; break; } default: break; }"),
    ("stmt-switch-fallthrough-default-first", "switch (u) { default: case 3u: x = 0.0f; break; }"),
    ("stmt-switch-empty", "switch (i) {}"),
    ("stmt-switch-no-block", "switch (i) ;\nswitch (i) case 0: x = 1.0f;"),
    ("stmt-switch-nested", "switch (i) { case 0: switch (u) { case 1u: break; default: break; } break; default: break; }"),
    ("stmt-switch-constant-expression-case", "switch (i) { case c0 + 1: break; case (1 << 2): break; case E0_B: break; }"),
    ("stmt-switch-non-constant-case", "switch (i) { case i: break; }"),
    ("stmt-case-outside-switch", "case 1: x = 1.0f;"),
    ("stmt-break-outside-loop", "break;"),
    ("stmt-discard", "if (x < 0.0f) discard;"),
    ("stmt-return-void", "if (b) return;"),
    ("stmt-return-value-in-void", "return 1;"),
    ("stmt-attribute-branch", "[branch] if (b) x = 1.0f;"),
    ("stmt-attribute-flatten", "[flatten] if (b) x = 1.0f;"),
    ("stmt-attribute-unroll", "[unroll] for (int k = 0; k < 4; k++) x += 1.0f;\n[unroll(2)] for (int k2 = 0; k2 < 2; k2++) x += 1.0f;"),
    ("stmt-attribute-loop", "[loop] while (i < 2) i++;\n[fastopt] for (;;) break;\n[allow_uav_condition] do { } while (false);"),
    ("stmt-attribute-unknown", "[foo] x = 1.0f;\n[[bar::baz(1)]] { }"),
    ("stmt-attribute-on-declaration", "[unroll] int q = 1;"),
    ("stmt-local-multi-declarator", "float la = 1.0f, lb[3], lc[2][4];\nlb[0] = la; lc[1][3] = la;"),
    ("stmt-local-array-initialiser", "int la[] = { 1, 2 };\nint lb[3] = { 1, 2, 3 };\nfloat2 lc[2] = { float2(0, 0), float2(1, 1) };"),
    ("stmt-local-aggregate-struct", "S0 ls = { 1.0f, 2, float2(0, 0), float4(0, 0, 0, 1) };\nS0 le = (S0)0;"),
    ("stmt-local-static-const", "static const uint lk = 1;\nconst float lf = 2.0f;"),
    ("stmt-local-scoped-type", "N0::NS ln; ln.a = N0::nx; ::N0::NS lm;"),
    ("stmt-local-typedef-type", "U0 lu = 1u; E0 le = E0_A;"),
    ("stmt-local-shadowing", "{ float x = 3.0f; { int x = 1; } }"),
    ("stmt-local-redefinition", "float dup = 1.0f; float dup = 2.0f;"),
    ("stmt-local-modifiers", "precise float lp = x * y;\nvolatile int lv = 0;\nrow_major float2x2 lm = float2x2(1, 0, 0, 1);"),
    ("stmt-local-object", "Texture2D<float4> lt = g_t2d;\nSamplerState lss = g_ss;"),
    ("stmt-noop-expression", "g_t2d;\nx;\n1;"),
    ("stmt-function-name-as-statement", "hf0;"),
    ("stmt-declaration-or-expression-ambiguity", "U0 * u;\nS0 (sx);"),
    ("stmt-typedef-in-body", "typedef int LT; LT q = 1;"),
    ("stmt-struct-in-body", "struct LS { int a; }; LS q;"),
    ("diag-array-dimension-not-constant", "float da[i];"),
    ("diag-array-dimension-local-unspecified", "float da[];"),
    ("diag-array-dimension-local-extreme", "float da[0];@@float db[-1];@@float dc[4294967296];"),
    ("diag-unroll-argument", "[unroll(i)] for (;;) break;@@[unroll(1.5f)] for (;;) break;@@[unroll(-1)] for (;;) break;@@[unroll(0)] for (;;) break;"),
    ("diag-statement-attribute-argument-count", "[branch(1)] if (b) x = 1.0f;@@[unroll(1, 2)] for (;;) break;@@[loop(3)] for (;;) break;@@[flatten()] if (b) { }"),
    ("diag-local-annotations", "float da : register(t0) = 1.0f;@@float db : SV_Target = 2.0f;@@float dc : packoffset(c0);"),
    ("diag-local-storage-classes", "groupshared float da;@@extern float db;@@static float dc = 1.0f;@@in float dd;@@out float de;"),
    ("diag-local-incomplete-type", "void da;@@Foo db;"),
    ("diag-condition-types", "if (g_t2d) { }@@while (s0v) { }@@for (; v4;) { }@@do { } while (g_ss);@@switch (x) { default: break; }@@switch (v4) { default: break; }@@switch (b) { case true: break; }"),
    ("diag-duplicate-case", "switch (i) { case 1: break; case 1: break; default: break; default: break; }"),
    ("diag-return-type-mismatch", "return g_t2d;"),
    ("diag-assignment-to-rvalue", "1 = i;@@x + y = 1.0f;@@hf0(x) = 2.0f;@@c0 = 1;@@E0_A = 1;@@(int)x = 1;@@i++ = 1;@@cb_f = 1.0f;@@g_sb[0].a = 1.0f;"),
    ("diag-increment-of-rvalue", "c0++;@@++1;@@(x + y)--;@@b++;@@s0v++;@@g_t2d++;@@--E0_A;"),
    ("diag-out-argument-rvalue", "sincos(x, 1.0f, y);@@g_t2d.GetDimensions(1u, u);@@InterlockedAdd(1u, 1u);@@InterlockedAdd(u, 1u);"),
    ("stmt-goto", "goto end;"),
    ("stmt-unterminated", "x = 1.0f"),
];

/// expression items: (category, type, expression) — placed as `<type> e<n> = <expr>;`
const SYN_EXPR: &[(&str, &str, &str)] = &[
    ("expr-arithmetic", "float", "x * y / 2.0f + x - y"),
    ("expr-modulo-int", "int", "(i % 3) + (7 / 2) * -i"),
    ("expr-modulo-float", "float", "x % y"),
    ("expr-shift", "uint", "(u << 3) >> 1u | u & 255u ^ 15u"),
    ("expr-shift-spaced-tokens", "uint", "u < < 3"),
    ("expr-comparison", "bool", "x < y || x <= y && x > y || x >= y || x == y || x != y"),
    ("expr-logical-not", "bool", "!b && !(x > y)"),
    ("expr-bitwise-not", "uint", "~u"),
    ("expr-unary-plus-minus", "float", "+x + -y - -x"),
    ("expr-increment-decrement", "int", "i++ + ++i - i-- - --i"),
    ("expr-ternary", "float", "b ? x : y"),
    ("expr-ternary-nested", "float", "b ? x > y ? 1.0f : 2.0f : b ? 3.0f : 4.0f"),
    ("expr-ternary-vector-condition", "float4", "v4 > 2.0f ? v4 : float4(0, 0, 0, 0)"),
    ("expr-ternary-assignment-middle", "float", "b ? x = 1.0f : y"),
    ("expr-assignment-chain", "float", "x = y = 3.0f"),
    ("expr-compound-assignment", "float", "(x += 1.0f, x -= 2.0f, x *= 3.0f, x /= 4.0f, x)"),
    ("expr-compound-assignment-int", "uint", "(u %= 7u, u <<= 1, u >>= 1, u &= 255u, u |= 1u, u ^= 2u, u)"),
    ("expr-comma", "int", "(i = 1, i + 1)"),
    ("expr-cast", "float", "(float)i + (float)u + (float)b"),
    ("expr-cast-vector", "float3", "(float3)x + (float3)v4.xyz"),
    ("expr-cast-const-type", "uint", "(const uint)x"),
    ("expr-cast-comma-operand", "float2", "(float2)(x, y)"),
    ("expr-cast-struct-zero", "S0", "(S0)0"),
    ("expr-cast-ambiguous-parenthesised-name", "int", "(i) + (i) - (i)"),
    ("expr-cast-chain", "float", "(float)(int)(uint)(float)x"),
    ("expr-cast-pointer-type", "float", "*(float*)x"),
    ("expr-constructor", "float4", "float4(x, y, 0, 1) + float4(float2(x, y), float2(0, 1)) + float4(v4.xyz, 1)"),
    ("expr-constructor-template-type", "float2", "vector<float, 2>(x, y)"),
    ("expr-constructor-matrix", "float2x2", "float2x2(1, 0, 0, 1)"),
    ("expr-constructor-scalar", "float", "float(i) + int(x)"),
    ("expr-sizeof-type", "uint", "sizeof(float4) + sizeof(S0) + sizeof(float2x2)"),
    ("expr-sizeof-expression", "uint", "sizeof(x) + sizeof(v4)"),
    ("expr-swizzle", "float4", "v4.xyzw + v4.wzyx + v4.rgba + v4.xxxx + x.xxxx"),
    ("expr-swizzle-assignment", "float2", "(v4.xy = float2(1, 2), v4.zw)"),
    ("expr-swizzle-mixed-sets", "float2", "v4.xg"),
    ("expr-matrix-members", "float", "cb_m._m00 + cb_m._11 + cb_m[1][2] + cb_m[0].x"),
    ("expr-subscript", "float", "gs0[i] + gs0[u & 63u] + v4[1]"),
    ("expr-member-chain", "float", "g_sb[0].v.x + g_cb.a + g_sb.Load(1).a"),
    ("expr-member-scoped", "int", "nsv.N0::NS::a + nsv.::N0::NS::a"),
    ("expr-call", "float", "hf0(x) + hf0(hf0(y))"),
    ("expr-call-default-argument", "int", "hi0(1) + hi0(1, 2)"),
    ("expr-call-template-argument", "float", "ht0<float>(x) + ht0(y)"),
    ("expr-call-scoped", "int", "N0::nf(1) + ::N0::nf(2) + N0::N1::nf2() + N0::nx"),
    ("expr-call-wrong-arity", "float", "hf0(x, y)"),
    ("expr-call-unknown", "float", "nope(x)"),
    ("expr-literal-int-forms", "int", "12 + 0x1F + 017 + 0"),
    ("expr-literal-uint-forms", "uint", "12u + 0xFFu + 017U + 4294967295u"),
    ("expr-literal-int64", "int", "(int)12l + (int)12ul + (int)12LU"),
    ("expr-literal-float-forms", "float", "1.0 + 1. + 0.5 + 1e11 + 1e+11 + 7E-7 + 4.863e+11 + 1.0f + 1.0F"),
    ("expr-literal-half-double", "float", "(float)1.0h + (float)1.0H + (float)1.0l + (float)1.0L"),
    ("expr-literal-infinity", "float", "1.#INF + 1.#INFf - 2.0#INFh"),
    ("expr-literal-leading-dot", "float", ".5"),
    ("expr-literal-int-dot-member", "float", "1.x"),
    ("expr-literal-bool", "bool", "true && !false"),
    ("expr-literal-extreme", "int", "2147483647 + 2147483648 + 99999999999"),
    ("expr-enum-value", "int", "(int)E0_B + (E0_A == E0_C ? 1 : 0)"),
    ("expr-assert-type", "float", "(assert_type<float>(x), x)"),
    ("expr-template-less-than-ambiguity", "bool", "i < c0 > (1)"),
    ("expr-template-args-greater-in-parentheses", "uint", "ht0<uint>((u > 1u) ? 1u : 0u)"),
    ("expr-address-of-dereference", "float", "*&x"),
    ("expr-initializer-list-as-expression", "float2", "{ 1.0f, 2.0f }"),
    ("intrinsic-math", "float", "abs(x) + sin(x) + cos(y) + tan(x) + sqrt(abs(y)) + rsqrt(2.0f) + pow(x, y) + exp(x) + exp2(x) + log(x) + log2(x) + log10(x) + floor(x) + ceil(x) + trunc(x) + round(x) + frac(x) + fmod(x, y) + rcp(x) + sign(x) + saturate(x) + step(x, y) + smoothstep(0.0f, 1.0f, x) + atan2(x, y) + asin(x) + acos(x) + atan(x) + sinh(x) + cosh(x) + tanh(x)@@abs(x)@@sin(x)@@cos(y)@@tan(x)@@sqrt(abs(y))@@rsqrt(2.0f)@@pow(x, y)@@exp(x)@@exp2(x)@@log(x)@@log2(x)@@log10(x)@@floor(x)@@ceil(x)@@trunc(x)@@round(x)@@frac(x)@@fmod(x, y)@@rcp(x)@@sign(x)@@saturate(x)@@step(x, y)@@smoothstep(0.0f, 1.0f, x)@@atan2(x, y)@@asin(x)@@acos(x)@@atan(x)@@sinh(x)@@cosh(x)@@tanh(x)"),
    ("intrinsic-vector", "float", "dot(v4, v4) + length(v4.xyz) + distance(v4.xy, v4.zw) + normalize(v4.xyz).x + cross(v4.xyz, v4.zyx).x + reflect(v4.xyz, v4.xyz).x + refract(v4.xyz, v4.xyz, 1.0f).x + lerp(x, y, 0.5f) + clamp(x, 0.0f, 1.0f) + min(x, y) + max(x, y) + mul(cb_m, v4).x + mul(v4, cb_m).x + transpose(cb_m)._m00 + determinant(cb_m)@@dot(v4, v4)@@length(v4.xyz)@@distance(v4.xy, v4.zw)@@normalize(v4.xyz).x@@cross(v4.xyz, v4.zyx).x@@reflect(v4.xyz, v4.xyz).x@@refract(v4.xyz, v4.xyz, 1.0f).x@@lerp(x, y, 0.5f)@@clamp(x, 0.0f, 1.0f)@@min(x, y)@@max(x, y)@@mul(cb_m, v4).x@@mul(v4, cb_m).x@@transpose(cb_m)._m00@@determinant(cb_m)"),
    ("intrinsic-logic", "bool", "all(v4 > 0.0f) || any(v4 < 0.0f) || isnan(x) || isinf(x) || isfinite(x) || all(and(v4 > 0.0f, v4 < 1.0f)) || any(or(v4 > 0.0f, v4 < 1.0f)) || select(b, true, false)@@all(v4 > 0.0f)@@any(v4 < 0.0f)@@isnan(x)@@isinf(x)@@isfinite(x)@@all(and(v4 > 0.0f, v4 < 1.0f))@@any(or(v4 > 0.0f, v4 < 1.0f))@@select(b, true, false)"),
    ("intrinsic-bits", "uint", "asuint(x) + (uint)asint(x) + countbits(u) + reversebits(u) + firstbithigh(u) + firstbitlow(u) + f32tof16(x) + asuint(asfloat(u)) + asuint(f16tof32(u))@@asuint(x)@@(uint)asint(x)@@countbits(u)@@reversebits(u)@@firstbithigh(u)@@firstbitlow(u)@@f32tof16(x)@@asuint(asfloat(u))@@asuint(f16tof32(u))"),
    ("intrinsic-out-params", "float", "(sincos(x, y, x), modf(x, y))"),
    ("intrinsic-derivatives", "float", "ddx(x) + ddy(x) + ddx_coarse(x) + ddy_coarse(x) + ddx_fine(x) + ddy_fine(x)@@ddx(x)@@ddy(x)@@ddx_coarse(x)@@ddy_coarse(x)@@ddx_fine(x)@@ddy_fine(x)"),
    ("intrinsic-wave", "uint", "WaveGetLaneCount() + WaveGetLaneIndex() + (WaveIsFirstLane() ? 1u : 0u) + WaveActiveSum(u) + WaveActiveProduct(u) + WaveActiveMin(u) + WaveActiveMax(u) + WaveActiveBitAnd(u) + WaveActiveBitOr(u) + WaveActiveBitXor(u) + WaveActiveCountBits(b) + WavePrefixSum(u) + WavePrefixProduct(u) + WavePrefixCountBits(b) + WaveReadLaneAt(u, 0u) + WaveReadLaneFirst(u) + WaveActiveBallot(b).x + (WaveActiveAnyTrue(b) ? 1u : 0u) + (WaveActiveAllTrue(b) ? 1u : 0u) + (WaveActiveAllEqual(u) ? 1u : 0u)@@WaveGetLaneCount()@@WaveGetLaneIndex()@@(WaveIsFirstLane() ? 1u : 0u)@@WaveActiveSum(u)@@WaveActiveProduct(u)@@WaveActiveMin(u)@@WaveActiveMax(u)@@WaveActiveBitAnd(u)@@WaveActiveBitOr(u)@@WaveActiveBitXor(u)@@WaveActiveCountBits(b)@@WavePrefixSum(u)@@WavePrefixProduct(u)@@WavePrefixCountBits(b)@@WaveReadLaneAt(u, 0u)@@WaveReadLaneFirst(u)@@WaveActiveBallot(b).x@@(WaveActiveAnyTrue(b) ? 1u : 0u)@@(WaveActiveAllTrue(b) ? 1u : 0u)@@(WaveActiveAllEqual(u) ? 1u : 0u)"),
    ("intrinsic-quad", "float", "QuadReadAcrossX(x) + QuadReadAcrossY(x) + QuadReadAcrossDiagonal(x) + QuadReadLaneAt(x, 0u)@@QuadReadAcrossX(x)@@QuadReadAcrossY(x)@@QuadReadAcrossDiagonal(x)@@QuadReadLaneAt(x, 0u)"),
    ("intrinsic-atomics-groupshared", "uint", "(InterlockedAdd(gs_pay.start, 1u), InterlockedAnd(gs_pay.start, 1u), InterlockedOr(gs_pay.start, 1u), InterlockedXor(gs_pay.start, 1u), InterlockedMin(gs_pay.start, 1u), InterlockedMax(gs_pay.start, 1u), InterlockedExchange(gs_pay.start, 1u, u), InterlockedCompareExchange(gs_pay.start, 0u, 1u, u), InterlockedCompareStore(gs_pay.start, 0u, 1u), u)@@(InterlockedAdd(gs_pay.start, 1u), u)@@(InterlockedAnd(gs_pay.start, 1u), u)@@(InterlockedOr(gs_pay.start, 1u), u)@@(InterlockedXor(gs_pay.start, 1u), u)@@(InterlockedMin(gs_pay.start, 1u), u)@@(InterlockedMax(gs_pay.start, 1u), u)@@(InterlockedExchange(gs_pay.start, 1u, u), u)@@(InterlockedCompareExchange(gs_pay.start, 0u, 1u, u), u)@@(InterlockedCompareStore(gs_pay.start, 0u, 1u), u)"),
    ("intrinsic-barriers", "int", "(AllMemoryBarrier(), AllMemoryBarrierWithGroupSync(), DeviceMemoryBarrier(), DeviceMemoryBarrierWithGroupSync(), GroupMemoryBarrier(), GroupMemoryBarrierWithGroupSync(), 0)@@(AllMemoryBarrier(), 0)@@(AllMemoryBarrierWithGroupSync(), 0)@@(DeviceMemoryBarrier(), 0)@@(DeviceMemoryBarrierWithGroupSync(), 0)@@(GroupMemoryBarrier(), 0)@@(GroupMemoryBarrierWithGroupSync(), 0)"),
    ("intrinsic-nonuniform", "float4", "g_t2d.Load(int3(NonUniformResourceIndex(u), 0, 0))"),
    ("method-texture2d-sample", "float4", "g_t2d.Sample(g_ss, v4.xy) + g_t2d.SampleLevel(g_ss, v4.xy, 0.0f) + g_t2d.SampleBias(g_ss, v4.xy, 0.5f) + g_t2d.SampleGrad(g_ss, v4.xy, v4.xy, v4.zw) + g_t2d.Sample(g_ss, v4.xy, int2(1, 1))@@g_t2d.Sample(g_ss, v4.xy)@@g_t2d.SampleLevel(g_ss, v4.xy, 0.0f)@@g_t2d.SampleBias(g_ss, v4.xy, 0.5f)@@g_t2d.SampleGrad(g_ss, v4.xy, v4.xy, v4.zw)@@g_t2d.Sample(g_ss, v4.xy, int2(1, 1))"),
    ("method-texture2d-gather", "float4", "g_t2d.Gather(g_ss, v4.xy, int2(0, 0)) + g_t2d.GatherRed(g_ss, v4.xy, int2(0, 0)) + g_t2d.GatherGreen(g_ss, v4.xy, int2(1, 1)) + g_t2d.GatherBlue(g_ss, v4.xy, int2(0, 0)) + g_t2d.GatherAlpha(g_ss, v4.xy, int2(0, 0), int2(1, 0), int2(0, 1), int2(1, 1))@@g_t2d.Gather(g_ss, v4.xy, int2(0, 0))@@g_t2d.GatherRed(g_ss, v4.xy, int2(0, 0))@@g_t2d.GatherGreen(g_ss, v4.xy, int2(1, 1))@@g_t2d.GatherBlue(g_ss, v4.xy, int2(0, 0))@@g_t2d.GatherAlpha(g_ss, v4.xy, int2(0, 0), int2(1, 0), int2(0, 1), int2(1, 1))"),
    ("method-texture2d-compare", "float4", "g_t2d.GatherCmp(g_scs, v4.xy, 0.5f, int2(0, 0)) + g_t2d.GatherCmpRed(g_scs, v4.xy, 0.5f, int2(0, 0)) + g_t2d.SampleCmp(g_scs, v4.xy, 0.5f, int2(0, 0)) + g_t2d.SampleCmpLevelZero(g_scs, v4.xy, 0.5f, int2(0, 0))@@g_t2d.GatherCmp(g_scs, v4.xy, 0.5f, int2(0, 0))@@g_t2d.GatherCmpRed(g_scs, v4.xy, 0.5f, int2(0, 0))@@g_t2d.SampleCmp(g_scs, v4.xy, 0.5f, int2(0, 0))@@g_t2d.SampleCmpLevelZero(g_scs, v4.xy, 0.5f, int2(0, 0))"),
    ("method-wrong-argument-types", "float4", "g_t2d.Gather(g_ss, v4.xy)"),
    ("method-texture-load-dimensions", "float4", "(g_t2d.GetDimensions(u, u), g_t2d.Load(int3(0, 0, 0)) + g_t2d[uint2(0, 0)] + g_t2d.mips[0][uint2(0, 0)] + g_t2da.Load(int4(0, 0, 0, 0)) + g_t3d.Load(int4(0, 0, 0, 0)) + g_t3d.Sample(g_ss, v4.xyz) + g_tc.Sample(g_ss, v4.xyz) + g_tc.SampleLevel(g_ss, v4.xyz, 0.0f) + g_t2da.Sample(g_ss, v4.xyz))"),
    ("method-rwtexture", "float4", "(g_rw2d[uint2(0, 0)] = v4, g_rw2d.Load(int2(0, 0)) + g_rw2d[uint2(1, 1)])"),
    ("method-buffer", "float4", "(g_rwbuf[0] = u, g_buf.Load(0) + g_buf[1] + (float4)g_rwbuf.Load(0))"),
    ("method-structured-buffer", "float", "(g_rwsb[0].a = x, g_sb.Load(0).a + g_sb[1].a + g_rwsb[2].a)"),
    ("method-byte-address-buffer", "uint", "g_bab.Load(0) + g_bab.Load2(0).x + g_bab.Load3(0).x + g_bab.Load4(0).x + g_bab.Load<uint>(4 * sizeof(uint)) + (uint)g_bab.Load<float4>(0).x + (uint)g_bab.Load<S0>(0).b@@g_bab.Load(0)@@g_bab.Load2(0).x@@g_bab.Load3(0).x@@g_bab.Load4(0).x@@g_bab.Load<uint>(4 * sizeof(uint))@@(uint)g_bab.Load<float4>(0).x@@(uint)g_bab.Load<S0>(0).b"),
    ("method-rw-byte-address-buffer", "uint", "(g_rwbab.Store(0, u), g_rwbab.Store2(0, uint2(u, u)), g_rwbab.Store3(0, uint3(u, u, u)), g_rwbab.Store4(0, uint4(u, u, u, u)), g_rwbab.Store<float>(0, x), g_rwbab.InterlockedAdd(0, 1u, u), g_rwbab.InterlockedCompareExchange(0, 0u, 1u, u), g_rwbab.Load(0))@@(g_rwbab.Store(0, u), g_rwbab.Load(0))@@(g_rwbab.Store2(0, uint2(u, u)), g_rwbab.Load(0))@@(g_rwbab.Store3(0, uint3(u, u, u)), g_rwbab.Load(0))@@(g_rwbab.Store4(0, uint4(u, u, u, u)), g_rwbab.Load(0))@@(g_rwbab.Store<float>(0, x), g_rwbab.Load(0))@@(g_rwbab.InterlockedAdd(0, 1u, u), g_rwbab.Load(0))@@(g_rwbab.InterlockedCompareExchange(0, 0u, 1u, u), g_rwbab.Load(0))"),
    ("diag-array-index-on-non-array", "float", "x[0]"),
    ("diag-array-index-on-struct", "float", "s0v[0]"),
    ("diag-array-index-not-integer", "float", "gs0[1.5f]@@gs0[b]@@gs0[v4]@@gs0[s0v]@@gs0[g_t2d]"),
    ("diag-array-index-out-of-range-constant", "float", "gs0[64]@@gs0[-1]@@gs0[4294967295u]@@v4[4]@@v4[-1]"),
    ("diag-assert-type-failed", "float", "(assert_type<int>(x), x)"),
    ("diag-assert-type-invalid", "float", "(assert_type<1>(x), x)@@(assert_type(x), x)@@(assert_type<int, int>(x), x)@@(assert_type<int>(), x)@@(assert_type<int>(x, y), x)"),
    ("diag-assert-eval-failed", "int", "(assert_eval(1 + 1, 3), 0)"),
    ("diag-assert-eval-invalid", "int", "(assert_eval(1), 0)@@(assert_eval<1>(1, 1), 0)@@(assert_eval<int, int>(1, 1), 0)@@(assert_eval(i, 1), 0)@@(assert_eval(hf0, 1), 0)@@(assert_eval(1, hf0), 0)@@(assert_eval(g_t2d, 1), 0)@@(assert_eval<Texture2D>(1, 1), 0)@@(assert_eval(1, i), 0)"),
    ("diag-expected-type-received-expression", "float", "vector<1, 2>(x, y).x"),
    ("diag-type-as-value", "float", "float + 1"),
    ("diag-function-passed-as-value", "float", "hf0(hf0)@@hf0"),
    ("diag-method-passed-as-value", "float4", "g_t2d.Load"),
    ("diag-identifier-is-not-a-member", "int", "nsv.N0::nx@@nsv.N0::nf"),
    ("diag-member-for-different-type", "int", "s0v.N0::NS::a"),
    ("diag-member-on-non-struct", "float", "x.a@@i.b@@b.c@@E0_A.d@@g_ss.e@@hf0.f"),
    ("diag-invalid-swizzle", "float", "v4.xyzwx.x@@v4.q@@v4.xr@@x.y@@v4._m00"),
    ("diag-invalid-cast", "float", "(float)g_t2d@@(float)s0v@@(float)g_ss"),
    ("diag-invalid-cast-to-object", "float4", "((Texture2D<float4>)1).Load(int3(0, 0, 0))@@((S0)x).v@@((S0)v4).v"),
    ("diag-wrong-type-in-constructor", "float2", "float2(g_t2d, 1)@@float2(s0v, 1)@@float2(1, 2, 3)@@float2()@@float2(v4)@@float3(v4.xy)"),
    ("diag-ternary-condition-type", "float", "(g_t2d ? 1.0f : 2.0f)@@(s0v ? 1.0f : 2.0f)@@(g_ss ? x : y)"),
    ("diag-ternary-branch-types", "float", "(b ? g_t2d : x)@@(b ? s0v : 1)@@(b ? v4 : v4.xy).x"),
    ("diag-binary-operand-types", "float", "(g_t2d + 1)@@(s0v * 2)@@(g_ss == g_ss)@@(x % g_t2d)@@(b << s0v)@@(v4.xy + v4.xyz).x@@(cb_m * v4.xy).x"),
    ("diag-unary-operand-types", "float", "(-g_t2d)@@(!s0v)@@(~x)@@(~s0v)@@(-g_ss)@@(+hf0)"),
    ("diag-template-argument-kinds", "float", "ht0<1>(x)@@ht0<float, int>(x)@@ht0<>(x)@@ht0<hf0>(x)@@ht0<Foo>(x)@@ht0<float>(x, y)"),
    ("diag-template-arguments-on-non-template", "float", "hf0<float>(x)@@x<1>@@c0<int>(1)"),
    ("diag-call-of-non-function", "float", "x(1)@@c0()@@E0_A(1)@@s0v(1)@@1(2)"),
    ("diag-ambiguous-overload", "float", "max(i, x)@@max(u, i)@@min(b, x)@@clamp(i, x, u)@@lerp(i, u, b)@@dot(i, v4)@@mul(x, s0v)"),
    ("diag-intrinsic-argument-count", "float", "sin()@@sin(x, y)@@dot(v4)@@lerp(x, y)@@mul(cb_m)@@abs(x, x)"),
    ("diag-method-on-wrong-object", "float4", "g_buf.Sample(g_ss, v4.xy)@@g_t2d.Store(0, v4)@@g_ss.Load(0)@@g_rw2d.Sample(g_ss, v4.xy)@@g_bab.Load<Texture2D<float4> >(0).Load(int3(0, 0, 0))"),
    ("diag-sizeof-invalid", "uint", "sizeof(void)@@sizeof(Texture2D)@@sizeof(hf0)@@sizeof(Foo)@@sizeof(g_ss)"),
    ("diag-scoped-name-errors", "int", "N0::nope@@Nope::x@@N0::N1::nope()@@::nope@@E0::E0_A@@S0::a@@N0::NS::a@@i::x"),
    ("diag-string-operands", "int", "(\"a\" + 1)@@hi0(\"s\")@@(int)\"x\""),
    ("method-unknown", "float", "g_t2d.Nope(1)"),
    ("method-template-non-type-argument", "uint", "g_bab.Load<4>(0)"),
];

/// entry points + pipelines: (category, text); the entry calls `{calls}`
const SYN_PIPE: &[(&str, &str)] = &[
    ("pipeline-compute", "[numthreads(8, 8, 1)]\nvoid CSMAIN(uint3 dtid : SV_DispatchThreadID) { {calls} g_rw2d[dtid.xy] = float4(0, 0, 0, 1); }\nPipeline Main { ComputeShader = CSMAIN; }\n"),
    ("pipeline-compute-default-bind-group", "[numthreads(1, 1, 1)]\nvoid CSMAIN() { {calls} }\nPipeline Main { ComputeShader = CSMAIN; DefaultBindGroup = 2; }\n"),
    ("pipeline-vertex-pixel", "void VSMAIN(uint vid : SV_VertexID, uint iid : SV_InstanceID, out float4 o_pos : SV_Position, out float2 o_uv : TEXCOORD) { o_pos = float4(0, 0, 0, 1); o_uv = float2(0.5f, 0.5f); }\n\
float4 PSMAIN(uint pid : SV_PrimitiveID, float2 i_uv : TEXCOORD, out float4 o_t0 : SV_Target0) : SV_Target1 { {calls} o_t0 = float4(i_uv, 0, 0); return float4(0, 0, 0, 0); }\nPipeline Main { VertexShader = VSMAIN; PixelShader = PSMAIN; }\n"),
    ("pipeline-render-state", "V0 VSMAIN(uint vid : SV_VertexID) { V0 o; o.position = float4(0, 0, 0, 1); o.uv = float2(0, 0); return o; }\nfloat4 PSMAIN(V0 i) : SV_Target { {calls} return float4(i.uv, 0, 1); }\n\
Pipeline Main {\n    VertexShader = VSMAIN;\n    PixelShader = PSMAIN;\n    RenderTargetFormat0 = \"R8G8B8A8_UNORM\";\n    RenderTargetFormat2 = \"R32G32_UINT\";\n    DepthTargetFormat = \"D32_FLOAT\";\n    CullMode = \"Back\";\n    WindingOrder = \"Clockwise\";\n\
    BlendState0 = {\n        BlendEnabled = true;\n        SrcBlend = \"SrcAlpha\";\n        DstBlend = \"OneMinusSrcAlpha\";\n        BlendOp = \"Add\";\n        SrcBlendAlpha = \"One\";\n        DstBlendAlpha = \"Zero\";\n        BlendOpAlpha = \"Max\";\n        WriteMask = 0xFu;\n    }\n}\n"),
    ("pipeline-blend-state-all-attachments", "float4 VSMAIN(uint vid : SV_VertexID) : SV_Position { return float4(0, 0, 0, 1); }\nfloat4 PSMAIN(float4 p : SV_Position) : SV_Target { {calls} return p; }\n\
Pipeline Main { VertexShader = VSMAIN; PixelShader = PSMAIN; BlendState = { BlendEnabled = false; SrcBlend = \"Src1Color\"; DstBlend = \"OneMinusSrc1Alpha\"; BlendOp = \"RevSubtract\"; WriteMask = 255; } CullMode = \"None\"; WindingOrder = \"CounterClockwise\"; }\n"),
    ("pipeline-depth-only-pixel", "float4 VSMAIN(uint vid : SV_VertexID) : SV_Position { return float4(0, 0, 0, 1); }\nfloat PSMAIN(float4 p : SV_Position) : SV_DepthLessEqual { {calls} if (p.x < 0.0f) discard; return p.z; }\nPipeline Main { VertexShader = VSMAIN; PixelShader = PSMAIN; DepthTargetFormat = \"D32_FLOAT\"; }\n"),
    ("pipeline-mesh-pixel", "[numthreads(64, 1, 1)]\n[outputtopology(\"triangle\")]\nvoid MSMAIN(uint3 dtid : SV_DispatchThreadID, out vertices V0 ov[128], out primitives P0 op[64], out indices uint3 ot[64]) {\n    SetMeshOutputCounts(128, 64);\n    V0 v; v.position = float4(0, 0, 0, 1); v.uv = float2(0, 0); ov[dtid.x] = v;\n    P0 p; p.material = dtid.x % 8; op[dtid.x] = p; ot[dtid.x] = uint3(0, 1, 2);\n}\n\
float4 PSMAIN(uint pid : SV_PrimitiveID, float2 uv : TEXCOORD, uint m : MATERIAL) : SV_Target0 { {calls} return float4(uv, m, 0); }\nPipeline Main { MeshShader = MSMAIN; PixelShader = PSMAIN; }\n"),
    ("pipeline-task-mesh", "[numthreads(64, 1, 1)]\nvoid TSMAIN(uint3 dtid : SV_DispatchThreadID) { gs_pay.start = dtid.x; DispatchMesh(4u, 1u, 1u, gs_pay); }\n\
[numthreads(64, 1, 1)]\n[outputtopology(\"triangle\")]\nvoid MSMAIN(uint3 dtid : SV_DispatchThreadID, in payload Pay0 data, out vertices V0 ov[64], out indices uint3 ot[64]) {\n    {calls}\n    SetMeshOutputCounts(64, 64);\n    V0 v; v.position = float4(data.start, 0, 0, 1); v.uv = float2(0, 0); ov[dtid.x] = v; ot[dtid.x] = uint3(0, 1, 2);\n}\nPipeline Main { TaskShader = TSMAIN; MeshShader = MSMAIN; }\n"),
    ("pipeline-ray-query", "const RaytracingAccelerationStructure g_bvh : register(t0);\n[numthreads(1, 1, 1)]\nvoid CSMAIN() {\n    {calls}\n    RayQuery<RAY_FLAG_FORCE_OPAQUE | RAY_FLAG_SKIP_PROCEDURAL_PRIMITIVES > query;\n    RayDesc ray;\n    ray.Origin = float3(0.0f, 0.0f, 0.0f); ray.TMin = 0.0f; ray.Direction = float3(1.0f, 0.0f, 0.0f); ray.TMax = 1.0f;\n\
    query.TraceRayInline(g_bvh, 0u, 0u, ray);\n    bool c = query.Proceed();\n    uint s = query.CommittedStatus();\n    float t = query.CommittedRayT();\n    if (s == COMMITTED_TRIANGLE_HIT) { g_rw2d[uint2(0, 0)] = float4(t, c ? 1.0f : 0.0f, 0, 0); }\n}\nPipeline Main { ComputeShader = CSMAIN; }\n"),
    ("pipeline-two-pipelines", "[numthreads(1, 1, 1)]\nvoid CSA() { {calls} }\n[numthreads(2, 1, 1)]\nvoid CSB() { }\nPipeline First { ComputeShader = CSA; }\nPipeline Second { ComputeShader = CSB; }\n"),
    ("pipeline-shared-entry", "[numthreads(1, 1, 1)]\nvoid CSA() { {calls} }\nPipeline First { ComputeShader = CSA; }\nPipeline Second { ComputeShader = CSA; DefaultBindGroup = 1; }\n"),
    ("pipeline-empty", "void unused_entry() { {calls} }\nPipeline Main {}\n"),
    ("pipeline-unknown-property", "[numthreads(1, 1, 1)]\nvoid CSMAIN() { {calls} }\nPipeline Main { ComputeShader = CSMAIN; Foo = 1; }\n"),
    ("pipeline-duplicate-property", "[numthreads(1, 1, 1)]\nvoid CSMAIN() { {calls} }\nPipeline Main { ComputeShader = CSMAIN; ComputeShader = CSMAIN; }\n"),
    ("pipeline-compute-with-graphics-stage", "[numthreads(1, 1, 1)]\nvoid CSMAIN() { {calls} }\nfloat4 PSMAIN() : SV_Target { return float4(0, 0, 0, 0); }\nPipeline Main { ComputeShader = CSMAIN; PixelShader = PSMAIN; }\n"),
    ("pipeline-graphics-property-on-compute", "[numthreads(1, 1, 1)]\nvoid CSMAIN() { {calls} }\nPipeline Main { ComputeShader = CSMAIN; CullMode = \"None\"; RenderTargetFormat0 = \"R8_UNORM\"; }\n"),
    ("pipeline-bad-property-values", "float4 VSMAIN() : SV_Position { return float4(0, 0, 0, 1); }\nfloat4 PSMAIN() : SV_Target { {calls} return float4(0, 0, 0, 0); }\nPipeline Main { VertexShader = VSMAIN; PixelShader = PSMAIN; CullMode = \"Sideways\"; BlendState3 = { BlendEnabled = 1; SrcBlend = Zero; WriteMask = 256; } RenderTargetFormat9 = \"X\"; DefaultBindGroup = -1; }\n"),
    ("pipeline-entry-is-not-a-function", "[numthreads(1, 1, 1)]\nvoid CSMAIN() { {calls} }\nPipeline Main { ComputeShader = c0; }\nPipeline Other { ComputeShader = N0::nf; }\nPipeline Third { ComputeShader = 1 + 2; }\n"),
    ("pipeline-nested-aggregate-property", "[numthreads(1, 1, 1)]\nvoid CSMAIN() { {calls} }\nPipeline Main { ComputeShader = CSMAIN; Outer = { Inner = { Leaf = 1; } Other = \"s\"; } }\n"),
    ("pipeline-missing-semicolon", "[numthreads(1, 1, 1)]\nvoid CSMAIN() { {calls} }\nPipeline Main { ComputeShader = CSMAIN }\n"),
    ("no-pipeline", "void plain_entry() { {calls} }\n"),
];

/// categories whose template alone is rejected (diagnostic or listed panic) on every target when probed with
/// `harness c08 synprobe`; they are sampled less often so that most programs reach the exporters
const SYN_REJECTED: &[&str] = &[
    "cbuffer-packoffset", "diag-array-dimension-local-unspecified", "diag-array-dimension-negative", "diag-array-dimension-not-constant",
    "diag-array-dimension-zero", "diag-array-index-on-non-array", "diag-array-index-on-struct", "diag-assert-eval-failed", "diag-assert-eval-invalid",
    "diag-assert-type-failed", "diag-assert-type-invalid", "diag-bindless-cbuffer", "diag-call-of-non-function", "diag-cbuffer-already-defined",
    "diag-cbuffer-annotations", "diag-default-argument-missing", "diag-default-template-argument-missing", "diag-entry-point-overloaded",
    "diag-entry-point-template", "diag-enum-type-not-deduced", "diag-enum-value-already-defined", "diag-expected-type-received-expression",
    "diag-function-attribute-argument-count", "diag-function-passed-as-value", "diag-global-attribute-argument-count",
    "diag-global-attribute-argument-type", "diag-identifier-is-not-a-member", "diag-illegal-names", "diag-illegal-struct-base",
    "diag-illegal-struct-name", "diag-illegal-typedef-name", "diag-illegal-variable-name", "diag-incomplete-type", "diag-increment-of-rvalue",
    "diag-intrinsic-argument-count", "diag-invalid-output-topology", "diag-local-annotations", "diag-local-incomplete-type",
    "diag-member-for-different-type", "diag-member-on-non-struct", "diag-method-on-wrong-object", "diag-method-passed-as-value",
    "diag-modifier-conflict", "diag-modifier-on-wrong-type", "diag-pipeline-argument-types", "diag-pipeline-redefined", "diag-register-on-non-object",
    "diag-return-type-mismatch", "diag-sampler-property-argument-types", "diag-scoped-declaration-name", "diag-semantic-on-global",
    "diag-string-operands", "diag-struct-already-defined", "diag-template-arguments-on-non-template", "diag-template-parameter-redefined",
    "diag-ternary-condition-type", "diag-two-registers", "diag-type-as-value", "diag-unary-operand-types", "diag-unknown-type",
    "diag-wrong-type-in-constructor", "elaborated-type-specifier", "expr-address-of-dereference", "expr-call-unknown", "expr-call-wrong-arity",
    "expr-cast-pointer-type", "expr-literal-int64", "expr-literal-leading-dot", "expr-shift-spaced-tokens", "expr-template-less-than-ambiguity",
    "expr-ternary-vector-condition", "function-attribute-unknown", "function-declared-only", "function-pointer-declarator",
    "function-template-default", "global-empty-aggregate", "global-register-mismatched-class", "global-unknown-attribute", "lex-at-sign",
    "lex-string-value", "method-template-non-type-argument", "method-unknown", "method-wrong-argument-types", "no-pipeline", "operator-overload",
    "pipeline-bad-property-values", "pipeline-compute-with-graphics-stage", "pipeline-duplicate-property", "pipeline-empty",
    "pipeline-entry-is-not-a-function", "pipeline-graphics-property-on-compute", "pipeline-missing-semicolon", "pipeline-nested-aggregate-property",
    "pipeline-unknown-property", "reserved-word", "reserved-word-this", "static-sampler-unknown-property", "stmt-attribute-unknown",
    "stmt-declaration-or-expression-ambiguity", "stmt-function-name-as-statement", "stmt-goto", "stmt-local-redefinition",
    "stmt-return-value-in-void", "stmt-struct-in-body", "stmt-switch-non-constant-case", "stmt-typedef-in-body", "stmt-unterminated",
    "struct-member-default-value", "struct-method-declared-only", "struct-template", "struct-template-default", "struct-template-non-type",
    "unused-keyword-constexpr", "unused-keyword-decltype",
];

pub const SYN_BODY_PRELUDE: &str = "    float x = 1.0f; float y = 2.0f; int i = 0; uint u = 1u; bool b = true; float4 v4 = float4(1, 2, 3, 4); N0::NS nsv; nsv.a = 1; S0 s0v = (S0)0;\n";

/// every category name the generator knows (published with a zero count when not emitted in a run)
pub fn syn_categories() -> Vec<&'static str> {
    let mut v: Vec<&'static str> = SYN_ROOT.iter().map(|x| x.0).chain(SYN_STMT.iter().map(|x| x.0)).chain(SYN_EXPR.iter().map(|x| x.0)).chain(SYN_PIPE.iter().map(|x| x.0)).collect();
    v.sort();
    v.dedup();
    v
}

/// number of alternatives (`@@`-separated sub-cases) of a category's template
pub fn syn_alternatives(cat: &str) -> usize {
    let t = SYN_ROOT.iter().find(|x| x.0 == cat).map(|x| x.1).or(SYN_STMT.iter().find(|x| x.0 == cat).map(|x| x.1)).or(SYN_EXPR.iter().find(|x| x.0 == cat).map(|x| x.2));
    t.map(|t| t.split("@@").count()).unwrap_or(1)
}

/// every (category, alternative) pair: the `synone:<k>` sweep runs each of them once per check
pub fn syn_variants() -> Vec<(&'static str, usize)> {
    syn_categories().into_iter().flat_map(|c| (0..syn_alternatives(c)).map(move |a| (c, a))).collect()
}

fn syn_alt(text: &'static str, alt: usize) -> &'static str {
    let v: Vec<&'static str> = text.split("@@").collect();
    v[alt % v.len()]
}

/// the item of one category alone (prelude + item + compute pipeline): used to probe each template
pub fn syn_single(cat: &str, alt: usize) -> Option<String> {
    let mut n = 0u32;
    let mut fresh = |t: &str| {
        n += 1;
        t.replace("{n}", &n.to_string())
    };
    let mut out = String::from(SYN_PRELUDE);
    let mut calls = String::new();
    let mut pipe = SYN_PIPE[0].1.to_string();
    if let Some(r) = SYN_ROOT.iter().find(|x| x.0 == cat) {
        out.push_str(&fresh(syn_alt(r.1, alt)));
        out.push('\n');
    } else if let Some(s) = SYN_STMT.iter().find(|x| x.0 == cat) {
        out.push_str(&format!("void fn1() {{\n{}    {}\n}}\n", SYN_BODY_PRELUDE, syn_alt(s.1, alt).replace('\n', "\n    ")));
        calls.push_str("fn1(); ");
    } else if let Some(e) = SYN_EXPR.iter().find(|x| x.0 == cat) {
        out.push_str(&format!("void fn1() {{\n{}    {} e1 = {};\n}}\n", SYN_BODY_PRELUDE, e.1, syn_alt(e.2, alt)));
        calls.push_str("fn1(); ");
    } else if let Some(p) = SYN_PIPE.iter().find(|x| x.0 == cat) {
        pipe = p.1.to_string();
    } else {
        return None;
    }
    out.push_str(&pipe.replace("{calls}", &calls));
    Some(out)
}

/// an item of the table; one that is known to be rejected only one time in eight
fn syn_pick<T: Copy>(rng: &mut Rng, table: &[T], cat: impl Fn(&T) -> &'static str) -> T {
    loop {
        let t = *rng.pick(table);
        if !SYN_REJECTED.contains(&cat(&t)) || rng.chance(1, 8) {
            return t;
        }
    }
}

pub fn gen_syn(rng: &mut Rng) -> SynProgram {
    let mut cats: std::collections::BTreeSet<&'static str> = Default::default();
    let mut n = 0u32;
    let mut out = String::from(SYN_PRELUDE);
    let mut calls = String::new();
    // file-scope items
    let nr = 1 + rng.below(6);
    for _ in 0..nr {
        let (cat, text) = syn_pick(rng, SYN_ROOT, |x| x.0);
        let text = syn_alt(text, rng.below(64) as usize);
        cats.insert(cat);
        n += 1;
        out.push_str(&text.replace("{n}", &n.to_string()));
        out.push('\n');
    }
    // helper functions made of statement and expression items
    let nf = rng.below(4);
    for _ in 0..nf {
        n += 1;
        let name = format!("fn{}", n);
        out.push_str(&format!("void {}() {{\n{}", name, SYN_BODY_PRELUDE));
        let ns = 1 + rng.below(5);
        for _ in 0..ns {
            if rng.chance(1, 2) {
                let (cat, text) = syn_pick(rng, SYN_STMT, |x| x.0);
                let text = syn_alt(text, rng.below(64) as usize);
                cats.insert(cat);
                // a statement item is a scope of its own, so that local names of two items do not collide
                out.push_str(&format!("    {{ {} }}\n", text.replace('\n', "\n      ")));
            } else {
                let (cat, ty, e) = syn_pick(rng, SYN_EXPR, |x| x.0);
                let e = syn_alt(e, rng.below(64) as usize);
                cats.insert(cat);
                n += 1;
                out.push_str(&format!("    {} e{} = {};\n", ty, n, e));
            }
        }
        out.push_str("}\n");
        calls.push_str(&format!("{}(); ", name));
    }
    let (cat, pipe) = syn_pick(rng, SYN_PIPE, |x| x.0);
    cats.insert(cat);
    out.push_str(&pipe.replace("{calls}", &calls));
    SynProgram { text: out, cats }
}

/// Coarse detector of syntactic categories in arbitrary generated text (substring needles): applied to every
/// in-memory input of the other generators, so that the STAT line shows which stream emits what
pub const SYN_NEEDLES: &[(&str, &[&str])] = &[
    ("struct", &["struct "]),
    ("struct-base-type", &[" : S0 {", "struct B:A", ": S0,"]),
    ("struct-method", &["void m(", "() { return a; }", "void m2("]),
    ("enum", &["enum "]),
    ("typedef", &["typedef "]),
    ("cbuffer", &["cbuffer "]),
    ("namespace", &["namespace "]),
    ("template", &["template<", "template <"]),
    ("template-default-argument", &["typename T = ", "int N = "]),
    ("register", &["register("]),
    ("register-space", &[", space", "(space"]),
    ("packoffset", &["packoffset("]),
    ("semantic", &[": SV_", ": TEXCOORD"]),
    ("attribute-single-bracket", &["[numthreads", "[unroll", "[branch", "[flatten", "[loop"]),
    ("attribute-double-bracket", &["[["]),
    ("bindless", &["rssl::bindless"]),
    ("static-sampler", &["StaticSampler"]),
    ("groupshared", &["groupshared "]),
    ("aggregate-initialiser", &["= {", "= { "]),
    ("array-declarator", &["[4]", "[2]", "[3]", "[64]"]),
    ("param-out-inout", &["out ", "inout "]),
    ("default-argument", &[" = 1)", " = 1,", "int y = "]),
    ("mesh-parameters", &["out vertices", "out indices", "out primitives", "in payload"]),
    ("mesh-intrinsics", &["SetMeshOutputCounts", "DispatchMesh"]),
    ("geometry-stream", &["TriangleStream"]),
    ("ray-query", &["RayQuery<", "RayDesc"]),
    ("stmt-if", &["if ("]),
    ("stmt-for", &["for ("]),
    ("stmt-while", &["while ("]),
    ("stmt-do", &["do {", "do ;"]),
    ("stmt-switch", &["switch ("]),
    ("stmt-case-default", &["case ", "default:"]),
    ("stmt-discard", &["discard"]),
    ("stmt-break-continue", &["break;", "continue;"]),
    ("expr-ternary", &[" ? "]),
    ("expr-compound-assignment", &["+=", "-=", "*=", "/=", "%=", "<<=", ">>=", "&=", "|=", "^="]),
    ("expr-increment", &["++", "--"]),
    ("expr-cast", &["(float)", "(int)", "(uint)", "(float3)", "(half)", "(bool)"]),
    ("expr-sizeof", &["sizeof("]),
    ("expr-scoped-name", &["::"]),
    ("expr-template-call", &[">(", "Load<"]),
    ("expr-swizzle", &[".xyz", ".xy", ".rgb", ".xxxx", ".x "]),
    ("expr-method-call", &[".Load(", ".Sample(", ".Store(", ".GetDimensions(", ".SampleLevel("]),
    ("expr-shift-bitwise", &["<<", ">>", " & ", " | ", " ^ ", "~"]),
    ("literal-suffix", &["0u", "1u", ".0f", ".0h", "1l", "1ul", ".0L"]),
    ("literal-hex-octal", &["0x", " 017"]),
    ("literal-infinity", &["#INF"]),
    ("intrinsic-wave", &["Wave"]),
    ("intrinsic-atomic", &["Interlocked"]),
    ("intrinsic-barrier", &["MemoryBarrier"]),
    ("pipeline", &["Pipeline "]),
    ("pipeline-graphics", &["VertexShader", "PixelShader"]),
    ("pipeline-mesh-task", &["MeshShader", "TaskShader"]),
    ("pipeline-render-state", &["BlendState", "RenderTargetFormat", "CullMode", "DepthTargetFormat", "WindingOrder"]),
    ("pipeline-default-bind-group", &["DefaultBindGroup"]),
    ("preprocessor-define", &["#define"]),
    ("preprocessor-conditional", &["#if", "#ifdef", "#ifndef"]),
    ("preprocessor-include", &["#include"]),
    ("preprocessor-paste", &["##"]),
    ("pointer-declarator", &["* p", "*&"]),
    ("reserved-word", &["unsigned ", "this.", "goto ", "operator"]),
];

pub fn detect_categories(text: &str) -> Vec<&'static str> {
    SYN_NEEDLES.iter().filter(|(_, ns)| ns.iter().any(|n| text.contains(n))).map(|(c, _)| *c).collect()
}

//! C12: macro expansion and inclusion equal reference textual substitution.
//!
//! Drives the real `rssl_preprocess::preprocess` + `prepare_tokens` on generated macro programs and judges the
//! result with an independent reference C preprocessor (Prosser's hide-set algorithm, restricted to the
//! property's subset: no `#`, `##` operands are not macro names) written below.
//!
//! request : C12.run \t <api defines> \t <file> \t <file> ...          (first file = entry file)
//!   api   : `-` or entries joined by `|`, entry = NAME followed by the value tokens (space separated), or
//!           `name tokens := value tokens` when the name is not a single identifier (e.g. `F ( X ) := X`)
//!   file  : name|line|line...   line = `D toks` (#define) | `U toks` (#undef) | `I name` (#include "name")
//!           | `O` (#pragma once) | `W` (#pragma warning, a directive without effect) | `T toks` (text line)
//!   toks  : space separated: `~` one blank, `(` `)` `,` `##`, identifiers, decimal integers, `+ - * ; = { }`
//!   a file entry `name>real|...` is served by the include handler under the real name `real` (alias)
//! request : C12.limit \t <api> \t <file> ...   the same program, run in a child process under `ulimit -v 2000000` and
//!           `timeout 60` (resource test, not compared with the model); observe: `tokens <n>` | `resource-exhausted`
//! observe : `ok <token spellings separated by blanks>` | `err <PreprocessError variant>` | `panic <file>: <message>`
//! deviation classes (`Dev`): only *classify* a disagreement with the reference; the ones repaired in the code (9f7cdb8:
//!   paste-in-api-define, duplicate-api-define; f08088c: line-end-before-parenthesis; d66a6d7: pragma-once-by-include-name)
//!   are no longer offered as explanations, so a return of the defect is `unexplained`
use crate::util::*;
use std::collections::{BTreeMap, BTreeSet};
use std::rc::Rc;

// ------------------------------------------------------------------------------------------------
// request syntax
// ------------------------------------------------------------------------------------------------

#[derive(Clone, Debug, PartialEq, Eq)]
pub enum Tok {
    Ws,
    /// white space in another spelling (wave 5: the spelling dimension): 0 = an empty comment `/**/` (`Token::Comment`),
    /// 1 = a line continuation, backslash + line end (`Token::PhysicalEndline`; request token `~c`), 2 = a tab (request
    /// token `~t`), 3 = a line comment `//c` (only the last token of a line lexes faithfully), 4 = a block comment that
    /// holds a line end (request token `/*n*/`, spelled `/*` LF `*/`): the logical line continues behind it, 5 = a line end
    /// inside the value of an API define (request token `~n`; nowhere else: a line of a file can not hold one)
    Cmt(u8),
    LParen,
    RParen,
    Comma,
    HashHash,
    Id(String),
    /// a decimal integer literal in its canonical spelling (no leading zero, no suffix, at most 18 digits)
    Int(String),
    P(String),
    /// any other single token, by its SOURCE SPELLING: integer literals in other spellings (`0x10`, `007`, `1u`, `2UL`),
    /// float literals (`1.`, `.5`, `1e3`, `1.0f`), keywords, other operators (`/`, `&&`, `.`), string literals.  What
    /// the spelling denotes is asked of the real lexer (C10's subject, used as given): `canon_single`
    Raw(String),
}

thread_local! {
    static CANON: std::cell::RefCell<std::collections::HashMap<String, Option<String>>> = Default::default();
}

/// the observation form (`spell_real`) of the one token the real lexer reads from this spelling, `None` if the lexer
/// rejects the text or reads another number of tokens, or the token is white space / a line end / `#` / `##`
fn canon_single(s: &str) -> Option<String> {
    if let Some(r) = CANON.with(|c| c.borrow().get(s).cloned()) {
        return r;
    }
    let r = match guard(|| rssl_preprocess::verif::lex(s, rssl::text::SourceLocation::first(), false)) {
        Ok(Ok(toks)) if toks.len() == 1 => match &toks[0].0 {
            Token::Whitespace | Token::Comment | Token::Endline | Token::PhysicalEndline | Token::Hash | Token::HashHash
            | Token::Eof | Token::LeftAngleBracket(_) | Token::RightAngleBracket(_) => None,
            t => Some(spell_real(t)),
        },
        _ => None,
    };
    CANON.with(|c| c.borrow_mut().insert(s.to_string(), r.clone()));
    r
}

fn is_ident_shaped(s: &str) -> bool {
    let b = s.as_bytes();
    !b.is_empty() && (b[0].is_ascii_alphabetic() || b[0] == b'_') && b.iter().all(|c| c.is_ascii_alphanumeric() || *c == b'_')
}

fn is_canonical_decimal(s: &str) -> bool {
    let b = s.as_bytes();
    !b.is_empty() && b.len() <= 18 && b.iter().all(|c| c.is_ascii_digit()) && !(b.len() > 1 && b[0] == b'0')
}

/// a C preprocessing number (C11 6.4.8): what a paste may produce in C without being a token of this language
fn is_pp_number(s: &str) -> bool {
    let b = s.as_bytes();
    let start = if !b.is_empty() && b[0] == b'.' { 1 } else { 0 };
    if b.len() <= start || !b[start].is_ascii_digit() {
        return false;
    }
    let mut i = start;
    while i < b.len() {
        let c = b[i];
        if (c == b'+' || c == b'-') && i > 0 && matches!(b[i - 1], b'e' | b'E' | b'p' | b'P') {
            i += 1;
        } else if c.is_ascii_alphanumeric() || c == b'_' || c == b'.' {
            i += 1;
        } else {
            return false;
        }
    }
    true
}

const PUNCT: &[&str] = &["+", "-", "*", ";", "=", "{", "}"];

fn parse_tok(s: &str) -> Option<Tok> {
    let b = s.as_bytes();
    Some(match s {
        "~" => Tok::Ws,
        "/**/" => Tok::Cmt(0),
        "~c" => Tok::Cmt(1),
        "~t" => Tok::Cmt(2),
        "//c" => Tok::Cmt(3),
        "/*n*/" => Tok::Cmt(4),
        "~n" => Tok::Cmt(5),
        "(" => Tok::LParen,
        ")" => Tok::RParen,
        "," => Tok::Comma,
        "##" => Tok::HashHash,
        _ if PUNCT.contains(&s) => Tok::P(s.to_string()),
        _ if is_canonical_decimal(s) => Tok::Int(s.to_string()),
        // an identifier-shaped word that the lexer reads as something else is a keyword: a token of another kind
        _ if is_ident_shaped(s) && canon_single(s).as_deref() == Some(s) => Tok::Id(s.to_string()),
        // the request syntax uses blank, tab, `|`, `~`, `:=` itself; `#` is outside the property's subset; `<` `>` lex
        // differently by what follows them
        _ if !b.is_empty()
            && s != ":="
            && !b.iter().any(|c| matches!(*c, b' ' | b'\t' | b'|' | b'~' | b'#' | b'<' | b'>' | b'\n' | b'\r' | b'\\'))
            && canon_single(s).is_some() =>
        {
            Tok::Raw(s.to_string())
        }
        _ => return None,
    })
}

fn parse_toks(s: &str) -> Option<Vec<Tok>> {
    s.split(' ').filter(|x| !x.is_empty()).map(parse_tok).collect()
}

fn enc_tok(t: &Tok) -> String {
    match t {
        Tok::Ws => "~".into(),
        Tok::Cmt(0) => "/**/".into(),
        Tok::Cmt(1) => "~c".into(),
        Tok::Cmt(2) => "~t".into(),
        Tok::Cmt(3) => "//c".into(),
        Tok::Cmt(5) => "~n".into(),
        Tok::Cmt(_) => "/*n*/".into(),
        Tok::LParen => "(".into(),
        Tok::RParen => ")".into(),
        Tok::Comma => ",".into(),
        Tok::HashHash => "##".into(),
        Tok::Id(s) | Tok::Int(s) | Tok::P(s) | Tok::Raw(s) => s.clone(),
    }
}

fn enc_toks(ts: &[Tok]) -> String {
    ts.iter().map(enc_tok).collect::<Vec<_>>().join(" ")
}

fn spell(t: &Tok) -> String {
    match t {
        Tok::Ws => " ".into(),
        Tok::Cmt(0) => "/**/".into(),
        Tok::Cmt(1) => "\\\n".into(),
        Tok::Cmt(2) => "\t".into(),
        Tok::Cmt(3) => "//c".into(),
        Tok::Cmt(5) => "\n".into(),
        Tok::Cmt(_) => "/*\n*/".into(),
        _ => enc_tok(t),
    }
}

fn spell_all(ts: &[Tok]) -> String {
    ts.iter().map(spell).collect()
}

#[derive(Clone, Debug, PartialEq)]
pub enum Line {
    Define(Vec<Tok>),
    Undef(Vec<Tok>),
    Include(String),
    Once,
    Warning,
    Text(Vec<Tok>),
    /// a directive line that is rejected (request `X kind`): `P` = `#pragma foo`, `P0` = `#pragma`, `C` = `#foo`, `C1` = `#1 foo`,
    /// `I0` = `#include`, `I1` = `#include foo`, `I2` = `#include "f1" x`
    Bad(&'static str),
    /// the null directive: `#` alone on its line (request `N`)
    Null,
}

const BAD_KINDS: &[(&str, &str)] =
    &[("P", "pragma foo"), ("P0", "pragma"), ("C", "foo"), ("C1", "1 foo"), ("I0", "include"), ("I1", "include foo"), ("I2", "include \"f1\" x")];

#[derive(Clone, Debug)]
pub struct File {
    name: String,
    real: String,
    lines: Vec<Line>,
    /// how the text of the file is spelled (request: `!` + letters behind the file name): bit 1 (`r`) = every line ends in
    /// CR LF, bit 2 (`e`) = no line end behind the last line, bit 4 (`h`) = a blank between `#` and the directive name.
    /// None of them changes the tokens of the file: the model ignores the flags
    flavour: u8,
}

fn flavour_letters(f: u8) -> String {
    let mut s = String::new();
    if f != 0 {
        s.push('!');
    }
    for (bit, c) in [(1u8, 'r'), (2, 'e'), (4, 'h')] {
        if f & bit != 0 {
            s.push(c);
        }
    }
    s
}

/// the operand of an include line is `name` (rendered `"name"`) or `<name>` (rendered so: `Token::HeaderName`)
fn inc_name(n: &str) -> &str {
    n.strip_prefix('<').and_then(|m| m.strip_suffix('>')).unwrap_or(n)
}

#[derive(Clone, Debug)]
pub struct Program {
    /// (name tokens, value tokens): the name is passed to the real code as the concatenated spellings
    api: Vec<(Vec<Tok>, Vec<Tok>)>,
    files: Vec<File>,
    /// request `C12.hof`: a program of the higher-order family, on which RSSL is expected to equal C exactly; any
    /// difference fails with a key of its own, whether or not a known deviation would reproduce it
    strict: bool,
}

fn enc_line(l: &Line) -> String {
    match l {
        Line::Define(t) => format!("D {}", enc_toks(t)),
        Line::Undef(t) => format!("U {}", enc_toks(t)),
        Line::Include(n) => format!("I {}", n),
        Line::Once => "O".into(),
        Line::Warning => "W".into(),
        Line::Bad(k) => format!("X {}", k),
        Line::Null => "N".into(),
        Line::Text(t) => format!("T {}", enc_toks(t)),
    }
}

fn parse_line(s: &str) -> Option<Line> {
    let s = s.trim();
    let (k, rest) = match s.find(' ') {
        Some(i) => (&s[..i], s[i + 1..].trim()),
        None => (s, ""),
    };
    Some(match k {
        "D" => Line::Define(parse_toks(rest)?),
        "U" => Line::Undef(parse_toks(rest)?),
        "I" => Line::Include(rest.to_string()),
        "O" => Line::Once,
        "W" => Line::Warning,
        "N" => Line::Null,
        "X" => Line::Bad(BAD_KINDS.iter().find(|(k, _)| *k == rest)?.0),
        "T" => Line::Text(parse_toks(rest)?),
        _ => return None,
    })
}

impl Program {
    fn encode(&self) -> String {
        let api = if self.api.is_empty() {
            "-".to_string()
        } else {
            self.api
                .iter()
                .map(|(n, v)| {
                    if n.len() == 1 && matches!(n[0], Tok::Id(_)) {
                        format!("{} {}", enc_toks(n), enc_toks(v)).trim_end().to_string()
                    } else {
                        format!("{} := {}", enc_toks(n), enc_toks(v)).trim_end().to_string()
                    }
                })
                .collect::<Vec<_>>()
                .join("|")
        };
        let mut f = vec![if self.strict { "C12.hof".to_string() } else { "C12.run".to_string() }, api];
        for file in &self.files {
            let mut parts = vec![if file.real == file.name {
                format!("{}{}", file.name, flavour_letters(file.flavour))
            } else {
                format!("{}>{}{}", file.name, file.real, flavour_letters(file.flavour))
            }];
            parts.extend(file.lines.iter().map(enc_line));
            f.push(parts.join("|"));
        }
        f.join("\t")
    }

    fn decode(req: &str) -> Option<Program> {
        let f: Vec<&str> = req.split('\t').collect();
        if f.len() < 3 || (f[0] != "C12.run" && f[0] != "C12.limit" && f[0] != "C12.hof") {
            return None;
        }
        let strict = f[0] == "C12.hof";
        let mut api = Vec::new();
        if f[1] != "-" {
            for e in f[1].split('|') {
                let e = e.trim();
                let words: Vec<&str> = e.split(' ').filter(|w| !w.is_empty()).collect();
                if let Some(k) = words.iter().position(|w| *w == ":=") {
                    api.push((parse_toks(&words[..k].join(" "))?, parse_toks(&words[k + 1..].join(" "))?));
                } else {
                    if words.is_empty() {
                        return None;
                    }
                    api.push((vec![parse_tok(words[0])?], parse_toks(&words[1..].join(" "))?));
                }
            }
        }
        let mut files = Vec::new();
        for ff in &f[2..] {
            let mut parts = ff.split('|');
            let head = parts.next()?.trim();
            let (head, flavour) = match head.find('!') {
                Some(i) => {
                    let mut fl = 0u8;
                    for c in head[i + 1..].chars() {
                        fl |= match c {
                            'r' => 1,
                            'e' => 2,
                            'h' => 4,
                            _ => return None,
                        };
                    }
                    (&head[..i], fl)
                }
                None => (head, 0),
            };
            let (name, real) = match head.find('>') {
                Some(i) => (&head[..i], &head[i + 1..]),
                None => (head, head),
            };
            let mut lines = Vec::new();
            for p in parts {
                lines.push(parse_line(p)?);
            }
            files.push(File {
                name: name.to_string(),
                real: real.to_string(),
                lines,
                flavour,
            });
        }
        Some(Program { api, files, strict })
    }

    fn render_file(file: &File) -> String {
        let mut s = String::new();
        for (i, l) in file.lines.iter().enumerate() {
            // a directive may be preceded by white space (removed by the line state machine): vary it by position
            if !matches!(l, Line::Text(_)) {
                for _ in 0..(i % 3) {
                    s.push(' ');
                }
            }
            let hash = if file.flavour & 4 != 0 { "# " } else { "#" };
            match l {
                Line::Define(t) => {
                    s.push_str(hash);
                    s.push_str("define");
                    s.push_str(&spell_all(t));
                }
                Line::Undef(t) => {
                    s.push_str(hash);
                    s.push_str("undef");
                    s.push_str(&spell_all(t));
                }
                Line::Include(n) => {
                    s.push_str(hash);
                    if n.starts_with('<') {
                        s.push_str(&format!("include {}", n));
                    } else {
                        s.push_str(&format!("include \"{}\"", n));
                    }
                }
                Line::Once => {
                    s.push_str(hash);
                    s.push_str("pragma once")
                }
                Line::Null => s.push('#'),
                Line::Bad(k) => {
                    s.push_str(hash);
                    s.push_str(BAD_KINDS.iter().find(|(x, _)| x == k).unwrap().1);
                }
                Line::Warning => {
                    s.push_str(hash);
                    s.push_str("pragma warning(disable : 1)")
                }
                Line::Text(t) => s.push_str(&spell_all(t)),
            }
            s.push('\n');
        }
        // no line end behind the last line -- unless that line is empty (its line end is then the only trace of it)
        if file.flavour & 2 != 0 && s.ends_with('\n') && !s.ends_with("\n\n") && s.len() > 1 {
            s.pop();
        }
        if file.flavour & 1 != 0 {
            s = s.replace('\n', "\r\n");
        }
        s
    }
}

// ------------------------------------------------------------------------------------------------
// the real code
// ------------------------------------------------------------------------------------------------

use rssl::text::tokens::Token;

fn tok_of_real(t: &Token) -> Option<Tok> {
    Some(match t {
        Token::Whitespace => Tok::Ws,
        Token::Comment => Tok::Cmt(0),
        Token::LeftParen => Tok::LParen,
        Token::RightParen => Tok::RParen,
        Token::Comma => Tok::Comma,
        Token::HashHash => Tok::HashHash,
        Token::Id(id) => Tok::Id(id.0.clone()),
        Token::LiteralInt(v) => Tok::Int(v.to_string()),
        Token::Plus => Tok::P("+".into()),
        Token::Minus => Tok::P("-".into()),
        Token::Asterix => Tok::P("*".into()),
        Token::Semicolon => Tok::P(";".into()),
        Token::Equals => Tok::P("=".into()),
        Token::LeftBrace => Tok::P("{".into()),
        Token::RightBrace => Tok::P("}".into()),
        _ => return None,
    })
}

fn spell_real(t: &Token) -> String {
    match tok_of_real(t) {
        Some(Tok::Ws) | Some(Tok::Cmt(_)) => "~".into(),
        Some(t) => enc_tok(&t),
        None => match t {
            Token::PlusPlus => "++".into(),
            Token::MinusMinus => "--".into(),
            Token::PlusEquals => "+=".into(),
            Token::MinusEquals => "-=".into(),
            Token::AsterixEquals => "*=".into(),
            Token::EqualsEquals => "==".into(),
            Token::Hash => "#".into(),
            other => format!("?{:?}", other).replace(' ', ""),
        },
    }
}

/// does the rendered text of a token list lex (with the real lexer) to exactly these tokens?
fn lex_faithful(ts: &[Tok]) -> bool {
    // `Tok::Int` is the canonical decimal spelling (compared by value); every other spelling of a number is `Tok::Raw`
    for t in ts {
        if let Tok::Int(s) = t {
            if !is_canonical_decimal(s) {
                return false;
            }
        }
    }
    let text = spell_all(ts);
    match rssl_preprocess::verif::lex(&text, rssl::text::SourceLocation::first(), false) {
        Ok(real) => {
            if std::env::var("C12_DEBUG_LEX").is_ok() {
                eprintln!("LEX {:?} -> {:?}", text, real.iter().map(|r| spell_real(&r.0)).collect::<Vec<_>>());
            }
            real.len() == ts.len()
                && real
                    .iter()
                    .zip(ts.iter())
                    .all(|(r, t)| match t {
                        // the token read in place is the token the spelling denotes on its own
                        Tok::Raw(s) => canon_single(s) == Some(spell_real(&r.0)),
                        Tok::Cmt(1) => r.0 == Token::PhysicalEndline,
                        Tok::Cmt(2) => r.0 == Token::Whitespace,
                        Tok::Cmt(5) => false,
                        Tok::Cmt(_) => r.0 == Token::Comment,
                        _ => tok_of_real(&r.0).as_ref() == Some(t),
                    })
        }
        Err(_) => false,
    }
}

fn program_faithful(p: &Program) -> Result<(), String> {
    for (n, v) in &p.api {
        if !lex_faithful(n) {
            return Err(format!("api name {}", enc_toks(n)));
        }
        // a value may hold line ends (`~n`): every piece between them must lex faithfully
        if !v.split(|t| *t == Tok::Cmt(5)).all(lex_faithful) {
            return Err(format!("api value of {}", enc_toks(n)));
        }
    }
    let mut names = BTreeSet::new();
    for f in &p.files {
        if !names.insert(f.name.clone()) {
            return Err("duplicate file name".into());
        }
        if f.name.is_empty() || !f.name.bytes().all(|c| c.is_ascii_alphanumeric() || c == b'.' || c == b'_' || c == b'/') {
            return Err("file name".into());
        }
        for l in &f.lines {
            match l {
                Line::Define(t) | Line::Undef(t) => {
                    // the directive name must be separated from what follows
                    if !matches!(t.first(), Some(Tok::Ws) | Some(Tok::Cmt(_))) && !t.is_empty() {
                        return Err("directive glued to its operand".into());
                    }
                    if !lex_faithful(t) {
                        return Err(format!("line {}", enc_line(l)));
                    }
                }
                Line::Text(t) => {
                    if !lex_faithful(t) {
                        return Err(format!("line {}", enc_line(l)));
                    }
                }
                Line::Include(n) => {
                    let n = inc_name(n);
                    if n.is_empty() || !n.bytes().all(|c| c.is_ascii_alphanumeric() || c == b'.' || c == b'_' || c == b'/') {
                        return Err("include name".into());
                    }
                }
                _ => {}
            }
        }
    }
    Ok(())
}

struct AliasFiles(Vec<(String, String, String)>);

impl rssl::text::IncludeHandler for AliasFiles {
    fn load(&mut self, file_name: &str, _parent: &str) -> Result<rssl::text::FileData, rssl::text::IncludeError> {
        for (name, real, data) in &self.0 {
            if name == file_name {
                return Ok(rssl::text::FileData {
                    real_name: real.clone(),
                    contents: data.clone(),
                });
            }
        }
        Err(rssl::text::IncludeError::FileNotFound)
    }
}

fn err_name(e: &rssl_preprocess::PreprocessError) -> String {
    use rssl_preprocess::PreprocessError as E;
    match e {
        E::LexerError(_) => "LexerError".into(),
        E::UnknownCommand(_) => "UnknownCommand".into(),
        E::InvalidInclude(_) => "InvalidInclude".into(),
        E::InvalidDefine(_) => "InvalidDefine".into(),
        E::InvalidUndef(_) => "InvalidUndef".into(),
        E::MacroRequiresArguments(s) => format!("MacroRequiresArguments({})", s),
        E::MacroArgumentsNeverEnd => "MacroArgumentsNeverEnd".into(),
        E::MacroExpectsDifferentNumberOfArguments => "MacroExpectsDifferentNumberOfArguments".into(),
        E::ConcatMissingLeftToken(_) => "ConcatMissingLeftToken".into(),
        E::ConcatMissingRightToken(_) => "ConcatMissingRightToken".into(),
        E::ConcatFailed(_) => "ConcatFailed".into(),
        E::FailedToFindFile(_, n, _) => format!("FailedToFindFile({})", n),
        E::FailedToParseIfCondition(_) => "FailedToParseIfCondition".into(),
        E::InvalidIfdef(_) => "InvalidIfdef".into(),
        E::InvalidIfndef(_) => "InvalidIfndef".into(),
        E::InvalidElse(_) => "InvalidElse".into(),
        E::InvalidEndIf(_) => "InvalidEndIf".into(),
        E::ConditionChainNotFinished => "ConditionChainNotFinished".into(),
        E::ElseNotMatched => "ElseNotMatched".into(),
        E::EndIfNotMatched => "EndIfNotMatched".into(),
        E::UnknownPragma(_) => "UnknownPragma".into(),
        E::PragmaOnceInUnknownFile => "PragmaOnceInUnknownFile".into(),
        E::IncludeDepthExceeded(_) => "IncludeDepthExceeded".into(),
        // variants added to the implementation after this harness was written (keeps the harness building)
        #[allow(unreachable_patterns)]
        _ => "OtherPreprocessError".into(),
    }
}

pub enum Real {
    Ok(Vec<String>),
    Err(String),
    Panic(String),
}

fn run_real(p: &Program) -> Real {
    let files: Vec<(String, String, String)> = p
        .files
        .iter()
        .map(|f| (f.name.clone(), f.real.clone(), Program::render_file(f)))
        .collect();
    let values: Vec<(String, String)> = p.api.iter().map(|(n, v)| (spell_all(n), spell_all(v))).collect();
    let defines: Vec<(&str, &str)> = values.iter().map(|(n, v)| (n.as_str(), v.as_str())).collect();
    let entry = p.files[0].name.clone();
    let plain = p.files.iter().all(|f| f.name == f.real);
    let r = guard(|| {
        let mut sm = rssl::text::SourceManager::new();
        let mut inc = AliasFiles(files.clone());
        // without aliases the repository's own handler for arrays of (name, text) pairs serves the files
        let pairs: Vec<(&str, &str)> = files.iter().map(|f| (f.0.as_str(), f.2.as_str())).collect();
        macro_rules! with_array {
            ($($n:literal),*) => {
                match pairs.len() {
                    $($n if plain => {
                        let mut arr: [(&str, &str); $n] = [("", ""); $n];
                        arr.copy_from_slice(&pairs);
                        rssl_preprocess::preprocess(&entry, &mut sm, &mut arr, &defines)
                    })*
                    _ => rssl_preprocess::preprocess(&entry, &mut sm, &mut inc, &defines),
                }
            };
        }
        match with_array!(1, 2, 3, 4, 5, 6) {
            Ok(tokens) => {
                let lexed = rssl_preprocess::prepare_tokens(&tokens);
                let mut out = Vec::new();
                for t in &lexed {
                    if t.0 == Token::Eof {
                        continue;
                    }
                    out.push(spell_real(&t.0));
                }
                Real::Ok(out)
            }
            Err(e) => Real::Err(err_name(&e)),
        }
    });
    match r {
        Ok(r) => r,
        Err(p) => Real::Panic(p),
    }
}

// ------------------------------------------------------------------------------------------------
// reference C preprocessor for the subset (Prosser's algorithm with hide sets)
// ------------------------------------------------------------------------------------------------

#[derive(Clone, Debug, PartialEq, Eq)]
enum RK {
    Id(String),
    Int(String),
    P(String),
    /// any other token, by its source spelling (the reference works on text: a number keeps the spelling it was written with)
    Other(String),
    LParen,
    RParen,
    Comma,
    Paste,
    /// `##` outside a macro body: an ordinary token
    HashHashText,
    Nl,
    Placemarker,
    /// end of the replacement list of one invocation (only pushed when a `reinvoke_*` deviation is switched on);
    /// the token's hide set is the one of the invocation, the payload the invoked macro if it is function-like and the
    /// length of the output when the invocation was met (where the expansion starts in the output)
    RegionEnd(Option<String>, usize),
}

type HS = Rc<BTreeSet<String>>;

#[derive(Clone, Debug)]
struct RTok {
    k: RK,
    hs: HS,
}

#[derive(Clone, Debug)]
struct RMacro {
    params: Option<Vec<String>>,
    body: Vec<RK>,
}

#[derive(Clone, Debug, PartialEq)]
enum RefErr {
    BadDefine,
    BadUndef,
    Arity,
    Unterminated,
    PasteInvalid,
    PasteAtEdge,
    NoFile(String),
    IncludeDepth,
    Steps,
}

/// the places where RSSL is known to deviate from C; used only to *classify* a disagreement: a disagreement
/// is attributed to a set of deviations only if the reference with exactly those switched on reproduces the
/// real output (`judge_with`: exact mimicry, no other way of recognising a class)
#[derive(Clone, Copy, Default, PartialEq, Debug)]
struct Dev {
    /// a function-like macro name followed by a line end before `(` is not an invocation
    newline_blocks_call: bool,
    /// no placemarker: `##` next to an empty argument pastes whatever tokens happen to be adjacent
    no_placemarker: bool,
    /// `##` in the value of an API-level define is an ordinary token
    api_paste_inert: bool,
    /// every argument is macro-expanded even when its parameter does not occur in the body
    eager_args: bool,
    /// tokens of an expanded argument lose their "painted" marks: a self-referential macro name that came out
    /// of an argument is expanded again when the body is rescanned
    args_unpainted: bool,
    /// the first of two API-level defines of one name wins (a `#define` line would replace the earlier one)
    api_dup_keeps_first: bool,
    /// `#pragma once` is keyed by the name written in the `#include`, not by the file it resolves to
    once_by_include_name: bool,
    /// when the expansion of a replacement list is complete and ends in the name of a function-like macro that is
    /// painted by an inner expansion (C: never replaced again) but is neither the macro just applied nor one under
    /// expansion at the level of the invocation, and `(` follows, RSSL invokes it (`early_function_pos`)
    reinvoke_painted: bool,
    /// the same for a name that C kept because the token that followed it at the time was not `(` (it was a macro that
    /// later expanded to nothing)
    reinvoke_deferred: bool,
    /// the text before an `#include`, the included file and the text after it are expanded as separate blocks: an
    /// invocation does not span the start or the end of an included file (`F` at the end of the header, `(1)` in
    /// the including file; an argument list that is still open where a file ends).  Became visible on its own with
    /// fix f08088c (before, every such case also crossed a line end and was filed under `newline_blocks_call`).
    /// C compilers do the same (clang cites C99 5.1.1.2p4, GCC stops its look-ahead at the end of a buffer); the
    /// property's wording, "equivalent to pasting the file's contents", does not
    blocks_at_file_boundary: bool,
    /// a replacement list is rescanned on its own: an argument list that begins in it must end in it (`#define F(X) X +`,
    /// `#define G F(1`; `G) 2`: C reads `F(1)` across the end of `G`'s replacement list, RSSL reports
    /// `MacroArgumentsNeverEnd`).  Found when the shrinker of this harness dropped a `)` from a replacement list; the
    /// generators keep the parentheses of a replacement list balanced, so only the corpus exercises it
    args_end_in_list: bool,
}

const DEV_NAMES: &[&str] = &[
    "line-end-before-parenthesis",
    "empty-argument-next-to-paste",
    "paste-in-api-define",
    "unused-argument-expanded",
    "argument-repainted",
    "duplicate-api-define",
    "pragma-once-by-include-name",
    "painted-function-name-reinvoked",
    "function-name-before-vanished-macro-invoked",
    "invocation-spans-file-boundary",
    "argument-list-ends-behind-replacement-list",
];

/// the deviation switches that are offered as explanations of a disagreement.  `paste-in-api-define` (4) and
/// `duplicate-api-define` (32) were fixed in 9f7cdb8, `line-end-before-parenthesis` (1) in f08088c,
/// `pragma-once-by-include-name` (64) in d66a6d7: not offered any more (a regression shows up as `unexplained`)
const OFFERED: u32 = ((1 << DEV_NAMES.len()) - 1) & !(1 | 4 | 32 | 64);

/// does a run of the reference reproduce the real outcome?  Token for token; a rejection is reproduced by a rejection
fn same_outcome(real: &Real, alt: &Result<Vec<String>, RefErr>) -> bool {
    match (real, alt) {
        (Real::Ok(t), Ok(e)) => t == e,
        (Real::Err(_), Err(_)) => true,
        _ => false,
    }
}

impl Dev {
    fn from_bits(b: u32) -> Dev {
        Dev {
            newline_blocks_call: b & 1 != 0,
            no_placemarker: b & 2 != 0,
            api_paste_inert: b & 4 != 0,
            eager_args: b & 8 != 0,
            args_unpainted: b & 16 != 0,
            api_dup_keeps_first: b & 32 != 0,
            once_by_include_name: b & 64 != 0,
            reinvoke_painted: b & 128 != 0,
            reinvoke_deferred: b & 256 != 0,
            blocks_at_file_boundary: b & 512 != 0,
            args_end_in_list: b & 1024 != 0,
        }
    }
    fn names(b: u32) -> String {
        let v: Vec<&str> = (0..DEV_NAMES.len()).filter(|i| b & (1 << i) != 0).map(|i| DEV_NAMES[i]).collect();
        v.join("+")
    }
}

#[derive(Default)]
struct RefNotes {
    /// reasons why the program lies outside the subset of the property (oracle does not apply)
    out_of_subset: BTreeSet<String>,
    used_placemarker: bool,
    newline_call: bool,
    /// a painted function-like macro name was followed by `(` (C leaves it alone for good)
    painted_call: bool,
    steps: u64,
    step_limit: Option<u64>,
}

struct Reference<'a> {
    macros: BTreeMap<String, RMacro>,
    dev: Dev,
    notes: &'a mut RefNotes,
}

fn rk_spelling(k: &RK) -> String {
    match k {
        RK::Id(s) | RK::Int(s) | RK::P(s) | RK::Other(s) => s.clone(),
        RK::LParen => "(".into(),
        RK::RParen => ")".into(),
        RK::Comma => ",".into(),
        RK::Paste | RK::HashHashText => "##".into(),
        RK::Nl => "\n".into(),
        RK::Placemarker | RK::RegionEnd(..) => "".into(),
    }
}

const PUNCT_MERGE: &[(&str, &str, &str)] = &[
    ("+", "+", "++"),
    ("-", "-", "--"),
    ("+", "=", "+="),
    ("-", "=", "-="),
    ("*", "=", "*="),
    ("=", "=", "=="),
];

impl<'a> Reference<'a> {
    fn rk_of(t: &Tok, in_body: bool) -> Option<RK> {
        Some(match t {
            Tok::Ws | Tok::Cmt(_) => return None,
            Tok::LParen => RK::LParen,
            Tok::RParen => RK::RParen,
            Tok::Comma => RK::Comma,
            Tok::HashHash => {
                if in_body {
                    RK::Paste
                } else {
                    RK::HashHashText
                }
            }
            Tok::Id(s) => RK::Id(s.clone()),
            Tok::Int(s) => RK::Int(s.clone()),
            Tok::P(s) => RK::P(s.clone()),
            Tok::Raw(s) => RK::Other(s.clone()),
        })
    }

    /// `#define` with the given tokens after the directive name
    fn define(&mut self, toks: &[Tok], paste_active: bool) -> Result<(), RefErr> {
        // a comment is white space
        let toks: Vec<Tok> = toks.iter().map(|t| if matches!(t, Tok::Cmt(_)) { Tok::Ws } else { t.clone() }).collect();
        let toks = &toks[..];
        let mut i = 0;
        while i < toks.len() && toks[i] == Tok::Ws {
            i += 1;
        }
        let name = match toks.get(i) {
            Some(Tok::Id(n)) => n.clone(),
            _ => return Err(RefErr::BadDefine),
        };
        i += 1;
        let mut params = None;
        if toks.get(i) == Some(&Tok::LParen) {
            // function-like: `(` directly after the name
            i += 1;
            let mut ps = Vec::new();
            let mut expect_name = true;
            loop {
                match toks.get(i) {
                    Some(Tok::Ws) => {}
                    Some(Tok::RParen) => {
                        if expect_name && !ps.is_empty() {
                            return Err(RefErr::BadDefine);
                        }
                        i += 1;
                        break;
                    }
                    Some(Tok::Id(p)) if expect_name => {
                        ps.push(p.clone());
                        expect_name = false;
                    }
                    Some(Tok::Comma) if !expect_name => expect_name = true,
                    _ => return Err(RefErr::BadDefine),
                }
                i += 1;
            }
            params = Some(ps);
        }
        let body: Vec<RK> = toks[i..].iter().filter_map(|t| Self::rk_of(t, paste_active)).collect();
        if matches!(body.first(), Some(RK::Paste)) || matches!(body.last(), Some(RK::Paste)) {
            // C: `##` shall not occur at the beginning or end of a replacement list
            self.notes.out_of_subset.insert("paste-at-body-edge".into());
        }
        self.macros.insert(name, RMacro { params, body });
        Ok(())
    }

    fn undef(&mut self, toks: &[Tok]) -> Result<(), RefErr> {
        let t: Vec<&Tok> = toks.iter().filter(|t| **t != Tok::Ws && !matches!(**t, Tok::Cmt(_))).collect();
        match t.as_slice() {
            [Tok::Id(n)] => {
                self.macros.remove(n);
                Ok(())
            }
            _ => Err(RefErr::BadUndef),
        }
    }

    fn tick(&mut self) -> Result<(), RefErr> {
        self.notes.steps += 1;
        if self.notes.steps > self.notes.step_limit.unwrap_or(200_000) {
            Err(RefErr::Steps)
        } else {
            Ok(())
        }
    }

    /// Prosser's `expand`
    fn expand(&mut self, mut ts: Vec<RTok>) -> Result<Vec<RTok>, RefErr> {
        let mut out: Vec<RTok> = Vec::new();
        // `ts` is kept reversed so that the head is popped cheaply
        ts.reverse();
        let markers =
            self.dev.reinvoke_painted || self.dev.reinvoke_deferred || self.dev.no_placemarker || self.dev.args_end_in_list;
        while let Some(t) = ts.pop() {
            self.tick()?;
            let name = match &t.k {
                RK::Id(n) => n.clone(),
                RK::Paste => {
                    // RSSL mimicry (`no_placemarker` only: `subst` left the `##` of this replacement list in place): the
                    // paste is carried out while the replacement list is rescanned, on whatever stands next to the `##`
                    // by then -- everything to its left has been expanded already (`find_single_macro` reports the
                    // first operation from the left).  The operands are looked for inside the replacement list only.
                    let start = ts
                        .iter()
                        .rev()
                        .find_map(|x| if let RK::RegionEnd(_, s) = &x.k { Some(*s) } else { None })
                        .unwrap_or(0);
                    let mut l = out.len();
                    let mut left = None;
                    while l > start {
                        l -= 1;
                        if out[l].k != RK::Nl {
                            left = Some(l);
                            break;
                        }
                    }
                    let l = match left {
                        Some(l) => l,
                        None => return Err(RefErr::PasteAtEdge), // ConcatMissingLeftToken
                    };
                    let mut j = ts.len();
                    let mut right = None;
                    while j > 0 {
                        match ts[j - 1].k {
                            RK::Nl => j -= 1,
                            RK::RegionEnd(..) => break,
                            _ => {
                                right = Some(j - 1);
                                break;
                            }
                        }
                    }
                    let r = match right {
                        Some(r) => r,
                        None => return Err(RefErr::PasteAtEdge), // ConcatMissingRightToken
                    };
                    let merged = self.paste(&out[l], &ts[r])?;
                    ts.truncate(r);
                    out.truncate(l);
                    // the merged token is read again, with the macros disabled that are disabled for this replacement list
                    ts.push(RTok { k: merged.k, hs: t.hs.clone() });
                    continue;
                }
                RK::RegionEnd(last_fn, start) => {
                    // RSSL mimicry: the replacement list of an invocation has been expanded completely.  If tokens
                    // remain in the enclosing list (the next entry is not another end marker), RSSL looks at the
                    // expansion once more for a function-like name whose `(` follows the expansion.
                    // (since fix f08088c RSSL's search for `(` skips line ends like any other white space)
                    let mut j = ts.len();
                    while j > 0 && ts[j - 1].k == RK::Nl {
                        j -= 1;
                    }
                    let follows = j > 0 && ts[j - 1].k == RK::LParen;
                    if follows && out.len() > *start {
                        let again = match out.last() {
                            Some(RTok { k: RK::Id(g), hs }) => {
                                let fnlike = matches!(self.macros.get(g), Some(m) if m.params.is_some());
                                let painted = hs.contains(g);
                                fnlike
                                    && !t.hs.contains(g)
                                    && last_fn.as_deref() != Some(g.as_str())
                                    && ((painted && self.dev.reinvoke_painted) || (!painted && self.dev.reinvoke_deferred))
                            }
                            _ => false,
                        };
                        if again {
                            let g = out.pop().unwrap();
                            ts.push(RTok { k: g.k, hs: t.hs.clone() });
                        }
                    }
                    continue;
                }
                _ => {
                    out.push(t);
                    continue;
                }
            };
            if t.hs.contains(&name) {
                if let Some(m) = self.macros.get(&name) {
                    if m.params.is_some() {
                        let mut j = ts.len();
                        while j > 0 && matches!(ts[j - 1].k, RK::Nl | RK::RegionEnd(..)) {
                            j -= 1;
                        }
                        if j > 0 && ts[j - 1].k == RK::LParen {
                            self.notes.painted_call = true;
                        }
                    }
                }
                out.push(t);
                continue;
            }
            let m = match self.macros.get(&name) {
                Some(m) => m.clone(),
                None => {
                    out.push(t);
                    continue;
                }
            };
            match &m.params {
                None => {
                    let mut hs = (*t.hs).clone();
                    hs.insert(name.clone());
                    let body = self.subst(&m, &[], Rc::new(hs))?;
                    if markers {
                        ts.push(RTok { k: RK::RegionEnd(None, out.len()), hs: t.hs.clone() });
                    }
                    for b in body.into_iter().rev() {
                        ts.push(b);
                    }
                }
                Some(params) => {
                    // look for `(`, skipping line ends (C) -- or not (RSSL deviation)
                    let mut j = ts.len();
                    let mut saw_nl = false;
                    while j > 0 && matches!(ts[j - 1].k, RK::Nl | RK::RegionEnd(..)) {
                        if ts[j - 1].k == RK::Nl {
                            saw_nl = true;
                        }
                        j -= 1;
                    }
                    let is_call = j > 0 && ts[j - 1].k == RK::LParen;
                    if is_call && saw_nl {
                        self.notes.newline_call = true;
                    }
                    if !is_call || (saw_nl && self.dev.newline_blocks_call) {
                        out.push(t);
                        continue;
                    }
                    ts.truncate(j - 1); // drop line ends and `(`
                    // collect actuals up to the matching `)`
                    let mut depth = 0usize;
                    let mut args: Vec<Vec<RTok>> = vec![Vec::new()];
                    let close_hs;
                    loop {
                        let a = match ts.pop() {
                            Some(a) => a,
                            None => return Err(RefErr::Unterminated),
                        };
                        match a.k {
                            RK::RegionEnd(..) => {
                                // the end of a replacement list that holds the `(`: RSSL scans that list on its own
                                if self.dev.args_end_in_list {
                                    return Err(RefErr::Unterminated);
                                }
                            }
                            RK::LParen => {
                                depth += 1;
                                args.last_mut().unwrap().push(a);
                            }
                            RK::RParen if depth == 0 => {
                                close_hs = a.hs.clone();
                                break;
                            }
                            RK::RParen => {
                                depth -= 1;
                                args.last_mut().unwrap().push(a);
                            }
                            RK::Comma if depth == 0 => args.push(Vec::new()),
                            _ => args.last_mut().unwrap().push(a),
                        }
                    }
                    let empty_single = args.len() == 1 && args[0].iter().all(|a| a.k == RK::Nl);
                    if params.is_empty() {
                        if !empty_single {
                            return Err(RefErr::Arity);
                        }
                        args.clear();
                    } else if args.len() != params.len() {
                        return Err(RefErr::Arity);
                    }
                    let outer: BTreeSet<String> = t.hs.intersection(&close_hs).cloned().collect();
                    let mut hs = outer.clone();
                    hs.insert(name.clone());
                    let body = self.subst(&m, &args, Rc::new(hs))?;
                    if markers {
                        ts.push(RTok { k: RK::RegionEnd(Some(name.clone()), out.len()), hs: Rc::new(outer) });
                    }
                    for b in body.into_iter().rev() {
                        ts.push(b);
                    }
                }
            }
        }
        Ok(out)
    }

    fn is_macro_name(&self, k: &RK) -> bool {
        matches!(k, RK::Id(n) if self.macros.contains_key(n))
    }

    /// Prosser's `subst` (no `#`): parameters next to `##` are inserted unexpanded, the others fully expanded;
    /// then the pastes are carried out left to right; finally the hide set is added to every token.
    fn subst(&mut self, m: &RMacro, args: &[Vec<RTok>], hs: HS) -> Result<Vec<RTok>, RefErr> {
        let empty = Rc::new(BTreeSet::new());
        let params: &[String] = m.params.as_deref().unwrap_or(&[]);
        let param_index = |k: &RK| -> Option<usize> {
            if let RK::Id(n) = k {
                params.iter().position(|p| p == n)
            } else {
                None
            }
        };
        if self.dev.eager_args {
            for a in args {
                self.expand(a.clone())?;
            }
        }
        // phase 1: parameter replacement
        let mut needs_placemarker = false;
        let mut seq: Vec<RTok> = Vec::new();
        let n = m.body.len();
        for (i, k) in m.body.iter().enumerate() {
            let next_to_paste = (i > 0 && m.body[i - 1] == RK::Paste) || (i + 1 < n && m.body[i + 1] == RK::Paste);
            if let Some(pi) = param_index(k) {
                let raw: Vec<RTok> = args[pi].clone();
                if next_to_paste {
                    if raw.iter().any(|a| self.is_macro_name(&a.k)) {
                        self.notes.out_of_subset.insert("paste-operand-contains-macro-name".into());
                    }
                    let real: Vec<RTok> = raw.into_iter().filter(|a| a.k != RK::Nl || self.dev.newline_blocks_call).collect();
                    if real.iter().all(|a| a.k == RK::Nl) {
                        self.notes.used_placemarker = true;
                        needs_placemarker = true;
                        if !self.dev.no_placemarker {
                            seq.push(RTok { k: RK::Placemarker, hs: empty.clone() });
                        }
                    } else {
                        seq.extend(real);
                    }
                } else {
                    let exp = self.expand(raw)?;
                    if self.dev.args_unpainted {
                        seq.extend(exp.into_iter().map(|t| RTok { k: t.k, hs: empty.clone() }));
                    } else {
                        seq.extend(exp);
                    }
                }
            } else {
                if next_to_paste && self.is_macro_name(k) {
                    self.notes.out_of_subset.insert("paste-operand-is-macro-name".into());
                }
                seq.push(RTok { k: k.clone(), hs: empty.clone() });
            }
        }
        // RSSL mimicry: where C needs a placemarker RSSL has nothing to paste with, and it does not paste before the
        // rescan either: the `##` stays in the list and is carried out by `expand` (on this instance of the list only)
        let deferred = self.dev.no_placemarker && needs_placemarker;
        // phase 2: pastes, left to right
        let mut i = 0;
        while !deferred && i < seq.len() {
            if seq[i].k != RK::Paste {
                i += 1;
                continue;
            }
            // neighbours (line ends are transparent)
            let mut l = i;
            let mut left = None;
            while l > 0 {
                l -= 1;
                if seq[l].k != RK::Nl {
                    left = Some(l);
                    break;
                }
            }
            let mut r = i + 1;
            let mut right = None;
            while r < seq.len() {
                if seq[r].k != RK::Nl {
                    right = Some(r);
                    break;
                }
                r += 1;
            }
            let (l, r) = match (left, right) {
                (Some(l), Some(r)) => (l, r),
                _ => return Err(RefErr::PasteAtEdge),
            };
            let merged = self.paste(&seq[l], &seq[r])?;
            seq.splice(l..=r, std::iter::once(merged));
            i = l + 1;
        }
        // phase 3: drop placemarkers, add the hide set
        let out = seq
            .into_iter()
            .filter(|t| t.k != RK::Placemarker)
            .map(|t| {
                let mut h = (*t.hs).clone();
                h.extend(hs.iter().cloned());
                RTok { k: t.k, hs: Rc::new(h) }
            })
            .collect();
        Ok(out)
    }

    fn paste(&mut self, a: &RTok, b: &RTok) -> Result<RTok, RefErr> {
        let hs: BTreeSet<String> = a.hs.intersection(&b.hs).cloned().collect();
        let hs = Rc::new(hs);
        let k = match (&a.k, &b.k) {
            (RK::Placemarker, k) | (k, RK::Placemarker) => k.clone(),
            (RK::Id(x), RK::Id(y)) | (RK::Id(x), RK::Int(y)) => RK::Id(format!("{}{}", x, y)),
            (RK::Int(x), RK::Int(y)) if is_canonical_decimal(&format!("{}{}", x, y)) => RK::Int(format!("{}{}", x, y)),
            (RK::P(x), RK::P(y)) => match PUNCT_MERGE.iter().find(|(p, q, _)| p == x && q == y) {
                Some((_, _, r)) => RK::P(r.to_string()),
                None => return Err(RefErr::PasteInvalid),
            },
            (x, y) if matches!(x, RK::Id(_) | RK::Int(_) | RK::P(_) | RK::Other(_))
                && matches!(y, RK::Id(_) | RK::Int(_) | RK::P(_) | RK::Other(_)) =>
            {
                // C11 6.10.3.3p3: the SPELLINGS of the two tokens are joined; the result must be one token.  Which texts
                // are one token of this language is the lexer's business (C10): asked of the real lexer
                let s = format!("{}{}", rk_spelling(x), rk_spelling(y));
                if is_ident_shaped(&s) {
                    RK::Id(s)
                } else if is_canonical_decimal(&s) {
                    RK::Int(s)
                } else if canon_single(&s).is_some() {
                    RK::Other(s)
                } else {
                    if is_pp_number(&s) {
                        // a valid preprocessing number in C that is no token here (`1x`, `08`, `1.2.3`)
                        self.notes.out_of_subset.insert("paste-makes-pp-number".into());
                    }
                    return Err(RefErr::PasteInvalid);
                }
            }
            _ => return Err(RefErr::PasteInvalid),
        };
        if let RK::Id(n) = &k {
            if KEYWORDS.contains(&n.as_str()) || canon_single(n).as_deref() != Some(n.as_str()) {
                self.notes.out_of_subset.insert("paste-makes-keyword".into());
            }
        }
        Ok(RTok { k, hs })
    }
}

const KEYWORDS: &[&str] = &[
    "if", "else", "for", "while", "do", "switch", "return", "break", "continue", "discard", "case", "default", "struct",
    "class", "enum", "typedef", "cbuffer", "register", "packoffset", "namespace", "true", "false", "in", "out", "inout",
    "const", "volatile", "row_major", "column_major", "unorm", "snorm", "extern", "static", "inline", "groupshared",
    "constexpr", "sizeof", "template", "typename", "decltype", "auto", "catch", "char", "const_cast", "delete",
    "dynamic_cast", "explicit", "friend", "goto", "long", "mutable", "new", "operator", "private", "protected", "public",
    "reinterpret_cast", "short", "signed", "static_cast", "this", "throw", "try", "union", "unsigned", "using", "virtual",
    "defined",
];

struct RefRun<'a> {
    files: &'a [File],
    once: BTreeSet<String>,
    pending: Vec<RTok>,
    out: Vec<String>,
}

fn ref_flush(r: &mut Reference, st: &mut RefRun) -> Result<(), RefErr> {
    let pending = std::mem::take(&mut st.pending);
    let exp = r.expand(pending)?;
    for t in exp {
        if t.k != RK::Nl {
            // the real output is observed as kinds and values: a spelling that is not its own observation form (a
            // number in another base or with a suffix, a float, a keyword) is put into that form by the lexer
            st.out.push(match &t.k {
                RK::Other(s) => canon_single(s).unwrap_or_else(|| format!("!not-a-token({})", s)),
                k => rk_spelling(k),
            });
        }
    }
    Ok(())
}

fn ref_file(r: &mut Reference, st: &mut RefRun, idx: usize, depth: usize) -> Result<(), RefErr> {
    if depth > 40 {
        return Err(RefErr::IncludeDepth);
    }
    let empty = Rc::new(BTreeSet::new());
    let file = &st.files[idx];
    for line in &file.lines {
        match line {
            Line::Text(t) => {
                for x in t {
                    if let Some(k) = Reference::rk_of(x, false) {
                        // `##` in running text is an ordinary token
                        st.pending.push(RTok { k, hs: empty.clone() });
                    }
                }
                st.pending.push(RTok { k: RK::Nl, hs: empty.clone() });
            }
            Line::Define(t) => {
                ref_flush(r, st)?;
                r.define(t, true)?;
            }
            Line::Undef(t) => {
                ref_flush(r, st)?;
                r.undef(t)?;
            }
            // directives without effect (the text in front of a directive is complete: an invocation does not span it)
            Line::Null => ref_flush(r, st)?,
            Line::Warning => ref_flush(r, st)?,
            Line::Bad(_) => {
                // the text in front of the directive is expanded first (its error wins), then the line is rejected
                ref_flush(r, st)?;
                return Err(RefErr::BadDefine);
            }
            Line::Once => {
                ref_flush(r, st)?;
                // a file is identified by what the include handler says it really is
                st.once.insert(if r.dev.once_by_include_name { file.name.clone() } else { file.real.clone() });
            }
            Line::Include(n) => {
                // textual inclusion: the pending text simply continues (no barrier) -- unless the deviation
                // `invocation-spans-file-boundary` is switched on
                if r.dev.blocks_at_file_boundary {
                    ref_flush(r, st)?;
                }
                let target = match st.files.iter().position(|f| f.name == inc_name(n)) {
                    Some(i) => i,
                    None => {
                        ref_flush(r, st)?;
                        return Err(RefErr::NoFile(n.clone()));
                    }
                };
                let key = if r.dev.once_by_include_name { &st.files[target].name } else { &st.files[target].real };
                if st.once.contains(key) {
                    continue;
                }
                ref_file(r, st, target, depth + 1)?;
                if r.dev.blocks_at_file_boundary {
                    ref_flush(r, st)?;
                }
            }
        }
    }
    Ok(())
}

fn run_reference(p: &Program, dev: Dev, notes: &mut RefNotes) -> Result<Vec<String>, RefErr> {
    let mut r = Reference { macros: BTreeMap::new(), dev, notes };
    // "defines passed to compile behave exactly like #define lines placed before the first line"
    for (n, v) in &p.api {
        // a define is a single line: a value that holds a line end is no define (fix 3c81ed5)
        if v.contains(&Tok::Cmt(5)) {
            return Err(RefErr::BadDefine);
        }
        let mut line = vec![Tok::Ws];
        line.extend(n.iter().cloned());
        line.push(Tok::Ws);
        line.extend(v.iter().cloned());
        if dev.api_dup_keeps_first {
            if let Some(Tok::Id(first)) = n.iter().find(|t| **t != Tok::Ws && !matches!(**t, Tok::Cmt(_))) {
                if r.macros.contains_key(first) {
                    continue;
                }
            }
        }
        r.define(&line, !dev.api_paste_inert)?;
    }
    let mut st = RefRun { files: &p.files, once: BTreeSet::new(), pending: Vec::new(), out: Vec::new() };
    ref_file_marked(&mut r, &mut st)?;
    Ok(st.out)
}

fn ref_file_marked(r: &mut Reference, st: &mut RefRun) -> Result<(), RefErr> {
    // wrap: text pastes are marked at flush time
    ref_file(r, st, 0, 0)?;
    ref_flush(r, st)
}

// ------------------------------------------------------------------------------------------------
// generator
// ------------------------------------------------------------------------------------------------

const MACRO_NAMES: &[&str] = &["A", "B", "C", "D", "E", "F"];
const PARAM_NAMES: &[&str] = &["X", "Y", "Z"];
/// (`defined` is an ordinary identifier outside `#if` / `#elif`: wave 5)
const PLAIN: &[&str] = &["P", "Q", "R", "AB", "P1", "P", "Q", "R", "AB", "P1", "defined"];

struct GenMacro {
    name: String,
    params: Option<usize>,
}

struct Gen<'a> {
    rng: &'a mut Rng,
    macros: Vec<GenMacro>,
    hist: &'a mut Hist,
}

fn push_sep(out: &mut Vec<Tok>) {
    if !matches!(out.last(), Some(Tok::Ws) | Some(Tok::Cmt(_)) | None) {
        out.push(Tok::Ws);
    }
}

impl<'a> Gen<'a> {
    fn atom(&mut self, params: usize) -> Tok {
        let r = self.rng.below(10);
        if r < 3 && params > 0 {
            Tok::Id(PARAM_NAMES[self.rng.below(params as u64) as usize].to_string())
        } else if r < 6 {
            Tok::Int(self.rng.below(10).to_string())
        } else if r < 9 {
            Tok::Id(self.rng.pick(PLAIN).to_string())
        } else {
            Tok::P(self.rng.pick(&["+", "-", "*", ";"]).to_string())
        }
    }

    /// an invocation (or bare mention) of macro `mi`; `budget` bounds the number of tokens produced
    fn invocation(&mut self, mi: usize, params: usize, depth: u32, out: &mut Vec<Tok>, budget: &mut i32) {
        let name = self.macros[mi].name.clone();
        let np = self.macros[mi].params;
        push_sep(out);
        out.push(Tok::Id(name));
        *budget -= 1;
        let Some(np) = np else { return };
        if self.rng.chance(1, 12) {
            self.hist.add("site:function-name-without-arguments");
            return;
        }
        if self.rng.chance(1, 6) {
            out.push(Tok::Ws);
        }
        out.push(Tok::LParen);
        let nargs = if self.rng.chance(1, 25) {
            self.hist.add("site:wrong-arity");
            (np + 1 + self.rng.below(2) as usize) % 4
        } else {
            np
        };
        for a in 0..nargs.max(if np == 0 { 0 } else { 1 }) {
            if a > 0 {
                out.push(Tok::Comma);
                if self.rng.chance(1, 2) {
                    out.push(Tok::Ws);
                }
            }
            let elems = if self.rng.chance(1, 10) { 0 } else { 1 + self.rng.below(2) };
            if elems == 0 {
                self.hist.add("site:empty-argument");
            }
            for _ in 0..elems {
                self.element(params, depth + 1, out, budget);
            }
        }
        out.push(Tok::RParen);
        *budget -= 2;
    }

    fn element(&mut self, params: usize, depth: u32, out: &mut Vec<Tok>, budget: &mut i32) {
        let r = self.rng.below(10);
        if r < 4 && depth < 3 && *budget > 2 && !self.macros.is_empty() {
            let mi = self.rng.below(self.macros.len() as u64) as usize;
            self.invocation(mi, params, depth, out, budget);
        } else if r < 5 && *budget > 4 {
            if self.rng.chance(1, 2) {
                // parenthesised group with a comma inside
                push_sep(out);
                out.push(Tok::LParen);
                let t = self.atom(params);
                out.push(t);
                out.push(Tok::Comma);
                let t = self.atom(params);
                out.push(t);
                out.push(Tok::RParen);
                *budget -= 5;
                self.hist.add("site:nested-parentheses-with-comma");
            } else {
                // wave 5: groups of any shape -- empty, one item, several, nested in each other, commas behind an inner `)`
                push_sep(out);
                let d = self.group(params, depth, 1, out, budget);
                self.hist.add(&format!("site:parenthesised-group-depth-{}", d));
            }
        } else {
            push_sep(out);
            let t = self.atom(params);
            out.push(t);
            *budget -= 1;
        }
    }

    /// `(` items separated by commas `)`; an item is empty, an atom, two atoms, a nested group or an element (which may be
    /// an invocation); returns the nesting depth reached
    fn group(&mut self, params: usize, depth: u32, level: u32, out: &mut Vec<Tok>, budget: &mut i32) -> u32 {
        out.push(Tok::LParen);
        *budget -= 2;
        let mut deepest = level;
        let n = self.rng.below(4);
        for i in 0..n {
            if i > 0 {
                out.push(Tok::Comma);
                if self.rng.chance(1, 3) {
                    out.push(Tok::Ws);
                }
            }
            match self.rng.below(8) {
                0 => {}
                1 | 2 if level < 3 && *budget > 2 => {
                    let d = self.group(params, depth, level + 1, out, budget);
                    deepest = deepest.max(d);
                    if self.rng.chance(1, 3) {
                        let t = self.atom(params);
                        out.push(Tok::Ws);
                        out.push(t);
                    }
                }
                3 if *budget > 3 => self.element(params, depth + 1, out, budget),
                _ => {
                    let t = self.atom(params);
                    out.push(t);
                    *budget -= 1;
                }
            }
        }
        out.push(Tok::RParen);
        deepest
    }

    fn body(&mut self, params: usize, self_index: usize) -> Vec<Tok> {
        let mut out = Vec::new();
        let mut budget: i32 = 1 + self.rng.below(8) as i32;
        if self.rng.chance(1, 15) {
            return out; // empty body
        }
        while budget > 0 {
            let r = self.rng.below(12);
            if r < 4 {
                // refer to a macro (earlier, later or itself)
                let mi = if self.rng.chance(1, 4) { self_index } else { self.rng.below(self.macros.len() as u64) as usize };
                self.invocation(mi, params, 1, &mut out, &mut budget);
            } else if r < 6 && budget >= 2 {
                // paste of two simple operands
                push_sep(&mut out);
                // the left operand is an identifier or a parameter (a number on the left mostly makes pp-numbers)
                let mut a = self.paste_operand(params);
                if matches!(a, Tok::Int(_)) && self.rng.chance(4, 5) {
                    a = Tok::Id(self.rng.pick(PLAIN).to_string());
                }
                // a paste that makes the name of a macro of the program (the merged token is read again)
                let made: Option<(&str, Tok)> = self.macros.iter().find_map(|m| match m.name.as_str() {
                    "PQ" => Some(("P", Tok::Id("Q".into()))),
                    "P1" => Some(("P", Tok::Int("1".into()))),
                    _ => None,
                });
                let mut forced_right = None;
                if let Some((l, r)) = made {
                    if self.rng.chance(1, 2) {
                        a = Tok::Id(l.to_string());
                        forced_right = Some(r);
                        self.hist.add("body:paste-makes-a-macro-name");
                    }
                }
                out.push(a);
                if self.rng.chance(1, 2) {
                    out.push(Tok::Ws);
                }
                out.push(Tok::HashHash);
                if self.rng.chance(1, 2) {
                    out.push(Tok::Ws);
                }
                let b = match forced_right {
                    Some(r) => r,
                    None => self.paste_operand(params),
                };
                out.push(b);
                budget -= 3;
                self.hist.add("body:paste");
            } else {
                self.element(params, 2, &mut out, &mut budget);
            }
        }
        // an invocation that is completed by the text after the expansion: the body ends in the name of a
        // function-like macro, possibly followed by something that disappears (an empty argument, a macro with an
        // empty body) or stays
        if self.rng.chance(1, 5) {
            let fns: Vec<usize> = (0..self.macros.len()).filter(|i| self.macros[*i].params.is_some()).collect();
            if !fns.is_empty() {
                let mi = *self.rng.pick(&fns);
                push_sep(&mut out);
                out.push(Tok::Id(self.macros[mi].name.clone()));
                self.hist.add("body:ends-in-function-name");
                match self.rng.below(6) {
                    0 | 1 if params > 0 => {
                        out.push(Tok::Ws);
                        out.push(Tok::Id(PARAM_NAMES[self.rng.below(params as u64) as usize].to_string()));
                        self.hist.add("body:function-name-then-parameter");
                    }
                    2 | 3 => {
                        let objs: Vec<usize> = (0..self.macros.len()).filter(|i| self.macros[*i].params.is_none()).collect();
                        if !objs.is_empty() {
                            let oi = *self.rng.pick(&objs);
                            out.push(Tok::Ws);
                            out.push(Tok::Id(self.macros[oi].name.clone()));
                            self.hist.add("body:function-name-then-object-macro");
                        }
                    }
                    _ => {}
                }
            }
        }
        out
    }

    /// more white space: a blank becomes a comment now and then, and token boundaries get white space
    fn sprinkle(&mut self, ts: Vec<Tok>) -> Vec<Tok> {
        let mut out = Vec::with_capacity(ts.len() + 4);
        for (i, t) in ts.iter().enumerate() {
            if *t == Tok::Ws && self.rng.chance(1, 5) {
                out.push(Tok::Cmt(0));
                self.hist.add("ws:comment");
                continue;
            }
            out.push(t.clone());
            let next_is_ws = matches!(ts.get(i + 1), Some(Tok::Ws) | Some(Tok::Cmt(_)) | None);
            if *t != Tok::Ws && !next_is_ws && self.rng.chance(1, 14) {
                out.push(if self.rng.chance(1, 2) { Tok::Ws } else { Tok::Cmt(0) });
                self.hist.add("ws:inserted-at-token-boundary");
            }
        }
        out
    }

    fn paste_operand(&mut self, params: usize) -> Tok {
        let r = self.rng.below(10);
        if r < 5 && params > 0 {
            Tok::Id(PARAM_NAMES[self.rng.below(params as u64) as usize].to_string())
        } else if r < 8 {
            Tok::Id(self.rng.pick(PLAIN).to_string())
        } else {
            Tok::Int((1 + self.rng.below(9)).to_string())
        }
    }

    fn define_line(&mut self, mi: usize) -> Vec<Tok> {
        let name = self.macros[mi].name.clone();
        let params = self.macros[mi].params;
        let mut t = vec![Tok::Ws, Tok::Id(name)];
        if let Some(n) = params {
            t.push(Tok::LParen);
            for i in 0..n {
                if i > 0 {
                    t.push(Tok::Comma);
                    if self.rng.chance(1, 2) {
                        t.push(Tok::Ws);
                    }
                }
                t.push(Tok::Id(PARAM_NAMES[i].to_string()));
            }
            t.push(Tok::RParen);
        }
        let body = self.body(params.unwrap_or(0), mi);
        if !body.is_empty() {
            t.push(Tok::Ws);
            // body starts with a separator already in most cases
            let mut b = body;
            if b.first() == Some(&Tok::Ws) {
                b.remove(0);
            }
            let b = self.sprinkle(b);
            t.extend(b);
        }
        t
    }

    fn site(&mut self) -> Vec<Vec<Tok>> {
        // one invocation site, possibly spread over two lines
        let mut out = Vec::new();
        let mut budget = 14;
        let n = 1 + self.rng.below(2);
        for _ in 0..n {
            self.element(0, 0, &mut out, &mut budget);
        }
        if out.first() == Some(&Tok::Ws) {
            out.remove(0);
        }
        // the text goes on with parenthesised groups: arguments for a function-like name an expansion ends in
        if self.rng.chance(1, 4) {
            let groups = 1 + self.rng.below(3);
            for _ in 0..groups {
                if self.rng.chance(1, 3) {
                    out.push(Tok::Ws);
                }
                out.push(Tok::LParen);
                let n = self.rng.below(3);
                for a in 0..n {
                    if a > 0 {
                        out.push(Tok::Comma);
                    }
                    let t = self.atom(0);
                    out.push(t);
                }
                out.push(Tok::RParen);
            }
            self.hist.add("site:parenthesised-groups-after-the-invocation");
        }
        let mut out = self.sprinkle(out);
        // split inside an argument list now and then
        if self.rng.chance(1, 8) {
            if let Some(pos) = out.iter().position(|t| *t == Tok::Comma) {
                self.hist.add("site:argument-list-spans-lines");
                let second = out.split_off(pos + 1);
                return vec![out, second];
            }
        }
        if self.rng.chance(1, 30) {
            if let Some(pos) = out.iter().position(|t| *t == Tok::LParen) {
                if pos > 0 {
                    self.hist.add("site:line-end-before-parenthesis");
                    let second = out.split_off(pos);
                    return vec![out, second];
                }
            }
        }
        vec![out]
    }
}

/// move an insertion point forward until it does not fall inside an argument list that spans lines
fn safe_pos(lines: &[Line], mut at: usize) -> usize {
    loop {
        let mut depth: i32 = 0;
        for l in &lines[..at] {
            match l {
                Line::Text(t) => {
                    for x in t {
                        match x {
                            Tok::LParen => depth += 1,
                            Tok::RParen => depth -= 1,
                            _ => {}
                        }
                    }
                }
                _ => depth = 0,
            }
        }
        if depth <= 0 || at >= lines.len() {
            return at;
        }
        at += 1;
    }
}

fn generate(rng: &mut Rng, hist: &mut Hist) -> Vec<Program> {
    let nmac = 1 + rng.below(6) as usize;
    let mut macros = Vec::new();
    for i in 0..nmac {
        let params = if rng.chance(2, 5) { None } else { Some(rng.below(4) as usize) };
        // now and then a macro whose name can be made by `##` (`A ## B`, `P ## 1`): the merged token is read again
        let name = if i + 1 == nmac && rng.chance(1, 4) {
            hist.add("macro:name-that-a-paste-can-make");
            rng.pick(&["PQ", "P1"]).to_string()
        } else {
            MACRO_NAMES[i].to_string()
        };
        macros.push(GenMacro { name, params });
    }
    hist.add(&format!("macros:{}", nmac));
    let mut g = Gen { rng, macros, hist };
    // definition lines (some macros are defined twice: redefinition)
    let mut def_lines: Vec<(usize, Vec<Tok>)> = Vec::new();
    for mi in 0..nmac {
        let l = g.define_line(mi);
        def_lines.push((mi, l));
    }
    // file skeleton
    let nfiles = 1 + if g.rng.chance(1, 2) { 0 } else { 1 + g.rng.below(4) as usize };
    g.hist.add(&format!("files:{}", nfiles));
    let mut files: Vec<File> = (0..nfiles)
        .map(|i| {
            let name = if i == 0 { "main".to_string() } else { format!("f{}", i) };
            File { name: name.clone(), real: name, lines: Vec::new(), flavour: 0 }
        })
        .collect();
    let mut once = vec![false; nfiles];
    for i in 1..nfiles {
        if g.rng.chance(1, 2) {
            once[i] = true;
            files[i].lines.push(Line::Once);
            g.hist.add("file:pragma-once");
        }
    }
    // distribute definitions: API candidates are the ones placed first in the entry file (a function-like one is
    // passed with the name `NAME(params)`)
    let mut leading: Vec<usize> = Vec::new();
    for (mi, l) in &def_lines {
        let fi = g.rng.below(nfiles as u64) as usize;
        if fi == 0 && g.rng.chance(2, 3) {
            leading.push(*mi);
        } else {
            files[fi].lines.push(Line::Define(l.clone()));
        }
    }
    // sites, redefinitions, undefs
    let nsites = 1 + g.rng.below(10) as usize;
    g.hist.add(&format!("sites:{}", nsites));
    for _ in 0..nsites {
        let fi = g.rng.below(nfiles as u64) as usize;
        for l in g.site() {
            files[fi].lines.push(Line::Text(l));
        }
        if g.rng.chance(1, 6) {
            let mi = g.rng.below(nmac as u64) as usize;
            g.hist.add("line:undef");
            files[fi].lines.push(Line::Undef(vec![Tok::Ws, Tok::Id(g.macros[mi].name.clone())]));
        }
        if g.rng.chance(1, 6) {
            let mi = g.rng.below(nmac as u64) as usize;
            g.hist.add("line:redefine");
            let l = g.define_line(mi);
            files[fi].lines.push(Line::Define(l));
        }
        if g.rng.chance(1, 20) {
            files[fi].lines.push(Line::Warning);
        }
        if g.rng.chance(1, 25) {
            files[fi].lines.push(Line::Null);
            g.hist.add("line:null-directive");
        }
    }
    // malformed directives now and then (the whole compilation is rejected: InvalidDefine / InvalidUndef)
    if g.rng.chance(1, 30) {
        let bad: Vec<Vec<Tok>> = vec![
            vec![],
            vec![Tok::Ws, Tok::Int("1".into()), Tok::Ws, Tok::Id("P".into())],
            vec![Tok::Ws, Tok::Id("F".into()), Tok::LParen, Tok::Int("1".into()), Tok::RParen, Tok::Ws, Tok::Id("P".into())],
            vec![Tok::Ws, Tok::Id("F".into()), Tok::LParen, Tok::Id("X".into()), Tok::Ws, Tok::Id("P".into())],
            vec![Tok::Ws, Tok::Id("F".into()), Tok::LParen, Tok::Id("X".into()), Tok::Ws, Tok::Id("Y".into()), Tok::RParen],
            vec![Tok::Ws, Tok::Id("F".into()), Tok::LParen, Tok::Id("X".into()), Tok::Comma, Tok::RParen, Tok::Ws, Tok::Id("P".into())],
            vec![Tok::Ws, Tok::Id("F".into()), Tok::LParen, Tok::Comma, Tok::Id("X".into()), Tok::RParen],
            vec![Tok::Ws, Tok::LParen, Tok::Id("X".into()), Tok::RParen],
        ];
        let l = g.rng.pick(&bad).clone();
        let fi = g.rng.below(nfiles as u64) as usize;
        let at = g.rng.below(files[fi].lines.len() as u64 + 1) as usize;
        let at = if once[fi] { at.max(1) } else { at };
        let at = safe_pos(&files[fi].lines, at.min(files[fi].lines.len()));
        files[fi].lines.insert(at, Line::Define(l));
        g.hist.add("line:malformed-define");
    }
    if g.rng.chance(1, 40) {
        let bad: Vec<Vec<Tok>> = vec![
            vec![],
            vec![Tok::Ws, Tok::Int("1".into())],
            vec![Tok::Ws, Tok::Id("A".into()), Tok::Ws, Tok::Id("B".into())],
            vec![Tok::Ws, Tok::Id("A".into()), Tok::LParen, Tok::RParen],
        ];
        let l = g.rng.pick(&bad).clone();
        let fi = g.rng.below(nfiles as u64) as usize;
        let at = g.rng.below(files[fi].lines.len() as u64 + 1) as usize;
        let at = if once[fi] { at.max(1) } else { at };
        let at = safe_pos(&files[fi].lines, at.min(files[fi].lines.len()));
        files[fi].lines.insert(at, Line::Undef(l));
        g.hist.add("line:malformed-undef");
    }
    // include edges: forward edges anywhere; backward edges only into pragma-once files
    for i in 0..nfiles {
        for j in 1..nfiles {
            if i == j {
                continue;
            }
            let forward = j > i;
            let p = if forward { 2 } else { 1 };
            if g.rng.chance(p, 4) && (forward || (once[j] && once[i])) {
                let at = g.rng.below(files[i].lines.len() as u64 + 1) as usize;
                let at = if once[i] { at.max(1) } else { at };
                let at = safe_pos(&files[i].lines, at.min(files[i].lines.len()));
                files[i].lines.insert(at, Line::Include(format!("f{}", j)));
                g.hist.add(if forward { "include:forward" } else { "include:back-into-once" });
                if g.rng.chance(1, 4) {
                    let at2 = g.rng.below(files[i].lines.len() as u64 + 1) as usize;
                    let at2 = if once[i] { at2.max(1) } else { at2 };
                    let at2 = safe_pos(&files[i].lines, at2.min(files[i].lines.len()));
                    files[i].lines.insert(at2, Line::Include(format!("f{}", j)));
                    g.hist.add("include:repeated");
                }
            }
        }
    }
    // an include cycle through a file without `#pragma once` now and then: the nesting limit of #include
    if g.rng.chance(1, 60) {
        let cands: Vec<usize> = (0..nfiles).filter(|i| !once[*i]).collect();
        if !cands.is_empty() {
            let i = *g.rng.pick(&cands);
            let name = files[i].name.clone();
            let at = g.rng.below(files[i].lines.len() as u64 + 1) as usize;
            let at = safe_pos(&files[i].lines, at.min(files[i].lines.len()));
            files[i].lines.insert(at, Line::Include(name));
            g.hist.add("include:cycle-without-pragma-once");
        }
    }
    // wave 5: `#pragma once` that is not the first line of its file (in force from that line on: an include of the file
    // in front of it, or a repeated include, still sees the text), and in the entry file (included back by another file)
    for i in 0..nfiles {
        if !once[i] && g.rng.chance(1, 6) {
            let at = g.rng.below(files[i].lines.len() as u64 + 1) as usize;
            let at = safe_pos(&files[i].lines, at.min(files[i].lines.len()));
            files[i].lines.insert(at, Line::Once);
            g.hist.add(if i == 0 { "file:pragma-once-in-entry-file" } else { "file:pragma-once-not-first-line" });
            if g.rng.chance(1, 2) && nfiles > 1 {
                // somebody includes the file (again): behind or in front of the mark
                let from = g.rng.below(nfiles as u64) as usize;
                let at = g.rng.below(files[from].lines.len() as u64 + 1) as usize;
                let at = if once[from] { at.max(1) } else { at };
                let at = safe_pos(&files[from].lines, at.min(files[from].lines.len()));
                let name = files[i].name.clone();
                files[from].lines.insert(at, Line::Include(name));
                g.hist.add("include:of-late-once-file");
            }
        }
    }
    // every placement of the leading definitions: all in the file / all in the API list / a random split
    let mut variants = Vec::new();
    let placements: Vec<Vec<bool>> = if leading.is_empty() {
        vec![vec![]]
    } else {
        let mut v = vec![vec![false; leading.len()], vec![true; leading.len()]];
        if leading.len() > 1 {
            // a proper split keeps the relative order only if the API part is a prefix
            let k = 1 + g.rng.below(leading.len() as u64 - 1) as usize;
            v.push((0..leading.len()).map(|i| i < k).collect());
        }
        v
    };
    for pl in placements {
        let mut api = Vec::new();
        let mut head = Vec::new();
        for (k, mi) in leading.iter().enumerate() {
            let line = &def_lines[*mi].1;
            if pl[k] {
                // name = `NAME` or `NAME(params)`, value = the body tokens after the blank that follows
                let end = match g.macros[*mi].params {
                    Some(_) => line.iter().position(|t| *t == Tok::RParen).unwrap_or(1),
                    None => 1,
                };
                let name: Vec<Tok> = line[1..=end].to_vec();
                let value: Vec<Tok> = line.iter().skip(end + 2).cloned().collect();
                if g.macros[*mi].params.is_some() {
                    g.hist.add("api:function-like-name");
                }
                api.push((name, value));
            } else {
                head.push(Line::Define(line.clone()));
            }
        }
        if !api.is_empty() && g.rng.chance(1, 25) {
            // the same name twice in the API list
            let n = api[0].0.clone();
            api.push((n, vec![Tok::Int("7".into())]));
            g.hist.add("api:duplicate-name");
        }
        let mut fs = files.clone();
        if nfiles >= 2 && once[1] && g.rng.chance(1, 15) {
            // a second include name for the same real file
            let mut alias = fs[1].clone();
            alias.name = "g1".to_string();
            fs.push(alias);
            let at = g.rng.below(fs[0].lines.len() as u64 + 1) as usize;
            let at = safe_pos(&fs[0].lines, at);
            fs[0].lines.insert(at, Line::Include("g1".to_string()));
            g.hist.add("include:alias-of-once-file");
        }
        let mut lines = head;
        lines.extend(fs[0].lines.clone());
        fs[0].lines = lines;
        g.hist.add(&format!("api-defines:{}", api.len()));
        variants.push(Program { api, files: fs, strict: false });
    }
    variants
}

// ------------------------------------------------------------------------------------------------
// generator family: `##` operands of every token kind and spelling
// ------------------------------------------------------------------------------------------------
//
// `##` joins the SOURCE SPELLINGS of its operands (`unlex` of each in preprocess.rs; C11 6.10.3.3p3).  The main generator
// pastes identifiers and canonical decimals only, on which a spelling and a rendering of the value coincide.  Here the
// operands are integer literals in hex / octal / with leading zeros / with suffixes, float literals in every spelling,
// keywords, operators, string literals, identifiers that end in digits or look like suffixes and exponents; they come out
// of arguments, out of the replacement list, or are empty; results are identifiers, numbers, operators and invalid pastes.

const SPELL_INTS: &[&str] = &[
    "0x10", "0x1", "0xA1", "0x0", "0X1f", "007", "010", "00", "0", "017", "1u", "2U", "3l", "4L", "5ul", "6UL", "7lu", "8Lu",
    "0x1u", "017u", "0x7L", "10", "42", "1", "9", "100",
];
const SPELL_FLOATS: &[&str] = &["1.", ".5", "1e3", "1.0f", "1.0h", "1.0L", "2E-7", "1e+11", "0.5", "3.25", "1.f", ".5h", "7e2f"];
const SPELL_KEYWORDS: &[&str] = &["if", "else", "for", "while", "true", "false", "struct", "const", "return", "in", "out", "do"];
const SPELL_PUNCT: &[&str] = &[
    "+", "-", "*", "=", ";", "{", "}", "/", "%", "&", "&&", "!", "!=", ".", "?", ":", "[", "]", "^", "+=", "==", "++", "--", "-=", "*=",
    "/=", "::",
];
const SPELL_STRINGS: &[&str] = &["\"abc\"", "\"\"", "\"0x1\""];
const SPELL_IDS: &[&str] = &[
    "v", "slot_", "x1", "tex2", "_", "a0", "e3", "u", "f", "x10", "L", "h", "ul", "x", "E", "P", "Q", "_7", "reg0", "i", "e",
];

fn spelled_operand(rng: &mut Rng, hist: &mut Hist) -> Option<Tok> {
    let (kind, pool): (&str, &[&str]) = match rng.below(12) {
        0..=3 => ("int", SPELL_INTS),
        4 | 5 => ("float", SPELL_FLOATS),
        6 => ("keyword", SPELL_KEYWORDS),
        7 | 8 => ("operator", SPELL_PUNCT),
        9 => ("string", SPELL_STRINGS),
        _ => ("identifier", SPELL_IDS),
    };
    let s = *rng.pick(pool);
    let t = parse_tok(s)?;
    hist.add(&format!("paste-operand:{}", kind));
    if matches!(t, Tok::Raw(_)) {
        hist.add("paste-operand:spelling-differs-from-value-or-kind");
    }
    Some(t)
}

fn generate_paste_spellings(rng: &mut Rng, hist: &mut Hist) -> Program {
    let ws = |rng: &mut Rng, v: &mut Vec<Tok>| {
        if rng.chance(1, 2) {
            v.push(if rng.chance(1, 6) { Tok::Cmt(0) } else { Tok::Ws });
        }
    };
    let id = |s: &str| Tok::Id(s.to_string());
    let mut lines: Vec<Line> = Vec::new();
    let mut api: Vec<(Vec<Tok>, Vec<Tok>)> = Vec::new();
    // CAT(X,Y) X ## Y: both operands out of arguments
    let mut body = vec![id("X")];
    ws(rng, &mut body);
    body.push(Tok::HashHash);
    ws(rng, &mut body);
    body.push(id("Y"));
    let head = vec![id("CAT"), Tok::LParen, id("X"), Tok::Comma, id("Y"), Tok::RParen];
    if rng.chance(1, 5) {
        api.push((head, body));
        hist.add("paste-family:CAT-in-api-list");
    } else {
        let mut l = vec![Tok::Ws];
        l.extend(head);
        l.push(Tok::Ws);
        l.extend(body);
        lines.push(Line::Define(l));
    }
    // C3(X,Y,Z) X ## Y ## Z, ID(X) X
    lines.push(Line::Define(vec![
        Tok::Ws, id("C3"), Tok::LParen, id("X"), Tok::Comma, id("Y"), Tok::Comma, id("Z"), Tok::RParen, Tok::Ws, id("X"), Tok::Ws,
        Tok::HashHash, Tok::Ws, id("Y"), Tok::HashHash, id("Z"),
    ]));
    lines.push(Line::Define(vec![Tok::Ws, id("ID"), Tok::LParen, id("X"), Tok::RParen, Tok::Ws, id("X")]));
    let mut sites: Vec<Vec<Tok>> = Vec::new();
    let n = 2 + rng.below(4);
    for k in 0..n {
        let mut arg = |rng: &mut Rng, hist: &mut Hist, v: &mut Vec<Tok>| {
            if rng.chance(1, 14) {
                hist.add("paste-family:empty-argument");
                return;
            }
            if rng.chance(1, 4) {
                v.push(Tok::Ws);
            }
            if let Some(t) = spelled_operand(rng, hist) {
                v.push(t);
            }
            if rng.chance(1, 6) {
                v.push(Tok::Ws);
            }
        };
        let mut t = Vec::new();
        match rng.below(10) {
            0..=3 => {
                hist.add("paste-family:both-operands-from-arguments");
                t.extend([id("CAT"), Tok::LParen]);
                arg(rng, hist, &mut t);
                t.push(Tok::Comma);
                arg(rng, hist, &mut t);
                t.push(Tok::RParen);
            }
            4 | 5 => {
                // one operand out of the replacement list
                let Some(lit) = spelled_operand(rng, hist) else { continue };
                let name = format!("M{}", k);
                let left = rng.chance(1, 2);
                hist.add(if left { "paste-family:left-operand-from-body" } else { "paste-family:right-operand-from-body" });
                let mut d = vec![Tok::Ws, id(&name), Tok::LParen, id("X"), Tok::RParen, Tok::Ws];
                if left {
                    d.push(lit);
                    ws(rng, &mut d);
                    d.push(Tok::HashHash);
                    ws(rng, &mut d);
                    d.push(id("X"));
                } else {
                    d.push(id("X"));
                    ws(rng, &mut d);
                    d.push(Tok::HashHash);
                    ws(rng, &mut d);
                    d.push(lit);
                }
                lines.push(Line::Define(d));
                t.extend([id(&name), Tok::LParen]);
                arg(rng, hist, &mut t);
                t.push(Tok::RParen);
            }
            6 => {
                // both operands out of the replacement list of an object-like macro
                let (Some(a), Some(b)) = (spelled_operand(rng, hist), spelled_operand(rng, hist)) else { continue };
                hist.add("paste-family:both-operands-from-body");
                let name = format!("B{}", k);
                let mut d = vec![Tok::Ws, id(&name), Tok::Ws, a];
                ws(rng, &mut d);
                d.push(Tok::HashHash);
                ws(rng, &mut d);
                d.push(b);
                lines.push(Line::Define(d));
                t.push(id(&name));
            }
            7 => {
                hist.add("paste-family:chain-of-three");
                t.extend([id("C3"), Tok::LParen]);
                arg(rng, hist, &mut t);
                t.push(Tok::Comma);
                arg(rng, hist, &mut t);
                t.push(Tok::Comma);
                arg(rng, hist, &mut t);
                t.push(Tok::RParen);
            }
            8 => {
                // the result of a paste handed on as an operand
                hist.add("paste-family:nested");
                t.extend([id("CAT"), Tok::LParen, id("CAT"), Tok::LParen]);
                arg(rng, hist, &mut t);
                t.push(Tok::Comma);
                arg(rng, hist, &mut t);
                t.extend([Tok::RParen, Tok::Comma]);
                arg(rng, hist, &mut t);
                t.push(Tok::RParen);
            }
            _ => {
                // not pasted at all: the spelling passes through an argument
                hist.add("paste-family:operand-passed-through");
                t.extend([id("ID"), Tok::LParen]);
                arg(rng, hist, &mut t);
                t.push(Tok::RParen);
            }
        }
        t.push(Tok::Ws);
        t.push(Tok::P(";".into()));
        sites.push(t);
    }
    for t in sites {
        lines.push(Line::Text(t));
    }
    Program {
        api,
        files: vec![File { name: "main".into(), real: "main".into(), lines, flavour: 0 }],
        strict: false,
    }
}

// ------------------------------------------------------------------------------------------------
// generator family: higher-order use of macros
// ------------------------------------------------------------------------------------------------
//
// The name of a function-like macro ("worker": `W1`..`W3`) is passed as an argument to a macro ("combinator": `H1`, `H2`,
// relay `M1`) whose replacement list invokes it: `#define APPLY(f, x) f(x)` / `APPLY(NEG, a)`, the X-macro idiom
// `#define LIST(X) X(1) X(2)` / `LIST(DECL)`, `#define CALL(f, args) f args` / `CALL(ADD, (p, q))`, a relay
// `#define MAP(f, x) APPLY(f, x)`.  Replacement lists of combinators consist of parameters, literals and punctuation --
// with and without an identifier of their own.  Workers expand to text that names no macro, so no known deviation
// applies: the programs are judged strictly (request `C12.hof`).

fn generate_higher_order(rng: &mut Rng, hist: &mut Hist) -> Program {
    fn id(s: &str) -> Tok {
        Tok::Id(s.to_string())
    }
    fn int(n: u64) -> Tok {
        Tok::Int(n.to_string())
    }
    fn punct(s: &str) -> Tok {
        Tok::P(s.to_string())
    }
    let mut lines: Vec<Line> = Vec::new();
    // workers
    let nw = 1 + rng.below(3) as usize;
    let mut arity: Vec<usize> = Vec::new();
    for w in 0..nw {
        let ar = if rng.chance(1, 8) { 0 } else { 1 + rng.below(2) as usize };
        arity.push(ar);
        let mut t = vec![Tok::Ws, id(&format!("W{}", w + 1)), Tok::LParen];
        for i in 0..ar {
            if i > 0 {
                t.push(Tok::Comma);
                t.push(Tok::Ws);
            }
            t.push(id(PARAM_NAMES[i]));
        }
        t.push(Tok::RParen);
        t.push(Tok::Ws);
        let x = id(PARAM_NAMES[0]);
        let y = id(PARAM_NAMES[1]);
        let body: Vec<Tok> = match (ar, rng.below(5)) {
            (0, _) => vec![int(7 + w as u64)],
            (1, 0) => vec![Tok::LParen, punct("-"), Tok::LParen, x, Tok::RParen, Tok::RParen],
            (1, 1) => vec![id("P"), Tok::Ws, x.clone(), Tok::Ws, punct(";")],
            (1, 2) => vec![id("Q"), Tok::Ws, Tok::HashHash, Tok::Ws, x, Tok::Ws, punct(";")],
            (1, 3) => vec![x.clone(), Tok::Ws, punct("*"), Tok::Ws, x],
            (1, _) => vec![punct("{"), Tok::Ws, x, Tok::Ws, punct("}")],
            (_, 0) => vec![x, Tok::Ws, punct("+"), Tok::Ws, y],
            (_, 1) => vec![Tok::LParen, x, Tok::Comma, Tok::Ws, y, Tok::RParen],
            (_, 2) => vec![id("R"), Tok::Ws, y, Tok::Ws, x],
            (_, 3) => vec![x, Tok::Ws, punct("="), Tok::Ws, y, punct(";")],
            (_, _) => vec![y, Tok::Ws, punct("-"), Tok::Ws, int(1), Tok::Ws, x],
        };
        t.extend(body);
        lines.push(Line::Define(t));
    }
    // combinators: the first parameter is the function
    // shape 0: F(V..)   1: F(1) F(2) (unary workers)   2: F V (V receives a parenthesised list)   3: F(F(V)) (unary)
    // shape 4: relay to another combinator
    let nh = 1 + rng.below(2) as usize;
    let mut shapes: Vec<(u64, usize)> = Vec::new(); // (shape, arity of the workers it takes)
    for h in 0..nh {
        // the arity it calls its function with is the arity of one of the workers
        let k = arity[rng.below(nw as u64) as usize];
        let has_unary = arity.iter().any(|a| *a == 1);
        let shape = if h > 0 && rng.chance(1, 3) { 4 } else { rng.below(4) };
        let shape = if matches!(shape, 1 | 3) && !has_unary { 0 } else { shape };
        let k = match shape {
            1 | 3 => 1,
            4 => shapes[0].1,
            _ => k,
        };
        let nvals = match shape {
            1 => 0,
            2 => 1,
            3 => 1,
            4 => match shapes[0].0 {
                1 => 0,
                2 | 3 => 1,
                _ => k,
            },
            _ => k,
        };
        shapes.push((shape, k));
        let f = id("F");
        let vals: Vec<Tok> = (0..nvals).map(|i| id(PARAM_NAMES[i])).collect();
        let mut t = vec![Tok::Ws, id(&format!("H{}", h + 1)), Tok::LParen, f.clone()];
        for v in &vals {
            t.push(Tok::Comma);
            t.push(Tok::Ws);
            t.push(v.clone());
        }
        t.push(Tok::RParen);
        t.push(Tok::Ws);
        let mut body: Vec<Tok> = Vec::new();
        match shape {
            0 => {
                body.push(f.clone());
                if rng.chance(1, 4) {
                    body.push(Tok::Ws);
                }
                body.push(Tok::LParen);
                for (i, v) in vals.iter().enumerate() {
                    if i > 0 {
                        body.push(Tok::Comma);
                        body.push(Tok::Ws);
                    }
                    body.push(v.clone());
                }
                body.push(Tok::RParen);
            }
            1 => {
                let n = 2 + rng.below(2);
                for i in 0..n {
                    if i > 0 {
                        body.push(Tok::Ws);
                    }
                    body.push(f.clone());
                    body.push(Tok::LParen);
                    body.push(int(1 + i));
                    body.push(Tok::RParen);
                }
            }
            2 => {
                body.push(f.clone());
                body.push(Tok::Ws);
                body.push(vals[0].clone());
            }
            3 => {
                body.extend([f.clone(), Tok::LParen, f.clone(), Tok::LParen, vals[0].clone(), Tok::RParen, Tok::RParen]);
            }
            _ => {
                body.push(id("H1"));
                body.push(Tok::LParen);
                body.push(f.clone());
                for v in &vals {
                    body.push(Tok::Comma);
                    body.push(Tok::Ws);
                    body.push(v.clone());
                }
                body.push(Tok::RParen);
            }
        }
        // decoration: literals and punctuation; now and then an identifier of the replacement list's own
        match rng.below(6) {
            0 => {
                body.insert(0, Tok::LParen);
                body.push(Tok::RParen);
            }
            1 => {
                body.push(Tok::Ws);
                body.push(punct("+"));
                body.push(Tok::Ws);
                body.push(int(1));
            }
            2 => {
                body.insert(0, Tok::Ws);
                body.insert(0, id("R"));
                hist.add("higher-order:replacement-list-with-an-identifier");
            }
            3 => {
                body.push(punct(";"));
            }
            _ => {}
        }
        t.extend(body);
        lines.push(Line::Define(t));
        hist.add(&format!("higher-order:combinator-shape-{}", shape));
    }
    // sites
    let nsites = 1 + rng.below(4) as usize;
    for _ in 0..nsites {
        let h = rng.below(nh as u64) as usize;
        let (shape, k) = shapes[h];
        let eff = if shape == 4 { shapes[0].0 } else { shape };
        // a worker of the arity the combinator calls it with
        let cands: Vec<usize> = (0..nw).filter(|w| arity[*w] == k).collect();
        let w = if cands.is_empty() || rng.chance(1, 20) {
            hist.add("higher-order:worker-of-another-arity");
            // (never a unary worker on an empty argument list: the argument would be empty, and next to the `##` of the
            // pasting worker that is the known deviation empty-argument-next-to-paste)
            let other: Vec<usize> = (0..nw).filter(|w| !(k == 0 && arity[*w] == 1)).collect();
            if other.is_empty() {
                continue;
            }
            *rng.pick(&other)
        } else {
            *rng.pick(&cands)
        };
        let mut t = vec![id(&format!("H{}", h + 1))];
        if rng.chance(1, 6) {
            t.push(Tok::Ws);
        }
        t.push(Tok::LParen);
        t.push(id(&format!("W{}", w + 1)));
        let mut val = |rng: &mut Rng, t: &mut Vec<Tok>| match rng.below(4) {
            0 => t.push(int(rng.below(10))),
            1 => t.push(id(*rng.pick(PLAIN))),
            2 => {
                t.push(id("a"));
                t.push(Tok::Ws);
                t.push(punct("*"));
                t.push(Tok::Ws);
                t.push(int(2));
            }
            _ => {
                // another invocation whose expansion names no macro: a unary worker on an atom
                let un: Vec<usize> = (0..nw).filter(|w| arity[*w] == 1).collect();
                if un.is_empty() {
                    t.push(id("b"));
                } else {
                    t.push(id(&format!("W{}", *rng.pick(&un) + 1)));
                    t.push(Tok::LParen);
                    t.push(id("c"));
                    t.push(Tok::RParen);
                }
            }
        };
        match eff {
            1 => {}
            2 => {
                t.push(Tok::Comma);
                t.push(Tok::Ws);
                t.push(Tok::LParen);
                for i in 0..k {
                    if i > 0 {
                        t.push(Tok::Comma);
                        t.push(Tok::Ws);
                    }
                    val(rng, &mut t);
                }
                t.push(Tok::RParen);
            }
            3 => {
                t.push(Tok::Comma);
                t.push(Tok::Ws);
                val(rng, &mut t);
            }
            _ => {
                for _ in 0..k {
                    t.push(Tok::Comma);
                    t.push(Tok::Ws);
                    val(rng, &mut t);
                }
            }
        }
        t.push(Tok::RParen);
        if rng.chance(1, 3) {
            t.push(Tok::Ws);
            t.push(punct(";"));
        }
        if rng.chance(1, 10) {
            if let Some(pos) = t.iter().position(|x| *x == Tok::Comma) {
                let second = t.split_off(pos + 1);
                lines.push(Line::Text(t));
                lines.push(Line::Text(second));
                continue;
            }
        }
        lines.push(Line::Text(t));
    }
    hist.add("higher-order:programs");
    // the definitions in the file, or the combinators passed through the API
    let mut api = Vec::new();
    if rng.chance(1, 4) {
        let mut keep = Vec::new();
        for l in lines {
            match &l {
                Line::Define(t) if matches!(t.get(1), Some(Tok::Id(n)) if n.starts_with('H')) => {
                    let end = t.iter().position(|x| *x == Tok::RParen).unwrap_or(1);
                    api.push((t[1..=end].to_vec(), t.iter().skip(end + 2).cloned().collect()));
                }
                _ => keep.push(l),
            }
        }
        lines = keep;
        hist.add("higher-order:combinators-in-the-api-list");
    }
    Program { api, files: vec![File { name: "main".into(), real: "main".into(), lines, flavour: 0 }], strict: true }
}

// ------------------------------------------------------------------------------------------------
// judging
// ------------------------------------------------------------------------------------------------

/// Without persistent paint (deviation `argument-repainted`) some small programs expand to millions of tokens in the
/// real code (and in the model, which mirrors it): predicted with the reference run in RSSL-like mode under a small
/// budget.  (The prediction misses some; generated programs therefore run in a worker process under a time limit.)
/// wave 5, the SPELLING dimension: the same tokens written differently.  White space as tab / line continuation /
/// block comment over a line end, a line comment at the end of a line, white space added at token boundaries (never in
/// front of `(`: that would turn a function-like definition or an invocation into something else), `#include <f>`,
/// files in CR LF, files without a final line end, `# define`.  Returns the original when the result does not lex
/// faithfully (e.g. `/` in front of a line comment).
fn respell(rng: &mut Rng, hist: &mut Hist, p: &Program) -> Program {
    fn line(rng: &mut Rng, hist: &mut Hist, ts: &[Tok], directive: bool) -> Vec<Tok> {
        let mut out: Vec<Tok> = Vec::with_capacity(ts.len() + 4);
        for (i, t) in ts.iter().enumerate() {
            if matches!(t, Tok::Ws | Tok::Cmt(0)) && rng.chance(1, 3) {
                let k = [1u8, 1, 2, 2, 4][rng.below(5) as usize];
                hist.add(&format!("spelling:ws-as-{}", ["", "continuation", "tab", "", "comment-over-line-end"][k as usize]));
                out.push(Tok::Cmt(k));
            } else {
                out.push(t.clone());
            }
            let next_paren = matches!(ts.get(i + 1), Some(Tok::LParen));
            if !next_paren && i + 1 < ts.len() && rng.chance(1, 12) {
                out.push(Tok::Cmt([1u8, 2, 4][rng.below(3) as usize]));
                hist.add("spelling:ws-inserted");
            }
        }
        if (directive || !ts.is_empty()) && rng.chance(1, 5) {
            out.push(Tok::Ws);
            out.push(Tok::Cmt(3));
            hist.add("spelling:line-comment-at-end");
        }
        out
    }
    let mut q = p.clone();
    // names of the macros the files define (first identifier of a define line)
    let macro_names: Vec<String> = p
        .files
        .iter()
        .flat_map(|f| f.lines.iter())
        .filter_map(|l| match l {
            Line::Define(t) => t.iter().find_map(|t| if let Tok::Id(s) = t { Some(s.clone()) } else { None }),
            _ => None,
        })
        .collect();
    for f in q.files.iter_mut() {
        for l in f.lines.iter_mut() {
            match l {
                // a text line that begins with white space (the line state machine stays at `StartOfLine`)
                Line::Text(t) if !t.is_empty() && rng.chance(1, 6) => {
                    t.insert(0, if rng.chance(1, 2) { Tok::Ws } else { Tok::Cmt(2) });
                    hist.add("spelling:text-line-indented");
                }
                // a parameter that bears the name of a macro of the program (its own macro included): inside the
                // replacement list the name is the parameter
                Line::Define(t) if !p.strict && !macro_names.is_empty() && rng.chance(1, 8) => {
                    let close = t.iter().position(|x| *x == Tok::RParen);
                    let first_id = t.iter().position(|x| matches!(x, Tok::Id(_)));
                    if let (Some(close), Some(fi)) = (close, first_id) {
                        if t.get(fi + 1) == Some(&Tok::LParen) {
                            let params: Vec<String> =
                                t[fi + 2..close].iter().filter_map(|x| if let Tok::Id(s) = x { Some(s.clone()) } else { None }).collect();
                            let new = macro_names[rng.below(macro_names.len() as u64) as usize].clone();
                            if !params.is_empty() && !params.contains(&new) {
                                let old = params[rng.below(params.len() as u64) as usize].clone();
                                for x in t.iter_mut().skip(fi + 1) {
                                    if *x == Tok::Id(old.clone()) {
                                        *x = Tok::Id(new.clone());
                                    }
                                }
                                hist.add("shape:parameter-named-like-a-macro");
                            }
                        }
                    }
                }
                _ => {}
            }
        }
    }
    for f in q.files.iter_mut() {
        for (bit, name) in [(1u8, "crlf"), (2, "no-final-line-end"), (4, "blank-after-hash")] {
            if rng.chance(1, 3) {
                f.flavour |= bit;
                hist.add(&format!("spelling:file-{}", name));
            }
        }
        for l in f.lines.iter_mut() {
            match l {
                Line::Define(t) | Line::Undef(t) => *t = line(rng, hist, t, true),
                Line::Text(t) => *t = line(rng, hist, t, false),
                Line::Include(n) => {
                    if !n.starts_with('<') && rng.chance(1, 3) {
                        *n = format!("<{}>", n);
                        hist.add("spelling:include-angle");
                    }
                }
                _ => {}
            }
        }
    }
    for (n, v) in q.api.iter_mut() {
        // white space inside the parameter list of an API name: `F( X ,Y )`
        if n.len() > 2 && rng.chance(1, 3) {
            let mut out = Vec::new();
            for (i, t) in n.iter().enumerate() {
                out.push(t.clone());
                if i >= 1 && i + 1 < n.len() && rng.chance(1, 3) {
                    out.push(if rng.chance(1, 2) { Tok::Ws } else { Tok::Cmt(2) });
                    hist.add("spelling:api-name-ws");
                }
            }
            *n = out;
        }
        let mut out = Vec::new();
        for t in v.iter() {
            if matches!(t, Tok::Ws | Tok::Cmt(0)) && rng.chance(1, 3) {
                out.push(Tok::Cmt([1u8, 2, 4][rng.below(3) as usize]));
                hist.add("spelling:api-value-ws");
            } else {
                out.push(t.clone());
            }
        }
        *v = out;
    }
    if program_faithful(&q).is_ok() {
        hist.add("spelling:respelled-programs");
        q
    } else {
        hist.add("spelling:respelling-unfaithful-kept-original");
        p.clone()
    }
}

fn predicted_to_explode(p: &Program) -> bool {
    let mut n0 = RefNotes { step_limit: Some(40_000), ..RefNotes::default() };
    let r0 = run_reference(p, Dev::from_bits(8 | 16 | 128 | 256 | 512), &mut n0);
    let big = matches!(&r0, Ok(t) if t.len() > 6000);
    matches!(r0, Err(RefErr::Steps)) || big
}

fn judge(p: &Program, out: &mut Out, hist: &mut Hist) {
    judge_with(p, None, out, hist)
}

fn obs_of(real: &Real) -> String {
    match real {
        Real::Ok(t) => format!("ok {}", t.join(" ")).trim_end().to_string(),
        Real::Err(e) => format!("err {}", e),
        Real::Panic(m) => {
            // `file:line: message` -> `file: message` (line numbers are not part of the observation)
            let mut parts = m.splitn(3, ':');
            let file = parts.next().unwrap_or("?");
            let _line = parts.next();
            let msg = parts.next().unwrap_or("").trim();
            // first line of the message only (assert_eq! appends the two values)
            let msg = msg.split("\\n").next().unwrap_or("");
            format!("panic {}: {}", file, msg)
        }
    }
}

/// the oracle: the real outcome against the reference C preprocessor
fn oracle_of(p: &Program, real: &Real, hist: &mut Hist) -> String {
    let mut notes = RefNotes::default();
    let expected = run_reference(p, Dev::default(), &mut notes);
    let oracle = match (real, &expected) {
        (Real::Panic(m), _) => {
            hist.add("real:panic");
            format!("FAIL:panic {}", m)
        }
        _ if !notes.out_of_subset.is_empty() => {
            for r in &notes.out_of_subset {
                hist.add(&format!("oracle-not-applicable:{}", r));
            }
            "ok".to_string()
        }
        (_, Err(RefErr::Steps)) | (_, Err(RefErr::IncludeDepth)) => {
            hist.add("oracle-not-applicable:reference-gave-up");
            "ok".to_string()
        }
        (Real::Ok(_), Err(RefErr::PasteInvalid)) => {
            // C11 6.10.3.3p3: if the result of `##` is not a valid preprocessing token the behaviour is undefined;
            // RSSL pastes while it rescans, so an operand may have been consumed or produced by an expansion before
            hist.add("oracle-not-applicable:paste-result-is-not-a-token-in-C(undefined)");
            "ok".to_string()
        }
        (Real::Ok(t), Ok(e)) if t == e => {
            hist.add("agree:tokens");
            "ok".to_string()
        }
        (Real::Err(_), Err(_)) => {
            hist.add("agree:both-reject");
            "ok".to_string()
        }
        _ => {
            // disagreement with C: is it fully explained by one of the known deviations?
            let exp_s = match &expected {
                Ok(e) => format!("ok {}", e.join(" ")),
                Err(e) => format!("reject {:?}", e),
            };
            // A known deviation class explains a disagreement only by EXACT mimicry: the reference run with the
            // mimic switches of the named classes (and no others) reproduces the real output token for token (or is
            // rejected where the real code rejects).  The smallest such set names the class; if no set of the
            // offered switches reproduces the output the disagreement is `unexplained` (an unlisted finding).
            let mut best: Option<u32> = None;
            'search: for k in 1..=OFFERED.count_ones() {
                for bits in 1u32..(1 << DEV_NAMES.len()) {
                    if bits.count_ones() != k || bits & !OFFERED != 0 {
                        continue;
                    }
                    let mut n2 = RefNotes::default();
                    let alt = run_reference(p, Dev::from_bits(bits), &mut n2);
                    if same_outcome(real, &alt) {
                        best = Some(bits);
                        break 'search;
                    }
                }
            }
            // The oracle does not apply when RSSL itself leaves the property's subset on this program: RSSL expands
            // every argument (also an unused one, also one that stands next to `##`), so a `##` operand that holds a
            // macro name -- outside the subset -- may be met only on RSSL's path.  Judged on the reference run with
            // the argument expansion of RSSL alone, and with every offered switch on (the closest rendering of RSSL's path).
            let mut na = false;
            if best.is_none() {
                for bits in [8u32, OFFERED] {
                    let mut n2 = RefNotes::default();
                    let _ = run_reference(p, Dev::from_bits(bits), &mut n2);
                    if !n2.out_of_subset.is_empty() {
                        na = true;
                    }
                }
            }
            let class = match best {
                Some(b) => Dev::names(b),
                None => "unexplained".to_string(),
            };
            if best.is_some() {
                hist.add("classified-by-exact-mimicry");
            }
            if std::env::var("C12_WHY").is_ok() && best.is_none() {
                eprintln!("UNCLASSIFIED {} {}", if na { "not-applicable" } else { "unexplained" }, p.encode());
            }
            if p.strict {
                // the higher-order family: RSSL equals C on these programs; a difference fails under a key of its own
                hist.add(&format!("higher-order:differs-from-C({})", class));
                format!("FAIL:higher-order-differs-from-C ({}) expected {}", class, exp_s)
            } else if na {
                hist.add("oracle-not-applicable:outside-the-subset-once-a-known-deviation-is-taken");
                "ok".to_string()
            } else {
                hist.add(&format!("differs-from-C:{}", class));
                format!("FAIL:differs-from-C[{}] expected {}", class, exp_s)
            }
        }
    };
    oracle
}

/// the real preprocessor on one program, in a worker process under a time and memory limit
fn run_real_in_worker(p: &Program) -> Option<Real> {
    if program_faithful(p).is_err() || predicted_to_explode(p) {
        return None;
    }
    let exe = std::env::current_exe().ok()?.display().to_string();
    let tmp = std::env::temp_dir().join(format!("c12-one-{}.txt", std::process::id()));
    std::fs::write(&tmp, p.encode() + "\n").ok()?;
    let res = std::process::Command::new("sh")
        .arg("-c")
        .arg(format!("ulimit -v 3000000; exec timeout 4 {} c12 --requests {}", exe, tmp.display()))
        .env("C12_WORKER", "1")
        .stderr(std::process::Stdio::null())
        .output();
    let _ = std::fs::remove_file(&tmp);
    let text = String::from_utf8_lossy(&res.ok()?.stdout).to_string();
    text.lines().find_map(decode_real)
}

/// parentheses balanced in every `#define` line and over every run of text lines (a smaller program that is not is
/// another kind of program: an argument list that begins in a replacement list and ends behind it)
fn parens_balanced(p: &Program) -> bool {
    fn step(d: &mut i32, t: &Tok) -> bool {
        match t {
            Tok::LParen => *d += 1,
            Tok::RParen => *d -= 1,
            _ => {}
        }
        *d >= 0
    }
    for (n, v) in &p.api {
        let mut d = 0;
        if !n.iter().chain(v.iter()).all(|t| step(&mut d, t)) || d != 0 {
            return false;
        }
    }
    for f in &p.files {
        let mut run = 0;
        for l in &f.lines {
            match l {
                Line::Text(t) => {
                    if !t.iter().all(|x| step(&mut run, x)) {
                        return false;
                    }
                }
                Line::Define(t) => {
                    let mut d = 0;
                    if run != 0 || !t.iter().all(|x| step(&mut d, x)) || d != 0 {
                        return false;
                    }
                }
                _ => {
                    if run != 0 {
                        return false;
                    }
                }
            }
        }
        if run != 0 {
            return false;
        }
    }
    true
}

/// greedy shrinking of a program whose difference from C no known deviation reproduces (at most three programs per run)
fn shrink_unexplained(p: &Program, hist: &mut Hist) -> Option<Program> {
    use std::sync::atomic::{AtomicU32, Ordering};
    static DONE: AtomicU32 = AtomicU32::new(0);
    if DONE.fetch_add(1, Ordering::SeqCst) >= 3 {
        return None;
    }
    hist.add("unexplained:shrunk-in-harness");
    let still = |q: &Program| -> bool {
        if q.files.is_empty() || !parens_balanced(q) {
            return false;
        }
        match run_real_in_worker(q) {
            Some(r) => oracle_of(q, &r, &mut Hist::default()).starts_with("FAIL:differs-from-C[unexplained]"),
            None => false,
        }
    };
    let mut cur = p.clone();
    let mut budget = 4000;
    let mut improved = true;
    while improved && budget > 0 {
        improved = false;
        let mut cands: Vec<Program> = Vec::new();
        // drop an API define, the last file, a line, a token
        for i in 0..cur.api.len() {
            let mut q = cur.clone();
            q.api.remove(i);
            cands.push(q);
        }
        if cur.files.len() > 1 {
            let mut q = cur.clone();
            q.files.pop();
            cands.push(q);
        }
        for fi in 0..cur.files.len() {
            for li in 0..cur.files[fi].lines.len() {
                let mut q = cur.clone();
                q.files[fi].lines.remove(li);
                cands.push(q);
            }
        }
        for fi in 0..cur.files.len() {
            for li in 0..cur.files[fi].lines.len() {
                if let Line::Define(t) | Line::Text(t) = &cur.files[fi].lines[li] {
                    // a parenthesised group at once, then single tokens
                    for ti in 0..t.len() {
                        if t[ti] == Tok::LParen {
                            let mut d = 0;
                            for tj in ti..t.len() {
                                match t[tj] {
                                    Tok::LParen => d += 1,
                                    Tok::RParen => d -= 1,
                                    _ => {}
                                }
                                if d == 0 {
                                    let mut t2 = t.clone();
                                    t2.drain(ti..=tj);
                                    let mut q = cur.clone();
                                    q.files[fi].lines[li] = match &cur.files[fi].lines[li] {
                                        Line::Define(_) => Line::Define(t2),
                                        _ => Line::Text(t2),
                                    };
                                    cands.push(q);
                                    break;
                                }
                            }
                        }
                    }
                    for ti in 0..t.len() {
                        if matches!(t[ti], Tok::LParen | Tok::RParen) {
                            continue;
                        }
                        let mut t2 = t.clone();
                        t2.remove(ti);
                        let mut q = cur.clone();
                        q.files[fi].lines[li] = match &cur.files[fi].lines[li] {
                            Line::Define(_) => Line::Define(t2),
                            _ => Line::Text(t2),
                        };
                        cands.push(q);
                    }
                }
            }
        }
        for q in cands {
            budget -= 1;
            if budget <= 0 {
                break;
            }
            if still(&q) {
                cur = q;
                improved = true;
                break;
            }
        }
    }
    Some(cur)
}

/// `real`: the result of the real preprocessor if it was obtained elsewhere (worker process)
fn judge_with(p: &Program, real: Option<Real>, out: &mut Out, hist: &mut Hist) {
    let req = p.encode();
    if std::env::var("C12_TRACE").is_ok() {
        eprintln!("TRACE {}", req);
    }
    if let Err(why) = program_faithful(p) {
        hist.add("skip:unfaithful-rendering");
        out.case(&req, "-", &format!("SKIP:{}", why));
        return;
    }
    // Without persistent paint (deviation `argument-repainted`) some small programs expand to millions of tokens
    // in the real code (and in the model, which mirrors it): predict that with the reference run in RSSL-like mode
    // under a small budget and do not run such a program in-process.
    if real.is_none() && predicted_to_explode(p) {
        hist.add("not-run:expansion-explodes-without-persistent-paint");
        if std::env::var("C12_TRACE").is_ok() {
            eprintln!("EXPLODES {}", req);
        }
        return;
    }
    let real = match real {
        Some(r) => r,
        None => run_real(p),
    };
    let obs = obs_of(&real);
    let oracle = oracle_of(p, &real, hist);
    if oracle.starts_with("FAIL:differs-from-C[unexplained]") {
        // a difference from C that no known deviation reproduces: report the smallest program we can find with it first
        // (the first failing input of a finding key is the one the check reports)
        if let Some(small) = shrink_unexplained(p, hist).filter(|q| q.encode() != p.encode()) {
            if let Some(r) = run_real_in_worker(&small) {
                let o2 = oracle_of(&small, &r, &mut Hist::default());
                if o2.starts_with("FAIL:differs-from-C[unexplained]") {
                    out.case(&small.encode(), &obs_of(&r), &o2);
                }
            }
        }
    }
    match &real {
        Real::Ok(t) => hist.add(&format!("real:ok-tokens-{}", (t.len() / 5 * 5).min(40))),
        Real::Err(e) => hist.add(&format!("real:err-{}", e.split('(').next().unwrap_or(""))),
        _ => {}
    }
    out.case(&req, &obs, &oracle);
}

/// resource test: the real code in a child process with bounded memory and time
fn judge_limit(line: &str, p: &Program, out: &mut Out, hist: &mut Hist) {
    if let Err(why) = program_faithful(p) {
        out.case(line, "-", &format!("SKIP:{}", why));
        return;
    }
    let exe = std::env::current_exe().map(|e| e.display().to_string()).unwrap_or_else(|_| "harness".into());
    let tmp = std::env::temp_dir().join(format!("c12-limit-{}.txt", std::process::id()));
    let _ = std::fs::write(&tmp, format!("{}\n", p.encode()));
    let res = std::process::Command::new("sh")
        .arg("-c")
        .arg(format!("ulimit -v 2000000; exec timeout 60 {} c12 --requests {}", exe, tmp.display()))
        .env("C12_CHILD", "1")
        .output();
    let _ = std::fs::remove_file(&tmp);
    let text = res.as_ref().map(|o| String::from_utf8_lossy(&o.stdout).to_string()).unwrap_or_default();
    let count: Option<u64> = text.lines().find_map(|l| l.strip_prefix("COUNT ")).and_then(|n| n.trim().parse().ok());
    let mut notes = RefNotes::default();
    let expected = run_reference(p, Dev::default(), &mut notes);
    let n_c = match &expected {
        Ok(t) => t.len() as u64,
        Err(_) => 0,
    };
    let obs = match count {
        Some(n) => format!("tokens {}", n),
        None => "resource-exhausted".to_string(),
    };
    let blown = match count {
        Some(n) => n > 1000 * n_c.max(1),
        None => true,
    };
    if blown && expected.is_ok() {
        hist.add("limit:blow-up");
        out.case(
            line,
            &obs,
            &format!(
                "FAIL:differs-from-C[expansion-explodes-without-persistent-paint] C yields {} tokens, the real code: {}",
                n_c, obs
            ),
        );
    } else {
        hist.add("limit:fine");
        out.case(line, &obs, "ok");
    }
}


// ------------------------------------------------------------------------------------------------
// `compile()`: defines passed through the API vs `#define` lines placed before the first line
// ------------------------------------------------------------------------------------------------
//
// request : C12.compile \t <target dx|vk|vkba|msl> \t <defs> \t <expression>
//   defs  : `|`-separated, in order: `A:HEAD=BODY` (passed through `CompileArgs::defines`) or `F:HEAD=BODY` (a `#define`
//           line of the entry file); HEAD = `NAME` or `NAME(X)`
//   the entry file is the `F:` lines followed by `int f(int a) { return <expression>; }`
// observe : `ok <digest of the generated text>` | `err` | `panic <site>`  (of the program as requested)
// oracle  : the same program with every `A:` define turned into a `#define` line in front of the first line (API
//           defines first, in their order) must compile to the same result

fn compile_variant(tgt: crate::compile_util::Tgt, defs: &[(bool, String, String)], expr: &str, all_in_file: bool) -> crate::compile_util::CompileOutcome {
    use crate::compile_util::*;
    let mut src = String::new();
    let mut api: Vec<(String, String)> = Vec::new();
    if all_in_file {
        for (is_api, head, body) in defs {
            if *is_api {
                src.push_str(&format!("#define {} {}\n", head, body));
            }
        }
    }
    for (is_api, head, body) in defs {
        if *is_api {
            if !all_in_file {
                api.push((head.clone(), body.clone()));
            }
        } else {
            src.push_str(&format!("#define {} {}\n", head, body));
        }
    }
    src.push_str(&format!("int f(int a) {{ return {}; }}\n", expr));
    let files = [("main.rssl".to_string(), src)];
    let defines: Vec<(&str, &str)> = api.iter().map(|(n, v)| (n.as_str(), v.as_str())).collect();
    compile(&Job { entry: "main.rssl", files: &files, defines: &defines, target: tgt, mode: Mode::NoPipeline, validate_layout: false })
}

fn judge_compile(line: &str, out: &mut Out, hist: &mut Hist) {
    use crate::compile_util::*;
    let f: Vec<&str> = line.split('\t').collect();
    if f.len() != 4 {
        out.case(line, "-", "SKIP:bad-request");
        return;
    }
    let Some(tgt) = Tgt::parse(f[1]) else {
        out.case(line, "-", "SKIP:bad-target");
        return;
    };
    let mut defs = Vec::new();
    if f[2] != "-" {
        for d in f[2].split('|') {
            let Some((place, rest)) = d.split_once(':') else {
                out.case(line, "-", "SKIP:bad-define");
                return;
            };
            let Some((head, body)) = rest.split_once('=') else {
                out.case(line, "-", "SKIP:bad-define");
                return;
            };
            defs.push((place == "A", head.to_string(), body.to_string()));
        }
    }
    let a = compile_variant(tgt, &defs, f[3], false);
    let b = compile_variant(tgt, &defs, f[3], true);
    let obs = match &a {
        CompileOutcome::Ok(_) => format!("ok {}", a.digest()),
        CompileOutcome::Err(_) => "err".to_string(),
        CompileOutcome::Panic(p) => format!("panic {}", p),
    };
    let same = match (&a, &b) {
        (CompileOutcome::Ok(x), CompileOutcome::Ok(y)) => x == y,
        (CompileOutcome::Err(_), CompileOutcome::Err(_)) => true,
        _ => false,
    };
    let oracle = if let CompileOutcome::Panic(p) = &a {
        format!("FAIL:panic {}", p)
    } else if same {
        hist.add(if matches!(a, CompileOutcome::Ok(_)) { "compile:same-output" } else { "compile:both-rejected" });
        "ok".to_string()
    } else {
        hist.add("compile:api-defines-differ-from-define-lines");
        format!("FAIL:compile-differs[api-vs-define-lines] with #define lines: {}", match &b {
            CompileOutcome::Ok(_) => format!("ok {}", b.digest()),
            CompileOutcome::Err(e) => format!("err {}", one_line(e)),
            CompileOutcome::Panic(p) => format!("panic {}", p),
        })
    };
    out.case(line, &obs, &oracle);
}

fn generate_compile(rng: &mut Rng, hist: &mut Hist) -> String {
    let tgt = *rng.pick(&["dx", "vk", "vkba", "msl"]);
    let n = 1 + rng.below(4) as usize;
    let mut defs: Vec<String> = Vec::new();
    let mut names: Vec<(String, bool)> = Vec::new(); // (name, function-like)
    for i in 0..n {
        // now and then the name of an earlier macro again (redefinition: the later definition wins) or a built-in one
        let name = if !names.is_empty() && rng.chance(1, 6) {
            hist.add("compile:redefinition");
            names[rng.below(names.len() as u64) as usize].0.clone()
        } else if rng.chance(1, 12) {
            hist.add("compile:redefines-built-in");
            rng.pick(&["RSSL_TARGET_HLSL", "RSSL_TARGET_HLSL", "RSSL_TARGET_MSL", "__HLSL_VERSION"]).to_string()
        } else {
            format!("K{}", i)
        };
        let fnlike = rng.chance(1, 3);
        let operand = |rng: &mut Rng, names: &Vec<(String, bool)>| -> String {
            let objs: Vec<&String> = names.iter().filter(|(_, f)| !f).map(|(n, _)| n).collect();
            if !objs.is_empty() && rng.chance(1, 2) {
                (*rng.pick(&objs)).clone()
            } else {
                (1 + rng.below(9)).to_string()
            }
        };
        let body = if !fnlike && rng.chance(1, 10) {
            // wave 5: a later macro named in the value (looked up when the value is used, not when it is defined)
            hist.add("compile:forward-reference");
            format!("(K{} + {})", i + 1, 1 + rng.below(5))
        } else if fnlike {
            format!("((X) {} {})", rng.pick(&["+", "*", "-"]), operand(rng, &names))
        } else if rng.chance(1, 3) {
            (1 + rng.below(20)).to_string()
        } else {
            format!("({} {} {})", operand(rng, &names), rng.pick(&["+", "*", "-"]), operand(rng, &names))
        };
        let place = if rng.chance(1, 2) { "A" } else { "F" };
        let head = if fnlike { format!("{}(X)", name) } else { name.clone() };
        defs.push(format!("{}:{}={}", place, head, body));
        names.retain(|(n, _)| *n != name);
        names.push((name, fnlike));
    }
    let mut terms = vec!["a".to_string()];
    for _ in 0..(1 + rng.below(3)) {
        let (nm, f) = rng.pick(&names).clone();
        terms.push(if f {
            if rng.chance(1, 15) {
                // wrong number of arguments: the preprocessing error must come out of compile() in both placements
                hist.add("compile:wrong-arity");
                format!("{}(a, {})", nm, rng.below(5))
            } else {
                format!("{}(a + {})", nm, rng.below(5))
            }
        } else {
            nm
        });
    }
    format!("C12.compile\t{}\t{}\t{}", tgt, defs.join("|"), terms.join(" + "))
}

pub fn run(args: &Args, out: &mut Out) {
    let mut hist = Hist::default();
    if std::env::var("C12_WORKER").is_ok() {
        // worker of a batch: the real code only, one answer line per program
        use std::io::Write;
        let stdout = std::io::stdout();
        for line in args.request_lines().unwrap_or_default() {
            let r = match Program::decode(&line) {
                Some(p) if !p.files.is_empty() => {
                    if program_faithful(&p).is_ok() {
                        run_real(&p)
                    } else {
                        // judged as SKIP by the parent, which checks the rendering itself
                        Real::Err("unfaithful".into())
                    }
                }
                _ => Real::Err("bad-request".into()),
            };
            let mut h = stdout.lock();
            let _ = writeln!(h, "{}", encode_real(&r));
            let _ = h.flush();
        }
        return;
    }
    if std::env::var("C12_CHILD").is_ok() {
        // child of a resource test: run the real code only and report the size of its output
        for line in args.request_lines().unwrap_or_default() {
            if let Some(p) = Program::decode(&line) {
                match run_real(&p) {
                    Real::Ok(t) => println!("COUNT {}", t.len()),
                    Real::Err(e) => println!("ERR {}", e),
                    Real::Panic(m) => println!("PANIC {}", m),
                }
            }
        }
        return;
    }
    if let Some(lines) = args.request_lines() {
        for line in lines {
            if line.starts_with("C12.compile\t") {
                judge_compile(&line, out, &mut hist);
                continue;
            }
            if line.starts_with("C12.limit\t") {
                match Program::decode(&line) {
                    Some(p) if !p.files.is_empty() => judge_limit(&line, &p, out, &mut hist),
                    _ => out.case(&line, "-", "SKIP:bad-request"),
                }
                continue;
            }
            match Program::decode(&line) {
                Some(p) if !p.files.is_empty() => judge(&p, out, &mut hist),
                _ => out.case(&line, "-", "SKIP:bad-request"),
            }
        }
        out.stat(&format!("{{\"mode\":\"replay\",\"hist\":{}}}", hist.json()));
        return;
    }
    let mut rng = Rng::new(args.seed);
    let n = args.n.unwrap_or(if args.thorough() { 100000 } else { 2000 });
    let mut all: Vec<Program> = Vec::new();
    for _ in 0..n {
        for p in generate(&mut rng, &mut hist) {
            if program_faithful(&p).is_ok() && predicted_to_explode(&p) {
                hist.add("not-run:expansion-explodes-without-persistent-paint");
                continue;
            }
            all.push(p);
        }
    }
    // the higher-order family (judged strictly)
    for _ in 0..(n / 5).max(50) {
        let p = generate_higher_order(&mut rng, &mut hist);
        if program_faithful(&p).is_ok() && predicted_to_explode(&p) {
            hist.add("not-run:expansion-explodes-without-persistent-paint");
            continue;
        }
        all.push(p);
    }
    // `##` operands of every token kind and spelling
    for _ in 0..(n / 5).max(50) {
        all.push(generate_paste_spellings(&mut rng, &mut hist));
    }
    // the spelling dimension: a third of the programs of every family written differently (same tokens)
    for i in 0..all.len() {
        if rng.chance(1, 3) {
            let q = respell(&mut rng, &mut hist, &all[i]);
            all[i] = q;
        }
    }
    // a directive that is rejected (unknown pragma / command, malformed include), anywhere in any file
    for _ in 0..(n / 50).max(10) {
        let i = rng.below(all.len() as u64) as usize;
        let mut q = all[i].clone();
        if q.strict {
            continue;
        }
        let fi = rng.below(q.files.len() as u64) as usize;
        let at = rng.below(q.files[fi].lines.len() as u64 + 1) as usize;
        let k = BAD_KINDS[rng.below(BAD_KINDS.len() as u64) as usize].0;
        q.files[fi].lines.insert(at, Line::Bad(k));
        hist.add(&format!("directive-rejected:{}", k));
        all.push(q);
    }
    // an API define whose value holds a line end is rejected (fix 3c81ed5), whatever else the program holds
    for _ in 0..(n / 50).max(20) {
        let i = rng.below(all.len() as u64) as usize;
        let mut q = all[i].clone();
        if q.strict {
            continue;
        }
        let at = rng.below(q.api.len() as u64 + 1) as usize;
        let r = rng.below(7);
        let v = match r {
            0 => vec![Tok::Int("1".into()), Tok::Cmt(5), Tok::Int("2".into())],
            1 => vec![Tok::Cmt(5)],
            2 => vec![Tok::Id("P".into()), Tok::Ws, Tok::Cmt(5)],
            _ => vec![Tok::Id("P".into())],
        };
        // ... and API names that are no macro head (`InvalidDefine`, as for the #define line), or one only with the value
        let name = match r {
            3 => vec![Tok::Int("1".into())],
            4 => vec![Tok::Id("NL".into()), Tok::LParen],
            5 => vec![Tok::Id("NL".into()), Tok::LParen, Tok::Int("1".into()), Tok::RParen],
            6 => vec![Tok::LParen, Tok::Id("NL".into()), Tok::RParen],
            _ => vec![Tok::Id("NL".into())],
        };
        q.api.insert(at, (name, v));
        hist.add(if r < 3 { "api:value-with-line-end" } else { "api:malformed-name" });
        all.push(q);
    }
    let programs = all.len() as u64;
    run_batch(&all, out, &mut hist);
    // defines passed to compile() vs #define lines
    for _ in 0..(if args.thorough() { 4000 } else { 300 }) {
        let line = generate_compile(&mut rng, &mut hist);
        judge_compile(&line, out, &mut hist);
    }
    out.stat(&format!("{{\"programs\":{},\"hist\":{}}}", programs, hist.json()));
}

fn encode_real(r: &Real) -> String {
    match r {
        Real::Ok(t) => format!("W\tok\t{}", t.join(" ")),
        Real::Err(e) => format!("W\terr\t{}", one_line(e)),
        Real::Panic(m) => format!("W\tpanic\t{}", one_line(m)),
    }
}

fn decode_real(l: &str) -> Option<Real> {
    let mut f = l.splitn(3, '\t');
    if f.next()? != "W" {
        return None;
    }
    let kind = f.next()?;
    let rest = f.next().unwrap_or("");
    Some(match kind {
        "ok" => Real::Ok(rest.split(' ').filter(|x| !x.is_empty()).map(|x| x.to_string()).collect()),
        "err" => Real::Err(rest.to_string()),
        "panic" => Real::Panic(rest.to_string()),
        _ => return None,
    })
}

/// The real preprocessor runs in a worker process (this executable with `C12_WORKER`), one answer line per program;
/// a program that takes longer than the time limit (the expansion blow-up, see `expansion-explodes-…` in
/// known_findings.jsonl) is recorded as not run, the worker is killed and a new one continues behind it.
fn run_batch(all: &[Program], out: &mut Out, hist: &mut Hist) {
    use std::io::{BufRead, BufReader};
    use std::sync::mpsc;
    use std::time::Duration;
    let exe = std::env::current_exe().map(|e| e.display().to_string()).unwrap_or_else(|_| "harness".into());
    let limit = Duration::from_secs(4);
    let mut next = 0usize;
    while next < all.len() {
        let tmp = std::env::temp_dir().join(format!("c12-batch-{}-{}.txt", std::process::id(), next));
        let text: String = all[next..].iter().map(|p| p.encode() + "\n").collect();
        if std::fs::write(&tmp, text).is_err() {
            break;
        }
        let child = std::process::Command::new("sh")
            .arg("-c")
            .arg(format!("ulimit -v 3000000; exec {} c12 --requests {}", exe, tmp.display()))
            .env("C12_WORKER", "1")
            .stdout(std::process::Stdio::piped())
            .stderr(std::process::Stdio::null())
            .spawn();
        let mut child = match child {
            Ok(c) => c,
            Err(_) => {
                // no worker: run in this process
                for p in &all[next..] {
                    judge(p, out, hist);
                }
                let _ = std::fs::remove_file(&tmp);
                return;
            }
        };
        let stdout = child.stdout.take().unwrap();
        let (tx, rx) = mpsc::channel::<String>();
        let reader = std::thread::spawn(move || {
            for l in BufReader::new(stdout).lines() {
                match l {
                    Ok(l) => {
                        if tx.send(l).is_err() {
                            break;
                        }
                    }
                    Err(_) => break,
                }
            }
        });
        let mut stalled = false;
        while next < all.len() {
            match rx.recv_timeout(limit) {
                Ok(l) => {
                    if let Some(r) = decode_real(&l) {
                        judge_with(&all[next], Some(r), out, hist);
                        next += 1;
                    }
                }
                Err(mpsc::RecvTimeoutError::Timeout) => {
                    stalled = true;
                    break;
                }
                Err(mpsc::RecvTimeoutError::Disconnected) => {
                    // the worker died (memory limit): the program it was working on is the culprit
                    stalled = true;
                    break;
                }
            }
        }
        if stalled {
            let _ = child.kill();
        }
        let _ = child.wait();
        let _ = reader.join();
        let _ = std::fs::remove_file(&tmp);
        if stalled && next < all.len() {
            hist.add("not-run:expansion-explodes-without-persistent-paint(time-or-memory-limit)");
            if std::env::var("C12_TRACE").is_ok() {
                eprintln!("EXPLODES {}", all[next].encode());
            }
            next += 1;
        }
    }
}

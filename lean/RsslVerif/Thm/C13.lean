import RsslVerif.Lemmas.ConstEvalOps
/-!
# C13 — compile-time constant evaluation matches run-time semantics

Theorems about `Model.ConstEval` (the model of `typer/src/evaluator.rs` whose per-arm arithmetic is read
from `Gen.EvalTable`, regenerated from the Rust source on every run) against `Spec.HlslConst`.
-/
namespace RsslVerif.Thm.C13
open RsslVerif.Gen.EvalTable RsslVerif.Model.ConstEval RsslVerif.Lemmas.ConstEval
open RsslVerif.Spec.HlslConst (fitsLit litArith)

/-- Division or modulus by a zero constant is reported as *not constant*: whatever the dividend (any
    kind, any value), `evaluate_operator` returns `Err(())` — no value and no panic. -/
theorem div_mod_zero_not_constant (o : Op) (ho : o = .Divide ∨ o = .Modulus) (a b : Constant)
    (hz : b = .intLit 0 ∨ b = .int32 0 ∨ b = .uint32 0) :
    applyOp o [a, b] = .error .notConst := by
  rcases ho with rfl | rfl <;> rcases hz with rfl | rfl | rfl <;> cases a <;> simp [c13]

/-- 32-bit and literal `+ - * / %` (first part of `consteval_agrees`, the rest follows): on operands in
    range, whenever the evaluator model returns a value it is the value the specification defines
    (two's complement wrap for `int`/`uint`, exact for literals), and the value is again in range. -/
theorem arith_agrees_partial (o : Op)
    (ho : o = .Add ∨ o = .Subtract ∨ o = .Multiply ∨ o = .Divide ∨ o = .Modulus)
    {a b r : Constant} (ha : plain a = true) (hb : plain b = true) (h : applyOp o [a, b] = .ok r) :
    RsslVerif.Spec.HlslConst.binop o a b = some r ∧ plain r = true := by
  rcases ho with rfl | rfl | rfl | rfl | rfl
  · exact binop_Add ha hb h
  · exact binop_Subtract ha hb h
  · exact binop_Multiply ha hb h
  · exact binop_Divide ha hb h
  · exact binop_Modulus ha hb h

end RsslVerif.Thm.C13

import RsslVerif.Model.Fixpoint
set_option linter.unusedSimpArgs false
/-!
Lemmas for C04 `reelab_no_new_casts`, part 2a: the type both operands of an arithmetic / comparison / bit / logical
operator are converted to (`arithTarget`, `selectVectorRank`, and since fix 40c6233 `arithScalar`) is unchanged when an
operand is replaced by an operand of that type.  Core Lean only; depends on the model only.
-/
namespace RsslVerif.Lemmas.FixpointArithDim
open RsslVerif.Gen.RankTable RsslVerif.Gen.TypingTables
open RsslVerif.Model.Conv RsslVerif.Model.Overload RsslVerif.Model.IrTyping RsslVerif.Model.Elab
open RsslVerif.Model.Fixpoint

def isEnum : Layer → Bool
  | .enum _ => true
  | _ => false

/-! ## dimensions -/

/-- `select_vector_rank` on the dimensions -/
def selD : Dim → Dim → Option Dim
  | .scalar, .scalar => some .scalar
  | .scalar, .vector x => some (.vector x)
  | .vector x, .scalar => some (.vector x)
  | .vector x1, .vector x2 =>
    if x2 = 1 then some (.vector x1) else if x1 = 1 then some (.vector x2)
    else if x1 < x2 then some (.vector x1) else some (.vector x2)
  | .scalar, .matrix x y => some (.matrix x y)
  | .matrix x y, .scalar => some (.matrix x y)
  | .matrix x1 y1, .matrix x2 y2 => if x1 = x2 ∧ y1 = y2 then some (.matrix x1 y1) else none
  | _, _ => none

theorem selectVectorRank_eq (l r : Layer) : selectVectorRank l r = selD l.opDim r.opDim := by
  unfold selectVectorRank selD
  cases l.opDim <;> cases r.opDim <;> rfl

theorem selD_idem {da db d : Dim} (h : selD da db = some d) :
    selD d db = some d ∧ selD da d = some d ∧ selD d d = some d := by
  cases da <;> cases db <;> simp only [selD] at h
  all_goals (try (simp at h))
  all_goals (try subst h)
  all_goals (try (simp [selD]; done))
  · -- vector, vector
    rename_i x1 x2
    split at h
    · simp at h; subst h; rename_i h2; subst h2; simp [selD]
    · split at h
      · simp at h; subst h; rename_i h2 h1; subst h1; simp [selD, h2]
      · split at h
        · simp at h; subst h; rename_i h2 h1 hlt
          simp [selD, h2, h1, hlt]
        · simp at h; subst h; rename_i h2 h1 hlt
          simp [selD, h2, h1, hlt]
  · -- matrix, matrix
    rename_i x1 y1 x2 y2
    obtain ⟨⟨rfl, rfl⟩, rfl⟩ := h
    simp [selD]

theorem opDim_ofDim (s : Scalar) (d : Dim) : (Layer.ofDim s d).opDim = d := by
  cases d <;> rfl

theorem nonVector_ofDim (s : Scalar) (d : Dim) : (Layer.ofDim s d).nonVector = .scalar s := by
  cases d <;> rfl

theorem isVecOrMat_iff (l : Layer) : l.isVecOrMat = true ↔ l.opDim ≠ .scalar := by
  cases l <;> simp [Layer.isVecOrMat, Layer.opDim]

/-! ## the scalar type -/

/-- `arithTarget` reads only the flags of the operator, whether an operand is a vector / matrix, and the two
    non-vector types -/
def aT (sc ri vm : Bool) (x y : Layer) : Except Err Layer :=
  if sc then
    if vm then .error (.reject "ShortCircuitingVector") else .ok (.scalar .bool)
  else
    if ri && !nvIsInteger x then .error (.reject "IntegerTypeExpected")
    else if ri && !nvIsInteger y then .error (.reject "IntegerTypeExpected")
    else
      match nvRank x with
      | none => .error (.reject "NumericTypeExpected")
      | some lo =>
        match nvRank y with
        | none => .error (.reject "NumericTypeExpected")
        | some ro =>
          let t := if lo > ro then x else y
          if t.extractScalar = some .bool then .ok (.scalar .int32) else .ok t

theorem arithTarget_eq (o : BinOp) (la lb : Layer) :
    arithTarget o la lb = aT o.shortCircuit o.requireInteger (la.isVecOrMat || lb.isVecOrMat) la.nonVector lb.nonVector := by
  rfl

theorem aT_scalar_idem : ∀ (ri : Bool) (sa sb ts : Scalar) (v : Bool),
    aT false ri v (.scalar sa) (.scalar sb) = .ok (.scalar ts) →
    ∀ v', aT false ri v' (.scalar ts) (.scalar sb) = .ok (.scalar ts) ∧
      aT false ri v' (.scalar sa) (.scalar ts) = .ok (.scalar ts) ∧
      aT false ri v' (.scalar ts) (.scalar ts) = .ok (.scalar ts) := by
  intro ri sa sb ts v h v'
  cases ri <;> cases sa <;> cases sb <;> simp [aT, nvRank, nvIsInteger, nonVectorRank, isIntegerScalar, Layer.extractScalar] at h <;>
    subst h <;> simp [aT, nvRank, nvIsInteger, nonVectorRank, isIntegerScalar, Layer.extractScalar]

/-- a float literal operand never makes the operator work on `int` -/
theorem aT_floatLit_not_int32 (sc ri v : Bool) (y : Layer) :
    aT sc ri v (.scalar .floatLiteral) y ≠ .ok (.scalar .int32) ∧ aT sc ri v y (.scalar .floatLiteral) ≠ .ok (.scalar .int32) := by
  cases sc <;> cases ri <;> cases v <;> cases y <;>
    simp [aT, nvRank, nvIsInteger, nonVectorRank, isIntegerScalar, Layer.extractScalar, enumRank] <;>
    (rename_i s; cases s <;> simp +decide [nonVectorRank, isIntegerScalar])

/-! ## layers -/

theorem nonVector_not_enum {l : Layer} (h : isEnum l = false) : isEnum l.nonVector = false := by
  cases l <;> simp_all [isEnum, Layer.nonVector]

theorem aT_true (ri vm : Bool) (x y : Layer) :
    aT true ri vm x y = if vm then .error (.reject "ShortCircuitingVector") else .ok (.scalar .bool) := by
  simp [aT]

theorem aT_false_scalars {ri v : Bool} {x y t : Layer} (hx : isEnum x = false) (hy : isEnum y = false)
    (h : aT false ri v x y = .ok t) : ∃ sa sb, x = .scalar sa ∧ y = .scalar sb := by
  cases x <;> cases y <;> simp [isEnum] at hx hy <;> simp [aT, nvRank] at h <;>
    first
    | exact ⟨_, _, rfl, rfl⟩
    | (exfalso; repeat' split at h
       all_goals simp at h)

theorem ofDim_not_enum (s : Scalar) (d : Dim) : isEnum (Layer.ofDim s d) = false := by
  cases d <;> rfl

/-- **The operator's working type is stable**: replacing either operand type by the working type itself (what an
    emitted cast has) leaves the working type unchanged. -/
theorem arith_stable {o : BinOp} {la lb la0 lb0 : Layer} {ts : Scalar} {dim : Dim}
    (hna : isEnum la = false) (hnb : isEnum lb = false)
    (ht : arithTarget o la lb = .ok (.scalar ts)) (hd : selectVectorRank la lb = some dim)
    (ha : la0 = la ∨ la0 = Layer.ofDim ts dim) (hb : lb0 = lb ∨ lb0 = Layer.ofDim ts dim) :
    isEnum la0 = false ∧ isEnum lb0 = false ∧ arithTarget o la0 lb0 = .ok (.scalar ts) ∧
      selectVectorRank la0 lb0 = some dim := by
  have he0 : isEnum la0 = false := by rcases ha with rfl | rfl; exact hna; exact ofDim_not_enum _ _
  have he1 : isEnum lb0 = false := by rcases hb with rfl | rfl; exact hnb; exact ofDim_not_enum _ _
  refine ⟨he0, he1, ?_, ?_⟩
  · rw [arithTarget_eq] at ht ⊢
    rw [selectVectorRank_eq] at hd
    cases hsc : o.shortCircuit
    · rw [hsc] at ht
      obtain ⟨sa, sb, hx, hy⟩ := aT_false_scalars (nonVector_not_enum hna) (nonVector_not_enum hnb) ht
      rw [hx, hy] at ht
      obtain ⟨h1, h2, h3⟩ := aT_scalar_idem _ _ _ _ _ ht (la0.isVecOrMat || lb0.isVecOrMat)
      rcases ha with rfl | rfl <;> rcases hb with rfl | rfl <;> simp only [nonVector_ofDim, hx, hy]
      · have h4 : ∀ v v', aT false o.requireInteger v (.scalar sa) (.scalar sb) = aT false o.requireInteger v' (.scalar sa) (.scalar sb) := by
          intro v v'; rfl
        rw [h4 _ _]; exact ht
      · exact h2
      · exact h1
      · exact h3
    · rw [hsc, aT_true] at ht
      rw [aT_true]
      cases hvm : (la.isVecOrMat || lb.isVecOrMat)
      · rw [hvm] at ht
        simp at ht
        subst ht
        simp only [Bool.or_eq_false_iff] at hvm
        have hda : la.opDim = .scalar := by
          cases la <;> simp_all [Layer.isVecOrMat, Layer.opDim]
        have hdb : lb.opDim = .scalar := by
          cases lb <;> simp_all [Layer.isVecOrMat, Layer.opDim]
        rw [hda, hdb] at hd
        simp [selD] at hd
        subst hd
        have hv0 : (la0.isVecOrMat || lb0.isVecOrMat) = false := by
          have hs : (Layer.ofDim Scalar.bool Dim.scalar).isVecOrMat = false := rfl
          rcases ha with rfl | rfl <;> rcases hb with rfl | rfl <;> simp [hvm.1, hvm.2, hs]
        simp [hv0]
      · rw [hvm] at ht; simp at ht
  · rw [selectVectorRank_eq] at hd ⊢
    obtain ⟨h1, h2, h3⟩ := selD_idem hd
    rcases ha with rfl | rfl <;> rcases hb with rfl | rfl <;> (try simp only [opDim_ofDim])
    · exact hd
    · exact h2
    · exact h1
    · exact h3

/-! ## since fix 40c6233: vector / matrix operations are never done in a literal kind -/

theorem arithScalar_scalar (ts : Scalar) : arithScalar ts .scalar = ts := by simp [arithScalar]

theorem arithScalar_of_ne {ts : Scalar} {dim : Dim} (h : dim ≠ .scalar) : arithScalar ts dim = litVecRemap ts := by
  simp [arithScalar, h]

theorem litVecRemap_idem (s : Scalar) : litVecRemap (litVecRemap s) = litVecRemap s := by cases s <;> rfl

theorem arithScalar_idem (ts : Scalar) (dim : Dim) : arithScalar (arithScalar ts dim) dim = arithScalar ts dim := by
  by_cases h : dim = .scalar
  · subst h; simp [arithScalar]
  · simp [arithScalar, h, litVecRemap_idem]

/-- replacing an operand kind by the remapped working kind changes the working kind at most within one class of the
    remap (e.g. `bool3 + 1`: `IntLiteral`, remapped `int`; `(int3)b + (int3)1`: `int`) -/
theorem aT_scalar_remap : ∀ (ri : Bool) (sa sb ts : Scalar) (v : Bool),
    aT false ri v (.scalar sa) (.scalar sb) = .ok (.scalar ts) →
    ∀ v', (∃ t0, aT false ri v' (.scalar (litVecRemap ts)) (.scalar sb) = .ok (.scalar t0) ∧ litVecRemap t0 = litVecRemap ts) ∧
      (∃ t0, aT false ri v' (.scalar sa) (.scalar (litVecRemap ts)) = .ok (.scalar t0) ∧ litVecRemap t0 = litVecRemap ts) ∧
      (∃ t0, aT false ri v' (.scalar (litVecRemap ts)) (.scalar (litVecRemap ts)) = .ok (.scalar t0) ∧
        litVecRemap t0 = litVecRemap ts) := by
  intro ri sa sb ts v h v'
  cases ri <;> cases sa <;> cases sb <;>
    simp [aT, nvRank, nvIsInteger, nonVectorRank, isIntegerScalar, Layer.extractScalar] at h <;>
    subst h <;> simp [aT, nvRank, nvIsInteger, nonVectorRank, isIntegerScalar, Layer.extractScalar, litVecRemap]

/-- **The operator's working type is stable** (with the remap of fix 40c6233): replacing either operand type by the
    working type `ofDim (arithScalar ts dim) dim` itself leaves the dimension unchanged and the scalar kind unchanged up
    to the remap — so the working type is the same. -/
theorem arith_stable_remap {o : BinOp} {la lb la0 lb0 : Layer} {ts : Scalar} {dim : Dim}
    (hna : isEnum la = false) (hnb : isEnum lb = false)
    (ht : arithTarget o la lb = .ok (.scalar ts)) (hd : selectVectorRank la lb = some dim)
    (ha : la0 = la ∨ la0 = Layer.ofDim (arithScalar ts dim) dim)
    (hb : lb0 = lb ∨ lb0 = Layer.ofDim (arithScalar ts dim) dim) :
    isEnum la0 = false ∧ isEnum lb0 = false ∧
      ∃ ts0, arithTarget o la0 lb0 = .ok (.scalar ts0) ∧ arithScalar ts0 dim = arithScalar ts dim ∧
        selectVectorRank la0 lb0 = some dim := by
  by_cases hdim : dim = .scalar
  · subst hdim
    rw [arithScalar_scalar] at ha hb
    obtain ⟨h1, h2, h3, h4⟩ := arith_stable hna hnb ht hd ha hb
    exact ⟨h1, h2, ts, h3, rfl, h4⟩
  · rw [arithScalar_of_ne hdim] at ha hb
    have he0 : isEnum la0 = false := by rcases ha with rfl | rfl; exact hna; exact ofDim_not_enum _ _
    have he1 : isEnum lb0 = false := by rcases hb with rfl | rfl; exact hnb; exact ofDim_not_enum _ _
    have hsel : selectVectorRank la0 lb0 = some dim := by
      rw [selectVectorRank_eq] at hd ⊢
      obtain ⟨h1, h2, h3⟩ := selD_idem hd
      rcases ha with rfl | rfl <;> rcases hb with rfl | rfl <;> (try simp only [opDim_ofDim])
      · exact hd
      · exact h2
      · exact h1
      · exact h3
    refine ⟨he0, he1, ?_⟩
    rw [arithTarget_eq] at ht
    rw [selectVectorRank_eq] at hd
    cases hsc : o.shortCircuit
    · rw [hsc] at ht
      obtain ⟨sa, sb, hx, hy⟩ := aT_false_scalars (nonVector_not_enum hna) (nonVector_not_enum hnb) ht
      rw [hx, hy] at ht
      obtain ⟨h1, h2, h3⟩ := aT_scalar_remap _ _ _ _ _ ht (la0.isVecOrMat || lb0.isVecOrMat)
      rcases ha with rfl | rfl <;> rcases hb with rfl | rfl
      · refine ⟨ts, ?_, rfl, hsel⟩
        rw [arithTarget_eq, hsc, hx, hy]; exact ht
      · obtain ⟨t0, h, hr⟩ := h2
        refine ⟨t0, ?_, by simp [arithScalar, hdim, hr], hsel⟩
        rw [arithTarget_eq, hsc, hx, nonVector_ofDim]; exact h
      · obtain ⟨t0, h, hr⟩ := h1
        refine ⟨t0, ?_, by simp [arithScalar, hdim, hr], hsel⟩
        rw [arithTarget_eq, hsc, hy, nonVector_ofDim]; exact h
      · obtain ⟨t0, h, hr⟩ := h3
        refine ⟨t0, ?_, by simp [arithScalar, hdim, hr], hsel⟩
        rw [arithTarget_eq, hsc, nonVector_ofDim]; exact h
    · -- a short-circuiting operator works on scalars only
      exfalso
      rw [hsc, aT_true] at ht
      cases hvm : (la.isVecOrMat || lb.isVecOrMat)
      · simp only [Bool.or_eq_false_iff] at hvm
        have hda : la.opDim = .scalar := by
          cases la <;> simp_all [Layer.isVecOrMat, Layer.opDim]
        have hdb : lb.opDim = .scalar := by
          cases lb <;> simp_all [Layer.isVecOrMat, Layer.opDim]
        rw [hda, hdb] at hd
        simp [selD] at hd
        exact hdim hd.symm
      · rw [hvm] at ht; simp at ht

end RsslVerif.Lemmas.FixpointArithDim

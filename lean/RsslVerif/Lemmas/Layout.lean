import RsslVerif.Spec.Layout
/-! Helper lemmas for C19 (core Lean only): `roundUp` arithmetic, the pinned form of the op programs,
    and the inductions behind `Thm/C19.lean`. -/
namespace RsslVerif.Lemmas.Layout
open RsslVerif.Gen.LayoutTables RsslVerif.Model.Layout RsslVerif.Spec.Layout

theorem roundUp_of_mod_zero {x a : Nat} (ha : 0 < a) (h : x % a = 0) : roundUp x a = x := by
  unfold roundUp
  have hdm := Nat.div_add_mod x a
  generalize hq : x / a = q at hdm
  have e : x + a - 1 = a * q + (a - 1) := by omega
  rw [e, Nat.mul_add_div ha, Nat.div_eq_of_lt (by omega), Nat.add_zero, Nat.mul_comm]
  omega

theorem roundUp_of_mod_pos {x a : Nat} (ha : 0 < a) (h : x % a ≠ 0) :
    roundUp x a = x + (a - x % a) := by
  unfold roundUp
  have hdm := Nat.div_add_mod x a
  have hlt := Nat.mod_lt x ha
  generalize hq : x / a = q at hdm
  generalize hr : x % a = r at *
  have e : x + a - 1 = a * (q + 1) + (r - 1) := by rw [Nat.mul_add]; omega
  rw [e, Nat.mul_add_div ha, Nat.div_eq_of_lt (by omega), Nat.add_zero, Nat.mul_comm, Nat.mul_add]
  omega

theorem roundUp_mod {x a : Nat} : roundUp x a % a = 0 := by
  unfold roundUp; exact Nat.mul_mod_left _ _

theorem le_roundUp {x a : Nat} (ha : 0 < a) : x ≤ roundUp x a := by
  by_cases h : x % a = 0
  · rw [roundUp_of_mod_zero ha h]; exact Nat.le_refl _
  · rw [roundUp_of_mod_pos ha h]; omega

theorem roundUp_eq_self_iff {x a : Nat} (ha : 0 < a) : roundUp x a = x ↔ x % a = 0 := by
  constructor
  · intro h; rw [← h]; exact roundUp_mod
  · exact roundUp_of_mod_zero ha

theorem nextMultipleOf_ok {a b c : Nat} (hb : 0 < b) (h : nextMultipleOf a b = .ok c) :
    c = roundUp a b := by
  unfold nextMultipleOf at h
  have hb' : b ≠ 0 := by omega
  simp only [hb', if_false] at h
  split at h
  · rename_i h0; cases h; exact (roundUp_of_mod_zero hb h0).symm
  · rename_i h0
    unfold addU32 at h
    split at h
    · cases h; exact (roundUp_of_mod_pos hb h0).symm
    · cases h

theorem addU32?_ok {a b c : Nat} (h : addU32? a b = .ok c) : c = a + b := by
  unfold addU32? at h; split at h
  · cases h; rfl
  · cases h

theorem addU32?_succeeds {a b : Nat} (h : a + b ≤ u32Max) : addU32? a b = .ok (a + b) := by
  unfold addU32?; simp only [h, if_true]

theorem mulU32?_ok {a b c : Nat} (h : mulU32? a b = .ok c) : c = a * b := by
  unfold mulU32? at h; split at h
  · cases h; rfl
  · cases h

/-- `checked_next_multiple_of(..)?` that did not return: the divisor is positive, the result is the rounded value -/
theorem nextMultipleOf?_ok {a b c : Nat} (h : nextMultipleOf? a b = .ok c) : 0 < b ∧ c = roundUp a b := by
  unfold nextMultipleOf? at h
  split at h
  · cases h
  · rename_i hb
    have hb' : 0 < b := by omega
    refine ⟨hb', ?_⟩
    split at h
    · rename_i h0; cases h; exact (roundUp_of_mod_zero hb' h0).symm
    · rename_i h0
      have := addU32?_ok h
      rw [this]; exact (roundUp_of_mod_pos hb' h0).symm

theorem nextMultipleOf?_succeeds {a b : Nat} (hb : 0 < b) (h : roundUp a b ≤ u32Max) :
    nextMultipleOf? a b = .ok (roundUp a b) := by
  unfold nextMultipleOf?
  have hb' : b ≠ 0 := by omega
  simp only [hb', if_false]
  by_cases h0 : a % b = 0
  · simp only [h0, if_true]; rw [roundUp_of_mod_zero hb h0]
  · simp only [h0, if_false]
    rw [roundUp_of_mod_pos hb h0] at h ⊢
    exact addU32?_succeeds h

/-- the checked forms never panic -/
theorem nextMultipleOf?_no_panic {a b : Nat} {msg : String} : nextMultipleOf? a b ≠ .error (.panic msg) := by
  unfold nextMultipleOf? addU32?
  split
  · simp
  · split
    · simp
    · split <;> simp

theorem addU32?_no_panic {a b : Nat} {msg : String} : addU32? a b ≠ .error (.panic msg) := by
  unfold addU32?; split <;> simp

theorem mulU32?_no_panic {a b : Nat} {msg : String} : mulU32? a b ≠ .error (.panic msg) := by
  unfold mulU32?; split <;> simp

/-- the member loop body of the pinned source (`checked_next_multiple_of(..)?`, `checked_add(..)?`, `max`) -/
def memberStep (acc ml : Layout) : Except Err Layout :=
  match nextMultipleOf? acc.size ml.align with
  | .error e => .error e
  | .ok z =>
    match addU32? z ml.size with
    | .error e => .error e
    | .ok z' => .ok ⟨z', max acc.align ml.align⟩

theorem member_ops_pinned (m : Mode) (acc ml : Layout) :
    runLay (structMemberOps m) ⟨acc, 0, ml, 0, 0⟩ = memberStep acc ml := by
  cases m <;>
  · simp only [structMemberOps, runLay, runOps, step, memberStep]
    cases nextMultipleOf? acc.size ml.align with
    | error e => rfl
    | ok z =>
      simp only []
      cases addU32? z ml.size with
      | error e => rfl
      | ok z' => rfl

/-- what the tail of the Struct arm makes of the rounded size `z` of a struct with `k` members -/
def emptyFix (m : Mode) (k z : Nat) : Nat :=
  match m with
  | .hlsl => z
  | .metal => if k = 0 then 1 else z

theorem final_ops_pinned (m : Mode) (l : Layout) (k : Nat) :
    runLay (structFinalOps m) ⟨l, 0, l, 0, k⟩ =
      match nextMultipleOf? l.size l.align with
      | .ok z => .ok ⟨emptyFix m k z, l.align⟩
      | .error e => .error e := by
  cases m
  · simp only [structFinalOps, runLay, runOps, step, emptyFix]
    cases nextMultipleOf? l.size l.align <;> rfl
  · simp only [structFinalOps, runLay, runOps, step, emptyFix]
    cases nextMultipleOf? l.size l.align with
    | error e => rfl
    | ok z =>
      simp only []
      by_cases hk : k = 0
      · simp only [hk, if_true]
      · simp only [hk, if_false]

theorem array_ops_pinned (m : Mode) (l : Layout) (n : Nat) :
    runLay (arrayOps m) ⟨l, 0, l, n, 0⟩ =
      if n ≤ u32Max then
        match mulU32? l.size n with
        | .ok z => .ok ⟨z, l.align⟩
        | .error e => .error e
      else .error .unknown := by
  cases m <;>
  · simp only [arrayOps, runLay, runOps, step]
    by_cases hn : n ≤ u32Max
    · simp only [hn, if_true]; cases mulU32? l.size n <;> rfl
    · simp only [hn, if_false]

theorem top_ops_pinned (m : Mode) (l : Layout) :
    runLay (checkTopOps m) ⟨l, 0, l, 0, 0⟩ =
      match nextMultipleOf l.size l.align with
      | .ok z => .ok ⟨z, l.align⟩
      | .error e => .error e := by
  cases m <;>
  · simp only [checkTopOps, runLay, runOps, step]
    cases nextMultipleOf l.size l.align <;> rfl

theorem memberStep_ok {acc ml l : Layout} (h : memberStep acc ml = .ok l) :
    0 < ml.align ∧ l.size = roundUp acc.size ml.align + ml.size ∧ l.align = max acc.align ml.align := by
  unfold memberStep at h
  split at h
  · cases h
  · rename_i z hz
    obtain ⟨hp, this⟩ := nextMultipleOf?_ok hz
    split at h
    · cases h
    · rename_i z' hz'
      have := addU32?_ok hz'
      cases h; subst_vars; exact ⟨hp, rfl, rfl⟩

/-- vectors of the grid never panic and get exactly the reference size and alignment -/
theorem get_vec (m : Mode) (s : Scalar) (n : Nat) (hs : sized s = true) (hn : 1 ≤ n ∧ n ≤ 4) :
    get m (.vec s n) = .ok ⟨vecSize m s n, vecAlign m s n⟩ := by
  have : n = 1 ∨ n = 2 ∨ n = 3 ∨ n = 4 := by omega
  rcases this with rfl | rfl | rfl | rfl <;> cases m <;> cases s <;> first | (exact absurd hs (by decide)) | rfl

theorem get_scalar (m : Mode) (s : Scalar) (hs : sized s = true) :
    get m (.scalar s) = .ok ⟨bytes s, bytes s⟩ := by
  cases s <;> first | (exact absurd hs (by decide)) | (cases m <;> rfl)

theorem get_enum (m : Mode) (u : Scalar) (hu : (u == .Int32 || u == .UInt32) = true) :
    get m (.enum u) = .ok ⟨bytes u, bytes u⟩ := by
  cases u <;> first | (exact absurd hu (by decide)) | (cases m <;> rfl)

theorem bytes_pos {s : Scalar} (h : sized s = true) : 0 < bytes s := by
  cases s <;> first | (exact absurd h (by decide)) | decide

theorem metalLanes_ge (n : Nat) : n ≤ metalLanes n := by
  unfold metalLanes; split <;> omega

theorem vecAlign_pos {m : Mode} {s : Scalar} {n : Nat} (hs : sized s = true) (hn : 1 ≤ n) :
    0 < vecAlign m s n := by
  have hb := bytes_pos hs
  cases m
  · exact hb
  · have := metalLanes_ge n
    exact Nat.mul_pos (by omega) hb

mutual
theorem align_pos (m : Mode) : ∀ t : Ty, wf t = true → 0 < align m t
  | .scalar s, h => by simp only [wf] at h; simpa [align] using bytes_pos h
  | .vec s n, h => by
    simp only [wf, Bool.and_eq_true, decide_eq_true_eq] at h
    simpa [align] using vecAlign_pos h.1 h.2.1
  | .arr t n, h => by simp only [wf, Bool.and_eq_true, decide_eq_true_eq] at h; replace h := h.2; simpa [align] using align_pos m t h
  | .struct ms, _ => by simp only [align]; exact alignMax_pos m ms
  | .enum u, h => by
    simp only [wf] at h
    cases u <;> first | (exact absurd h (by decide)) | (simp [align, bytes])
  | .other _, h => by simp [wf] at h
theorem alignMax_pos (m : Mode) : ∀ ts : Tys, 0 < alignMax m ts
  | .nil => by simp [alignMax]
  | .cons t ts => by
    simp only [alignMax]
    have := alignMax_pos m ts
    omega
end

theorem size_mod_align (m : Mode) : ∀ t : Ty, wf t = true → size m t % align m t = 0
  | .scalar s, _ => by simp [size, align]
  | .vec s n, _ => by
    cases m <;> simp [size, align, vecSize, vecAlign, Nat.mul_mod_left]
  | .arr t n, _ => by
    simp only [size, align]
    rw [Nat.mul_mod, roundUp_mod]; simp
  | .struct ms, _ => by
    cases ms with
    | nil => simp only [size, align, alignMax]; exact Nat.mod_one _
    | cons t ts => simp only [size, align]; exact roundUp_mod
  | .enum u, _ => by simp [size, align]
  | .other _, h => by simp [wf] at h


theorem mulU32_ok {a b c : Nat} (h : mulU32 a b = .ok c) : c = a * b := by
  unfold mulU32 at h; split at h
  · cases h; rfl
  · cases h


mutual
/-- a layout is never smaller than its scalar data -/
theorem leaf_le_size (m : Mode) : ∀ t : Ty, wf t = true → leaf t ≤ size m t
  | .scalar _, _ => by simp [leaf, size]
  | .enum _, _ => by simp [leaf, size]
  | .other _, h => by simp [wf] at h
  | .vec s n, _ => by
    cases m
    · simp [leaf, size, vecSize]
    · simp only [leaf, size, vecSize]
      exact Nat.mul_le_mul_right _ (metalLanes_ge n)
  | .arr t n, h => by
    simp only [wf, Bool.and_eq_true, decide_eq_true_eq] at h; replace h := h.2
    simp only [leaf, size]
    exact Nat.mul_le_mul_left _ (Nat.le_trans (leaf_le_size m t h) (le_roundUp (align_pos m t h)))
  | .struct ms, h => by
    simp only [wf] at h
    cases ms with
    | nil => simp [leaf, leafAll]
    | cons t ts =>
      simp only [leaf, size]
      have := leafAll_le_endOf m (.cons t ts) 0 h
      have := @le_roundUp (endOf m (.cons t ts) 0) (alignMax m (.cons t ts)) (alignMax_pos m _)
      omega
theorem leafAll_le_endOf (m : Mode) : ∀ (ts : Tys) (c : Nat), wfAll ts = true →
    c + leafAll ts ≤ endOf m ts c
  | .nil, c, _ => by simp [leafAll, endOf]
  | .cons t ts, c, h => by
    simp only [wfAll, Bool.and_eq_true] at h
    simp only [leafAll, endOf]
    have h1 := leaf_le_size m t h.1
    have h2 := @le_roundUp c (align m t) (align_pos m t h.1)
    have h3 := leafAll_le_endOf m ts (roundUp c (align m t) + size m t) h.2
    omega
end

theorem checkFrom_ok : ∀ (ts : List Ty) (i : Nat), checkFrom i ts = .ok → ∀ t ∈ ts, checkOne t = .ok none
  | [], _, _, t, ht => by cases ht
  | t :: ts, i, h, u, hu => by
    unfold checkFrom at h
    split at h
    · cases h
    · cases h
    · cases h
    · rename_i hc
      cases hu with
      | head => exact hc
      | tail _ hu' => exact checkFrom_ok ts (i + 1) h u hu'

theorem metalLanes_small {n : Nat} (h : n ≤ 1) : metalLanes n = n := by
  have : n = 0 ∨ n = 1 := by omega
  rcases this with rfl | rfl <;> rfl

mutual
/-- without vectors the two rule sets coincide -/
theorem vectorFree_same : ∀ t : Ty, vectorFree t = true →
    align .hlsl t = align .metal t ∧ size .hlsl t = size .metal t ∧ agreeIn t = true
  | .scalar _, _ => ⟨rfl, rfl, rfl⟩
  | .enum _, _ => ⟨rfl, rfl, rfl⟩
  | .other _, _ => ⟨rfl, rfl, rfl⟩
  | .vec s n, h => by
    simp only [vectorFree, beq_iff_eq] at h
    subst h
    simp [align, size, vecAlign, vecSize, metalLanes, agreeIn]
  | .arr t n, h => by
    simp only [vectorFree] at h
    obtain ⟨a, s, g⟩ := vectorFree_same t h
    simp only [align, size, agreeIn, stride, a, s, g]
    simp
  | .struct ms, h => by
    cases ms with
    | nil => simp [vectorFree] at h
    | cons t ts =>
      simp only [vectorFree, Bool.true_and] at h
      obtain ⟨a, e, o, g⟩ := vectorFreeAll_same (.cons t ts) h
      simp only [align, size, agreeIn, a, e 0, o 0, g]
      simp
theorem vectorFreeAll_same : ∀ ts : Tys, vectorFreeAll ts = true →
    alignMax .hlsl ts = alignMax .metal ts ∧ (∀ c, endOf .hlsl ts c = endOf .metal ts c) ∧
    (∀ c, offsets .hlsl ts c = offsets .metal ts c) ∧ agreeInAll ts = true
  | .nil, _ => ⟨rfl, fun _ => rfl, fun _ => rfl, rfl⟩
  | .cons t ts, h => by
    simp only [vectorFreeAll, Bool.and_eq_true] at h
    obtain ⟨a, s, g⟩ := vectorFree_same t h.1
    obtain ⟨a', e', o', g'⟩ := vectorFreeAll_same ts h.2
    refine ⟨by simp only [alignMax, a, a'], fun c => by simp only [endOf, a, s, e'],
      fun c => by simp only [offsets, a, s, o'], by simp only [agreeInAll, g, g', Bool.and_self]⟩
end

mutual
/-- structural agreement gives identical absolute offsets for every field, at any base address -/
theorem agree_fields : ∀ (t : Ty), agreeIn t = true → ∀ b, fieldsAt .hlsl t b = fieldsAt .metal t b
  | .scalar _, _, _ => rfl
  | .vec _ _, _, _ => rfl
  | .enum _, _, _ => rfl
  | .other _, _, _ => rfl
  | .struct ms, h, b => by
    simp only [agreeIn, Bool.and_eq_true, beq_iff_eq] at h
    simp only [fieldsAt]
    exact agree_members ms h.2 b 0 0 h.1
  | .arr t n, h, b => by
    simp only [agreeIn, Bool.or_eq_true, Bool.and_eq_true, beq_iff_eq, decide_eq_true_eq] at h
    simp only [fieldsAt]
    rcases h with h0 | ⟨h1, h2⟩
    · subst h0; rfl
    · have ih := agree_fields t h2
      rcases h1 with h1 | h1
      · have : n = 0 ∨ n = 1 := by omega
        rcases this with rfl | rfl
        · rfl
        · simp [List.range_succ, ih]
      · simp only [h1, ih]
theorem agree_members : ∀ (ts : Tys), agreeInAll ts = true → ∀ b cH cM,
    offsets .hlsl ts cH = offsets .metal ts cM → membersAt .hlsl ts b cH = membersAt .metal ts b cM
  | .nil, _, _, _, _, _ => rfl
  | .cons t ts, h, b, cH, cM, ho => by
    simp only [agreeInAll, Bool.and_eq_true] at h
    simp only [offsets, List.cons.injEq] at ho
    simp only [membersAt]
    have ht := agree_members ts h.2 b _ _ ho.2
    rw [ho.1] at ht ⊢
    rw [agree_fields t h.1, ht]
end

theorem roundUp_mono {x y a : Nat} (h : x ≤ y) : roundUp x a ≤ roundUp y a := by
  unfold roundUp
  exact Nat.mul_le_mul_right _ (Nat.div_le_div_right (by omega))

theorem nextMultipleOf_succeeds {a b : Nat} (hb : 0 < b) (h : roundUp a b ≤ u32Max) :
    nextMultipleOf a b = .ok (roundUp a b) := by
  unfold nextMultipleOf
  have hb' : b ≠ 0 := by omega
  simp only [hb', if_false]
  by_cases h0 : a % b = 0
  · simp only [h0, if_true]; rw [roundUp_of_mod_zero hb h0]
  · simp only [h0, if_false]
    rw [roundUp_of_mod_pos hb h0] at h ⊢
    unfold addU32; simp only [h, if_true]

theorem memberStep_succeeds {acc ml : Layout} (ha : 0 < ml.align)
    (h : roundUp acc.size ml.align + ml.size ≤ u32Max) :
    memberStep acc ml = .ok ⟨roundUp acc.size ml.align + ml.size, max acc.align ml.align⟩ := by
  unfold memberStep
  rw [nextMultipleOf?_succeeds ha (by omega)]
  simp only [addU32?, h, if_true]

theorem le_endOf (m : Mode) (ts : Tys) (c : Nat) (h : wfAll ts = true) : c ≤ endOf m ts c := by
  have := leafAll_le_endOf m ts c h; omega

/-- in Metal every type of the grid occupies at least one byte (an empty struct too) -/
theorem metal_size_pos : ∀ t : Ty, wf t = true → 0 < size .metal t
  | .scalar s, h => by simp only [wf] at h; simpa [size] using bytes_pos h
  | .enum u, h => by
    simp only [wf] at h
    cases u <;> first | (exact absurd h (by decide)) | (simp [size, bytes])
  | .other _, h => by simp [wf] at h
  | .vec s n, h => by
    simp only [wf, Bool.and_eq_true, decide_eq_true_eq] at h
    simp only [size, vecSize]
    have := metalLanes_ge n
    exact Nat.mul_pos (by omega) (bytes_pos h.1)
  | .arr t n, h => by
    simp only [wf, Bool.and_eq_true, decide_eq_true_eq] at h
    simp only [size]
    have h1 := metal_size_pos t h.2
    have h2 := @le_roundUp (size .metal t) (align .metal t) (align_pos .metal t h.2)
    exact Nat.mul_pos (by omega) (by omega)
  | .struct ms, h => by
    simp only [wf] at h
    cases ms with
    | nil => simp [size, emptySize]
    | cons t ts =>
      simp only [wfAll, Bool.and_eq_true] at h
      simp only [size]
      have h1 := metal_size_pos t h.1
      have h2 := le_endOf .metal ts (roundUp 0 (align .metal t) + size .metal t) h.2
      have h3 := @le_roundUp (endOf .metal (.cons t ts) 0) (alignMax .metal (.cons t ts)) (alignMax_pos _ _)
      simp only [endOf] at h3 ⊢
      omega

mutual
/-- a type whose Metal size fits `u32` has array lengths that fit `u32` (every element occupies a byte there) -/
theorem lengthsFit_of_metal : ∀ t : Ty, wf t = true → size .metal t ≤ u32Max → lengthsFit t = true
  | .scalar _, _, _ => rfl
  | .vec _ _, _, _ => rfl
  | .enum _, _, _ => rfl
  | .other _, _, _ => rfl
  | .arr t n, hw, hb => by
    simp only [wf, Bool.and_eq_true, decide_eq_true_eq] at hw
    simp only [size] at hb
    have h1 := metal_size_pos t hw.2
    have h2 := @le_roundUp (size .metal t) (align .metal t) (align_pos .metal t hw.2)
    have h3 : n * 1 ≤ n * roundUp (size .metal t) (align .metal t) := Nat.mul_le_mul_left _ (by omega)
    have h4 : 1 * roundUp (size .metal t) (align .metal t) ≤ n * roundUp (size .metal t) (align .metal t) :=
      Nat.mul_le_mul_right _ hw.1
    simp only [lengthsFit, Bool.and_eq_true, decide_eq_true_eq]
    exact ⟨by omega, lengthsFit_of_metal t hw.2 (by omega)⟩
  | .struct ms, hw, hb => by
    simp only [wf] at hw
    simp only [lengthsFit]
    cases ms with
    | nil => rfl
    | cons t ts =>
      simp only [size] at hb
      have h3 := @le_roundUp (endOf .metal (.cons t ts) 0) (alignMax .metal (.cons t ts)) (alignMax_pos _ _)
      exact lengthsFitAll_of_metal (.cons t ts) 0 hw (by omega)
theorem lengthsFitAll_of_metal : ∀ (ts : Tys) (c : Nat), wfAll ts = true → endOf .metal ts c ≤ u32Max →
    lengthsFitAll ts = true
  | .nil, _, _, _ => rfl
  | .cons t ts, c, hw, hb => by
    simp only [wfAll, Bool.and_eq_true] at hw
    simp only [endOf] at hb
    have h1 := le_endOf .metal ts (roundUp c (align .metal t) + size .metal t) hw.2
    simp only [lengthsFitAll, Bool.and_eq_true]
    exact ⟨lengthsFit_of_metal t hw.1 (by omega), lengthsFitAll_of_metal ts _ hw.2 hb⟩
end


theorem addU32_ok {a b c : Nat} (h : addU32 a b = .ok c) : c = a + b := by
  unfold addU32 at h; split at h
  · cases h; rfl
  · cases h

theorem get_empty (m : Mode) : get m (.struct .nil) = .ok ⟨emptySize m, 1⟩ := by
  cases m <;> rfl

theorem length_cons_ne (t : Ty) (ts : Tys) : (Tys.cons t ts).length ≠ 0 := by
  simp [Tys.length]

theorem emptyFix_cons (m : Mode) (t : Ty) (ts : Tys) (z : Nat) : emptyFix m (Tys.cons t ts).length z = z := by
  cases m
  · rfl
  · simp only [emptyFix, length_cons_ne, if_false]

mutual
/-- `get_type_layout` returns the reference size and alignment of every type of the grid -/
theorem get_spec (m : Mode) : ∀ (t : Ty) (l : Layout), wf t = true → get m t = .ok l →
    l.size = size m t ∧ l.align = align m t
  | .scalar s, l, hw, h => by
    simp only [wf] at hw
    rw [get_scalar m s hw] at h; cases h; exact ⟨rfl, rfl⟩
  | .vec s n, l, hw, h => by
    simp only [wf, Bool.and_eq_true, decide_eq_true_eq] at hw
    rw [get_vec m s n hw.1 hw.2] at h; cases h; exact ⟨rfl, rfl⟩
  | .enum u, l, hw, h => by
    simp only [wf] at hw
    rw [get_enum m u hw] at h; cases h; exact ⟨rfl, rfl⟩
  | .other _, _, hw, _ => by simp [wf] at hw
  | .arr t n, l, hw, h => by
    simp only [wf, Bool.and_eq_true, decide_eq_true_eq] at hw
    simp only [Model.Layout.get] at h
    split at h
    · cases h
    · rename_i l' hl'
      obtain ⟨hs, ha⟩ := get_spec m t l' hw.2 hl'
      rw [array_ops_pinned] at h
      split at h
      · split at h
        · rename_i z hz
          cases h
          have := mulU32?_ok hz
          refine ⟨?_, ha⟩
          simp only [size]
          rw [roundUp_of_mod_zero (align_pos m t hw.2) (size_mod_align m t hw.2), this, hs, Nat.mul_comm]
        · cases h
      · cases h
  | .struct .nil, l, _, h => by
    rw [get_empty] at h; cases h; exact ⟨rfl, rfl⟩
  | .struct (.cons t ts), l, hw, h => by
    simp only [wf] at hw
    simp only [Model.Layout.get] at h
    split at h
    · cases h
    · rename_i l' hl'
      obtain ⟨hs, ha⟩ := getMembers_spec m (.cons t ts) ⟨structInit.1, structInit.2⟩ l' hw (by decide) hl'
      have ha' : l'.align = alignMax m (.cons t ts) := by
        rw [ha]
        have := alignMax_pos m (.cons t ts)
        show max 1 (alignMax m (.cons t ts)) = alignMax m (.cons t ts)
        omega
      rw [final_ops_pinned] at h
      simp only [emptyFix_cons] at h
      split at h
      · rename_i z hz
        cases h
        have := (nextMultipleOf?_ok hz).2
        simp only [size, align]
        rw [this, hs, ha']
        exact ⟨rfl, rfl⟩
      · cases h
theorem getMembers_spec (m : Mode) : ∀ (ts : Tys) (acc l : Layout), wfAll ts = true →
    1 ≤ acc.align → getMembers m ts acc = .ok l →
    l.size = endOf m ts acc.size ∧ l.align = max acc.align (alignMax m ts)
  | .nil, acc, l, _, hacc, h => by
    simp only [getMembers] at h; cases h
    refine ⟨by simp [endOf], ?_⟩
    simp only [alignMax]; omega
  | .cons t ts, acc, l, hw, hacc, h => by
    simp only [wfAll, Bool.and_eq_true] at hw
    simp only [getMembers] at h
    split at h
    · cases h
    · rename_i ml hml
      obtain ⟨hs, ha⟩ := get_spec m t ml hw.1 hml
      rw [member_ops_pinned] at h
      split at h
      · cases h
      · rename_i acc' hacc'
        obtain ⟨_, e1, e2⟩ := memberStep_ok hacc'
        obtain ⟨r1, r2⟩ := getMembers_spec m ts acc' l hw.2 (by rw [e2]; omega) h
        simp only [endOf, alignMax]
        rw [r1, r2, e1, e2, ha, hs]
        exact ⟨rfl, by omega⟩
end

mutual
/-- `get_type_layout` neither panics nor gives up on a type of the grid whose reference size and array lengths
    fit `u32` -/
theorem get_total (m : Mode) : ∀ t : Ty, wf t = true → lengthsFit t = true → size m t ≤ u32Max →
    get m t = .ok ⟨size m t, align m t⟩
  | .scalar s, hw, _, _ => by
    simp only [wf] at hw
    exact get_scalar m s hw
  | .vec s n, hw, _, _ => by
    simp only [wf, Bool.and_eq_true, decide_eq_true_eq] at hw
    exact get_vec m s n hw.1 hw.2
  | .enum u, hw, _, _ => by
    simp only [wf] at hw
    exact get_enum m u hw
  | .other _, hw, _, _ => by simp [wf] at hw
  | .arr t n, hw, hl, hb => by
    simp only [wf, Bool.and_eq_true, decide_eq_true_eq] at hw
    simp only [lengthsFit, Bool.and_eq_true, decide_eq_true_eq] at hl
    simp only [size] at hb
    have hmod := roundUp_of_mod_zero (align_pos m t hw.2) (size_mod_align m t hw.2)
    rw [hmod] at hb
    have h1 : 1 * size m t ≤ n * size m t := Nat.mul_le_mul_right _ hw.1
    have g := get_total m t hw.2 hl.2 (by omega)
    simp only [Model.Layout.get, g]
    rw [array_ops_pinned]
    have hn : n ≤ u32Max := hl.1
    have hm : size m t * n ≤ u32Max := by rw [Nat.mul_comm]; exact hb
    simp only [hn, if_true, mulU32?, size, align, hmod, Nat.mul_comm, hb]
  | .struct .nil, _, _, _ => get_empty m
  | .struct (.cons t ts), hw, hl, hb => by
    simp only [wf] at hw
    simp only [lengthsFit] at hl
    simp only [size] at hb
    have r := @le_roundUp (endOf m (.cons t ts) 0) (alignMax m (.cons t ts)) (alignMax_pos m _)
    have g := getMembers_total m (.cons t ts) ⟨structInit.1, structInit.2⟩ hw hl
      (by show endOf m (.cons t ts) 0 ≤ u32Max; omega) (by decide)
    have ha : max (structInit.2) (alignMax m (.cons t ts)) = alignMax m (.cons t ts) := by
      have := alignMax_pos m (.cons t ts)
      show max 1 (alignMax m (.cons t ts)) = alignMax m (.cons t ts)
      omega
    simp only [Model.Layout.get, g]
    rw [final_ops_pinned]
    simp only [emptyFix_cons, ha]
    have e0 : structInit.1 = 0 := rfl
    rw [e0, nextMultipleOf?_succeeds (alignMax_pos m _) hb]
    rfl
theorem getMembers_total (m : Mode) : ∀ (ts : Tys) (acc : Layout), wfAll ts = true → lengthsFitAll ts = true →
    endOf m ts acc.size ≤ u32Max → 1 ≤ acc.align →
    getMembers m ts acc = .ok ⟨endOf m ts acc.size, max acc.align (alignMax m ts)⟩
  | .nil, acc, _, _, _, ha => by
    simp only [getMembers, endOf, alignMax]
    have : max acc.align 1 = acc.align := by omega
    rw [this]
  | .cons t ts, acc, hw, hl, hb, ha => by
    simp only [wfAll, Bool.and_eq_true] at hw
    simp only [lengthsFitAll, Bool.and_eq_true] at hl
    simp only [endOf] at hb
    have e1 := le_endOf m ts (roundUp acc.size (align m t) + size m t) hw.2
    have r1 := @le_roundUp acc.size (align m t) (align_pos m t hw.1)
    have g := get_total m t hw.1 hl.1 (by omega)
    have hstep := @memberStep_succeeds acc ⟨size m t, align m t⟩ (align_pos m t hw.1) (by simp only []; omega)
    have g2 := getMembers_total m ts
      ⟨roundUp acc.size (align m t) + size m t, max acc.align (align m t)⟩ hw.2 hl.2 hb (by simp only []; omega)
    simp only [getMembers, g]; rw [member_ops_pinned, hstep]
    simp only [g2, endOf, alignMax, Nat.max_assoc]
end

/-- the member loop body of `offsets_match` in the pinned source -/
def memberOff (lh lm : Layout) (rec : Except Err Bool) (ch cm : Nat) : Except Err Flow :=
  match nextMultipleOf? ch lh.align with
  | .error e => .error e
  | .ok oh =>
    match nextMultipleOf? cm lm.align with
    | .error e => .error e
    | .ok om =>
      if oh ≠ om then .ok (.ret false) else
      match rec with
      | .error e => .error e
      | .ok false => .ok (.ret false)
      | .ok true =>
        match addU32? oh lh.size with
        | .error e => .error e
        | .ok ch' =>
          match addU32? om lm.size with
          | .error e => .error e
          | .ok cm' => .ok (.next ⟨ch', cm', lh, lm⟩)

theorem member_off_pinned (lh lm d1 d2 : Layout) (rec : Except Err Bool) (ch cm : Nat) :
    runOff (.ok lh) (.ok lm) rec 0 offsetsMemberOps ⟨ch, cm, d1, d2⟩ = memberOff lh lm rec ch cm := by
  simp only [offsetsMemberOps, runOff, offStep, memberOff]
  cases nextMultipleOf? ch lh.align with
  | error e => rfl
  | ok oh =>
    simp only []
    cases nextMultipleOf? cm lm.align with
    | error e => rfl
    | ok om =>
      simp only []
      by_cases hne : oh = om
      · subst hne
        simp only [ne_eq, not_true_eq_false, if_false]
        cases rec with
        | error e => rfl
        | ok b =>
          cases b with
          | false => rfl
          | true =>
            simp only []
            cases addU32? oh lh.size with
            | error e => rfl
            | ok ch' =>
              simp only []
              cases addU32? oh lm.size with
              | error e => rfl
              | ok cm' => rfl
      · simp only [ne_eq, hne, not_false_eq_true, if_true]

/-- the array arm of `offsets_match` in the pinned source -/
def arrayOff (lh lm : Layout) (rec : Except Err Bool) (n : Nat) : Except Err Bool :=
  if n = 0 then .ok true else
  if n > 1 then
    match nextMultipleOf? lh.size lh.align with
    | .error e => .error e
    | .ok a =>
      match nextMultipleOf? lm.size lm.align with
      | .error e => .error e
      | .ok b => if a ≠ b then .ok false else rec
  else rec

theorem array_off_pinned (lh lm : Layout) (rec : Except Err Bool) (n : Nat) (s0 : OffSt) (hn : n ≠ 0) :
    runOff (.ok lh) (.ok lm) rec n offsetsArrayOps s0 =
      match arrayOff lh lm rec n with
      | .ok b => .ok (.ret b)
      | .error e => .error e := by
  simp only [offsetsArrayOps, runOff, offStep, arrayOff, hn, if_false]
  by_cases h1 : n > 1
  · simp only [h1, if_true]
    cases nextMultipleOf? lh.size lh.align with
    | error e => rfl
    | ok a =>
      simp only []
      cases nextMultipleOf? lm.size lm.align with
      | error e => rfl
      | ok b =>
        simp only []
        by_cases hne : a = b
        · simp only [hne, ne_eq, not_true_eq_false, if_false]
          cases rec <;> rfl
        · simp only [ne_eq, hne, not_false_eq_true, if_true]
  · simp only [h1, if_false]
    cases rec <;> rfl

theorem array_off_zero (gh gm : Except Err Layout) (rec : Except Err Bool) (s0 : OffSt) :
    runOff gh gm rec 0 offsetsArrayOps s0 = .ok (.ret true) := by
  simp only [offsetsArrayOps, runOff, offStep, if_true]

theorem member_off_errH (e : Err) (gm : Except Err Layout) (rec : Except Err Bool) (s0 : OffSt) :
    runOff (.error e) gm rec 0 offsetsMemberOps s0 = .error e := by
  simp only [offsetsMemberOps, runOff, offStep]

theorem member_off_errM (lh : Layout) (e : Err) (rec : Except Err Bool) (s0 : OffSt) :
    runOff (.ok lh) (.error e) rec 0 offsetsMemberOps s0 = .error e := by
  simp only [offsetsMemberOps, runOff, offStep]

theorem array_off_errH (e : Err) (gm : Except Err Layout) (rec : Except Err Bool) (n : Nat) (s0 : OffSt)
    (hn : n ≠ 0) : runOff (.error e) gm rec n offsetsArrayOps s0 = .error e := by
  simp only [offsetsArrayOps, runOff, offStep, hn, if_false]

theorem array_off_errM (lh : Layout) (e : Err) (rec : Except Err Bool) (n : Nat) (s0 : OffSt)
    (hn : n ≠ 0) : runOff (.ok lh) (.error e) rec n offsetsArrayOps s0 = .error e := by
  simp only [offsetsArrayOps, runOff, offStep, hn, if_false]

theorem memberOff_ret {lh lm : Layout} {rec : Except Err Bool} {ch cm : Nat} {b : Bool}
    (h : memberOff lh lm rec ch cm = .ok (.ret b)) : b = false := by
  unfold memberOff at h
  split at h
  · cases h
  · split at h
    · cases h
    · split at h
      · cases h; rfl
      · split at h
        · cases h
        · cases h; rfl
        · split at h
          · cases h
          · split at h <;> cases h

theorem memberOff_next {lh lm : Layout} {rec : Except Err Bool} {ch cm : Nat} {s : OffSt}
    (h : memberOff lh lm rec ch cm = .ok (.next s)) :
    ∃ o, nextMultipleOf? ch lh.align = .ok o ∧ nextMultipleOf? cm lm.align = .ok o ∧
      rec = .ok true ∧ addU32? o lh.size = .ok s.ch ∧ addU32? o lm.size = .ok s.cm := by
  unfold memberOff at h
  split at h
  · cases h
  · rename_i oh hoh
    split at h
    · cases h
    · rename_i om hom
      split at h
      · cases h
      · rename_i hne
        have heq : oh = om := Decidable.of_not_not hne
        subst heq
        split at h
        · cases h
        · cases h
        · rename_i hrec
          split at h
          · cases h
          · rename_i ch' hch'
            split at h
            · cases h
            · rename_i cm' hcm'
              cases h
              exact ⟨oh, hoh, hom, rfl, hch', hcm'⟩

theorem arrayOff_true {lh lm : Layout} {rec : Except Err Bool} {n : Nat} (hn : n ≠ 0)
    (h : arrayOff lh lm rec n = .ok true) :
    rec = .ok true ∧ (n ≤ 1 ∨ ∃ a, nextMultipleOf? lh.size lh.align = .ok a ∧
      nextMultipleOf? lm.size lm.align = .ok a) := by
  simp only [arrayOff, hn, if_false] at h
  split at h
  · split at h
    · cases h
    · rename_i a ha
      split at h
      · cases h
      · rename_i b hb
        split at h
        · cases h
        · rename_i hne
          have : a = b := Decidable.of_not_not hne
          subst this
          exact ⟨h, Or.inr ⟨a, ha, hb⟩⟩
  · exact ⟨h, Or.inl (by omega)⟩

mutual
theorem offsetsMatch_sound : ∀ t : Ty, wf t = true → offsetsMatch t = .ok true → agreeIn t = true
  | .scalar _, _, _ => rfl
  | .vec _ _, _, _ => rfl
  | .enum _, _, _ => rfl
  | .other _, _, _ => rfl
  | .struct ms, hw, h => by
    simp only [wf] at hw
    simp only [offsetsMatch] at h
    obtain ⟨o, g⟩ := offsetsMembers_sound ms 0 0 hw h
    simp only [agreeIn, Bool.and_eq_true, beq_iff_eq]
    exact ⟨o, g⟩
  | .arr t n, hw, h => by
    simp only [wf, Bool.and_eq_true, decide_eq_true_eq] at hw
    simp only [agreeIn, Bool.or_eq_true, Bool.and_eq_true, beq_iff_eq, decide_eq_true_eq]
    have hn : n ≠ 0 := by omega
    right
    simp only [offsetsMatch] at h
    cases gh : Model.Layout.get .hlsl t with
    | error e => rw [gh, array_off_errH e _ _ n _ hn] at h; cases h
    | ok lh =>
      cases gm : Model.Layout.get .metal t with
      | error e => rw [gh, gm, array_off_errM lh e _ n _ hn] at h; cases h
      | ok lm =>
        rw [gh, gm, array_off_pinned lh lm _ n _ hn] at h
        obtain ⟨sh, ah⟩ := get_spec .hlsl t lh hw.2 gh
        obtain ⟨sm, am⟩ := get_spec .metal t lm hw.2 gm
        cases hao : arrayOff lh lm (offsetsMatch t) n with
        | error e => rw [hao] at h; cases h
        | ok b =>
          rw [hao] at h
          cases h
          obtain ⟨hrec, hs⟩ := arrayOff_true hn hao
          refine ⟨?_, offsetsMatch_sound t hw.2 hrec⟩
          rcases hs with hs | ⟨a, ha, hb⟩
          · exact Or.inl hs
          · right
            have ea := (nextMultipleOf?_ok ha).2
            have eb := (nextMultipleOf?_ok hb).2
            simp only [stride]
            rw [← sh, ← sm, ← ah, ← am, ← ea, ← eb]
theorem offsetsMembers_sound : ∀ (ts : Tys) (ch cm : Nat), wfAll ts = true →
    offsetsMembers ts ch cm = .ok true →
    offsets .hlsl ts ch = offsets .metal ts cm ∧ agreeInAll ts = true
  | .nil, _, _, _, _ => ⟨rfl, rfl⟩
  | .cons t ts, ch, cm, hw, h => by
    simp only [wfAll, Bool.and_eq_true] at hw
    simp only [offsetsMembers] at h
    cases gh : Model.Layout.get .hlsl t with
    | error e => rw [gh, member_off_errH] at h; cases h
    | ok lh =>
      cases gm : Model.Layout.get .metal t with
      | error e => rw [gh, gm, member_off_errM] at h; cases h
      | ok lm =>
        rw [gh, gm, member_off_pinned] at h
        obtain ⟨sh, ah⟩ := get_spec .hlsl t lh hw.1 gh
        obtain ⟨sm, am⟩ := get_spec .metal t lm hw.1 gm
        cases hmo : memberOff lh lm (offsetsMatch t) ch cm with
        | error e => rw [hmo] at h; cases h
        | ok fl =>
          rw [hmo] at h
          cases fl with
          | ret b =>
            have := memberOff_ret hmo
            subst this
            cases h
          | next s =>
            simp only [] at h
            obtain ⟨o, hoh, hom, hrec, hch, hcm⟩ := memberOff_next hmo
            have eh := (nextMultipleOf?_ok hoh).2
            have em := (nextMultipleOf?_ok hom).2
            have c1 := addU32?_ok hch
            have c2 := addU32?_ok hcm
            obtain ⟨og, g⟩ := offsetsMembers_sound ts s.ch s.cm hw.2 h
            simp only [offsets, agreeInAll, Bool.and_eq_true]
            rw [← ah, ← am, ← eh, ← sh, ← sm, ← c1]
            rw [← em, ← c2, og]
            exact ⟨rfl, offsetsMatch_sound t hw.1 hrec, g⟩
end

theorem memberOff_succeeds {lh lm : Layout} {rec : Except Err Bool} {ch cm o a b : Nat}
    (h1 : nextMultipleOf? ch lh.align = .ok o) (h2 : nextMultipleOf? cm lm.align = .ok o)
    (h3 : rec = .ok true) (h4 : addU32? o lh.size = .ok a) (h5 : addU32? o lm.size = .ok b) :
    memberOff lh lm rec ch cm = .ok (.next ⟨a, b, lh, lm⟩) := by
  unfold memberOff
  simp only [h1, h2, h3, h4, h5, ne_eq, not_true_eq_false, if_false]

/-- the end of the last member never exceeds the struct's size -/
theorem endOf_le_size (m : Mode) (ms : Tys) : endOf m ms 0 ≤ size m (.struct ms) := by
  cases ms with
  | nil => simp [endOf]
  | cons t ts => simp only [size]; exact le_roundUp (alignMax_pos m _)

mutual
/-- `offsets_match` accepts whenever the two reference layouts place every field identically -/
theorem offsetsMatch_complete : ∀ t : Ty, wf t = true → lengthsFit t = true → size .hlsl t ≤ u32Max →
    size .metal t ≤ u32Max → agreeIn t = true → offsetsMatch t = .ok true
  | .scalar _, _, _, _, _, _ => rfl
  | .vec _ _, _, _, _, _, _ => rfl
  | .enum _, _, _, _, _, _ => rfl
  | .other _, _, _, _, _, _ => rfl
  | .struct ms, hw, hl, bh, bm, ha => by
    simp only [wf] at hw
    simp only [lengthsFit] at hl
    simp only [agreeIn, Bool.and_eq_true, beq_iff_eq] at ha
    have rh := endOf_le_size .hlsl ms
    have rm := endOf_le_size .metal ms
    simp only [offsetsMatch]
    exact offsetsMembers_complete ms 0 0 hw hl (by omega) (by omega) ha.1 ha.2
  | .arr t n, hw, hl, bh, bm, ha => by
    simp only [wf, Bool.and_eq_true, decide_eq_true_eq] at hw
    simp only [lengthsFit, Bool.and_eq_true, decide_eq_true_eq] at hl
    simp only [agreeIn, Bool.or_eq_true, Bool.and_eq_true, beq_iff_eq, decide_eq_true_eq] at ha
    have hn : n ≠ 0 := by omega
    rcases ha with h0 | ⟨hs, hin⟩
    · exact absurd h0 hn
    · simp only [size] at bh bm
      have mh := roundUp_of_mod_zero (align_pos .hlsl t hw.2) (size_mod_align .hlsl t hw.2)
      have mm := roundUp_of_mod_zero (align_pos .metal t hw.2) (size_mod_align .metal t hw.2)
      rw [mh] at bh
      rw [mm] at bm
      have h1 : 1 * size .hlsl t ≤ n * size .hlsl t := Nat.mul_le_mul_right _ hw.1
      have h2 : 1 * size .metal t ≤ n * size .metal t := Nat.mul_le_mul_right _ hw.1
      have gh := get_total .hlsl t hw.2 hl.2 (by omega)
      have gm := get_total .metal t hw.2 hl.2 (by omega)
      have hrec := offsetsMatch_complete t hw.2 hl.2 (by omega) (by omega) hin
      simp only [offsetsMatch, gh, gm]
      rw [array_off_pinned _ _ _ n _ hn]
      have : arrayOff ⟨size .hlsl t, align .hlsl t⟩ ⟨size .metal t, align .metal t⟩ (offsetsMatch t) n
          = .ok true := by
        simp only [arrayOff, hn, if_false, hrec]
        by_cases hgt : n > 1
        · simp only [hgt, if_true]
          have hst : stride .hlsl t = stride .metal t := by
            rcases hs with hs | hs
            · omega
            · exact hs
          simp only [stride, mh, mm] at hst
          rw [nextMultipleOf?_succeeds (align_pos _ t hw.2) (by rw [mh]; omega),
            nextMultipleOf?_succeeds (align_pos _ t hw.2) (by rw [mm]; omega)]
          rw [mh, mm]
          simp only [hst, ne_eq, not_true_eq_false, if_false]
        · simp only [hgt, if_false]
      rw [this]
theorem offsetsMembers_complete : ∀ (ts : Tys) (ch cm : Nat), wfAll ts = true → lengthsFitAll ts = true →
    endOf .hlsl ts ch ≤ u32Max → endOf .metal ts cm ≤ u32Max →
    offsets .hlsl ts ch = offsets .metal ts cm → agreeInAll ts = true →
    offsetsMembers ts ch cm = .ok true
  | .nil, _, _, _, _, _, _, _, _ => rfl
  | .cons t ts, ch, cm, hw, hl, bh, bm, ho, ha => by
    simp only [wfAll, Bool.and_eq_true] at hw
    simp only [lengthsFitAll, Bool.and_eq_true] at hl
    simp only [endOf] at bh bm
    simp only [offsets, List.cons.injEq] at ho
    simp only [agreeInAll, Bool.and_eq_true] at ha
    have eh := le_endOf .hlsl ts (roundUp ch (align .hlsl t) + size .hlsl t) hw.2
    have em := le_endOf .metal ts (roundUp cm (align .metal t) + size .metal t) hw.2
    have gh := get_total .hlsl t hw.1 hl.1 (by omega)
    have gm := get_total .metal t hw.1 hl.1 (by omega)
    have hrec := offsetsMatch_complete t hw.1 hl.1 (by omega) (by omega) ha.1
    have n1 := @nextMultipleOf?_succeeds ch (align .hlsl t) (align_pos _ t hw.1) (by omega)
    have n2 := @nextMultipleOf?_succeeds cm (align .metal t) (align_pos _ t hw.1) (by omega)
    rw [← ho.1] at n2
    have a1 := @addU32?_succeeds (roundUp ch (align .hlsl t)) (size .hlsl t) (by omega)
    have a2 := @addU32?_succeeds (roundUp ch (align .hlsl t)) (size .metal t) (by rw [ho.1]; omega)
    have hm := @memberOff_succeeds ⟨size .hlsl t, align .hlsl t⟩ ⟨size .metal t, align .metal t⟩
      (offsetsMatch t) ch cm _ _ _ n1 n2 hrec a1 a2
    simp only [offsetsMembers, gh, gm]
    rw [member_off_pinned, hm]
    simp only []
    have ih := offsetsMembers_complete ts _ _ hw.2 hl.2 bh bm ho.2 ha.2
    rw [← ho.1] at ih
    exact ih
end

theorem memberOff_eval {lh lm : Layout} {b : Bool} {ch cm oh om x y : Nat}
    (h1 : nextMultipleOf? ch lh.align = .ok oh) (h2 : nextMultipleOf? cm lm.align = .ok om)
    (h4 : addU32? oh lh.size = .ok x) (h5 : addU32? om lm.size = .ok y) :
    memberOff lh lm (.ok b) ch cm =
      if oh ≠ om then .ok (.ret false) else if b then .ok (.next ⟨x, y, lh, lm⟩) else .ok (.ret false) := by
  unfold memberOff
  simp only [h1, h2]
  by_cases hne : oh = om
  · simp only [hne, ne_eq, not_true_eq_false, if_false]
    cases b
    · simp
    · subst hne; simp only [h4, h5, if_true]
  · simp only [ne_eq, hne, not_false_eq_true, if_true]

mutual
/-- `offsets_match` neither panics nor returns `None` on a type of the grid whose sizes fit `u32` -/
theorem offsetsMatch_total : ∀ t : Ty, wf t = true → lengthsFit t = true → size .hlsl t ≤ u32Max →
    size .metal t ≤ u32Max → ∃ b, offsetsMatch t = .ok b
  | .scalar _, _, _, _, _ => ⟨true, rfl⟩
  | .vec _ _, _, _, _, _ => ⟨true, rfl⟩
  | .enum _, _, _, _, _ => ⟨true, rfl⟩
  | .other _, _, _, _, _ => ⟨true, rfl⟩
  | .struct ms, hw, hl, bh, bm => by
    simp only [wf] at hw
    simp only [lengthsFit] at hl
    have rh := endOf_le_size .hlsl ms
    have rm := endOf_le_size .metal ms
    simp only [offsetsMatch]
    exact offsetsMembers_total ms 0 0 hw hl (by omega) (by omega)
  | .arr t n, hw, hl, bh, bm => by
    simp only [wf, Bool.and_eq_true, decide_eq_true_eq] at hw
    simp only [lengthsFit, Bool.and_eq_true, decide_eq_true_eq] at hl
    have hn : n ≠ 0 := by omega
    simp only [size] at bh bm
    have mh := roundUp_of_mod_zero (align_pos .hlsl t hw.2) (size_mod_align .hlsl t hw.2)
    have mm := roundUp_of_mod_zero (align_pos .metal t hw.2) (size_mod_align .metal t hw.2)
    rw [mh] at bh
    rw [mm] at bm
    have h1 : 1 * size .hlsl t ≤ n * size .hlsl t := Nat.mul_le_mul_right _ hw.1
    have h2 : 1 * size .metal t ≤ n * size .metal t := Nat.mul_le_mul_right _ hw.1
    have gh := get_total .hlsl t hw.2 hl.2 (by omega)
    have gm := get_total .metal t hw.2 hl.2 (by omega)
    obtain ⟨b, hrec⟩ := offsetsMatch_total t hw.2 hl.2 (by omega) (by omega)
    simp only [offsetsMatch, gh, gm]
    rw [array_off_pinned _ _ _ n _ hn]
    have : ∃ c, arrayOff ⟨size .hlsl t, align .hlsl t⟩ ⟨size .metal t, align .metal t⟩ (offsetsMatch t) n
        = .ok c := by
      simp only [arrayOff, hn, if_false, hrec]
      by_cases hgt : n > 1
      · simp only [hgt, if_true]
        rw [nextMultipleOf?_succeeds (align_pos _ t hw.2) (by rw [mh]; omega),
          nextMultipleOf?_succeeds (align_pos _ t hw.2) (by rw [mm]; omega)]
        simp only []
        split <;> exact ⟨_, rfl⟩
      · simp only [hgt, if_false]; exact ⟨_, rfl⟩
    obtain ⟨c, hc⟩ := this
    rw [hc]; exact ⟨c, rfl⟩
theorem offsetsMembers_total : ∀ (ts : Tys) (ch cm : Nat), wfAll ts = true → lengthsFitAll ts = true →
    endOf .hlsl ts ch ≤ u32Max → endOf .metal ts cm ≤ u32Max → ∃ b, offsetsMembers ts ch cm = .ok b
  | .nil, _, _, _, _, _, _ => ⟨true, rfl⟩
  | .cons t ts, ch, cm, hw, hl, bh, bm => by
    simp only [wfAll, Bool.and_eq_true] at hw
    simp only [lengthsFitAll, Bool.and_eq_true] at hl
    simp only [endOf] at bh bm
    have eh := le_endOf .hlsl ts (roundUp ch (align .hlsl t) + size .hlsl t) hw.2
    have em := le_endOf .metal ts (roundUp cm (align .metal t) + size .metal t) hw.2
    have gh := get_total .hlsl t hw.1 hl.1 (by omega)
    have gm := get_total .metal t hw.1 hl.1 (by omega)
    obtain ⟨b, hrec⟩ := offsetsMatch_total t hw.1 hl.1 (by omega) (by omega)
    have n1 := @nextMultipleOf?_succeeds ch (align .hlsl t) (align_pos _ t hw.1) (by omega)
    have n2 := @nextMultipleOf?_succeeds cm (align .metal t) (align_pos _ t hw.1) (by omega)
    have a1 := @addU32?_succeeds (roundUp ch (align .hlsl t)) (size .hlsl t) (by omega)
    have a2 := @addU32?_succeeds (roundUp cm (align .metal t)) (size .metal t) (by omega)
    have hm := @memberOff_eval ⟨size .hlsl t, align .hlsl t⟩ ⟨size .metal t, align .metal t⟩ b
      ch cm _ _ _ _ n1 n2 a1 a2
    simp only [offsetsMembers, gh, gm]
    rw [member_off_pinned, hrec, hm]
    by_cases hne : roundUp ch (align .hlsl t) = roundUp cm (align .metal t)
    · cases b
      · simp only [hne, ne_eq, not_true_eq_false, if_false, Bool.false_eq_true]
        exact ⟨false, rfl⟩
      · simp only [hne, ne_eq, not_true_eq_false, if_false, if_true]
        exact offsetsMembers_total ts _ _ hw.2 hl.2 (by rw [hne] at bh; exact bh) bm
    · simp only [ne_eq, hne, not_false_eq_true, if_true]
      exact ⟨false, rfl⟩
end

/-! ### `check_layout`'s loop body -/

/-- what `checkOne` computes when it does not fail -/
theorem checkOne_ok {t : Ty} {r : Option (Layout × Layout)} (h : checkOne t = .ok r) :
    ∃ lh lm zh zm same, get .hlsl t = .ok lh ∧ get .metal t = .ok lm ∧
      nextMultipleOf lh.size lh.align = .ok zh ∧ nextMultipleOf lm.size lm.align = .ok zm ∧
      offsetsMatch t = .ok same ∧
      r = if zh ≠ zm ∨ same = false then some (⟨zh, lh.align⟩, ⟨zm, lm.align⟩) else none := by
  unfold checkOne at h
  split at h
  · cases h
  · rename_i lh hlh
    split at h
    · cases h
    · rename_i lm hlm
      rw [top_ops_pinned, top_ops_pinned] at h
      cases hzh : nextMultipleOf lh.size lh.align with
      | error e => rw [hzh] at h; cases h
      | ok zh =>
        cases hzm : nextMultipleOf lm.size lm.align with
        | error e => rw [hzh, hzm] at h; cases h
        | ok zm =>
          rw [hzh, hzm] at h
          have hom : hasOffsetsMatch = true := rfl
          simp only [hom, if_true] at h
          cases hsame : offsetsMatch t with
          | error e => rw [hsame] at h; cases h
          | ok same =>
            rw [hsame] at h
            refine ⟨lh, lm, zh, zm, same, hlh, hlm, hzh, hzm, rfl, ?_⟩
            simp only [differs, checkCompare, Bool.or_eq_true, bne_iff_ne, Bool.not_eq_true'] at h
            by_cases hc : zh ≠ zm ∨ same = false
            · simp only [hc, if_true] at h ⊢; cases h; rfl
            · simp only [hc, if_false] at h ⊢; cases h; rfl

/-- **the loop body decides exactly `Agree`, and on rejection reports the reference layouts** -/
theorem checkOne_spec {t : Ty} {r : Option (Layout × Layout)} (hw : wf t = true)
    (h : checkOne t = .ok r) :
    (r = none → Agree t) ∧
    (∀ lh lm, r = some (lh, lm) →
      lh = ⟨size .hlsl t, align .hlsl t⟩ ∧ lm = ⟨size .metal t, align .metal t⟩) := by
  obtain ⟨lh, lm, zh, zm, same, g1, g2, n1, n2, hs, rfl⟩ := checkOne_ok h
  obtain ⟨s1, a1⟩ := get_spec .hlsl t lh hw g1
  obtain ⟨s2, a2⟩ := get_spec .metal t lm hw g2
  have p1 : 0 < lh.align := by rw [a1]; exact align_pos _ t hw
  have p2 : 0 < lm.align := by rw [a2]; exact align_pos _ t hw
  have e1 := nextMultipleOf_ok p1 n1
  have e2 := nextMultipleOf_ok p2 n2
  rw [s1, a1, roundUp_of_mod_zero (align_pos _ t hw) (size_mod_align _ t hw)] at e1
  rw [s2, a2, roundUp_of_mod_zero (align_pos _ t hw) (size_mod_align _ t hw)] at e2
  constructor
  · intro hr
    split at hr
    · cases hr
    · rename_i hc
      have hz : zh = zm := by
        apply Decidable.of_not_not; intro hne; exact hc (Or.inl hne)
      have hsame : same = true := by
        cases same
        · exact absurd (Or.inr rfl) hc
        · rfl
      subst hsame
      exact ⟨by rw [← e1, ← e2, hz], offsetsMatch_sound t hw hs⟩
  · intro lh' lm' hr
    split at hr
    · cases hr; rw [e1, e2, a1, a2]; exact ⟨rfl, rfl⟩
    · cases hr

/-- no panic, no "unknown size" on the grid -/
theorem checkOne_total (t : Ty) (hw : wf t = true) (hh : size .hlsl t ≤ u32Max)
    (hm : size .metal t ≤ u32Max) : ∃ r, checkOne t = .ok r := by
  have hl := lengthsFit_of_metal t hw hm
  have g1 := get_total .hlsl t hw hl hh
  have g2 := get_total .metal t hw hl hm
  have p1 := align_pos .hlsl t hw
  have p2 := align_pos .metal t hw
  have m1 := roundUp_of_mod_zero p1 (size_mod_align _ t hw)
  have m2 := roundUp_of_mod_zero p2 (size_mod_align _ t hw)
  obtain ⟨b, hb⟩ := offsetsMatch_total t hw hl hh hm
  unfold checkOne
  simp only [g1, g2]
  rw [top_ops_pinned, top_ops_pinned, nextMultipleOf_succeeds p1 (by rw [m1]; exact hh),
    nextMultipleOf_succeeds p2 (by rw [m2]; exact hm)]
  have hom : hasOffsetsMatch = true := rfl
  simp only [hom, if_true, hb]
  split <;> exact ⟨_, rfl⟩

/-- **no false rejection**: a type whose reference layouts agree is accepted -/
theorem checkOne_complete (t : Ty) (hw : wf t = true) (hh : size .hlsl t ≤ u32Max)
    (hm : size .metal t ≤ u32Max) (ha : Agree t) : checkOne t = .ok none := by
  obtain ⟨r, hr⟩ := checkOne_total t hw hh hm
  obtain ⟨lh, lm, zh, zm, same, g1, g2, n1, n2, hs, rfl⟩ := checkOne_ok hr
  have hc := offsetsMatch_complete t hw (lengthsFit_of_metal t hw hm) hh hm ha.2
  rw [hc] at hs; cases hs
  obtain ⟨s1, a1⟩ := get_spec .hlsl t lh hw g1
  obtain ⟨s2, a2⟩ := get_spec .metal t lm hw g2
  have e1 := nextMultipleOf_ok (by rw [a1]; exact align_pos _ t hw) n1
  have e2 := nextMultipleOf_ok (by rw [a2]; exact align_pos _ t hw) n2
  rw [s1, a1, roundUp_of_mod_zero (align_pos _ t hw) (size_mod_align _ t hw)] at e1
  rw [s2, a2, roundUp_of_mod_zero (align_pos _ t hw) (size_mod_align _ t hw)] at e2
  rw [hr]
  have : ¬ (zh ≠ zm ∨ true = false) := by
    rw [e1, e2, ha.1]; simp
  simp only [this, if_false]

theorem checkFrom_mismatch : ∀ (ts : List Ty) (i j : Nat) (lh lm : Layout),
    checkFrom i ts = .mismatch j lh lm →
    ∃ t, ts[j - i]? = some t ∧ i ≤ j ∧ checkOne t = .ok (some (lh, lm))
  | [], _, _, _, _, h => by simp [checkFrom] at h
  | t :: ts, i, j, lh, lm, h => by
    unfold checkFrom at h
    split at h
    · cases h
    · cases h
    · rename_i a b hc
      cases h
      exact ⟨t, by simp, Nat.le_refl _, hc⟩
    · obtain ⟨u, hu, hle, hc⟩ := checkFrom_mismatch ts (i + 1) j lh lm h
      refine ⟨u, ?_, by omega, hc⟩
      have : j - i = (j - (i + 1)) + 1 := by omega
      rw [this]; simpa using hu

/-! ### no panic site is left on the grid (since /repo 24ea36f the overflow sites return `None`) -/

/-- the computation does not end in a panic -/
def NoPanic {α : Type} (x : Except Err α) : Prop := ∀ msg, x ≠ .error (.panic msg)

theorem noPanic_ok {α : Type} (a : α) : NoPanic (.ok a : Except Err α) := by intro msg h; cases h
theorem noPanic_unknown {α : Type} : NoPanic (.error .unknown : Except Err α) := by intro msg h; cases h

theorem memberStep_noPanic (acc ml : Layout) : NoPanic (memberStep acc ml) := by
  intro msg h
  unfold memberStep at h
  split at h
  · rename_i e he; cases h; exact nextMultipleOf?_no_panic he
  · split at h
    · rename_i e he; cases h; exact addU32?_no_panic he
    · cases h

mutual
theorem get_noPanic (m : Mode) : ∀ t : Ty, wf t = true → NoPanic (get m t)
  | .scalar s, hw => by
    simp only [wf] at hw
    rw [get_scalar m s hw]; exact noPanic_ok _
  | .vec s n, hw => by
    simp only [wf, Bool.and_eq_true, decide_eq_true_eq] at hw
    rw [get_vec m s n hw.1 hw.2]; exact noPanic_ok _
  | .enum u, hw => by
    simp only [wf] at hw
    rw [get_enum m u hw]; exact noPanic_ok _
  | .other _, hw => by simp [wf] at hw
  | .arr t n, hw => by
    simp only [wf, Bool.and_eq_true, decide_eq_true_eq] at hw
    have ih := get_noPanic m t hw.2
    intro msg h
    simp only [Model.Layout.get] at h
    split at h
    · rename_i e he; cases h; exact ih msg he
    · rw [array_ops_pinned] at h
      split at h
      · split at h
        · cases h
        · rename_i e he; cases h; exact mulU32?_no_panic he
      · cases h
  | .struct .nil, _ => by rw [get_empty]; exact noPanic_ok _
  | .struct (.cons t ts), hw => by
    simp only [wf] at hw
    have ih := getMembers_noPanic m (.cons t ts) ⟨structInit.1, structInit.2⟩ hw
    intro msg h
    simp only [Model.Layout.get] at h
    split at h
    · rename_i e he; cases h; exact ih msg he
    · rw [final_ops_pinned] at h
      split at h
      · cases h
      · rename_i e he; cases h; exact nextMultipleOf?_no_panic he
theorem getMembers_noPanic (m : Mode) : ∀ (ts : Tys) (acc : Layout), wfAll ts = true →
    NoPanic (getMembers m ts acc)
  | .nil, acc, _ => by simp only [getMembers]; exact noPanic_ok _
  | .cons t ts, acc, hw => by
    simp only [wfAll, Bool.and_eq_true] at hw
    have iht := get_noPanic m t hw.1
    intro msg h
    simp only [getMembers] at h
    split at h
    · rename_i e he; cases h; exact iht msg he
    · rw [member_ops_pinned] at h
      split at h
      · rename_i e he; cases h; exact memberStep_noPanic _ _ msg he
      · rename_i acc' _
        exact getMembers_noPanic m ts acc' hw.2 msg h
end

theorem memberOff_noPanic (lh lm : Layout) (rec : Except Err Bool) (ch cm : Nat) (hr : NoPanic rec) :
    NoPanic (memberOff lh lm rec ch cm) := by
  intro msg h
  unfold memberOff at h
  split at h
  · rename_i e he; cases h; exact nextMultipleOf?_no_panic he
  · split at h
    · rename_i e he; cases h; exact nextMultipleOf?_no_panic he
    · split at h
      · cases h
      · split at h
        · rename_i e; cases h; exact hr msg rfl
        · cases h
        · split at h
          · rename_i e he; cases h; exact addU32?_no_panic he
          · split at h
            · rename_i e he; cases h; exact addU32?_no_panic he
            · cases h

theorem arrayOff_noPanic (lh lm : Layout) (rec : Except Err Bool) (n : Nat) (hr : NoPanic rec) :
    NoPanic (arrayOff lh lm rec n) := by
  intro msg h
  unfold arrayOff at h
  split at h
  · cases h
  · split at h
    · split at h
      · rename_i e he; cases h; exact nextMultipleOf?_no_panic he
      · split at h
        · rename_i e he; cases h; exact nextMultipleOf?_no_panic he
        · split at h
          · cases h
          · exact hr msg h
    · exact hr msg h

mutual
theorem offsetsMatch_noPanic : ∀ t : Ty, wf t = true → NoPanic (offsetsMatch t)
  | .scalar _, _ => noPanic_ok _
  | .vec _ _, _ => noPanic_ok _
  | .enum _, _ => noPanic_ok _
  | .other _, _ => noPanic_ok _
  | .struct ms, hw => by
    simp only [wf] at hw
    simp only [offsetsMatch]
    exact offsetsMembers_noPanic ms _ _ hw
  | .arr t n, hw => by
    simp only [wf, Bool.and_eq_true, decide_eq_true_eq] at hw
    have hn : n ≠ 0 := by omega
    have ih := offsetsMatch_noPanic t hw.2
    intro msg h
    simp only [offsetsMatch] at h
    cases gh : Model.Layout.get .hlsl t with
    | error e =>
      rw [gh, array_off_errH e _ _ n _ hn] at h
      cases h; exact get_noPanic .hlsl t hw.2 msg gh
    | ok lh =>
      cases gm : Model.Layout.get .metal t with
      | error e =>
        rw [gh, gm, array_off_errM lh e _ n _ hn] at h
        cases h; exact get_noPanic .metal t hw.2 msg gm
      | ok lm =>
        rw [gh, gm, array_off_pinned lh lm _ n _ hn] at h
        cases hao : arrayOff lh lm (offsetsMatch t) n with
        | error e => rw [hao] at h; cases h; exact arrayOff_noPanic lh lm _ n ih msg hao
        | ok b => rw [hao] at h; cases h
theorem offsetsMembers_noPanic : ∀ (ts : Tys) (ch cm : Nat), wfAll ts = true →
    NoPanic (offsetsMembers ts ch cm)
  | .nil, _, _, _ => noPanic_ok _
  | .cons t ts, ch, cm, hw => by
    simp only [wfAll, Bool.and_eq_true] at hw
    have iht := offsetsMatch_noPanic t hw.1
    intro msg h
    simp only [offsetsMembers] at h
    cases gh : Model.Layout.get .hlsl t with
    | error e =>
      rw [gh, member_off_errH] at h
      cases h; exact get_noPanic .hlsl t hw.1 msg gh
    | ok lh =>
      cases gm : Model.Layout.get .metal t with
      | error e =>
        rw [gh, gm, member_off_errM] at h
        cases h; exact get_noPanic .metal t hw.1 msg gm
      | ok lm =>
        rw [gh, gm, member_off_pinned] at h
        cases hmo : memberOff lh lm (offsetsMatch t) ch cm with
        | error e => rw [hmo] at h; cases h; exact memberOff_noPanic lh lm _ ch cm iht msg hmo
        | ok fl =>
          rw [hmo] at h
          cases fl with
          | ret b => cases h
          | next s => exact offsetsMembers_noPanic ts s.ch s.cm hw.2 msg h
end

/-- **no panic on the grid, whatever the sizes**: every overflow site of `get_type_layout` / `offsets_match`
    returns `None`, the unchecked rounding of `check_layout` itself cannot overflow (a size is a multiple of its
    alignment) -/
theorem checkOne_noPanic (t : Ty) (hw : wf t = true) : NoPanic (checkOne t) := by
  intro msg h
  unfold checkOne at h
  split at h
  · rename_i e he; cases h; exact get_noPanic .hlsl t hw msg he
  · rename_i lh hlh
    split at h
    · rename_i e he; cases h; exact get_noPanic .metal t hw msg he
    · rename_i lm hlm
      obtain ⟨s1, a1⟩ := get_spec .hlsl t lh hw hlh
      obtain ⟨s2, a2⟩ := get_spec .metal t lm hw hlm
      have p1 := align_pos .hlsl t hw
      have p2 := align_pos .metal t hw
      have n1 : nextMultipleOf lh.size lh.align = .ok lh.size := by
        rw [s1, a1]
        unfold nextMultipleOf
        have hb : align .hlsl t ≠ 0 := by omega
        simp only [hb, if_false, size_mod_align _ t hw, if_true]
      have n2 : nextMultipleOf lm.size lm.align = .ok lm.size := by
        rw [s2, a2]
        unfold nextMultipleOf
        have hb : align .metal t ≠ 0 := by omega
        simp only [hb, if_false, size_mod_align _ t hw, if_true]
      rw [top_ops_pinned, top_ops_pinned, n1, n2] at h
      have hom : hasOffsetsMatch = true := rfl
      simp only [hom, if_true] at h
      split at h
      · rename_i e he; cases h; exact offsetsMatch_noPanic t hw msg he
      · split at h <;> cases h

theorem checkFrom_noPanic : ∀ (ts : List Ty) (i : Nat), (∀ t ∈ ts, wf t = true) → ∀ msg, checkFrom i ts ≠ .panic msg
  | [], _, _, msg => by simp [checkFrom]
  | t :: ts, i, hw, msg => by
    intro h
    unfold checkFrom at h
    split at h
    · cases h
    · rename_i m' hc
      cases h
      exact checkOne_noPanic t (hw t (List.mem_cons_self ..)) _ hc
    · cases h
    · exact checkFrom_noPanic ts (i + 1) (fun u hu => hw u (List.mem_cons_of_mem _ hu)) msg h

end RsslVerif.Lemmas.Layout

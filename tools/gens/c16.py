"""Translator plugin for C16 (also used by C03 later): Gen.RankTable

Re-extracted from /repo on every run:
  ir/src/ir_types.rs     enum ScalarType, enum NumericDimension
  ir/src/value_types.rs  InputModifier -> ValueType
  typer/src/casting.rs   enum NumericRank, NumericRank::order, NumericRank::compare (the (bool,bool) match),
                         enum VectorRank, VectorRank::worst_to_best, the `(source_scalar, dest_scalar)` rank match of
                         ImplicitConversion::find, the DimensionCast -> VectorRank match of get_rank
"""
import re


def register(gen, T):
    from rustsrc import (ExtractError, fn_body, impl_fn_body, enum_variants, first_match, match_arms,
                         split_top, normws, lean_str)

    def lower(name):
        return name[0].lower() + name[1:]

    @gen("RankTable")
    def rank_table():
        ir_types = T.src("ir/src/ir_types.rs")
        value_types = T.src("ir/src/value_types.rs")
        casting = T.src("typer/src/casting.rs")
        out = [T.header("RankTable", ["ir/src/ir_types.rs", "ir/src/value_types.rs", "typer/src/casting.rs"])]

        # ---------------------------------------------------------------- ScalarType
        scalars = enum_variants(ir_types, "ScalarType")
        if any(payload for _, payload in scalars):
            raise ExtractError("ScalarType has a variant with a payload")
        scalars = [v for v, _ in scalars]
        out.append("/-- `ir::ScalarType` -/\ninductive Scalar where\n" + "".join(f"  | {lower(s)}\n" for s in scalars) +
                   "  deriving DecidableEq, Repr, Inhabited\n\n")
        out.append("def Scalar.all : List Scalar := " + T.lean_list("." + lower(s) for s in scalars) + "\n\n")
        out.append("def Scalar.name : Scalar → String\n" +
                   "".join(f"  | .{lower(s)} => {lean_str(s)}\n" for s in scalars) + "\n")
        out.append("def Scalar.ofName? (s : String) : Option Scalar := Scalar.all.find? (fun k => k.name == s)\n\n")

        # ---------------------------------------------------------------- NumericDimension
        dims = enum_variants(ir_types, "NumericDimension")
        if [(v, normws(p)) for v, p in dims] != [("Scalar", ""), ("Vector", "(u32)"), ("Matrix", "(u32, u32)")]:
            raise ExtractError(f"NumericDimension is {dims!r}, expected Scalar | Vector(u32) | Matrix(u32, u32)")
        out.append("/-- `ir::NumericDimension` -/\ninductive Dim where\n  | scalar\n  | vector (n : Nat)\n  | matrix (x y : Nat)\n"
                   "  deriving DecidableEq, Repr, Inhabited\n\n")

        # ---------------------------------------------------------------- InputModifier -> ValueType
        body = impl_fn_body(value_types, r'From<InputModifier>\s+for\s+ValueType', "from")
        _, arms_text, _ = first_match(body, r'^im$')
        lval, rval = set(), set()
        for pats, guard, result in match_arms(arms_text):
            if guard is not None:
                raise ExtractError("InputModifier->ValueType: guard unsupported")
            for p in pats:
                m = re.fullmatch(r'InputModifier::(In|Out|InOut)', p)
                if not m:
                    raise ExtractError(f"InputModifier->ValueType: pattern {p!r}")
                if result == "ValueType::Lvalue":
                    lval.add(m.group(1))
                elif result == "ValueType::Rvalue":
                    rval.add(m.group(1))
                else:
                    raise ExtractError(f"InputModifier->ValueType: result {result!r}")
        if lval | rval != {"In", "Out", "InOut"}:
            raise ExtractError("InputModifier->ValueType: not all of In/Out/InOut covered")
        out.append("/-- `ir::InputModifier` -/\ninductive InputModifier where | «in» | out | inOut\n"
                   "  deriving DecidableEq, Repr, Inhabited\n\n")
        lname = {"In": "«in»", "Out": "out", "InOut": "inOut"}
        out.append("/-- `impl From<InputModifier> for ValueType`: `true` = the parameter needs an lvalue -/\n"
                   "def InputModifier.needsLvalue : InputModifier → Bool\n" +
                   "".join(f"  | .{lname[k]} => {'true' if k in lval else 'false'}\n" for k in ["In", "Out", "InOut"]) + "\n")

        # ---------------------------------------------------------------- NumericRank + order
        ranks = enum_variants(casting, "NumericRank")
        if any(p for _, p in ranks):
            raise ExtractError("NumericRank has a variant with a payload")
        ranks = [v for v, _ in ranks]
        out.append("/-- `casting::NumericRank` -/\ninductive NumRank where\n" + "".join(f"  | {lower(r)}\n" for r in ranks) +
                   "  deriving DecidableEq, Repr, Inhabited\n\n")
        out.append("def NumRank.all : List NumRank := " + T.lean_list("." + lower(r) for r in ranks) + "\n\n")
        out.append("def NumRank.name : NumRank → String\n" +
                   "".join(f"  | .{lower(r)} => {lean_str(r)}\n" for r in ranks) + "\n")
        body = impl_fn_body(casting, r'NumericRank', "order")
        _, arms_text, _ = first_match(body, r'^\*?self$')
        seen = {}
        for pats, guard, result in match_arms(arms_text):
            if guard is not None or not re.fullmatch(r'\d+', result):
                raise ExtractError(f"NumericRank::order arm {pats} => {result!r} unsupported")
            for p in pats:
                m = re.fullmatch(r'NumericRank::([A-Za-z]+)', p)
                if not m or m.group(1) not in ranks:
                    raise ExtractError(f"NumericRank::order pattern {p!r}")
                seen.setdefault(m.group(1), result)
        if set(seen) != set(ranks):
            raise ExtractError("NumericRank::order does not cover every rank")
        out.append("/-- `NumericRank::order` -/\ndef NumRank.order : NumRank → Nat\n" +
                   "".join(f"  | .{lower(r)} => {seen[r]}\n" for r in ranks) + "\n")

        # ---------------------------------------------------------------- NumericRank::compare
        body = impl_fn_body(casting, r'NumericRank', "compare")
        if not re.search(r'let\s+my_order\s*=\s*self\.order\(\)\s*;', body) or \
                not re.search(r'let\s+other_order\s*=\s*other\.order\(\)\s*;', body):
            raise ExtractError("NumericRank::compare: my_order/other_order bindings not found")
        scrut, arms_text, _ = first_match(body)
        if normws(scrut) != "(my_order < other_order, my_order <= other_order)":
            raise ExtractError(f"NumericRank::compare scrutinee {scrut!r}")
        prios = [v for v, _ in enum_variants(casting, "ConversionPriority")]
        out.append("/-- `casting::ConversionPriority` -/\ninductive Priority where\n" + "".join(f"  | {lower(p)}\n" for p in prios) +
                   "  deriving DecidableEq, Repr, Inhabited\n\n")
        table = {}
        for pats, guard, result in match_arms(arms_text):
            if guard is not None:
                raise ExtractError("compare: guard unsupported")
            for p in pats:
                m = re.fullmatch(r'\((true|false), (true|false)\)', p)
                if not m:
                    raise ExtractError(f"compare: pattern {p!r}")
                rm = re.fullmatch(r'ConversionPriority::([A-Za-z]+)', result)
                if rm and rm.group(1) in prios:
                    val = f"some .{lower(rm.group(1))}"
                elif result == "unreachable!()":
                    val = "none"
                else:
                    raise ExtractError(f"compare: result {result!r}")
                table.setdefault((m.group(1), m.group(2)), val)
        if len(table) != 4:
            raise ExtractError("compare: the (bool, bool) match is not exhaustive")
        out.append("/-- the `match (my_order < other_order, my_order <= other_order)` of `NumericRank::compare`;\n"
                   "    `none` = the `unreachable!()` arm -/\n"
                   "def compareTable : Bool → Bool → Option Priority\n" +
                   "".join(f"  | {a}, {b} => {table[(a, b)]}\n" for a in ("false", "true") for b in ("false", "true")) + "\n")
        out.append("/-- `NumericRank::compare` (`none` = panic) -/\n"
                   "def NumRank.compare (a b : NumRank) : Option Priority :=\n"
                   "  compareTable (decide (a.order < b.order)) (decide (a.order ≤ b.order))\n\n")

        # ---------------------------------------------------------------- VectorRank + worst_to_best
        vranks = enum_variants(casting, "VectorRank")
        if any(p for _, p in vranks):
            raise ExtractError("VectorRank has a variant with a payload")
        vranks = [v for v, _ in vranks]
        out.append("/-- `casting::VectorRank` -/\ninductive VecRank where\n" + "".join(f"  | {lower(r)}\n" for r in vranks) +
                   "  deriving DecidableEq, Repr, Inhabited\n\n")
        out.append("def VecRank.all : List VecRank := " + T.lean_list("." + lower(r) for r in vranks) + "\n\n")
        out.append("def VecRank.name : VecRank → String\n" +
                   "".join(f"  | .{lower(r)} => {lean_str(r)}\n" for r in vranks) + "\n")
        body = impl_fn_body(casting, r'VectorRank', "worst_to_best")
        m = re.search(r'const\s+PRIO\s*:\s*&\[VectorRank\]\s*=\s*&\[([^\]]*)\]\s*;\s*PRIO\s*$', body.strip())
        if not m:
            raise ExtractError("VectorRank::worst_to_best: `const PRIO: &[VectorRank] = &[..]; PRIO` not found")
        prio = []
        for item in split_top(m.group(1), ','):
            item = item.strip()
            if not item:
                continue
            im = re.fullmatch(r'VectorRank::([A-Za-z]+)', item)
            if not im or im.group(1) not in vranks:
                raise ExtractError(f"worst_to_best item {item!r}")
            prio.append(im.group(1))
        out.append("/-- `VectorRank::worst_to_best` -/\ndef VecRank.worstToBest : List VecRank := " +
                   T.lean_list("." + lower(r) for r in prio) + "\n\n")

        # ---------------------------------------------------------------- (source_scalar, dest_scalar) rank match
        fbody = impl_fn_body(casting, r'ImplicitConversion', "find")
        m = re.search(r'let\s+rank\s*=\s*', fbody)
        if not m:
            raise ExtractError("find: `let rank = match (source_scalar, dest_scalar)` not found")
        scrut, arms_text, _ = first_match(fbody, None, m.end() - 1)
        if normws(scrut) != "(source_scalar, dest_scalar)":
            raise ExtractError(f"find: rank scrutinee {scrut!r}")
        table = {}
        for pats, guard, result in match_arms(arms_text):
            if guard is not None or len(pats) != 1:
                raise ExtractError(f"find rank match: arm {pats} unsupported")
            pm = re.fullmatch(r'\(([A-Za-z0-9]+), dest\)', pats[0])
            if not pm or pm.group(1) not in scalars:
                raise ExtractError(f"find rank match: outer pattern {pats[0]!r}")
            src_s = pm.group(1)
            iscrut, inner, _ = first_match(result, r'^dest$')
            if not result.startswith("match dest"):
                raise ExtractError(f"find rank match: arm for {src_s} is not `match dest`")
            for ipats, iguard, iresult in match_arms(inner):
                if iguard is not None:
                    raise ExtractError("find rank match: inner guard unsupported")
                iresult = iresult.strip("{} ")
                rm = re.fullmatch(r'NumericRank::([A-Za-z]+)', iresult)
                if rm and rm.group(1) in ranks:
                    val = f"some .{lower(rm.group(1))}"
                elif iresult == "unreachable!()":
                    val = "none"
                else:
                    raise ExtractError(f"find rank match: result {iresult!r}")
                for p in ipats:
                    if p not in scalars:
                        raise ExtractError(f"find rank match: inner pattern {p!r}")
                    if (src_s, p) not in table:
                        table[(src_s, p)] = val
        missing = [(a, b) for a in scalars for b in scalars if (a, b) not in table]
        if missing:
            raise ExtractError(f"find rank match: no arm for {missing[:3]}")
        out.append("/-- the `match (source_scalar, dest_scalar)` of `ImplicitConversion::find`; `none` = `unreachable!()` -/\n"
                   "def primaryRank : Scalar → Scalar → Option NumRank\n" +
                   "".join(f"  | .{lower(a)}, .{lower(b)} => {table[(a, b)]}\n" for a in scalars for b in scalars) + "\n")

        # ---------------------------------------------------------------- get_rank: DimensionCast -> VectorRank
        gbody = impl_fn_body(casting, r'ImplicitConversion', "get_rank")
        m = re.search(r'let\s+vec\s*=\s*', gbody)
        if not m:
            raise ExtractError("get_rank: `let vec = match *dim_cast` not found")
        scrut, arms_text, _ = first_match(gbody, None, m.end() - 1)
        if normws(scrut) != "*dim_cast":
            raise ExtractError(f"get_rank: vec scrutinee {scrut!r}")

        def dim_pat(p, binders):
            p = p.strip()
            if p == "Scalar":
                return ".scalar"
            mm = re.fullmatch(r'Vector\((\d+|_|ref [a-z]+)\)', p)
            if mm:
                a = mm.group(1)
                if a.startswith("ref "):
                    binders.append(a[4:])
                    return f".vector {a[4:]}"
                return f".vector {a}"
            mm = re.fullmatch(r'Matrix\((\d+|_), (\d+|_)\)', p)
            if mm:
                return f".matrix {mm.group(1)} {mm.group(2)}"
            if re.fullmatch(r'[a-z]+', p):
                return "_"
            raise ExtractError(f"get_rank: dimension pattern {p!r} unsupported")

        clauses = []
        for pats, guard, result in match_arms(arms_text):
            rm = re.fullmatch(r'\{?\s*VectorRank::([A-Za-z]+)\s*\}?', result)
            if rm and rm.group(1) in vranks:
                val = f"some .{lower(rm.group(1))}"
            elif result.startswith("panic!"):
                val = "none"
            else:
                raise ExtractError(f"get_rank: result {result!r}")
            lpats = []
            binders = []
            for p in pats:
                if p == "None":
                    lpats.append("none")
                    continue
                mm = re.fullmatch(r'Some\(DimensionCast\((.*)\)\)', p)
                if not mm:
                    raise ExtractError(f"get_rank: pattern {p!r}")
                parts = split_top(mm.group(1), ',')
                if len(parts) != 2:
                    raise ExtractError(f"get_rank: pattern {p!r}")
                lpats.append(f"some ({dim_pat(parts[0], binders)}, {dim_pat(parts[1], binders)})")
            if guard is None:
                g = "true"
            else:
                gm = re.fullmatch(r'([a-z]+) (>|<|>=|<=|==) ([a-z]+)', guard)
                if not gm or len(pats) != 1 or gm.group(1) not in binders or gm.group(3) not in binders:
                    raise ExtractError(f"get_rank: guard {guard!r} unsupported")
                g = f"decide ({gm.group(1)} {gm.group(2)} {gm.group(3)})"
            clauses.append((lpats, g, val))
        out.append("/-- the `let vec = match *dim_cast` of `ImplicitConversion::get_rank`, arm by arm in source order;\n"
                   "    `none` = the `panic!(\"invalid vector cast ..\")` arm -/\n"
                   "def vecRankOf (c : Option (Dim × Dim)) : Option VecRank :=\n")
        for lpats, g, val in clauses:
            out.append(f"  if (match c with {' '.join('| ' + p for p in lpats)} => {g} | _ => false) then {val} else\n")
        out.append("  none -- no arm matched: a Rust match is exhaustive, so this is unreachable when the last arm is a catch-all\n")
        out.append(T.footer("RankTable"))
        return "".join(out)

import RsslVerif.Gen.PipelineProps
/-!
# The duplicate-property check and the state loop of `parse_pipeline` (C08)

`typer/src/typer/pipelines.rs`: `parse_pipeline` first rejects a property list in which a name occurs twice
(`PipelinePropertyDuplicate`, reported at the later occurrence), then hands the stage properties to `add_stage`,
and walks the remaining ones in source order.  Four arms of that walk `assert!` that their flag / slot has not
been written before (`!cull_mode_set`, `!winding_order_set`, `gpo.depth_target_format.is_none()`,
`gpo.render_target_formats[index].is_none()`): the asserts are unreachable only because the duplicate check
ran first.  The model keeps exactly that much: a property is its name and its source location (values are
abstracted: the model stops with `other` where the code returns a diagnostic that depends on them), the
comparison of the duplicate check is a parameter (`CmpSrc`, re-extracted from the source on every run:
`Gen.PipelineProps.pipelineDupCompare`), the tables of the arms come from `Gen.PipelineProps.stateArms`, and the
assert is an explicit result.  Core Lean only (linked into `rsslmodel_c08`).
-/
namespace RsslVerif.Model.PipelineProps
open RsslVerif.Gen.PipelineProps

/-- a property of the block: its name and the source location of the name -/
abbrev PProp := String × Nat

/-- `before_prop.property <cmp> new_property.property` of the duplicate check: `none` = a comparison the
    generator did not recognise -/
def CmpSrc.eq? : CmpSrc → PProp → PProp → Option Bool
  | .text, a, b => some (a.1 == b.1)
  | .located, a, b => some (a.1 == b.1 && a.2 == b.2)
  | .other, _, _ => none

/-- text comparison of two properties -/
def textEq (a b : PProp) : Bool := a.1 == b.1
/-- `Located<String>` comparison: text and location -/
def locatedEq (a b : PProp) : Bool := a.1 == b.1 && a.2 == b.2

/-- the pairwise loop `for i in 1..len { for before in &ps[..i] { if eq(new, before) { return Err(new.location) } } }`:
    the location of the first property that equals an earlier one (`before` = the properties already passed) -/
def firstDup (eq : PProp → PProp → Bool) : List PProp → List PProp → Option Nat
  | [], _ => none
  | p :: rest, before => if before.any (fun b => eq p b) then some p.2 else firstDup eq rest (before ++ [p])

/-- outcome of the part of `parse_pipeline` that is modelled -/
inductive Out where
  /-- `PipelinePropertyDuplicate(location)` -/
  | dup (loc : Nat)
  /-- one of the four `assert!`s fired, on the property with this name -/
  | panic (name : String)
  /-- some other diagnostic of the state loop (`PipelinePropertyRequiresGraphicsPipeline`, `PipelinePropertyUnknown`) at this location -/
  | other (loc : Nat)
  /-- every property was walked -/
  | done
  deriving DecidableEq, Repr

/-- the arm of the state loop that matches this name -/
def armOf (arms : List (List String × Bool × Bool)) (name : String) : Option (Bool × Bool) :=
  match arms with
  | [] => none
  | (names, gated, asserts) :: rest => if names.contains name then some (gated, asserts) else armOf rest name

/-- the walk over the remaining properties.  `set` = the names whose flag / slot has been written
    (`cull_mode_set`, `winding_order_set`, `depth_target_format.is_some()`, `render_target_formats[digit of the name].is_some()`:
    each is written by the arm of that name only — `Gen.PipelineProps.pipelineShape`). -/
def stateLoop (arms : List (List String × Bool × Bool)) (isCompute : Bool) : List PProp → List String → Out
  | [], _ => .done
  | p :: rest, set =>
    match armOf arms p.1 with
    | none => .other p.2                                   -- `_ => Err(PipelinePropertyUnknown)`
    | some (gated, asserts) =>
      if gated && isCompute then .other p.2                -- `if is_compute { return Err(..RequiresGraphicsPipeline) }`
      else if asserts then
        if set.contains p.1 then .panic p.1                -- `assert!(!.._set)` / `assert!(..is_none())`
        else stateLoop arms isCompute rest (p.1 :: set)
      else stateLoop arms isCompute rest set

/-- the properties the stage loop leaves for the state loop (`_ => remaining_properties.push(property)`) -/
def remaining (stage : List String) (ps : List PProp) : List PProp := ps.filter (fun p => !stage.contains p.1)

/-- duplicate check over the whole block, then the walk over the properties that are not stage assignments (`stage` = the
    names the first loop hands to `add_stage`; what `add_stage` and the stage validation do in between is not modelled:
    the correspondence stream sends blocks whose stage assignments are valid) -/
def runPipe (eq : PProp → PProp → Bool) (arms : List (List String × Bool × Bool)) (stage : List String) (isCompute : Bool) (ps : List PProp) : Out :=
  match firstDup eq ps [] with
  | some loc => .dup loc
  | none => stateLoop arms isCompute (remaining stage ps) []

/-- with the comparison the current source uses -/
def runAs (c : CmpSrc) (arms : List (List String × Bool × Bool)) (stage : List String) (isCompute : Bool) (ps : List PProp) : Option Out :=
  match c with
  | .text => some (runPipe textEq arms stage isCompute ps)
  | .located => some (runPipe locatedEq arms stage isCompute ps)
  | .other => none

/-- a static-sampler block: the same duplicate check, then a walk without asserts (a later value overwrites) that stops at
    the first name `parse_static_sampler` does not know -/
def runSampler (c : CmpSrc) (known : List String) (ps : List PProp) : Option Out :=
  let walk := match ps.find? (fun p => !known.contains p.1) with
    | some p => Out.other p.2
    | none => Out.done
  match c with
  | .text => some (match firstDup textEq ps [] with | some loc => .dup loc | none => walk)
  | .located => some (match firstDup locatedEq ps [] with | some loc => .dup loc | none => walk)
  | .other => none

def Out.render : Out → String
  | .dup l => s!"dup:{l}"
  | .panic n => s!"panic:{n}"
  | .other l => s!"other:{l}"
  | .done => "done"

end RsslVerif.Model.PipelineProps
